// Package racelog lets a -race harness observe the Go race detector's reports per
// enumerated schedule: the process re-executes itself with GORACE pointing at a log file
// (halt_on_error=0, exitcode=0), and New() returns the reports appended since the last
// call, reduced to a stable signature (the first elrond-go frame of each of the two
// conflicting accesses).
package racelog

import (
	"fmt"
	"os"
	"path/filepath"
	"regexp"
	"sort"
	"strings"
	"syscall"
)

var logFile string
var offset int64

// Enabled is set by the race build tag file.
var Enabled = false

// Init must be called first in main of a -race harness.
func Init() {
	if !Enabled {
		fmt.Fprintln(os.Stderr, "HARNESS-ERROR: this harness must be built with -race")
		os.Exit(2)
	}
	if os.Getenv("VERIF_RACELOG") == "" {
		dir := os.Getenv("VERIF_OUT")
		if dir == "" {
			dir = "/verif/.cache"
		}
		dir = filepath.Join(dir, "race")
		os.MkdirAll(dir, 0o755)
		base := filepath.Join(dir, fmt.Sprintf("log-%d", os.Getpid()))
		os.Setenv("VERIF_RACELOG", base)
		os.Setenv("GORACE", "halt_on_error=0 exitcode=0 log_path="+base)
		exe, err := os.Executable()
		if err == nil {
			err = syscall.Exec(exe, os.Args, os.Environ())
		}
		fmt.Fprintln(os.Stderr, "HARNESS-ERROR: re-exec failed:", err)
		os.Exit(2)
	}
	logFile = fmt.Sprintf("%s.%d", os.Getenv("VERIF_RACELOG"), os.Getpid())
}

// Cleanup removes the log file.
func Cleanup() {
	if logFile != "" {
		os.Remove(logFile)
	}
}

// Report is one data-race report.
type Report struct {
	Signature string
	Text      string
}

var fnRe = regexp.MustCompile(`^  (github\.com/ElrondNetwork/elrond-go/[^\s]+)\(`)

// New returns the reports written since the previous call.
func New() []Report {
	st, err := os.Stat(logFile)
	if err != nil || st.Size() <= offset {
		return nil
	}
	f, err := os.Open(logFile)
	if err != nil {
		return nil
	}
	defer f.Close()
	buf := make([]byte, st.Size()-offset)
	f.ReadAt(buf, offset)
	offset = st.Size()
	var out []Report
	for _, blk := range strings.Split(string(buf), "==================") {
		if !strings.Contains(blk, "WARNING: DATA RACE") {
			continue
		}
		// sections are separated by blank lines; the first two are the conflicting accesses
		secs := strings.Split(strings.TrimSpace(blk), "\n\n")
		var fns []string
		for i, s := range secs {
			if i >= 2 {
				break
			}
			fn := "?"
			for _, l := range strings.Split(s, "\n") {
				if m := fnRe.FindStringSubmatch(l); m != nil {
					fn = strings.TrimPrefix(m[1], "github.com/ElrondNetwork/elrond-go/")
					break
				}
			}
			fns = append(fns, fn)
		}
		sort.Strings(fns)
		txt := strings.TrimSpace(blk)
		if len(txt) > 1500 {
			txt = txt[:1500] + "..."
		}
		out = append(out, Report{Signature: "data-race:" + strings.Join(fns, "|"), Text: txt})
	}
	return out
}
