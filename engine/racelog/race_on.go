//go:build race

package racelog

func init() { Enabled = true }
