// Package mc is the small model-checking engine shared by every harness:
// run context (flags, evidence, violations, known findings), an explicit-state
// breadth-first search over real implementation objects (bfs.go), a stateless
// deviation-bounded choice-tree explorer (explore.go) and parallel enumeration helpers.
package mc

import (
	"crypto/sha256"
	"encoding/hex"
	"encoding/json"
	"flag"
	"fmt"
	"os"
	"path/filepath"
	"runtime"
	"sort"
	"strconv"
	"strings"
	"sync"
	"time"
)

// Root is the /verif directory (overridable for tests).
var Root = "/verif"

// outRoot is where evidence/ and replays/ are written: Root, or a scratch dir when the
// check script runs against a development worktree (VERIF_OUT).
func outRoot() string {
	if v := os.Getenv("VERIF_OUT"); v != "" {
		return v
	}
	return Root
}

// Ctx is the per-run context of one check (one property, one tier).
type Ctx struct {
	Prop  string
	Level string // exploration | fault_enumeration | model_checking
	Tier  string
	Seed  int64

	Rule        string
	Assumptions []string
	Exhaustive  bool
	Bound       string // human readable bound completed
	Deadline    time.Time
	// StopOnViolation makes Explore/BFS stop soon after the first unlisted violation.
	StopOnViolation bool
	// TolerateDivergence turns a replay divergence inside Explore into a reported cap
	// instead of a harness error.
	TolerateDivergence bool

	ReplayPath string
	ReplayData json.RawMessage

	start time.Time

	mu          sync.Mutex
	evals       int64
	states      int64
	transitions int64
	traces      int64
	nontrivial  map[[16]byte]struct{}
	outcomes    map[[16]byte]struct{}
	samples     []interface{}
	sampleCap   int
	counters    map[string]int64
	caps        []string
	extra       map[string]interface{}
	viol        map[string]*Violation
	violOrder   []string
	violTotal   int64
	known       []KnownFinding
	knownSeen   map[string]int64
}

// Violation is one distinct (by signature) property violation with its first witness.
type Violation struct {
	Property  string      `json:"property"`
	Signature string      `json:"signature"`
	Detail    interface{} `json:"detail"`
	Replay    interface{} `json:"replay,omitempty"`
	Tier      string      `json:"tier"`
	Count     int64       `json:"count"`
	rank      int
}

// KnownFinding is an entry of /verif/known_findings.json.
type KnownFinding struct {
	Property  string `json:"property"`
	Signature string `json:"signature"`
	What      string `json:"what"`
}

type knownFile struct {
	Findings []KnownFinding `json:"findings"`
	Fixed    []string       `json:"fixed"`
}

// Main parses the common flags, runs the harness body and finishes the run.
func Main(prop, level string, body func(c *Ctx)) {
	tier := flag.String("tier", envOr("VERIF_TIER", "quick"), "quick|thorough")
	replay := flag.String("replay", "", "replay artefact to re-run")
	deadline := flag.Duration("deadline", 0, "internal exploration deadline (0 = tier default)")
	propFlag := flag.String("property", prop, "property id evaluated by this run")
	flag.Parse()
	c := New(*propFlag, level, *tier)
	if *deadline > 0 {
		c.Deadline = c.start.Add(*deadline)
	}
	if *replay != "" {
		c.ReplayPath = *replay
		b, err := os.ReadFile(*replay)
		if err != nil {
			fmt.Fprintln(os.Stderr, "cannot read replay:", err)
			os.Exit(2)
		}
		var v Violation
		if err := json.Unmarshal(b, &v); err != nil {
			fmt.Fprintln(os.Stderr, "bad replay file:", err)
			os.Exit(2)
		}
		rb, _ := json.Marshal(v.Replay)
		c.ReplayData = rb
		if v.Tier != "" {
			c.Tier = v.Tier
		}
	}
	body(c)
	os.Exit(c.Finish())
}

func envOr(k, d string) string {
	if v := os.Getenv(k); v != "" {
		return v
	}
	return d
}

// New creates a context (used by Main; exported for multi-property binaries).
func New(prop, level, tier string) *Ctx {
	if tier != "quick" && tier != "thorough" {
		fmt.Fprintln(os.Stderr, "bad tier", tier)
		os.Exit(2)
	}
	seed, _ := strconv.ParseInt(os.Getenv("VERIF_SEED"), 10, 64)
	c := &Ctx{Prop: prop, Level: level, Tier: tier, Seed: seed, start: time.Now(),
		nontrivial: map[[16]byte]struct{}{}, outcomes: map[[16]byte]struct{}{},
		counters: map[string]int64{}, extra: map[string]interface{}{},
		viol: map[string]*Violation{}, knownSeen: map[string]int64{}, sampleCap: 6,
		Exhaustive: true}
	d := 8 * time.Minute
	if tier == "thorough" {
		d = 45 * time.Minute
	}
	c.Deadline = c.start.Add(d)
	b, err := os.ReadFile(filepath.Join(Root, "known_findings.json"))
	if err == nil {
		var kf knownFile
		if err := json.Unmarshal(b, &kf); err != nil {
			fmt.Fprintln(os.Stderr, "bad known_findings.json:", err)
			os.Exit(2)
		}
		for _, k := range kf.Findings {
			if k.Property == prop {
				c.known = append(c.known, k)
			}
		}
	}
	return c
}

// Quick reports whether this is the quick tier.
func (c *Ctx) Quick() bool { return c.Tier == "quick" }

// Pick returns q in the quick tier and t in the thorough tier.
func (c *Ctx) Pick(q, t int) int {
	if c.Quick() {
		return q
	}
	return t
}

// Expired reports whether the internal exploration deadline passed. A harness that stops
// because of it must call Cap.
func (c *Ctx) Expired() bool {
	if c.StopOnViolation && c.NumViolations() > 0 {
		return true
	}
	return time.Now().After(c.Deadline)
}

// Cap records that a cap was hit: the run is no longer exhaustive.
func (c *Ctx) Cap(what string) {
	c.mu.Lock()
	defer c.mu.Unlock()
	c.Exhaustive = false
	for _, w := range c.caps {
		if w == what {
			return
		}
	}
	c.caps = append(c.caps, what)
}

func h16(s string) [16]byte {
	h := sha256.Sum256([]byte(s))
	var r [16]byte
	copy(r[:], h[:16])
	return r
}

// Eval counts n executed cases.
func (c *Ctx) Eval(n int64) { c.mu.Lock(); c.evals += n; c.mu.Unlock() }

// AddStates / AddTransitions / AddTraces accumulate model-checking counters.
func (c *Ctx) AddStates(n int64)      { c.mu.Lock(); c.states += n; c.mu.Unlock() }
func (c *Ctx) AddTransitions(n int64) { c.mu.Lock(); c.transitions += n; c.mu.Unlock() }
func (c *Ctx) AddTraces(n int64)      { c.mu.Lock(); c.traces += n; c.mu.Unlock() }

// Nontrivial records one non-trivial case by its distinguishing key.
func (c *Ctx) Nontrivial(key string) {
	k := h16(key)
	c.mu.Lock()
	c.nontrivial[k] = struct{}{}
	c.mu.Unlock()
}

// Outcome records one observed outcome (for the distinct-outcomes vacuity figure).
func (c *Ctx) Outcome(key string) {
	k := h16(key)
	c.mu.Lock()
	c.outcomes[k] = struct{}{}
	c.mu.Unlock()
}

// Count adds to a named counter reported in the evidence.
func (c *Ctx) Count(name string, n int64) { c.mu.Lock(); c.counters[name] += n; c.mu.Unlock() }

// Counter reads a named counter.
func (c *Ctx) Counter(name string) int64 { c.mu.Lock(); defer c.mu.Unlock(); return c.counters[name] }

// Set stores an extra evidence key.
func (c *Ctx) Set(name string, v interface{}) { c.mu.Lock(); c.extra[name] = v; c.mu.Unlock() }

// Sample stores one explored case (bounded number kept).
func (c *Ctx) Sample(v interface{}) {
	c.mu.Lock()
	if len(c.samples) < c.sampleCap {
		c.samples = append(c.samples, v)
	}
	c.mu.Unlock()
}

// WantSample reports whether more samples are wanted (cheap pre-check).
func (c *Ctx) WantSample() bool {
	c.mu.Lock()
	defer c.mu.Unlock()
	return len(c.samples) < c.sampleCap
}

// Violation records a violation. sig must be the narrowest signature the harness can
// compute; violations are deduplicated by signature and matched against known findings.
// replay is harness-specific data sufficient to re-run the single case.
func (c *Ctx) Violation(sig string, detail interface{}, replay interface{}) {
	c.ViolationR(sig, 0, detail, replay)
}

// ViolationR is Violation with a rank: per signature the witness with the lowest rank
// (e.g. fewest preemptions, shortest input) is the one kept and reported.
func (c *Ctx) ViolationR(sig string, rank int, detail interface{}, replay interface{}) {
	c.mu.Lock()
	defer c.mu.Unlock()
	c.violTotal++
	for _, k := range c.known {
		if k.Signature == sig {
			c.knownSeen[sig]++
			return
		}
	}
	if v, ok := c.viol[sig]; ok {
		v.Count++
		if rank < v.rank {
			v.rank, v.Detail, v.Replay = rank, detail, replay
		}
		return
	}
	if len(c.viol) >= 40 {
		return
	}
	c.viol[sig] = &Violation{Property: c.Prop, Signature: sig, Detail: detail, Replay: replay, Tier: c.Tier, Count: 1, rank: rank}
	c.violOrder = append(c.violOrder, sig)
}

// NumViolations returns the number of distinct unlisted violation signatures so far.
func (c *Ctx) NumViolations() int { c.mu.Lock(); defer c.mu.Unlock(); return len(c.viol) }

// Fatal aborts the run as a harness error (exit 2, no VIOLATION line).
func (c *Ctx) Fatal(format string, a ...interface{}) {
	fmt.Fprintf(os.Stderr, "HARNESS-ERROR property=%s: %s\n", c.Prop, fmt.Sprintf(format, a...))
	os.Exit(2)
}

// Finish writes the evidence file and replay artefacts, prints the verdict lines and
// returns the exit code.
func (c *Ctx) Finish() int {
	c.mu.Lock()
	defer c.mu.Unlock()
	wall := time.Since(c.start).Seconds()
	cov := map[string]interface{}{}
	for k, v := range c.extra {
		cov[k] = v
	}
	cov["evaluations"] = c.evals
	cov["distinct_nontrivial"] = len(c.nontrivial)
	cov["distinct_outcomes"] = len(c.outcomes)
	cov["rule"] = c.Rule
	if len(c.samples) == 0 {
		c.samples = append(c.samples, "none recorded")
	}
	cov["samples"] = c.samples
	cov["exhaustive"] = c.Exhaustive
	cov["bound_completed"] = c.Bound
	cov["caps_hit"] = append([]string{}, c.caps...)
	if c.states > 0 || c.Level == "model_checking" {
		cov["states"] = c.states
		cov["transitions"] = c.transitions
		cov["traces_validated_against_impl"] = c.traces
	}
	if len(c.counters) > 0 {
		cov["counters"] = c.counters
	}
	ks := []string{}
	for s := range c.knownSeen {
		ks = append(ks, s)
	}
	sort.Strings(ks)
	cov["known_findings_seen"] = ks
	ev := map[string]interface{}{
		"property_id": c.Prop, "tier": c.Tier, "seed": c.Seed, "level": c.Level,
		"coverage": cov, "assumptions": append([]string{}, c.Assumptions...),
		"wall_s": wall, "violations": len(c.viol),
	}
	for _, k := range c.known {
		if n := c.knownSeen[k.Signature]; n > 0 {
			fmt.Printf("KNOWN-FINDING: property=%s %s -- %s (seen %d times)\n", c.Prop, k.Signature, k.What, n)
		}
	}
	code := 0
	if c.ReplayPath == "" {
		os.MkdirAll(filepath.Join(outRoot(), "evidence"), 0o755)
		b, _ := json.MarshalIndent(ev, "", " ")
		if err := os.WriteFile(filepath.Join(outRoot(), "evidence", c.Prop+".json"), append(b, '\n'), 0o644); err != nil {
			fmt.Fprintln(os.Stderr, "cannot write evidence:", err)
			return 2
		}
	}
	for _, sig := range c.violOrder {
		v := c.viol[sig]
		h := sha256.Sum256([]byte(sig))
		p := filepath.Join(outRoot(), "replays", fmt.Sprintf("%s-%s.json", c.Prop, hex.EncodeToString(h[:5])))
		if c.ReplayPath != "" {
			p = c.ReplayPath
		} else {
			os.MkdirAll(filepath.Dir(p), 0o755)
			b, _ := json.MarshalIndent(v, "", " ")
			os.WriteFile(p, append(b, '\n'), 0o644)
		}
		d, _ := json.Marshal(v.Detail)
		ds := string(d)
		if len(ds) > 600 {
			ds = ds[:600] + "..."
		}
		fmt.Printf("VIOLATION property=%s replay=%s signature=%q count=%d detail=%s\n", c.Prop, p, sig, v.Count, ds)
		code = 1
	}
	fmt.Printf("SUMMARY property=%s tier=%s level=%s evaluations=%d states=%d transitions=%d nontrivial=%d outcomes=%d exhaustive=%v caps=%v bound=%q violations=%d known=%d wall=%.1fs\n",
		c.Prop, c.Tier, c.Level, c.evals, c.states, c.transitions, len(c.nontrivial), len(c.outcomes), c.Exhaustive, c.caps, c.Bound, len(c.viol), len(c.knownSeen), wall)
	if code == 0 && len(c.nontrivial) < 2 && c.ReplayPath == "" {
		fmt.Fprintf(os.Stderr, "HARNESS-ERROR property=%s: vacuous run (distinct_nontrivial=%d)\n", c.Prop, len(c.nontrivial))
		return 2
	}
	return code
}

// Workers is the default parallelism.
func Workers() int {
	n := runtime.NumCPU()
	if v, err := strconv.Atoi(os.Getenv("VERIF_WORKERS")); err == nil && v > 0 {
		n = v
	}
	return n
}

// Par runs fn(i) for i in [0,n) on Workers() goroutines. fn must be reentrant.
func Par(n int, fn func(i int)) {
	w := Workers()
	if w > n {
		w = n
	}
	if w <= 1 {
		for i := 0; i < n; i++ {
			fn(i)
		}
		return
	}
	var wg sync.WaitGroup
	var mu sync.Mutex
	next := 0
	for k := 0; k < w; k++ {
		wg.Add(1)
		go func() {
			defer wg.Done()
			for {
				mu.Lock()
				i := next
				next++
				mu.Unlock()
				if i >= n {
					return
				}
				fn(i)
			}
		}()
	}
	wg.Wait()
}

// Try runs fn and converts a panic into an error string (with a short stack).
func Try(fn func()) (perr string) {
	defer func() {
		if r := recover(); r != nil {
			buf := make([]byte, 4096)
			n := runtime.Stack(buf, false)
			st := string(buf[:n])
			// keep the frames below the panic only, shortened
			lines := strings.Split(st, "\n")
			keep := []string{}
			for _, l := range lines {
				if strings.Contains(l, "/repo/") {
					keep = append(keep, strings.TrimSpace(l))
					if len(keep) >= 4 {
						break
					}
				}
			}
			perr = fmt.Sprintf("panic: %v @ %s", r, strings.Join(keep, " <- "))
		}
	}()
	fn()
	return ""
}

// Hex is a short helper for printing byte strings in samples.
func Hex(b []byte) string { return hex.EncodeToString(b) }
