package mc

import (
	"fmt"
	"sync"
)

// Chooser resolves every nondeterministic decision of one execution. During a prefix
// replay the recorded choice is returned; afterwards the default (0) is taken.
type Chooser struct {
	prefix []int
	pos    int
	trace  []point
	// Diverged is set when a replayed prefix does not fit the execution (hard error).
	Diverged string
}

type point struct {
	n     int
	costs []int // nil = all alternatives free
	label string
	taken int
}

// Choose returns a value in [0,n); all alternatives are free of deviation cost.
//
//go:norace
func (ch *Chooser) Choose(n int, label string) int { return ch.ChooseCost(n, nil, label) }

// ChooseDev returns a value in [0,n); every alternative other than 0 costs one deviation.
//
//go:norace
func (ch *Chooser) ChooseDev(n int, label string) int {
	costs := make([]int, n)
	for i := 1; i < n; i++ {
		costs[i] = 1
	}
	return ch.ChooseCost(n, costs, label)
}

// ChooseCost returns a value in [0,n); alternative i costs costs[i] deviations.
// (norace: in race-mode scheduling it is called from different threads by design.)
//
//go:norace
func (ch *Chooser) ChooseCost(n int, costs []int, label string) int {
	if n <= 0 {
		panic("mc: Choose with n<=0 at " + label)
	}
	taken := 0
	if ch.pos < len(ch.prefix) {
		taken = ch.prefix[ch.pos]
		if taken >= n && ch.Diverged == "" {
			ch.Diverged = fmt.Sprintf("choice %d at point %d (%s) out of range %d", taken, ch.pos, label, n)
			taken = 0
		}
	}
	ch.pos++
	ch.trace = append(ch.trace, point{n: n, costs: costs, label: label, taken: taken})
	return taken
}

// Choices returns the choice list of this execution (for replay artefacts).
func (ch *Chooser) Choices() []int {
	r := make([]int, len(ch.trace))
	for i, p := range ch.trace {
		r[i] = p.taken
	}
	return r
}

// Labels returns "label=choice" strings of this execution.
func (ch *Chooser) Labels() []string {
	r := make([]string, len(ch.trace))
	for i, p := range ch.trace {
		r[i] = fmt.Sprintf("%s=%d/%d", p.label, p.taken, p.n)
	}
	return r
}

// Deviations returns the deviation cost spent by this execution.
func (ch *Chooser) Deviations() int {
	d := 0
	for _, p := range ch.trace {
		if p.costs != nil {
			d += p.costs[p.taken]
		}
	}
	return d
}

// ExploreStats are the measured figures of one Explore call.
type ExploreStats struct {
	Executions int64
	MaxPoints  int
	Capped     bool
	Diverged   bool // a replayed prefix did not fit (only with Ctx.TolerateDivergence)
}

// Explore runs body on every choice sequence whose total deviation cost is <= bound
// (bound < 0 = unbounded). body must be deterministic given the chooser; with workers > 1
// it must also be reentrant. The deadline of c stops the search (reported as a cap).
func Explore(c *Ctx, bound int, workers int, body func(ch *Chooser)) ExploreStats {
	var st ExploreStats
	var mu sync.Mutex
	stack := [][]int{{}}
	active := 0
	cond := sync.NewCond(&mu)
	work := func() {
		for {
			mu.Lock()
			for len(stack) == 0 && active > 0 {
				cond.Wait()
			}
			if len(stack) == 0 {
				mu.Unlock()
				cond.Broadcast()
				return
			}
			prefix := stack[len(stack)-1]
			stack = stack[:len(stack)-1]
			active++
			mu.Unlock()

			var newItems [][]int
			if c.Expired() {
				mu.Lock()
				st.Capped = true
				mu.Unlock()
			} else {
				ch := &Chooser{prefix: prefix}
				body(ch)
				if ch.Diverged != "" || len(ch.trace) < len(prefix) {
					if !c.TolerateDivergence {
						c.Fatal("nondeterminism escaped the explorer: %s (prefix %v, trace len %d)", ch.Diverged, prefix, len(ch.trace))
					}
					// the harness declared that it cannot control every source of nondeterminism at
					// this depth: stop this exploration and report it as a cap (never a verdict)
					mu.Lock()
					st.Diverged = true
					stack = nil
					active--
					mu.Unlock()
					cond.Broadcast()
					continue
				}
				used := 0
				for i := 0; i < len(prefix); i++ {
					if p := ch.trace[i]; p.costs != nil {
						used += p.costs[p.taken]
					}
				}
				// points after the prefix took choice 0 (cost of 0 must be 0)
				acc := used
				for i := len(prefix); i < len(ch.trace); i++ {
					p := ch.trace[i]
					if p.costs != nil && p.costs[0] != 0 {
						c.Fatal("default choice with non-zero cost at %s", p.label)
					}
					for alt := p.n - 1; alt >= 1; alt-- {
						cost := 0
						if p.costs != nil {
							cost = p.costs[alt]
						}
						if bound >= 0 && acc+cost > bound {
							continue
						}
						np := make([]int, i+1)
						for j := 0; j < i; j++ {
							np[j] = ch.trace[j].taken
						}
						np[i] = alt
						newItems = append(newItems, np)
					}
				}
				mu.Lock()
				st.Executions++
				if len(ch.trace) > st.MaxPoints {
					st.MaxPoints = len(ch.trace)
				}
				mu.Unlock()
			}
			mu.Lock()
			// push in reverse so that the shallowest/simplest alternative is explored first
			for i := len(newItems) - 1; i >= 0; i-- {
				stack = append(stack, newItems[i])
			}
			active--
			mu.Unlock()
			cond.Broadcast()
		}
	}
	if workers <= 1 {
		work()
	} else {
		var wg sync.WaitGroup
		for i := 0; i < workers; i++ {
			wg.Add(1)
			go func() { defer wg.Done(); work() }()
		}
		wg.Wait()
	}
	if st.Capped {
		c.Cap("deadline during choice-tree exploration")
	}
	if st.Diverged {
		c.Cap("choice-tree exploration stopped: a replayed schedule prefix diverged (nondeterminism outside the explorer's control)")
	}
	c.Eval(st.Executions)
	return st
}

// Replay runs body once on a recorded choice list.
func Replay(choices []int, body func(ch *Chooser)) *Chooser {
	ch := &Chooser{prefix: choices}
	body(ch)
	return ch
}
