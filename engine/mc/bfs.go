package mc

import (
	"fmt"
	"sync"
)

// Sys describes a system explored by explicit-state breadth-first search. S bundles the
// real implementation object(s) with the boring reference model. Live objects cannot be
// cloned, so a successor is built by replaying the shortest history on a fresh instance
// and applying one more operation.
type Sys[S any] struct {
	// Init builds a fresh instance (called once per explored transition).
	Init func() S
	// Menu is the fixed operation alphabet (names are used in replays and samples).
	Menu []string
	// Enabled says whether Menu[op] is offered in state s (nil = always).
	Enabled func(s S, op int) bool
	// Do applies Menu[op] to implementation and reference. It returns a non-empty
	// signature+detail when the step itself already shows a violation (e.g. a return
	// value differing from the reference).
	Do func(s S, op int) (sig, detail string)
	// Check evaluates the invariant / reference comparison in state s.
	Check func(s S) (sig, detail string)
	// Key is the canonical state key; states with equal keys must have equal futures.
	Key func(s S) string
	// Nontrivial optionally returns a key marking the state (or last step) non-trivial.
	Nontrivial func(s S) string
	// Outcome optionally returns an observation string for the distinct-outcomes figure.
	Outcome func(s S) string
	// Close optionally releases an instance.
	Close func(s S)
}

// BFSStats are the measured search figures.
type BFSStats struct {
	States, Transitions int64
	Depth               int
	Fixpoint            bool
}

type bfsRes struct {
	op     int
	key    [16]byte
	sig    string
	detail string
	nt     string
	out    string
	ok     bool
}

// BFS explores all operation sequences up to maxDepth with state matching and checks
// every reached state. Violations are reported through c with the shortest history.
func BFS[S any](c *Ctx, sys Sys[S], maxDepth int) BFSStats {
	var st BFSStats
	seen := map[[16]byte]struct{}{}
	replay := func(hist []uint8) (s S, sig, detail string) {
		s = sys.Init()
		for _, op := range hist {
			if sg, d := sys.Do(s, int(op)); sg != "" {
				return s, sg, d
			}
		}
		return s, "", ""
	}
	names := func(hist []uint8) []string {
		r := make([]string, len(hist))
		for i, op := range hist {
			r[i] = sys.Menu[op]
		}
		return r
	}
	// initial state
	{
		s := sys.Init()
		if sg, d := sys.Check(s); sg != "" {
			c.Violation(sg, d, []string{})
		}
		seen[h16(sys.Key(s))] = struct{}{}
		st.States = 1
		if sys.Close != nil {
			sys.Close(s)
		}
	}
	frontier := [][]uint8{{}}
	for depth := 0; depth < maxDepth && len(frontier) > 0; depth++ {
		if c.Expired() {
			c.Cap(fmt.Sprintf("deadline at depth %d (frontier %d)", depth, len(frontier)))
			break
		}
		results := make([][]bfsRes, len(frontier))
		var expired bool
		var emu sync.Mutex
		Par(len(frontier), func(i int) {
			if c.Expired() {
				emu.Lock()
				expired = true
				emu.Unlock()
				return
			}
			hist := frontier[i]
			// which ops are enabled here
			var enabled []int
			perr := Try(func() {
				s, _, _ := replay(hist)
				for op := range sys.Menu {
					if sys.Enabled == nil || sys.Enabled(s, op) {
						enabled = append(enabled, op)
					}
				}
				if sys.Close != nil {
					sys.Close(s)
				}
			})
			if perr != "" {
				results[i] = append(results[i], bfsRes{op: -1, sig: "panic-in-enabled", detail: perr})
				return
			}
			for _, op := range enabled {
				r := bfsRes{op: op, ok: true}
				perr := Try(func() {
					s, sg, d := replay(hist)
					if sg != "" {
						// a prefix that was fine before now fails: nondeterminism
						r.sig, r.detail = "nondeterministic-replay:"+sg, d
						return
					}
					sg, d = sys.Do(s, op)
					if sg == "" {
						sg, d = sys.Check(s)
					}
					r.sig, r.detail = sg, d
					r.key = h16(sys.Key(s))
					if sys.Nontrivial != nil {
						r.nt = sys.Nontrivial(s)
					}
					if sys.Outcome != nil {
						r.out = sys.Outcome(s)
					}
					if sys.Close != nil {
						sys.Close(s)
					}
				})
				if perr != "" {
					r.sig, r.detail = "panic", perr
				}
				results[i] = append(results[i], r)
			}
		})
		var next [][]uint8
		for i, rs := range results {
			for _, r := range rs {
				if r.op < 0 {
					c.Violation(r.sig, r.detail, names(frontier[i]))
					continue
				}
				st.Transitions++
				h := append(append(make([]uint8, 0, len(frontier[i])+1), frontier[i]...), uint8(r.op))
				if r.sig != "" {
					c.Violation(r.sig, map[string]interface{}{"history": names(h), "what": r.detail}, names(h))
					continue // do not expand violating states
				}
				if r.nt != "" {
					c.Nontrivial(r.nt)
				}
				if r.out != "" {
					c.Outcome(r.out)
				}
				if _, dup := seen[r.key]; dup {
					continue
				}
				seen[r.key] = struct{}{}
				st.States++
				if c.WantSample() && len(h) >= 2 {
					c.Sample(names(h))
				}
				next = append(next, h)
			}
		}
		st.Depth = depth + 1
		if expired {
			c.Cap(fmt.Sprintf("deadline inside depth %d", depth+1))
			break
		}
		frontier = next
	}
	if len(frontier) == 0 {
		st.Fixpoint = true
	}
	c.AddStates(st.States)
	c.AddTransitions(st.Transitions)
	c.AddTraces(st.Transitions)
	c.Eval(st.Transitions)
	return st
}
