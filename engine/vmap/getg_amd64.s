#include "textflag.h"

// func getg() uintptr — the current goroutine's g pointer (identity while it lives).
TEXT ·getg(SB),NOSPLIT,$0-8
	MOVQ (TLS), AX
	MOVQ AX, ret+0(FP)
	RET
