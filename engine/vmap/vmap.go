// Package vmap makes Go's map iteration order an explicit, explorable choice. The
// maprange rewriter (engine/cmd/maprange) turns every `for k, v := range X` of a package
// under test into a loop driven by an Iter: for maps the keys are visited in an order chosen
// through the mc.Chooser attached to the calling goroutine (default: sorted; every other
// permutation costs one deviation); a key deleted before its turn is skipped and keys
// inserted during the loop are not visited — both legal Go behaviours. Non-map operands
// iterate unchanged.
package vmap

import (
	"fmt"
	"reflect"
	"sort"
	"sync"

	"verif/engine/mc"
)

// MaxPermute is the largest map size whose order is explored (larger maps iterate sorted).
var MaxPermute = 4

var (
	mu       sync.RWMutex
	choosers = map[int64]*mc.Chooser{}
	// Sites counts, per site, how many times a map with >=2 keys was iterated.
	Sites = map[string]int64{}
	// Deviated counts non-default orders taken per site.
	Deviated = map[string]int64{}
)

// getg returns the g pointer of the calling goroutine (assembly, getg_amd64.s); it is a
// stable identity for the goroutine's lifetime and costs a few nanoseconds, unlike parsing
// runtime.Stack.
func getg() uintptr

func goid() int64 { return int64(getg()) }

// Attach binds ch to the calling goroutine until Detach.
func Attach(ch *mc.Chooser) { g := goid(); mu.Lock(); choosers[g] = ch; mu.Unlock() }

// Detach removes the calling goroutine's chooser.
func Detach() { g := goid(); mu.Lock(); delete(choosers, g); mu.Unlock() }

// Iter drives one rewritten range loop.
type Iter struct {
	isMap bool
	keys  []interface{}
	pos   int
	cur   interface{}
	done  bool
}

var fact = []int{1, 1, 2, 6, 24, 120, 720}

// Begin starts the iteration of x at the given source site.
func Begin(x interface{}, site string) *Iter {
	rv := reflect.ValueOf(x)
	if !rv.IsValid() || rv.Kind() != reflect.Map {
		return &Iter{}
	}
	ks := rv.MapKeys()
	sortKeys(ks)
	it := &Iter{isMap: true, pos: -1}
	n := len(ks)
	perm := 0
	if n >= 2 {
		mu.RLock()
		ch := choosers[goid()]
		mu.RUnlock()
		if ch != nil {
			mu.Lock()
			Sites[site]++
			mu.Unlock()
			if n <= MaxPermute {
				costs := make([]int, fact[n])
				for i := 1; i < len(costs); i++ {
					costs[i] = 1
				}
				perm = ch.ChooseCost(fact[n], costs, "maporder@"+site)
				if perm != 0 {
					mu.Lock()
					Deviated[site]++
					mu.Unlock()
				}
			}
		}
	}
	// decode permutation index (factorial number system) over the sorted keys
	idx := make([]int, n)
	for i := range idx {
		idx[i] = i
	}
	for i := 0; i < n; i++ {
		f := 1
		if n-1-i < len(fact) {
			f = fact[n-1-i]
		}
		j := 0
		if perm > 0 {
			j = perm / f
			perm = perm % f
		}
		it.keys = append(it.keys, ks[idx[j]].Interface())
		idx = append(idx[:j], idx[j+1:]...)
	}
	return it
}

// Next advances to the next position; for non-maps it is true exactly once.
func (p *Iter) Next() bool {
	if !p.isMap {
		if p.done {
			return false
		}
		p.done = true
		return true
	}
	p.pos++
	if p.pos >= len(p.keys) {
		return false
	}
	p.cur = p.keys[p.pos]
	return true
}

// Skip reports whether the inner (real) iteration should skip key k at this position.
func (p *Iter) Skip(k interface{}) bool {
	if !p.isMap {
		return false
	}
	return k != p.cur
}

// IsMap reports whether the operand is a map.
func (p *Iter) IsMap() bool { return p.isMap }

func sortKeys(ks []reflect.Value) {
	sort.Slice(ks, func(i, j int) bool {
		a, b := ks[i], ks[j]
		switch a.Kind() {
		case reflect.Int, reflect.Int8, reflect.Int16, reflect.Int32, reflect.Int64:
			return a.Int() < b.Int()
		case reflect.Uint, reflect.Uint8, reflect.Uint16, reflect.Uint32, reflect.Uint64, reflect.Uintptr:
			return a.Uint() < b.Uint()
		case reflect.String:
			return a.String() < b.String()
		}
		return fmt.Sprint(a.Interface()) < fmt.Sprint(b.Interface())
	})
}
