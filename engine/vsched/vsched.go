// Package vsched is a cooperative scheduler for real goroutines running real elrond-go
// code. Exactly one registered thread runs at a time; scheduling points are the
// synchronisation operations intercepted by the shim packages (vsync, vatomic), which the
// overlay generator substitutes for "sync" / "sync/atomic" in the packages under test.
// Which thread runs next at every point is a choice of an mc.Chooser, so mc.Explore
// enumerates all schedules up to a preemption bound.
//
// Two hand-off modes:
//   - hb mode: parked threads wait on channels (fast; the hand-off is a happens-before edge);
//   - race mode: parked threads spin on a plain global read in //go:norace functions, so
//     the scheduler adds NO happens-before edge and a -race build judges each enumerated
//     schedule with the Go race detector. All scheduler state is only touched from
//     //go:norace functions for the same reason.
package vsched

import (
	"fmt"
	"os"
	"runtime"
	"sync"
	"time"

	"verif/engine/mc"
)

// Resource is something a pending operation may have to wait for.
type Resource interface {
	// CanAcquire reports whether the pending operation kind can proceed now.
	CanAcquire(kind int) bool
}

// Operation kinds.
const (
	OpStart = iota
	OpLock
	OpRLock
	OpAtomic
	OpYield
)

type thread struct {
	id      int
	body    func()
	wake    chan struct{}
	kind    int
	res     Resource
	label   string
	done    bool
	aborted bool
	daemon  bool
}

// Sched is one controlled execution.
type Sched struct {
	ch       *mc.Chooser
	threads  []*thread
	running  int // index of the running thread, -1 = none
	turn     int // race-mode hand-off variable (plain, read by spinners)
	race     bool
	finished chan struct{}
	wg       sync.WaitGroup

	Steps       int
	Horizon     int
	Preemptions int
	Deadlock    bool
	HorizonHit  bool
	Trace       []string
	KeepTrace   bool
	PanicValue  string
	abort       bool
}

// abortSentinel is panicked inside threads of an aborted execution to unwind them.
type abortSentinel struct{}

var active *Sched

// Active returns the scheduler controlling the current execution (nil = free running).
//
//go:norace
func Active() *Sched { return active }

// Options of one execution.
type Options struct {
	Race      bool // race-mode hand-off (use with a -race build)
	Horizon   int  // max scheduling points (0 = 10000)
	KeepTrace bool
}

// Run executes the bodies as threads 0..n-1 under the schedule chosen through ch and
// returns when all have finished (or the execution was aborted on deadlock / horizon).
//
//go:norace
func Run(ch *mc.Chooser, opt Options, bodies ...func()) *Sched {
	s := &Sched{ch: ch, running: -1, turn: -1, race: opt.Race, finished: make(chan struct{}), Horizon: opt.Horizon, KeepTrace: opt.KeepTrace}
	if s.Horizon == 0 {
		s.Horizon = 10000
	}
	for i, b := range bodies {
		s.threads = append(s.threads, &thread{id: i, body: b, wake: make(chan struct{}, 1), kind: OpStart, label: "start"})
	}
	closedMu.Lock()
	closedChans = map[interface{}]bool{}
	closedMu.Unlock()
	active = s
	s.wg.Add(len(s.threads))
	for _, t := range s.threads {
		go s.threadMain(t)
	}
	// initial decision is taken by the caller's goroutine
	next := s.pick(nil)
	if next == nil {
		close(s.finished)
	} else {
		s.handTo(next)
	}
	stopWatchdog := s.startWatchdog()
	s.waitFinished()
	s.wg.Wait() // a real happens-before edge from every thread's end to the caller
	stopWatchdog()
	active = nil
	return s
}

// startWatchdog guards against a thread that blocks on a primitive the scheduler does not
// control while it holds the run token (the execution would hang forever): if no scheduling
// point is passed for StallTimeout of wall-clock time, all goroutine stacks are dumped and
// the process exits with status 2 (harness error — never a verdict about the property).
//
//go:norace
func (s *Sched) startWatchdog() func() {
	if StallTimeout <= 0 {
		return func() {}
	}
	stop := make(chan struct{})
	go func() {
		last := -1
		for {
			select {
			case <-stop:
				return
			case <-time.After(StallTimeout):
			}
			cur := s.progress()
			if cur == last {
				buf := make([]byte, 1<<20)
				n := runtime.Stack(buf, true)
				fmt.Fprintf(os.Stderr, "HARNESS-ERROR: vsched stalled for %v at scheduling point %d (a thread blocks on an unscheduled primitive while holding the run token)\n%s\n", StallTimeout, cur, buf[:n])
				os.Exit(2)
			}
			last = cur
		}
	}()
	return func() { close(stop) }
}

//go:norace
func (s *Sched) progress() int { return s.Steps }

// StallTimeout is the watchdog period (0 disables it).
var StallTimeout = 120 * time.Second

//go:norace
func (s *Sched) waitFinished() {
	if s.race {
		for s.turn != -2 {
			runtime.Gosched()
		}
		return
	}
	<-s.finished
}

//go:norace
func (s *Sched) signalFinished() {
	if s.race {
		s.turn = -2
		return
	}
	close(s.finished)
}

//go:norace
func (s *Sched) threadMain(t *thread) {
	defer s.wg.Done()
	s.park(t)
	defer func() {
		if r := recover(); r != nil {
			if _, ok := r.(abortSentinel); !ok {
				// a real panic of the code under test: record and abort the execution
				s.abort = true
				s.Trace = append(s.Trace, fmt.Sprintf("T%d PANIC %v", t.id, r))
				s.PanicValue = fmt.Sprint(r)
			}
		}
		t.done = true
		next := s.pick(t)
		if next == nil {
			s.signalFinished()
			return
		}
		s.handTo(next)
	}()
	if s.abort {
		panic(abortSentinel{})
	}
	t.kind = -1
	t.body()
}

// park blocks t until it is handed the run token.
//
//go:norace
func (s *Sched) park(t *thread) {
	if s.race {
		for s.turn != t.id {
			runtime.Gosched()
		}
		return
	}
	<-t.wake
}

//go:norace
func (s *Sched) handTo(t *thread) {
	s.running = t.id
	if s.race {
		s.turn = t.id
		return
	}
	t.wake <- struct{}{}
}

// pick chooses the next thread to run. cur is the thread taking the decision (nil at
// start). It returns nil when no thread can run (all done, deadlock, or abort drain done).
//
//go:norace
func (s *Sched) pick(cur *thread) *thread {
	if s.abort {
		// drain: wake the remaining threads one by one so they unwind
		for _, t := range s.threads {
			if !t.done && t != cur {
				return t
			}
		}
		if cur != nil && !cur.done {
			return cur
		}
		return nil
	}
	var enabled []*thread
	curEnabled := false
	if cur != nil && !cur.done && s.isEnabled(cur) {
		enabled = append(enabled, cur)
		curEnabled = true
	}
	for _, t := range s.threads {
		if t != cur && !t.done && s.isEnabled(t) {
			enabled = append(enabled, t)
		}
	}
	if len(enabled) == 0 {
		anyLeft := false
		for _, t := range s.threads {
			if !t.done {
				anyLeft = true
				if !t.daemon {
					s.Deadlock = true
				}
			}
		}
		if anyLeft {
			// deadlock, or only blocked daemon threads remain: tear the execution down
			s.abort = true
			return s.pick(cur)
		}
		return nil
	}
	// only daemon threads are still runnable and every regular thread has finished:
	// the execution is over once the daemons are idle, let them run until they block
	s.Steps++
	if s.Steps > s.Horizon {
		s.HorizonHit = true
		s.abort = true
		return s.pick(cur)
	}
	idx := 0
	if len(enabled) > 1 {
		var costs []int
		if curEnabled {
			costs = make([]int, len(enabled))
			for i := 1; i < len(enabled); i++ {
				costs[i] = 1
			}
		}
		lbl := "sched"
		if cur != nil {
			lbl = cur.label
		}
		idx = s.ch.ChooseCost(len(enabled), costs, lbl)
		if curEnabled && idx != 0 {
			s.Preemptions++
		}
	}
	if s.KeepTrace {
		s.Trace = append(s.Trace, fmt.Sprintf("T%d:%s", enabled[idx].id, enabled[idx].label))
	}
	return enabled[idx]
}

//go:norace
func (s *Sched) isEnabled(t *thread) bool {
	if t.res == nil {
		return true
	}
	return t.res.CanAcquire(t.kind)
}

// Point is called by the shims before a synchronisation operation of the running thread.
// It returns after the scheduler has granted the operation (the resource is then free).
//
//go:norace
func (s *Sched) Point(kind int, res Resource, label string) {
	if s.running < 0 {
		return
	}
	t := s.threads[s.running]
	if s.abort {
		panic(abortSentinel{})
	}
	t.kind, t.res, t.label = kind, res, label
	next := s.pick(t)
	if next != t {
		if next == nil {
			panic(abortSentinel{})
		}
		s.handTo(next)
		s.park(t)
	}
	if s.abort {
		t.res = nil
		panic(abortSentinel{})
	}
	t.kind, t.res = -1, nil
}

// Running returns the id of the running thread (-1 = none).
//
//go:norace
func (s *Sched) Running() int { return s.running }

// Aborted reports whether the execution is being torn down (shims then become no-ops).
//
//go:norace
func (s *Sched) Aborted() bool { return s.abort }

// condRes is a Resource backed by a predicate.
type condRes struct{ f func() bool }

//go:norace
func (c condRes) CanAcquire(int) bool { return c.f() }

// Wait blocks the running thread (as far as the scheduler is concerned) until cond holds;
// it models a blocking operation of the code under test (e.g. a channel receive) whose
// readiness the overlay makes visible. Without an active scheduler it returns at once (the
// real blocking operation that follows does the waiting).
//
//go:norace
func Wait(cond func() bool, label string) {
	if s := active; s != nil && !s.abort && s.running >= 0 {
		s.Point(OpYield, condRes{cond}, label)
	}
}

// RecvReady is used inside a select case expression: it blocks (scheduler-wise) until cond
// holds and then returns ch unchanged, so `case v := <-RecvReady(ch, cond, l).(chan T):`
// behaves like `case v := <-ch:` with a visible wait in front of the select.
//
//go:norace
func RecvReady(ch interface{}, cond func() bool, label string) interface{} {
	Wait(cond, label)
	return ch
}

// Go starts fn as a new scheduled thread of the active execution (or as a plain goroutine
// when no scheduler is active). The overlay rewrites `go` statements of the code under
// test into calls of Go, so that goroutines spawned inside it are scheduled too.
//
//go:norace
func Go(fn func()) { spawn(fn, false) }

// GoDaemon is Go for a goroutine that never terminates by itself (a service loop): the
// execution ends when all regular threads are done and the daemons are blocked.
//
//go:norace
func GoDaemon(fn func()) { spawn(fn, true) }

//go:norace
func spawn(fn func(), daemon bool) {
	s := active
	if s == nil || s.abort {
		go fn()
		return
	}
	t := &thread{id: len(s.threads), body: fn, wake: make(chan struct{}, 1), kind: OpStart, label: "start", daemon: daemon}
	s.threads = append(s.threads, t)
	s.wg.Add(1)
	go s.threadMain(t)
}

var (
	closedMu    sync.Mutex
	closedChans = map[interface{}]bool{}
)

// MarkClosed remembers that channel ch was closed (the overlay adds the call next to the
// close statement), so that Wait conditions can test IsClosed.
func MarkClosed(ch interface{}) { closedMu.Lock(); closedChans[ch] = true; closedMu.Unlock() }

// IsClosed reports whether MarkClosed(ch) was called since the current execution began.
func IsClosed(ch interface{}) bool { closedMu.Lock(); defer closedMu.Unlock(); return closedChans[ch] }

// Yield is an explicit scheduling point for harness bodies.
//
//go:norace
func Yield(label string) {
	if s := active; s != nil {
		s.Point(OpYield, nil, label)
	}
}
