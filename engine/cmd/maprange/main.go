// maprange rewrites every `for k, v := range X` of a Go source file into a loop driven by
// vmap.Iter (see package vmap). Purely syntactic: whether X is a map is decided at run
// time. Usage: maprange <in.go> <out.go> <site-prefix>
package main

import (
	"bytes"
	"fmt"
	"go/ast"
	"go/format"
	"go/parser"
	"go/token"
	"os"
	"strconv"
)

type rewriter struct {
	fset   *token.FileSet
	prefix string
	n      int
	sites  int
}

func ident(s string) *ast.Ident { return &ast.Ident{Name: s} }

func (rw *rewriter) block(b *ast.BlockStmt) {
	if b == nil {
		return
	}
	b.List = rw.stmts(b.List)
}

func (rw *rewriter) stmts(l []ast.Stmt) []ast.Stmt {
	for i, s := range l {
		l[i] = rw.stmt(s, nil)
	}
	return l
}

// exprs rewrites function literals found inside expressions of a statement.
func (rw *rewriter) funcLits(n ast.Node) {
	if n == nil {
		return
	}
	ast.Inspect(n, func(x ast.Node) bool {
		switch v := x.(type) {
		case *ast.FuncLit:
			rw.block(v.Body)
			return false
		case *ast.BlockStmt:
			return false // statements are handled by stmt()
		}
		return true
	})
}

func (rw *rewriter) stmt(s ast.Stmt, label *ast.Ident) ast.Stmt {
	switch v := s.(type) {
	case *ast.BlockStmt:
		rw.block(v)
	case *ast.IfStmt:
		if v.Init != nil {
			v.Init = rw.stmt(v.Init, nil)
		}
		rw.funcLits(v.Cond)
		rw.block(v.Body)
		if v.Else != nil {
			v.Else = rw.stmt(v.Else, nil)
		}
	case *ast.ForStmt:
		if v.Init != nil {
			v.Init = rw.stmt(v.Init, nil)
		}
		rw.funcLits(v.Cond)
		if v.Post != nil {
			v.Post = rw.stmt(v.Post, nil)
		}
		rw.block(v.Body)
	case *ast.RangeStmt:
		rw.funcLits(v.X)
		rw.block(v.Body)
		return rw.rangeStmt(v, label)
	case *ast.SwitchStmt:
		if v.Init != nil {
			v.Init = rw.stmt(v.Init, nil)
		}
		rw.funcLits(v.Tag)
		rw.block(v.Body)
	case *ast.TypeSwitchStmt:
		if v.Init != nil {
			v.Init = rw.stmt(v.Init, nil)
		}
		v.Assign = rw.stmt(v.Assign, nil)
		rw.block(v.Body)
	case *ast.SelectStmt:
		rw.block(v.Body)
	case *ast.CaseClause:
		for _, e := range v.List {
			rw.funcLits(e)
		}
		v.Body = rw.stmts(v.Body)
	case *ast.CommClause:
		if v.Comm != nil {
			v.Comm = rw.stmt(v.Comm, nil)
		}
		v.Body = rw.stmts(v.Body)
	case *ast.LabeledStmt:
		if r, ok := v.Stmt.(*ast.RangeStmt); ok {
			rw.funcLits(r.X)
			rw.block(r.Body)
			return rw.rangeStmt(r, v.Label)
		}
		v.Stmt = rw.stmt(v.Stmt, nil)
	default:
		rw.funcLits(s)
	}
	return s
}

func isBlank(e ast.Expr) bool {
	id, ok := e.(*ast.Ident)
	return ok && id.Name == "_"
}

func (rw *rewriter) rangeStmt(r *ast.RangeStmt, label *ast.Ident) ast.Stmt {
	wrap := func(s ast.Stmt) ast.Stmt {
		if label != nil {
			return &ast.LabeledStmt{Label: label, Stmt: s}
		}
		return s
	}
	if r.Tok == token.ASSIGN {
		fmt.Fprintf(os.Stderr, "maprange: %s: range with '=' left unchanged\n", rw.fset.Position(r.Pos()))
		return wrap(r)
	}
	rw.n++
	rw.sites++
	id := strconv.Itoa(rw.n)
	xv, pv, kv := ident("vmx__"+id), ident("vmp__"+id), ident("vmk__"+id)
	outerL, innerL := "VML__"+id, "VMI__"+id
	orig := ""
	if label != nil {
		orig = label.Name
	}
	site := fmt.Sprintf("%s:%d", rw.prefix, rw.fset.Position(r.Pos()).Line)
	if r.Key == nil || isBlank(r.Key) {
		r.Key = kv
		r.Tok = token.DEFINE
	}
	keyExpr := r.Key
	bf := &branchFixer{outer: outerL, inner: innerL, pv: pv, orig: orig}
	r.Body.List = bf.list(r.Body.List, false, false)
	body := []ast.Stmt{
		&ast.IfStmt{Cond: &ast.CallExpr{Fun: &ast.SelectorExpr{X: pv, Sel: ident("Skip")}, Args: []ast.Expr{keyExpr}},
			Body: &ast.BlockStmt{List: []ast.Stmt{&ast.BranchStmt{Tok: token.CONTINUE}}}},
	}
	body = append(body, r.Body.List...)
	body = append(body, &ast.IfStmt{Cond: &ast.CallExpr{Fun: &ast.SelectorExpr{X: pv, Sel: ident("IsMap")}},
		Body: &ast.BlockStmt{List: []ast.Stmt{&ast.BranchStmt{Tok: token.CONTINUE, Label: ident(outerL)}}},
		Else: &ast.BlockStmt{List: []ast.Stmt{&ast.BranchStmt{Tok: token.CONTINUE, Label: ident(innerL)}}}})
	inner := &ast.LabeledStmt{Label: ident(innerL), Stmt: &ast.RangeStmt{Key: r.Key, Value: r.Value, Tok: r.Tok, X: xv, Body: &ast.BlockStmt{List: body}}}
	outer := &ast.ForStmt{
		Init: &ast.AssignStmt{Lhs: []ast.Expr{pv}, Tok: token.DEFINE, Rhs: []ast.Expr{
			&ast.CallExpr{Fun: &ast.SelectorExpr{X: ident("vmap"), Sel: ident("Begin")},
				Args: []ast.Expr{xv, &ast.BasicLit{Kind: token.STRING, Value: strconv.Quote(site)}}}}},
		Cond: &ast.CallExpr{Fun: &ast.SelectorExpr{X: pv, Sel: ident("Next")}},
		Body: &ast.BlockStmt{List: []ast.Stmt{inner}},
	}
	return &ast.BlockStmt{List: []ast.Stmt{
		&ast.AssignStmt{Lhs: []ast.Expr{xv}, Tok: token.DEFINE, Rhs: []ast.Expr{r.X}},
		&ast.LabeledStmt{Label: ident(outerL), Stmt: outer},
	}}
}

// fixBranches rewrites the break/continue statements that bind to the rewritten loop
// (unlabeled ones at the loop's own nesting level, and ones carrying the loop's original
// label): break -> break OUTER; continue -> if p.IsMap() { continue OUTER } else
// { continue INNER } (for a non-map operand the real iteration is the inner loop).
type branchFixer struct {
	outer, inner string
	pv           *ast.Ident
	orig         string // original label of the loop ("" = none)
}

func (bf *branchFixer) list(l []ast.Stmt, inLoop, inSwitch bool) []ast.Stmt {
	for i, s := range l {
		l[i] = bf.stmt(s, inLoop, inSwitch)
	}
	return l
}

func (bf *branchFixer) stmt(s ast.Stmt, inLoop, inSwitch bool) ast.Stmt {
	switch v := s.(type) {
	case *ast.BranchStmt:
		mine := false
		if v.Label == nil {
			if v.Tok == token.BREAK && !inLoop && !inSwitch {
				mine = true
			}
			if v.Tok == token.CONTINUE && !inLoop {
				mine = true
			}
		} else if bf.orig != "" && v.Label.Name == bf.orig && (v.Tok == token.BREAK || v.Tok == token.CONTINUE) {
			mine = true
		}
		if !mine {
			return s
		}
		if v.Tok == token.BREAK {
			v.Label = ident(bf.outer)
			return v
		}
		return &ast.IfStmt{
			Cond: &ast.CallExpr{Fun: &ast.SelectorExpr{X: ident(bf.pv.Name), Sel: ident("IsMap")}},
			Body: &ast.BlockStmt{List: []ast.Stmt{&ast.BranchStmt{Tok: token.CONTINUE, Label: ident(bf.outer)}}},
			Else: &ast.BlockStmt{List: []ast.Stmt{&ast.BranchStmt{Tok: token.CONTINUE, Label: ident(bf.inner)}}},
		}
	case *ast.BlockStmt:
		v.List = bf.list(v.List, inLoop, inSwitch)
	case *ast.IfStmt:
		v.Body.List = bf.list(v.Body.List, inLoop, inSwitch)
		if v.Else != nil {
			v.Else = bf.stmt(v.Else, inLoop, inSwitch)
		}
	case *ast.ForStmt:
		v.Body.List = bf.list(v.Body.List, true, inSwitch)
	case *ast.RangeStmt:
		v.Body.List = bf.list(v.Body.List, true, inSwitch)
	case *ast.SwitchStmt:
		v.Body.List = bf.list(v.Body.List, inLoop, true)
	case *ast.TypeSwitchStmt:
		v.Body.List = bf.list(v.Body.List, inLoop, true)
	case *ast.SelectStmt:
		v.Body.List = bf.list(v.Body.List, inLoop, true)
	case *ast.CaseClause:
		v.Body = bf.list(v.Body, inLoop, inSwitch)
	case *ast.CommClause:
		v.Body = bf.list(v.Body, inLoop, inSwitch)
	case *ast.LabeledStmt:
		v.Stmt = bf.stmt(v.Stmt, inLoop, inSwitch)
	}
	return s
}

func main() {
	if len(os.Args) != 4 {
		fmt.Fprintln(os.Stderr, "usage: maprange in.go out.go site-prefix")
		os.Exit(2)
	}
	fset := token.NewFileSet()
	f, err := parser.ParseFile(fset, os.Args[1], nil, parser.ParseComments)
	if err != nil {
		fmt.Fprintln(os.Stderr, err)
		os.Exit(1)
	}
	rw := &rewriter{fset: fset, prefix: os.Args[3]}
	for _, d := range f.Decls {
		switch v := d.(type) {
		case *ast.FuncDecl:
			rw.block(v.Body)
		case *ast.GenDecl:
			rw.funcLits(v)
		}
	}
	var buf bytes.Buffer
	if rw.sites > 0 {
		// drop comments: positions of the generated nodes would otherwise misplace them
		f.Comments = nil
		f.Doc = nil
		imp := &ast.GenDecl{Tok: token.IMPORT, Specs: []ast.Spec{&ast.ImportSpec{Name: ident("vmap"), Path: &ast.BasicLit{Kind: token.STRING, Value: `"verif/engine/vmap"`}}}}
		f.Decls = append([]ast.Decl{imp}, f.Decls...)
	}
	if err := format.Node(&buf, fset, f); err != nil {
		fmt.Fprintln(os.Stderr, err)
		os.Exit(1)
	}
	if err := os.WriteFile(os.Args[2], buf.Bytes(), 0o644); err != nil {
		fmt.Fprintln(os.Stderr, err)
		os.Exit(1)
	}
	fmt.Printf("%d\n", rw.sites)
}
