// gostmt rewrites every `go <call>` statement of a Go source file into
// vsched.Go(func() { <call> }) (or vsched.GoDaemon when the call text contains one of the
// daemon substrings), so that goroutines spawned by code under test become scheduled
// threads of vsched. Without an active scheduler vsched.Go is a plain `go`. The call's
// arguments are evaluated inside the new goroutine instead of at the go statement; the
// files this is applied to only pass values that are not modified afterwards.
// Usage: gostmt <in.go> <out.go> [daemon-substring ...]   (prints the number of rewrites)
package main

import (
	"bytes"
	"fmt"
	"go/ast"
	"go/format"
	"go/parser"
	"go/printer"
	"go/token"
	"os"
	"strings"
)

func main() {
	if len(os.Args) < 3 {
		fmt.Fprintln(os.Stderr, "usage: gostmt in.go out.go [daemon-substring ...]")
		os.Exit(2)
	}
	fset := token.NewFileSet()
	f, err := parser.ParseFile(fset, os.Args[1], nil, parser.ParseComments)
	if err != nil {
		fmt.Fprintln(os.Stderr, err)
		os.Exit(1)
	}
	n := 0
	var rewrite func(list []ast.Stmt)
	conv := func(g *ast.GoStmt) ast.Stmt {
		n++
		var cb bytes.Buffer
		printer.Fprint(&cb, fset, g.Call)
		fn := "Go"
		for _, d := range os.Args[3:] {
			if strings.Contains(cb.String(), d) {
				fn = "GoDaemon"
			}
		}
		return &ast.ExprStmt{X: &ast.CallExpr{
			Fun: &ast.SelectorExpr{X: ast.NewIdent("vsched"), Sel: ast.NewIdent(fn)},
			Args: []ast.Expr{&ast.FuncLit{Type: &ast.FuncType{Params: &ast.FieldList{}},
				Body: &ast.BlockStmt{List: []ast.Stmt{&ast.ExprStmt{X: g.Call}}}}},
		}}
	}
	rewrite = func(list []ast.Stmt) {
		for i, s := range list {
			if g, ok := s.(*ast.GoStmt); ok {
				list[i] = conv(g)
			}
		}
	}
	ast.Inspect(f, func(x ast.Node) bool {
		switch v := x.(type) {
		case *ast.BlockStmt:
			rewrite(v.List)
		case *ast.CaseClause:
			rewrite(v.Body)
		case *ast.CommClause:
			rewrite(v.Body)
		case *ast.LabeledStmt:
			if g, ok := v.Stmt.(*ast.GoStmt); ok {
				v.Stmt = conv(g)
			}
		}
		return true
	})
	if n > 0 {
		imp := &ast.GenDecl{Tok: token.IMPORT, Specs: []ast.Spec{&ast.ImportSpec{Path: &ast.BasicLit{Kind: token.STRING, Value: `"verif/engine/vsched"`}}}}
		f.Decls = append([]ast.Decl{imp}, f.Decls...)
	}
	var buf bytes.Buffer
	if err := format.Node(&buf, fset, f); err != nil {
		fmt.Fprintln(os.Stderr, err)
		os.Exit(1)
	}
	if err := os.WriteFile(os.Args[2], buf.Bytes(), 0o644); err != nil {
		fmt.Fprintln(os.Stderr, err)
		os.Exit(1)
	}
	fmt.Printf("%d\n", n)
}
