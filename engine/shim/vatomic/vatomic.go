// Package vatomic is a drop-in replacement for "sync/atomic": every operation is a
// scheduling point of vsched (when active) followed by the real atomic operation.
package vatomic

import (
	"sync/atomic"
	"unsafe"

	"verif/engine/vsched"
)

type Value = atomic.Value

func pt(label string) {
	if s := vsched.Active(); s != nil && !s.Aborted() {
		s.Point(vsched.OpAtomic, nil, label)
	}
}

func AddInt32(addr *int32, delta int32) int32 {
	pt("atomic.AddInt32")
	return atomic.AddInt32(addr, delta)
}
func AddInt64(addr *int64, delta int64) int64 {
	pt("atomic.AddInt64")
	return atomic.AddInt64(addr, delta)
}
func AddUint32(addr *uint32, delta uint32) uint32 {
	pt("atomic.AddUint32")
	return atomic.AddUint32(addr, delta)
}
func AddUint64(addr *uint64, delta uint64) uint64 {
	pt("atomic.AddUint64")
	return atomic.AddUint64(addr, delta)
}
func LoadInt32(addr *int32) int32          { pt("atomic.LoadInt32"); return atomic.LoadInt32(addr) }
func LoadInt64(addr *int64) int64          { pt("atomic.LoadInt64"); return atomic.LoadInt64(addr) }
func LoadUint32(addr *uint32) uint32       { pt("atomic.LoadUint32"); return atomic.LoadUint32(addr) }
func LoadUint64(addr *uint64) uint64       { pt("atomic.LoadUint64"); return atomic.LoadUint64(addr) }
func StoreInt32(addr *int32, v int32)      { pt("atomic.StoreInt32"); atomic.StoreInt32(addr, v) }
func StoreInt64(addr *int64, v int64)      { pt("atomic.StoreInt64"); atomic.StoreInt64(addr, v) }
func StoreUint32(addr *uint32, v uint32)   { pt("atomic.StoreUint32"); atomic.StoreUint32(addr, v) }
func StoreUint64(addr *uint64, v uint64)   { pt("atomic.StoreUint64"); atomic.StoreUint64(addr, v) }
func SwapInt32(addr *int32, v int32) int32 { pt("atomic.SwapInt32"); return atomic.SwapInt32(addr, v) }
func SwapInt64(addr *int64, v int64) int64 { pt("atomic.SwapInt64"); return atomic.SwapInt64(addr, v) }
func SwapUint32(addr *uint32, v uint32) uint32 {
	pt("atomic.SwapUint32")
	return atomic.SwapUint32(addr, v)
}
func SwapUint64(addr *uint64, v uint64) uint64 {
	pt("atomic.SwapUint64")
	return atomic.SwapUint64(addr, v)
}
func CompareAndSwapInt32(addr *int32, o, n int32) bool {
	pt("atomic.CASInt32")
	return atomic.CompareAndSwapInt32(addr, o, n)
}
func CompareAndSwapInt64(addr *int64, o, n int64) bool {
	pt("atomic.CASInt64")
	return atomic.CompareAndSwapInt64(addr, o, n)
}
func CompareAndSwapUint32(addr *uint32, o, n uint32) bool {
	pt("atomic.CASUint32")
	return atomic.CompareAndSwapUint32(addr, o, n)
}
func CompareAndSwapUint64(addr *uint64, o, n uint64) bool {
	pt("atomic.CASUint64")
	return atomic.CompareAndSwapUint64(addr, o, n)
}
func LoadPointer(addr *unsafe.Pointer) unsafe.Pointer {
	pt("atomic.LoadPointer")
	return atomic.LoadPointer(addr)
}
func StorePointer(addr *unsafe.Pointer, v unsafe.Pointer) {
	pt("atomic.StorePointer")
	atomic.StorePointer(addr, v)
}
