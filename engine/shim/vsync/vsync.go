// Package vsync is a drop-in replacement for the parts of "sync" used by the packages
// under test. Mutex and RWMutex become scheduling points of vsched when a scheduler is
// active; otherwise (and for all other names) they are the real primitives. In a
// controlled execution the real primitive is still locked after the scheduler granted the
// operation, so the race detector sees the true happens-before edges of the code's own
// locking and nothing else.
package vsync

import (
	"sync"

	"verif/engine/vsched"
)

type (
	WaitGroup = sync.WaitGroup
	Once      = sync.Once
	Pool      = sync.Pool
	Map       = sync.Map
	Cond      = sync.Cond
	Locker    = sync.Locker
)

// NewCond is sync.NewCond.
func NewCond(l Locker) *Cond { return sync.NewCond(l) }

// Mutex is a scheduler-aware sync.Mutex.
type Mutex struct {
	mu   sync.Mutex
	held bool
}

// CanAcquire implements vsched.Resource.
//
//go:norace
func (m *Mutex) CanAcquire(kind int) bool { return !m.held }

//go:norace
func (m *Mutex) setHeld(v bool) { m.held = v }

// Lock locks m.
func (m *Mutex) Lock() {
	if s := vsched.Active(); s != nil && !s.Aborted() {
		s.Point(vsched.OpLock, m, "Mutex.Lock")
		m.setHeld(true)
	}
	m.mu.Lock()
}

// Unlock unlocks m.
func (m *Mutex) Unlock() {
	m.setHeld(false)
	m.mu.Unlock()
}

// RWMutex is a scheduler-aware sync.RWMutex (no writer preference is modelled: a reader
// may enter while a writer waits, which only adds schedules).
type RWMutex struct {
	mu      sync.RWMutex
	writer  bool
	readers int
}

type rwRead struct{ rw *RWMutex }

// CanAcquire implements vsched.Resource for the write side.
//
//go:norace
func (rw *RWMutex) CanAcquire(kind int) bool {
	if kind == vsched.OpRLock {
		return !rw.writer
	}
	return !rw.writer && rw.readers == 0
}

//go:norace
func (rw *RWMutex) upd(w bool, dr int) {
	rw.writer = w
	rw.readers += dr
}

//go:norace
func (rw *RWMutex) updR(dr int) { rw.readers += dr }

// Lock locks rw for writing.
func (rw *RWMutex) Lock() {
	if s := vsched.Active(); s != nil && !s.Aborted() {
		s.Point(vsched.OpLock, rw, "RWMutex.Lock")
		rw.upd(true, 0)
	}
	rw.mu.Lock()
}

// Unlock unlocks rw for writing.
func (rw *RWMutex) Unlock() {
	rw.upd(false, 0)
	rw.mu.Unlock()
}

// RLock locks rw for reading.
func (rw *RWMutex) RLock() {
	if s := vsched.Active(); s != nil && !s.Aborted() {
		s.Point(vsched.OpRLock, rw, "RWMutex.RLock")
		rw.updR(1)
	}
	rw.mu.RLock()
}

// RUnlock undoes a single RLock call.
func (rw *RWMutex) RUnlock() {
	if s := vsched.Active(); s != nil {
		rw.updR(-1)
	}
	rw.mu.RUnlock()
}

// RLocker returns a Locker for the read side.
func (rw *RWMutex) RLocker() Locker { return (*rlocker)(rw) }

type rlocker RWMutex

func (r *rlocker) Lock()   { (*RWMutex)(r).RLock() }
func (r *rlocker) Unlock() { (*RWMutex)(r).RUnlock() }
