// Package vtime is a drop-in replacement for the parts of "time" used by packages under
// test. With a logical clock enabled, Now() returns strictly increasing instants that do
// not depend on the wall clock, After/NewTimer/Sleep are controlled by the harness;
// otherwise everything delegates to the real package.
package vtime

import (
	"sync/atomic"
	"time"

	"verif/engine/vsched"
)

type (
	Time     = time.Time
	Duration = time.Duration
	Month    = time.Month
	Timer    = time.Timer
	Ticker   = time.Ticker
	Location = time.Location
)

const (
	Nanosecond  = time.Nanosecond
	Microsecond = time.Microsecond
	Millisecond = time.Millisecond
	Second      = time.Second
	Minute      = time.Minute
	Hour        = time.Hour
	RFC3339     = time.RFC3339
)

var UTC = time.UTC

var logical int32 // 1 = logical clock on
var ticks int64
var plainTicks int64

// SetLogical switches the logical clock on or off (harness start-up, before any threads).
func SetLogical(on bool) {
	if on {
		atomic.StoreInt32(&logical, 1)
	} else {
		atomic.StoreInt32(&logical, 0)
	}
}

//go:norace
func isLogical() bool { return logical == 1 }

//go:norace
func plainTick() int64 { plainTicks++; return plainTicks }

// Now is time.Now or the next logical instant. Under an active scheduler the counter is a
// plain variable (only one thread runs; an atomic would add happens-before edges that
// could hide races in race mode).
func Now() Time {
	if !isLogical() {
		return time.Now()
	}
	if vsched.Active() != nil {
		return time.Unix(1_000_000, plainTick()*1000)
	}
	return time.Unix(0, atomic.AddInt64(&ticks, 1)*1000)
}

// AfterHook, when set, replaces After (the harness owns the returned channel).
var AfterHook func(d Duration) <-chan Time

// SleepHook, when set, replaces Sleep.
var SleepHook func(d Duration)

func After(d Duration) <-chan Time {
	if h := AfterHook; h != nil {
		return h(d)
	}
	return time.After(d)
}

func Sleep(d Duration) {
	if h := SleepHook; h != nil {
		h(d)
		return
	}
	time.Sleep(d)
}

func Since(t Time) Duration                    { return Now().Sub(t) }
func Until(t Time) Duration                    { return t.Sub(Now()) }
func Unix(sec, nsec int64) Time                { return time.Unix(sec, nsec) }
func NewTimer(d Duration) *Timer               { return time.NewTimer(d) }
func NewTicker(d Duration) *Ticker             { return time.NewTicker(d) }
func AfterFunc(d Duration, f func()) *Timer    { return time.AfterFunc(d, f) }
func Tick(d Duration) <-chan Time              { return time.Tick(d) }
func ParseDuration(s string) (Duration, error) { return time.ParseDuration(s) }
func Date(year int, month Month, day, hour, min, sec, nsec int, loc *Location) Time {
	return time.Date(year, month, day, hour, min, sec, nsec, loc)
}
