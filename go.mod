module verif

go 1.23

require (
	github.com/ElrondNetwork/arwen-wasm-vm v1.2.24-0.20210625151658-9d052957d105
	github.com/ElrondNetwork/elrond-go v1.1.59-0.20210526130950-2a93e2e11c39
	github.com/ElrondNetwork/elrond-go-logger v1.0.4
	github.com/ElrondNetwork/elrond-vm-common v1.0.0
	github.com/btcsuite/btcutil v1.0.3-0.20201208143702-a53e38424cce
	github.com/libp2p/go-libp2p-core v0.8.5
)

require (
	github.com/ElrondNetwork/concurrent-map v0.1.3 // indirect
	github.com/beevik/ntp v0.3.0 // indirect
	github.com/beorn7/perks v1.0.1 // indirect
	github.com/btcsuite/btcd v0.22.0-beta // indirect
	github.com/cespare/xxhash/v2 v2.1.1 // indirect
	github.com/davecgh/go-spew v1.1.1 // indirect
	github.com/davidlazar/go-crypto v0.0.0-20200604182044-b73af7476f6c // indirect
	github.com/denisbrodbeck/machineid v1.0.1 // indirect
	github.com/flynn/noise v1.0.0 // indirect
	github.com/gin-contrib/sse v0.1.0 // indirect
	github.com/gin-gonic/gin v1.7.2 // indirect
	github.com/go-playground/locales v0.13.0 // indirect
	github.com/go-playground/universal-translator v0.17.0 // indirect
	github.com/go-playground/validator/v10 v10.4.1 // indirect
	github.com/gogo/protobuf v1.3.2 // indirect
	github.com/golang/protobuf v1.5.2 // indirect
	github.com/golang/snappy v0.0.1 // indirect
	github.com/google/gopacket v1.1.19 // indirect
	github.com/google/uuid v1.2.0 // indirect
	github.com/gorilla/websocket v1.4.2 // indirect
	github.com/hashicorp/errwrap v1.0.0 // indirect
	github.com/hashicorp/go-multierror v1.1.1 // indirect
	github.com/hashicorp/golang-lru v0.5.4 // indirect
	github.com/herumi/bls-go-binary v1.0.0 // indirect
	github.com/huin/goupnp v1.0.0 // indirect
	github.com/ipfs/go-cid v0.0.7 // indirect
	github.com/ipfs/go-datastore v0.4.5 // indirect
	github.com/ipfs/go-ipfs-util v0.0.2 // indirect
	github.com/ipfs/go-ipns v0.0.2 // indirect
	github.com/ipfs/go-log v1.0.5 // indirect
	github.com/ipfs/go-log/v2 v2.1.3 // indirect
	github.com/jackpal/go-nat-pmp v1.0.2 // indirect
	github.com/jbenet/go-temp-err-catcher v0.1.0 // indirect
	github.com/jbenet/goprocess v0.1.4 // indirect
	github.com/klauspost/cpuid/v2 v2.0.4 // indirect
	github.com/koron/go-ssdp v0.0.0-20191105050749-2e1c40ed0b5d // indirect
	github.com/leodido/go-urn v1.2.0 // indirect
	github.com/libp2p/go-addr-util v0.0.2 // indirect
	github.com/libp2p/go-buffer-pool v0.0.2 // indirect
	github.com/libp2p/go-cidranger v1.1.0 // indirect
	github.com/libp2p/go-conn-security-multistream v0.2.1 // indirect
	github.com/libp2p/go-eventbus v0.2.1 // indirect
	github.com/libp2p/go-flow-metrics v0.0.3 // indirect
	github.com/libp2p/go-libp2p v0.14.3 // indirect
	github.com/libp2p/go-libp2p-asn-util v0.0.0-20200825225859-85005c6cf052 // indirect
	github.com/libp2p/go-libp2p-autonat v0.4.2 // indirect
	github.com/libp2p/go-libp2p-blankhost v0.2.0 // indirect
	github.com/libp2p/go-libp2p-circuit v0.4.0 // indirect
	github.com/libp2p/go-libp2p-discovery v0.5.0 // indirect
	github.com/libp2p/go-libp2p-kad-dht v0.12.2 // indirect
	github.com/libp2p/go-libp2p-kbucket v0.4.7 // indirect
	github.com/libp2p/go-libp2p-mplex v0.4.1 // indirect
	github.com/libp2p/go-libp2p-nat v0.0.6 // indirect
	github.com/libp2p/go-libp2p-netutil v0.1.0 // indirect
	github.com/libp2p/go-libp2p-noise v0.2.0 // indirect
	github.com/libp2p/go-libp2p-peerstore v0.2.7 // indirect
	github.com/libp2p/go-libp2p-pnet v0.2.0 // indirect
	github.com/libp2p/go-libp2p-pubsub v0.4.1 // indirect
	github.com/libp2p/go-libp2p-record v0.1.3 // indirect
	github.com/libp2p/go-libp2p-swarm v0.5.0 // indirect
	github.com/libp2p/go-libp2p-testing v0.4.0 // indirect
	github.com/libp2p/go-libp2p-tls v0.1.3 // indirect
	github.com/libp2p/go-libp2p-transport-upgrader v0.4.2 // indirect
	github.com/libp2p/go-libp2p-yamux v0.5.4 // indirect
	github.com/libp2p/go-maddr-filter v0.1.0 // indirect
	github.com/libp2p/go-mplex v0.3.0 // indirect
	github.com/libp2p/go-msgio v0.0.6 // indirect
	github.com/libp2p/go-nat v0.0.5 // indirect
	github.com/libp2p/go-netroute v0.1.6 // indirect
	github.com/libp2p/go-reuseport v0.0.2 // indirect
	github.com/libp2p/go-reuseport-transport v0.0.4 // indirect
	github.com/libp2p/go-stream-muxer-multistream v0.3.0 // indirect
	github.com/libp2p/go-tcp-transport v0.2.3 // indirect
	github.com/libp2p/go-ws-transport v0.4.0 // indirect
	github.com/libp2p/go-yamux/v2 v2.2.0 // indirect
	github.com/marten-seemann/tcp v0.0.0-20210406111302-dfbc87cc63fd // indirect
	github.com/mattn/go-isatty v0.0.12 // indirect
	github.com/matttproud/golang_protobuf_extensions v1.0.1 // indirect
	github.com/miekg/dns v1.1.41 // indirect
	github.com/mikioh/tcpinfo v0.0.0-20190314235526-30a79bb1804b // indirect
	github.com/mikioh/tcpopt v0.0.0-20190314235656-172688c1accc // indirect
	github.com/minio/blake2b-simd v0.0.0-20160723061019-3f5f724cb5b1 // indirect
	github.com/minio/sha256-simd v1.0.0 // indirect
	github.com/mitchellh/mapstructure v1.4.1 // indirect
	github.com/mr-tron/base58 v1.2.0 // indirect
	github.com/multiformats/go-base32 v0.0.3 // indirect
	github.com/multiformats/go-base36 v0.1.0 // indirect
	github.com/multiformats/go-multiaddr v0.3.3 // indirect
	github.com/multiformats/go-multiaddr-dns v0.3.1 // indirect
	github.com/multiformats/go-multiaddr-fmt v0.1.0 // indirect
	github.com/multiformats/go-multiaddr-net v0.2.0 // indirect
	github.com/multiformats/go-multibase v0.0.3 // indirect
	github.com/multiformats/go-multihash v0.0.15 // indirect
	github.com/multiformats/go-multistream v0.2.2 // indirect
	github.com/multiformats/go-varint v0.0.6 // indirect
	github.com/opentracing/opentracing-go v1.2.0 // indirect
	github.com/pelletier/go-toml v1.9.0 // indirect
	github.com/pkg/errors v0.9.1 // indirect
	github.com/prometheus/client_golang v1.10.0 // indirect
	github.com/prometheus/client_model v0.2.0 // indirect
	github.com/prometheus/common v0.18.0 // indirect
	github.com/prometheus/procfs v0.6.0 // indirect
	github.com/shirou/gopsutil v0.0.0-20190901111213-e4ec7b275ada // indirect
	github.com/syndtr/goleveldb v1.0.1-0.20190318030020-c3a204f8e965 // indirect
	github.com/ugorji/go/codec v1.1.7 // indirect
	github.com/whyrusleeping/go-keyspace v0.0.0-20160322163242-5b898ac5add1 // indirect
	github.com/whyrusleeping/multiaddr-filter v0.0.0-20160516205228-e903e4adabd7 // indirect
	github.com/whyrusleeping/timecache v0.0.0-20160911033111-cfcb2f1abfee // indirect
	go.opencensus.io v0.23.0 // indirect
	go.uber.org/atomic v1.7.0 // indirect
	go.uber.org/multierr v1.6.0 // indirect
	go.uber.org/zap v1.16.0 // indirect
	golang.org/x/crypto v0.0.0-20210322153248-0c34fe9e7dc2 // indirect
	golang.org/x/net v0.0.0-20210423184538-5f58ad60dda6 // indirect
	golang.org/x/sys v0.0.0-20210426080607-c94f62235c83 // indirect
	golang.org/x/text v0.3.6 // indirect
	google.golang.org/grpc v1.33.2 // indirect
	google.golang.org/protobuf v1.26.0 // indirect
	gopkg.in/yaml.v2 v2.3.0 // indirect
)

replace github.com/ElrondNetwork/elrond-go => /repo

replace github.com/gogo/protobuf => github.com/ElrondNetwork/protobuf v1.3.2

replace github.com/ElrondNetwork/arwen-wasm-vm/v1_3 v1.3.19 => github.com/ElrondNetwork/arwen-wasm-vm v1.3.20-0.20210709090429-e03405ee6e0b
