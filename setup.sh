#!/bin/bash
# Offline setup: builds the overlay and every harness binary once (warm build cache).
set -u
cd /verif
export GOFLAGS=-mod=mod GOPROXY=off GOSUMDB=off GOTOOLCHAIN=local
export GOCACHE=${GOCACHE:-/verif/.cache/gocache}
mkdir -p .cache/bin .cache/ovl evidence replays
./ovl/gen.sh || exit 1
rc=0
grep -vE '^\s*(#|$)' harness/TABLE | awk '{r="-"; o="overlay.json"; for(i=3;i<=NF;i++){ if($i=="race") r="race"; if($i ~ /^ovl=/) o="overlay-" substr($i,5) ".json" } print $2, r, o}' | sort -u | while read H R O; do
  F=""; S=""; [ "$R" = "race" ] && { F="-race"; S="-race"; }
  echo "building $H $R $O" >&2
  go build $F -tags verif -overlay .cache/ovl/$O -o .cache/bin/$H$S ./harness/$H || echo "BUILD FAILED $H" >&2
done
exit 0
