#!/bin/bash
# Offline setup: builds the overlay and every harness binary once (warm build cache).
set -u
cd /verif
export GOFLAGS=-mod=mod GOPROXY=off GOSUMDB=off GOTOOLCHAIN=local
export GOCACHE=${GOCACHE:-/verif/.cache/gocache}
mkdir -p .cache/bin .cache/ovl evidence replays
./ovl/gen.sh || exit 1
rc=0
grep -vE '^\s*(#|$)' harness/TABLE | awk '{print $2, ($3=="race"?"race":"")}' | sort -u | while read H R; do
  F=""; S=""; [ "$R" = "race" ] && { F="-race"; S="-race"; }
  echo "building $H $R" >&2
  go build $F -tags verif -overlay .cache/ovl/overlay.json -o .cache/bin/$H$S ./harness/$H || echo "BUILD FAILED $H" >&2
done
exit 0
