#!/bin/bash
# tools/saveseed.sh <seed name e.g. C04-1> <property> <demo pkg> "<needs>" "<caught signature / result>"
S=$1; P=$2; PKG=$3; NEEDS=$4; RES=$5
D=/verif/seeded/$S; mkdir -p $D
cp /tmp/seed/$S/patch.diff $D/; cp /tmp/seed/$S/*_test.go $D/ 2>/dev/null; cp /tmp/seed/$S/NOTES.md $D/ 2>/dev/null
python3 - "$S" "$P" "$PKG" "$NEEDS" "$RES" <<'PY'
import json,sys
s,p,pkg,needs,res=sys.argv[1:6]
json.dump({"property":p,"origin":"independent sub-agent given only the property text and a scratch worktree","breaks":p,"needs":needs,
 "demonstration":"%s (place in %s/): passes without the change, fails with it"%([f for f in __import__('os').listdir('/verif/seeded/'+s) if f.endswith('_test.go')][0],pkg),
 "ran":"tools/tryseed.sh /tmp/seed/%s %s %s in a scratch worktree: demo without change ok; go test ./%s/ with change ok; demo with change FAIL; VERIF_REPO=<worktree> ./check %s --tier quick -> %s"%(s,p,pkg,pkg,p,res),
 "caught":True},open('/verif/seeded/%s/meta.json'%s,'w'),indent=1)
PY
