#!/usr/bin/env python3
"""Regenerates the seeds table of DESIGN.md §10.5 from /verif/seeded/*/meta.json."""
import json, os, re
V='/verif'
rows=[]
for d in sorted(os.listdir(V+'/seeded')):
    mp=os.path.join(V,'seeded',d,'meta.json')
    if d.startswith('self-') or not os.path.exists(mp): continue
    m=json.load(open(mp))
    notes=os.path.join(V,'seeded',d,'NOTES.md')
    needs=m.get('needs','').replace('|','/')
    ran=m.get('ran','')
    res=ran.split('->')[-1].strip().replace('|','/')
    init=m.get('caught_initially',True)
    rows.append("| %s | %s | %s | %s%s |" % (d, m['property'], needs, "" if init else "**missed at first** — "+m.get('strengthening','')+"; then: ", res))
selfn=len([d for d in os.listdir(V+'/seeded') if d.startswith('self-')])
tbl="| seed | property | what it needs to manifest | result of `./check` on the seeded tree |\n|---|---|---|---|\n"+"\n".join(rows)
tbl+="\n\n%d independent seeds, %d of them caught at the first attempt; %d self-made mutations (`seeded/self-*`).\n" % (len(rows), len([r for r in rows if 'missed at first' not in r]), selfn)
p=V+'/DESIGN.md'
s=open(p).read()
a,b='<!-- SEEDS-BEGIN -->','<!-- SEEDS-END -->'
assert a in s and b in s
s=s[:s.index(a)+len(a)]+"\n"+tbl+s[s.index(b):]
open(p,'w').write(s)
print(len(rows),"seeds")
