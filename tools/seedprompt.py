#!/usr/bin/env python3
"""prints the prompt for an independent mutation-seeding sub-agent for property <id> (variant n)"""
import json, sys
pid = sys.argv[1]; n = sys.argv[2] if len(sys.argv) > 2 else "1"
for l in open('/verif/properties.jsonl'):
    p = json.loads(l)
    if p['id'] == pid: break
import os, re
avoid = ""
if int(n) >= 2:
    prev = []
    for k in range(1, int(n)):
        f = f"/tmp/seed/{pid}-{k}/patch.diff"
        if os.path.exists(f):
            for m in re.finditer(r"^@@ .* @@ (.*)$|^\+\+\+ b/(.*)$", open(f).read(), re.M):
                prev.append((m.group(2) or m.group(1) or "").strip())
    if prev:
        avoid = "\nAn earlier seeded defect for this property already touched: " + "; ".join(dict.fromkeys(x for x in prev if x)) + ". Choose a DIFFERENT function or mechanism (another clause of the statement, another anchored file, another input shape or interleaving) so that the two defects are independent.\n"
wt = f"/tmp/seedwt/{pid}-{n}"
out = f"/tmp/seed/{pid}-{n}"
print(f"""You are helping evaluate a verification effort on the Go repository ElrondNetwork/elrond-go. Your job is to write ONE realistic code change (a "seeded defect") that breaks a stated semantic property of the code while the code still compiles and the repository's existing tests still pass, plus a demonstration that the property is broken.

Work ONLY in your own scratch git worktree: first run
  git -C /repo worktree add --detach {wt} HEAD
and make every edit under {wt}. Never edit /repo itself, never commit anything, and do NOT read or use anything under /verif (it is off limits for this task). Every shell call needs: export GOFLAGS=-mod=mod GOPROXY=off GOSUMDB=off GOTOOLCHAIN=local  (there is no network). The machine is shared: use `go test -p 2`, keep outputs short (| tail -n 20).

The property (id {p['id']}: {p['title']}):
  Statement: {p['statement']}
  Quantified over: {p['quantifier']['text']}
  Why the existing tests cannot settle it: {p['why_tests_cant']}
  Code it is anchored in: {', '.join(p['anchors']['files'])}
  Mechanisms meant to make it hold: {'; '.join(m['name']+' ('+m.get('where','')+')' for m in p['anchors']['mechanism'])}

{avoid}
Requirements for the change:
 1. It modifies non-test Go source of the repository (a few lines, the kind of slip a real developer could make: an off-by-one at a boundary, a missing copy or reset, two updates in the wrong order, a dropped branch for a rare input shape, a lock released too early, a stale cache entry, a wrong variable of the same type...).
 2. It breaks the property above, but only under something SPECIFIC: a particular interleaving, a multi-step sequence of operations, an unusual input shape or boundary value, a particular configuration, or two cooperating sites that each look fine alone. It must NOT be something ordinary use exposes at once, and the repository's own tests must not notice: the code must build (`go build ./...` in the touched packages and `go vet` not required) and `go test -count=1 -p 2 ./<every package you touched and its direct test-dependents you can identify>/...` must pass with the change. Run them and record the commands and results. If a test fails, choose a different change.
 3. Demonstration: a new Go test file (name it zz_seed_demo_test.go, placed in the package where it is most natural; it may use unexported identifiers) or a small program that FAILS with your change and PASSES without it (verify both ways by saving `git diff > patch.diff` and using `git apply -R patch.diff` / `git apply patch.diff`; NEVER use `git stash`: the stash is shared between all worktrees of /repo and other people are working in parallel). The demonstration must exercise the real code path through its normal API as far as practical.
Deliver, under {out}/ (create it): patch.diff (`git diff` of the source change only, without the demo file), the demonstration file, and NOTES.md saying: which property clause is broken and how, what exactly it needs in order to manifest (inputs / sequence / schedule / configuration), the commands you ran with results (tests with the change: pass; demo with: fail; demo without: pass). Finally remove your worktree: git -C /repo worktree remove --force {wt}
Your final message: 10 lines max — the change in one sentence, what it needs to manifest, and the paths of the delivered files.""")
