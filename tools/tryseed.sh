#!/bin/bash
# tools/tryseed.sh <seed dir> <property> <pkg dir of the demo test (relative to repo)> [extra test pkgs...]
# Confirms an independently written seeded change in a scratch worktree and runs the check against it:
#  1. demo passes without the change, 2. package tests pass with the change, 3. demo fails with
#  the change, 4. ./check <property> reports a VIOLATION (exit 1).
set -u
export GOFLAGS=-mod=mod GOPROXY=off GOSUMDB=off GOTOOLCHAIN=local
SD=$1; P=$2; PKG=$3; shift 3
WT=/tmp/wt/seedtry-$P-$$
git -C /repo worktree add -q --detach $WT HEAD || exit 2
trap "git -C /repo worktree remove --force $WT" EXIT
cd $WT
DEMO=$(ls $SD/*_test.go | head -1)
cp $DEMO $PKG/
echo "== demo WITHOUT change"; go test -count=1 -run 'Seed|seed|Demo|demo|ZZ|Zz' ./$PKG/ 2>&1 | tail -3
git apply $SD/patch.diff || { echo "PATCH DOES NOT APPLY"; exit 2; }
echo "== demo WITH change"; go test -count=1 -run 'Seed|seed|Demo|demo|ZZ|Zz' ./$PKG/ 2>&1 | tail -4
rm $PKG/$(basename $DEMO)
echo "== repo tests WITH change"; go test -count=1 -p 4 ./$PKG/ "$@" 2>&1 | tail -4
echo "== check"; cd /verif; VERIF_REPO=$WT ./check $P 2>&1 | grep -E "^(VIOLATION|SUMMARY|KNOWN|HARNESS)" | cut -c1-400
