//go:build verif

package metachain

// Export file for the C34 harness (added through go build -overlay, never part of /repo).
// It only reads unexported fields/constants of the metachain epoch-start trigger so that
// the harness' state key contains everything that influences the trigger's future.

// VerifC34MinimumNonceToStartEpoch is the nonce below which Update never starts an epoch.
const VerifC34MinimumNonceToStartEpoch uint64 = minimumNonceToStartEpoch

// VerifC34DisabledRound is the "no forced epoch start requested" value of nextEpochStartRound.
const VerifC34DisabledRound uint64 = disabledRoundForForceEpochStart

// VerifC34State is a snapshot of the trigger's round/epoch bookkeeping.
type VerifC34State struct {
	IsEpochStart                bool
	Epoch                       uint32
	CurrentRound                uint64
	CurrEpochStartRound         uint64
	PrevEpochStartRound         uint64
	NextEpochStartRound         uint64
	EpochFinalityAttestingRound uint64
	RoundsPerEpoch              uint64
	MinRoundsBetweenEpochs      uint64
}

// VerifC34State returns the snapshot.
func (t *trigger) VerifC34State() VerifC34State {
	t.mutTrigger.RLock()
	defer t.mutTrigger.RUnlock()
	return VerifC34State{
		IsEpochStart:                t.isEpochStart,
		Epoch:                       t.epoch,
		CurrentRound:                t.currentRound,
		CurrEpochStartRound:         t.currEpochStartRound,
		PrevEpochStartRound:         t.prevEpochStartRound,
		NextEpochStartRound:         t.nextEpochStartRound,
		EpochFinalityAttestingRound: t.epochFinalityAttestingRound,
		RoundsPerEpoch:              t.roundsPerEpoch,
		MinRoundsBetweenEpochs:      t.minRoundsBetweenEpochs,
	}
}
