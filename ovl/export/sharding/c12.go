//go:build verif

package sharding

// VerifC12ShuffleList exposes the unexported shuffleList (sha256(pubKey||randomness) sort) so
// that the C12/C14 harness can search, at start-up, seeds that realise every permutation of
// small validator lists with the *real* ordering function (no re-implementation).
func VerifC12ShuffleList(validators []Validator, randomness []byte) []Validator {
	return shuffleList(validators, randomness)
}
