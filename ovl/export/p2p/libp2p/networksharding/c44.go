//go:build verif

package networksharding

import (
	"math/big"

	"github.com/libp2p/go-libp2p-core/peer"
)

// VerifC44Distance is the distance function a listsSharder built by NewListsSharder uses
// (computeDistanceByCountingBits). The C44 harness only uses it to pick peer ids whose
// distances to the self id are pairwise different, so that the order in which the real
// sharder sorts a category never depends on ties.
func VerifC44Distance(src peer.ID, dest peer.ID) *big.Int {
	return computeDistanceByCountingBits(src, dest)
}
