//go:build verif

package libp2p

// Export file for the C33 harness (added through go build -overlay, never part of /repo).
// It only reads the unexported network message size limit.

// VerifC33MaxSendBuffSize returns maxSendBuffSize, the largest buffer the messenger accepts
// to send: (1 << 20) - messageHeader.
func VerifC33MaxSendBuffSize() int {
	return maxSendBuffSize
}
