//go:build verif

package pruning

import (
	"github.com/ElrondNetwork/elrond-go/storage"
)

// Export file for the C30 harness (added through go build -overlay, never part of /repo).
// It only *reads* unexported structure of PruningStorer / FullHistoryPruningStorer; it
// re-implements nothing, so drift in the repo package is a build error, never a wrong verdict.

// VerifC30Persister is the storer's own record about one epoch persister.
type VerifC30Persister struct {
	Epoch     uint32            // persisterData.epoch
	Path      string            // persisterData.path
	Closed    bool              // persisterData.isClosed
	Persister storage.Persister // persisterData.persister (the harness' stub handle)
}

// VerifC30View is a snapshot of the storer's own view of its epochs.
type VerifC30View struct {
	Active        []VerifC30Persister          // activePersisters, newest first
	ByEpoch       map[uint32]VerifC30Persister // persistersMapByEpoch
	EpochForPut   uint32                       // epochForPutOperation
	PrepareEpoch  uint32                       // epochPrepareHdr.Epoch
	PrepareOldest uint32                       // computeOldestEpoch(epochPrepareHdr)
	NumActive     uint32
	NumKeep       uint32
}

func verifC30Persister(pd *persisterData) VerifC30Persister {
	return VerifC30Persister{Epoch: pd.epoch, Path: pd.path, Closed: pd.getIsClosed(), Persister: pd.getPersister()}
}

// VerifC30View returns the snapshot.
func (ps *PruningStorer) VerifC30View() VerifC30View {
	ps.lock.RLock()
	defer ps.lock.RUnlock()
	v := VerifC30View{
		ByEpoch:     make(map[uint32]VerifC30Persister, len(ps.persistersMapByEpoch)),
		EpochForPut: ps.epochForPutOperation,
		NumActive:   ps.numOfActivePersisters,
		NumKeep:     ps.numOfEpochsToKeep,
	}
	for _, pd := range ps.activePersisters {
		v.Active = append(v.Active, verifC30Persister(pd))
	}
	for e, pd := range ps.persistersMapByEpoch {
		v.ByEpoch[e] = verifC30Persister(pd)
	}
	ps.mutEpochPrepareHdr.RLock()
	if ps.epochPrepareHdr != nil {
		v.PrepareEpoch = ps.epochPrepareHdr.Epoch
		v.PrepareOldest = computeOldestEpoch(ps.epochPrepareHdr)
	}
	ps.mutEpochPrepareHdr.RUnlock()
	return v
}

// VerifC30Cacher returns the storer's cache (read with Keys/Peek only).
func (ps *PruningStorer) VerifC30Cacher() storage.Cacher {
	return ps.cacher
}

// VerifC30DefaultPrepareEpoch is the marker epoch of the initial epochPrepareHdr.
const VerifC30DefaultPrepareEpoch = epochForDefaultEpochPrepareHdr

// VerifC30OldEpochs returns the keys of oldEpochsActivePersistersCache (LRU order).
func (fhps *FullHistoryPruningStorer) VerifC30OldEpochs() []string {
	keys := fhps.oldEpochsActivePersistersCache.Keys()
	res := make([]string, len(keys))
	for i, k := range keys {
		res[i] = string(k)
	}
	return res
}
