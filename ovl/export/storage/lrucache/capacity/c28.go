//go:build verif

package capacity

// Export file for the C28 harness (added through go build -overlay, never part of /repo).
// It only reads unexported structure of capacityLRU so that the harness' state key can
// include what the public API does not show (per-entry sizes, map/list agreement).

// VerifC28Entry is one entry of the eviction list.
type VerifC28Entry struct {
	Key   interface{}
	Value interface{}
	Size  int64
}

// VerifC28Entries returns the eviction list from oldest to newest, the number of map
// entries and the cache's own byte counter.
func (c *capacityLRU) VerifC28Entries() (entries []VerifC28Entry, mapLen int, currentBytes int64) {
	c.lock.Lock()
	defer c.lock.Unlock()
	for e := c.evictList.Back(); e != nil; e = e.Prev() {
		ent := e.Value.(*entry)
		entries = append(entries, VerifC28Entry{Key: ent.key, Value: ent.value, Size: ent.size})
	}
	return entries, len(c.items), c.currentCapacityInBytes
}
