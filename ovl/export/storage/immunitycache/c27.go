//go:build verif

package immunitycache

import "sort"

// Export file for the C27 harness (added through go build -overlay, never part of /repo).
// It only *reads* unexported structure of ImmunityCache / immunityChunk; it re-implements
// nothing, so drift in the repo package is a build error, never a wrong verdict.

// VerifC27Item is one item as held by a chunk (list order = eviction order, oldest first).
type VerifC27Item struct {
	Key    string
	Size   int
	Immune bool // the item's own isImmune flag
}

// VerifC27Chunk is a snapshot of one chunk.
type VerifC27Chunk struct {
	MaxNumItems                 uint32 // per-chunk values derived by getChunkConfig
	MaxNumBytes                 uint32
	NumItemsToPreemptivelyEvict uint32
	Items                       []VerifC27Item // itemsAsList, front (oldest) to back
	MapKeys                     []string       // keys of the items map, sorted
	ImmuneKeys                  []string       // immuneKeys (current and future), sorted
	NumBytes                    int            // the chunk's own byte accounting
	CapacityExceeded            bool           // the chunk's own isCapacityExceededNoLock()
}

// VerifC27ChunkIndex returns the chunk a key is stored in (real hash function).
func (ic *ImmunityCache) VerifC27ChunkIndex(key []byte) uint32 {
	return ic.getChunkIndexByKey(string(key))
}

// VerifC27Chunks returns a snapshot of every chunk.
func (ic *ImmunityCache) VerifC27Chunks() []VerifC27Chunk {
	chunks := ic.getChunksWithLock()
	res := make([]VerifC27Chunk, len(chunks))
	for i, chunk := range chunks {
		chunk.mutex.RLock()
		r := VerifC27Chunk{
			MaxNumItems:                 chunk.config.maxNumItems,
			MaxNumBytes:                 chunk.config.maxNumBytes,
			NumItemsToPreemptivelyEvict: chunk.config.numItemsToPreemptivelyEvict,
			NumBytes:                    chunk.numBytes,
			CapacityExceeded:            chunk.isCapacityExceededNoLock(),
		}
		for e := chunk.itemsAsList.Front(); e != nil; e = e.Next() {
			item := e.Value.(*cacheItem)
			r.Items = append(r.Items, VerifC27Item{Key: item.key, Size: item.size, Immune: item.isImmuneToEviction()})
		}
		for k := range chunk.items {
			r.MapKeys = append(r.MapKeys, k)
		}
		for k := range chunk.immuneKeys {
			r.ImmuneKeys = append(r.ImmuneKeys, k)
		}
		sort.Strings(r.MapKeys)
		sort.Strings(r.ImmuneKeys)
		chunk.mutex.RUnlock()
		res[i] = r
	}
	return res
}

// VerifC27ChunkConfig returns the per-chunk limits the cache derives for a configuration.
func VerifC27ChunkConfig(config CacheConfig) (maxNumItems, maxNumBytes, numItemsToPreemptivelyEvict uint32) {
	cc := config.getChunkConfig()
	return cc.maxNumItems, cc.maxNumBytes, cc.numItemsToPreemptivelyEvict
}
