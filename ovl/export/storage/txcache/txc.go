//go:build verif

package txcache

import "sort"

// Export file of the C25/C26 harness (verif/harness/txcache). It only *references*
// unexported state of the transaction pool; it contains no pool logic of its own.

// VerifSenderView is a read-only copy of one sender list.
type VerifSenderView struct {
	Sender              string
	Txs                 []*WrappedTransaction // list order (front to back)
	TotalBytes          int64                 // the list's own byte counter
	Score               uint32                // lastComputedScore
	InScoreIndex        bool                  // has a score chunk
	AccountNonce        uint64
	AccountNonceKnown   bool
	NumFailedSelections int64
	Sweepable           bool
}

// VerifSenders returns the per-sender lists held by the sender map, sorted by sender key
// (the sender map itself is enumerated through its key index, not through score chunks).
func (cache *TxCache) VerifSenders() []VerifSenderView {
	keys := cache.txListBySender.backingMap.Keys()
	sort.Strings(keys)
	views := make([]VerifSenderView, 0, len(keys))
	for _, key := range keys {
		list, ok := cache.txListBySender.getListForSender(key)
		if !ok {
			continue
		}
		view := VerifSenderView{
			Sender:              list.sender,
			TotalBytes:          list.totalBytes.Get(),
			Score:               list.getLastComputedScore(),
			InScoreIndex:        list.GetScoreChunk() != nil,
			AccountNonce:        list.accountNonce.Get(),
			AccountNonceKnown:   list.accountNonceKnown.IsSet(),
			NumFailedSelections: list.numFailedSelections.Get(),
			Sweepable:           list.sweepable.IsSet(),
		}
		for element := list.items.Front(); element != nil; element = element.Next() {
			view.Txs = append(view.Txs, element.Value.(*WrappedTransaction))
		}
		views = append(views, view)
	}
	return views
}

// VerifScoreIndexSenders returns the sender keys reachable through the score chunks
// (what selection and eviction iterate), sorted.
func (cache *TxCache) VerifScoreIndexSenders() []string {
	snapshot := cache.txListBySender.getSnapshotAscending()
	keys := make([]string, 0, len(snapshot))
	for _, list := range snapshot {
		keys = append(keys, list.sender)
	}
	sort.Strings(keys)
	return keys
}

// VerifHashIndex returns the content of the hash index.
func (cache *TxCache) VerifHashIndex() map[string]*WrappedTransaction {
	index := make(map[string]*WrappedTransaction)
	cache.txByHash.forEach(func(txHash []byte, value *WrappedTransaction) {
		index[string(txHash)] = value
	})
	return index
}

// VerifSelect is SelectTransactions with the after-selection work (sweeping, diagnose) run
// synchronously instead of in an untracked goroutine.
func (cache *TxCache) VerifSelect(numRequested int, batchSizePerSender int) []*WrappedTransaction {
	result := cache.doSelectTransactions(numRequested, batchSizePerSender)
	cache.doAfterSelection()
	return result
}

// VerifPendingSweep is the number of senders collected for sweeping and not yet swept.
func (cache *TxCache) VerifPendingSweep() int {
	cache.sweepingMutex.Lock()
	defer cache.sweepingMutex.Unlock()
	return len(cache.sweepingListOfSenders)
}

// VerifGraceBounds returns the grace period window of the failed-selections counter.
func VerifGraceBounds() (int64, int64) {
	return senderGracePeriodLowerBound, senderGracePeriodUpperBound
}
