//go:build verif

package headersCache

import (
	"fmt"
	"sort"
	"strings"
)

// VerifPool is the exported alias of the unexported pool type.
type VerifPool = headersPool

// VerifDump returns a canonical dump of the pool's three indexes without touching
// timestamps: per shard (sorted) the nonces in LRU order (oldest first) with their hashes
// in list order; the hash index sorted; the counters sorted.
func (pool *headersPool) VerifDump() (byNonce map[uint32]map[uint64][]string, lru map[uint32][]uint64, byHash map[string][2]uint64, counters map[uint32]uint64) {
	c := pool.cache
	byNonce = map[uint32]map[uint64][]string{}
	lru = map[uint32][]uint64{}
	for shard, m := range c.headersNonceCache {
		byNonce[shard] = map[uint64][]string{}
		type nt struct {
			n uint64
			t int64
		}
		var nts []nt
		for nonce, l := range m {
			hs := []string{}
			for _, it := range l.items {
				hs = append(hs, string(it.headerHash))
			}
			byNonce[shard][nonce] = hs
			nts = append(nts, nt{nonce, l.timestamp.UnixNano()})
		}
		sort.Slice(nts, func(i, j int) bool {
			if nts[i].t != nts[j].t {
				return nts[i].t < nts[j].t
			}
			return nts[i].n < nts[j].n
		})
		for _, x := range nts {
			lru[shard] = append(lru[shard], x.n)
		}
	}
	byHash = map[string][2]uint64{}
	for h, info := range c.headersByHash {
		byHash[h] = [2]uint64{uint64(info.headerShardId), info.headerNonce}
	}
	counters = map[uint32]uint64{}
	for s, n := range c.headersCounter {
		counters[s] = n
	}
	return
}

// VerifKey is a canonical string of VerifDump.
func (pool *headersPool) VerifKey() string {
	bn, lru, bh, cn := pool.VerifDump()
	var sb strings.Builder
	shards := []int{}
	for s := range bn {
		shards = append(shards, int(s))
	}
	sort.Ints(shards)
	for _, s := range shards {
		fmt.Fprintf(&sb, "S%d[", s)
		for _, n := range lru[uint32(s)] {
			fmt.Fprintf(&sb, "%d:%q,", n, bn[uint32(s)][n])
		}
		sb.WriteString("]")
	}
	hs := []string{}
	for h, v := range bh {
		hs = append(hs, fmt.Sprintf("%q=%v", h, v))
	}
	sort.Strings(hs)
	sb.WriteString(strings.Join(hs, ","))
	cs := []string{}
	for s, n := range cn {
		if n != 0 {
			cs = append(cs, fmt.Sprintf("%d=%d", s, n))
		}
	}
	sort.Strings(cs)
	sb.WriteString("|" + strings.Join(cs, ","))
	return sb.String()
}

// GetHeaderByHashNoTouch looks a hash up in both indexes without refreshing timestamps.
func (pool *headersPool) GetHeaderByHashNoTouch(hash []byte) (interface {
	GetShardID() uint32
	GetNonce() uint64
}, error) {
	info, ok := pool.cache.headersByHash.getElement(hash)
	if !ok {
		return nil, ErrHeaderNotFound
	}
	shard, ok := pool.cache.headersNonceCache[info.headerShardId]
	if !ok {
		return nil, ErrHeaderNotFound
	}
	l, ok := shard[info.headerNonce]
	if !ok {
		return nil, ErrHeaderNotFound
	}
	if h, found := l.findHeaderByHash(hash); found {
		return h, nil
	}
	return nil, ErrHeaderNotFound
}
