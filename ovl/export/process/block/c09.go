//go:build verif

package block

import (
	"github.com/ElrondNetwork/elrond-go/core"
	"github.com/ElrondNetwork/elrond-go/data"
	"github.com/ElrondNetwork/elrond-go/data/state"
)

// Export helpers of the c09 harness (C09). They call the real baseProcessor methods that
// schedule state pruning, on a base processor that carries only the fields those methods
// read (stateCheckpointModulus stays 0: no checkpoints). No repo logic is re-implemented.

// VerifC09UpdateStateStorage calls the real (unexported) baseProcessor.updateStateStorage:
// the pruning schedule executed when finalHeader became final.
func VerifC09UpdateStateStorage(
	finalHeader data.HeaderHandler,
	rootHash []byte,
	prevRootHash []byte,
	accounts state.AccountsAdapter,
	statePruningQueue core.Queue,
) {
	bp := &baseProcessor{}
	bp.updateStateStorage(finalHeader, rootHash, prevRootHash, accounts, statePruningQueue)
}

// VerifC09PruneStateOnRollback calls the real baseProcessor.PruneStateOnRollback with the
// given accounts adapter as the user-accounts state.
func VerifC09PruneStateOnRollback(accounts state.AccountsAdapter, currHeader data.HeaderHandler, prevHeader data.HeaderHandler) {
	bp := &baseProcessor{
		accountsDB: map[state.AccountsDbIdentifier]state.AccountsAdapter{state.UserAccountsState: accounts},
	}
	bp.PruneStateOnRollback(currHeader, prevHeader)
}
