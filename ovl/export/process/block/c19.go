//go:build verif

package block

import (
	"github.com/ElrondNetwork/elrond-go/data/block"
	"github.com/ElrondNetwork/elrond-go/hashing"
	"github.com/ElrondNetwork/elrond-go/marshal"
)

// VerifC19CheckHeaderBodyCorrelation calls the real (unexported)
// baseProcessor.checkHeaderBodyCorrelation on a base processor that only carries the two
// components the function uses. No repo logic is re-implemented here.
func VerifC19CheckHeaderBodyCorrelation(
	marshalizer marshal.Marshalizer,
	hasher hashing.Hasher,
	miniBlockHeaders []block.MiniBlockHeader,
	body *block.Body,
) error {
	bp := &baseProcessor{marshalizer: marshalizer, hasher: hasher}
	return bp.checkHeaderBodyCorrelation(miniBlockHeaders, body)
}
