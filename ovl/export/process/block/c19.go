//go:build verif

package block

import (
	"time"

	"github.com/ElrondNetwork/elrond-go/config"
	"github.com/ElrondNetwork/elrond-go/core"
	"github.com/ElrondNetwork/elrond-go/data"
	"github.com/ElrondNetwork/elrond-go/data/block"
	"github.com/ElrondNetwork/elrond-go/data/state"
	"github.com/ElrondNetwork/elrond-go/hashing"
	"github.com/ElrondNetwork/elrond-go/marshal"
	"github.com/ElrondNetwork/elrond-go/process"
	"github.com/ElrondNetwork/elrond-go/process/block/bootstrapStorage"
	"github.com/ElrondNetwork/elrond-go/process/mock"
	"github.com/ElrondNetwork/elrond-go/testscommon"
	"github.com/ElrondNetwork/elrond-go/testscommon/dblookupext"
)

// VerifC19CheckHeaderBodyCorrelation calls the real (unexported)
// baseProcessor.checkHeaderBodyCorrelation on a base processor that only carries the two
// components the function uses. No repo logic is re-implemented here.
func VerifC19CheckHeaderBodyCorrelation(
	marshalizer marshal.Marshalizer,
	hasher hashing.Hasher,
	miniBlockHeaders []block.MiniBlockHeader,
	body *block.Body,
) error {
	bp := &baseProcessor{marshalizer: marshalizer, hasher: hasher}
	return bp.checkHeaderBodyCorrelation(miniBlockHeaders, body)
}

// verifC19BaseArgs builds the collaborators of a block processor from the repository's own
// stubs (process/mock, testscommon), the way the package's tests do (createMockComponentHolders
// / CreateMockArguments / createMockMetaArguments), with the given marshalizer and hasher.
// Every collaborator accepts everything, so the header/body correlation check is the only
// stage of ProcessBlock that ties the body to the header's miniblock list.
func verifC19BaseArgs(marshalizer marshal.Marshalizer, hasher hashing.Hasher) ArgBaseProcessor {
	coreComponents := &mock.CoreComponentsMock{
		IntMarsh:            marshalizer,
		Hash:                hasher,
		UInt64ByteSliceConv: &mock.Uint64ByteSliceConverterMock{},
		StatusField:         &mock.AppStatusHandlerStub{},
		RoundField:          &mock.RoundHandlerMock{RoundTimeDuration: time.Second},
	}
	dataComponents := &mock.DataComponentsMock{
		Storage:  &mock.ChainStorerMock{},
		DataPool: testscommon.NewPoolsHolderMock(),
		BlockChain: &mock.BlockChainMock{GetGenesisHeaderCalled: func() data.HeaderHandler {
			return &block.Header{Nonce: 0}
		}},
	}
	bootstrapComponents := &mock.BootstrapComponentsMock{
		Coordinator:          mock.NewOneShardCoordinatorMock(),
		HdrIntegrityVerifier: &mock.HeaderIntegrityVerifierStub{},
	}
	statusComponents := &mock.StatusComponentsMock{
		Indexer:      &mock.IndexerMock{},
		TPSBenchmark: &testscommon.TpsBenchmarkMock{},
	}
	headerValidator, _ := NewHeaderValidator(ArgsHeaderValidator{Hasher: hasher, Marshalizer: marshalizer})

	rootHash := []byte("roothash")
	startHeaders := map[uint32]data.HeaderHandler{
		0: &block.Header{Signature: rootHash, RandSeed: rootHash, PrevRandSeed: rootHash,
			PubKeysBitmap: rootHash, RootHash: rootHash, PrevHash: rootHash},
		core.MetachainShardId: &block.MetaBlock{Signature: rootHash, RandSeed: rootHash, PrevRandSeed: rootHash,
			PubKeysBitmap: rootHash, RootHash: rootHash, PrevHash: rootHash},
	}
	accountsDb := make(map[state.AccountsDbIdentifier]state.AccountsAdapter)
	accountsDb[state.UserAccountsState] = &testscommon.AccountsStub{
		CommitCalled: func() ([]byte, error) { return nil, nil },
	}
	accountsDb[state.PeerAccountsState] = &testscommon.AccountsStub{
		CommitCalled: func() ([]byte, error) { return nil, nil },
	}

	return ArgBaseProcessor{
		CoreComponents:      coreComponents,
		DataComponents:      dataComponents,
		BootstrapComponents: bootstrapComponents,
		StatusComponents:    statusComponents,
		Config:              config.Config{},
		AccountsDB:          accountsDb,
		ForkDetector:        &mock.ForkDetectorMock{},
		NodesCoordinator:    mock.NewNodesCoordinatorMock(),
		FeeHandler:          &mock.FeeAccumulatorStub{},
		RequestHandler:      &testscommon.RequestHandlerStub{},
		BlockChainHook:      &mock.BlockChainHookHandlerMock{},
		TxCoordinator:       &mock.TransactionCoordinatorMock{},
		EpochStartTrigger:   &mock.EpochStartTriggerStub{},
		HeaderValidator:     headerValidator,
		BootStorer: &mock.BoostrapStorerMock{
			PutCalled: func(round int64, bootData bootstrapStorage.BootstrapData) error { return nil },
		},
		BlockTracker:       mock.NewBlockTrackerMock(bootstrapComponents.ShardCoordinator(), startHeaders),
		BlockSizeThrottler: &mock.BlockSizeThrottlerStub{},
		Version:            "softwareVersion",
		HistoryRepository:  &dblookupext.HistoryRepositoryStub{},
		EpochNotifier:      &mock.EpochNotifierStub{},
	}
}

// VerifC19NewShardProcessor builds a shard block processor through the real NewShardProcessor.
func VerifC19NewShardProcessor(marshalizer marshal.Marshalizer, hasher hashing.Hasher) (process.BlockProcessor, error) {
	sp, err := NewShardProcessor(ArgShardProcessor{ArgBaseProcessor: verifC19BaseArgs(marshalizer, hasher)})
	if err != nil {
		return nil, err
	}
	return sp, nil
}

// VerifC19NewMetaProcessor builds a metachain block processor through the real NewMetaProcessor.
func VerifC19NewMetaProcessor(marshalizer marshal.Marshalizer, hasher hashing.Hasher) (process.BlockProcessor, error) {
	mp, err := NewMetaProcessor(ArgMetaProcessor{
		ArgBaseProcessor:             verifC19BaseArgs(marshalizer, hasher),
		SCToProtocol:                 &mock.SCToProtocolStub{},
		PendingMiniBlocksHandler:     &mock.PendingMiniBlocksHandlerStub{},
		EpochStartDataCreator:        &mock.EpochStartDataCreatorStub{},
		EpochEconomics:               &mock.EpochEconomicsStub{},
		EpochRewardsCreator:          &mock.EpochRewardsCreatorStub{},
		EpochValidatorInfoCreator:    &mock.EpochValidatorInfoCreatorStub{},
		ValidatorStatisticsProcessor: &mock.ValidatorStatisticsProcessorStub{},
		EpochSystemSCProcessor:       &mock.EpochStartSystemSCStub{},
	})
	if err != nil {
		return nil, err
	}
	return mp, nil
}
