//go:build verif

package floodPreventers

import "github.com/ElrondNetwork/elrond-go/core"

// VerifC42State is a read-only copy of the preventer's unexported accounting state, used by
// the C42 harness only as (a) the canonical BFS state key and (b) the source of the quotas
// "in force" (the statement does not define how a consensus size maps to a quota, so the
// message quota is whatever the preventer currently holds). No repo logic is re-implemented.
type VerifC42State struct {
	ComputedMaxNumMessagesPerPeer uint32
	BaseMaxNumMessagesPerPeer     uint32
	MaxTotalSizePerPeer           uint64
	PercentReserved               float32
}

// VerifC42Quota is a copy of one peer's quota record.
type VerifC42Quota struct {
	Present               bool
	NumReceivedMessages   uint32
	NumProcessedMessages  uint32
	SizeReceivedMessages  uint64
	SizeProcessedMessages uint64
}

// VerifC42State returns the limits currently held by the preventer.
func (qfp *quotaFloodPreventer) VerifC42State() VerifC42State {
	qfp.mutOperation.RLock()
	defer qfp.mutOperation.RUnlock()
	return VerifC42State{
		ComputedMaxNumMessagesPerPeer: qfp.computedMaxNumMessagesPerPeer,
		BaseMaxNumMessagesPerPeer:     qfp.baseMaxNumMessagesPerPeer,
		MaxTotalSizePerPeer:           qfp.maxTotalSizePerPeer,
		PercentReserved:               qfp.percentReserved,
	}
}

// VerifC42Quota returns the quota record kept for pid (Peek: no recency update).
func (qfp *quotaFloodPreventer) VerifC42Quota(pid core.PeerID) VerifC42Quota {
	qfp.mutOperation.RLock()
	defer qfp.mutOperation.RUnlock()
	v, ok := qfp.cacher.Peek(pid.Bytes())
	if !ok {
		return VerifC42Quota{}
	}
	q, isQuota := v.(*quota)
	if !isQuota {
		return VerifC42Quota{}
	}
	return VerifC42Quota{
		Present:               true,
		NumReceivedMessages:   q.numReceivedMessages,
		NumProcessedMessages:  q.numProcessedMessages,
		SizeReceivedMessages:  q.sizeReceivedMessages,
		SizeProcessedMessages: q.sizeProcessedMessages,
	}
}
