//go:build verif

package sync

import "github.com/ElrondNetwork/elrond-go/process"

// Export file for the C20 harness (added through go build -overlay, never part of /repo).
// It only reads unexported structure of baseForkDetector (embedded in the shard and meta
// fork detectors) so that the harness' state key contains everything that influences the
// detector's future, including the arrival order inside the per-nonce header lists.

// VerifC20HeaderInfo is one stored header record.
type VerifC20HeaderInfo struct {
	Epoch uint32
	Nonce uint64
	Round uint64
	Hash  []byte
	State process.BlockHeaderState
}

// VerifC20Checkpoint is one checkpoint.
type VerifC20Checkpoint struct {
	Nonce uint64
	Round uint64
	Hash  []byte
}

// VerifC20State is a snapshot of the detector.
type VerifC20State struct {
	Headers                 map[uint64][]VerifC20HeaderInfo // per nonce, in stored (arrival) order
	Checkpoints             []VerifC20Checkpoint
	Final                   VerifC20Checkpoint
	Last                    VerifC20Checkpoint // lastCheckpoint() (genesis when the list is empty)
	ProbableHighestNonce    uint64
	HighestNonceReceived    uint64
	RollBackNonce           uint64
	LastRoundWithForcedFork int64
}

// VerifC20State returns the snapshot.
func (bfd *baseForkDetector) VerifC20State() VerifC20State {
	var st VerifC20State
	bfd.mutHeaders.RLock()
	st.Headers = make(map[uint64][]VerifC20HeaderInfo, len(bfd.headers))
	for nonce, infos := range bfd.headers {
		l := make([]VerifC20HeaderInfo, 0, len(infos))
		for _, hi := range infos {
			l = append(l, VerifC20HeaderInfo{Epoch: hi.epoch, Nonce: hi.nonce, Round: hi.round, Hash: hi.hash, State: hi.state})
		}
		st.Headers[nonce] = l
	}
	bfd.mutHeaders.RUnlock()

	last := bfd.lastCheckpoint()
	st.Last = VerifC20Checkpoint{Nonce: last.nonce, Round: last.round, Hash: last.hash}

	bfd.mutFork.RLock()
	for _, cp := range bfd.fork.checkpoint {
		st.Checkpoints = append(st.Checkpoints, VerifC20Checkpoint{Nonce: cp.nonce, Round: cp.round, Hash: cp.hash})
	}
	if bfd.fork.finalCheckpoint != nil {
		fc := bfd.fork.finalCheckpoint
		st.Final = VerifC20Checkpoint{Nonce: fc.nonce, Round: fc.round, Hash: fc.hash}
	}
	st.ProbableHighestNonce = bfd.fork.probableHighestNonce
	st.HighestNonceReceived = bfd.fork.highestNonceReceived
	st.RollBackNonce = bfd.fork.rollBackNonce
	st.LastRoundWithForcedFork = bfd.fork.lastRoundWithForcedFork
	bfd.mutFork.RUnlock()
	return st
}
