//go:build verif

package systemSmartContracts

// Export file of the syssc harness (C38 delegation bookkeeping, C39 staking queue and
// counters). It only binds unexported storage-key constants and fund-type constants of the
// system smart contracts, so the harness decodes contract storage with the contracts' own
// names (drift in /repo is a build error). No contract logic is re-implemented here; the
// record types (WaitingList, ElementInList, StakedDataV2_0, StakingNodesConfig,
// GlobalFundData, DelegatorData, Fund, ...) are the exported protobuf types of the package.

// VerifSysscKeys are the storage keys / key prefixes the harness oracles read.
type VerifSysscKeys struct {
	// staking contract
	NodesConfig          string
	WaitingListHead      string
	WaitingElementPrefix string
	// delegation contract
	Owner            string
	GlobalFund       string
	FundPrefix       string
	LastFund         string
	ServiceFee       string
	TotalActive      string
	DelegationStatus string
	DelegationConfig string
	RewardPrefix     string
	// delegation manager
	DelegationManagement string
}

// VerifSysscStorageKeys returns the contracts' storage-key constants.
func VerifSysscStorageKeys() VerifSysscKeys {
	return VerifSysscKeys{
		NodesConfig:          nodesConfigKey,
		WaitingListHead:      waitingListHeadKey,
		WaitingElementPrefix: waitingElementPrefix,
		Owner:                ownerKey,
		GlobalFund:           globalFundKey,
		FundPrefix:           fundKeyPrefix,
		LastFund:             lastFundKey,
		ServiceFee:           serviceFeeKey,
		TotalActive:          totalActiveKey,
		DelegationStatus:     delegationStatusKey,
		DelegationConfig:     delegationConfigKey,
		RewardPrefix:         rewardKeyPrefix,
		DelegationManagement: delegationManagementKey,
	}
}

// VerifSysscFundTypes returns the Fund.Type values of an active and of an unstaked fund.
func VerifSysscFundTypes() (activeType uint32, unStakedType uint32) {
	return active, unStaked
}

// VerifSysscRewardKey is the storage key of the delegation contract's reward record of an epoch.
func VerifSysscRewardKey(epoch uint32) []byte { return rewardKeyForEpoch(epoch) }
