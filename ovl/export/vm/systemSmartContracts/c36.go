//go:build verif

package systemSmartContracts

import (
	"github.com/ElrondNetwork/elrond-go/marshal"
	"github.com/ElrondNetwork/elrond-go/vm"
)

// Export file of the C36 harness (percentage splits). It only binds unexported
// identifiers of the delegation contract; no contract logic is re-implemented here.

// VerifC36OwnerKey is the storage key under which the delegation contract keeps its owner.
func VerifC36OwnerKey() []byte { return []byte(ownerKey) }

// VerifC36RewardKey is the storage key of the reward computation data of an epoch.
func VerifC36RewardKey(epoch uint32) []byte { return rewardKeyForEpoch(epoch) }

// VerifC36ComputeAndUpdateRewards runs the real delegation.computeAndUpdateRewards on a
// contract value that has exactly the fields that function reads (eei, marshalizer,
// maxServiceFee, stakingV2 flag).
func VerifC36ComputeAndUpdateRewards(eei vm.SystemEI, m marshal.Marshalizer, maxServiceFee uint64,
	stakingV2 bool, caller []byte, delegator *DelegatorData) error {
	d := &delegation{eei: eei, marshalizer: m, maxServiceFee: maxServiceFee}
	d.stakingV2Enabled.Toggle(stakingV2)
	return d.computeAndUpdateRewards(caller, delegator)
}
