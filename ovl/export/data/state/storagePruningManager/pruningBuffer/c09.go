//go:build verif

package pruningBuffer

// VerifC09Content returns a copy of the buffered requests without removing them
// (read-only helper of the c09 harness; the interface only offers the destructive RemoveAll).
func VerifC09Content(b interface{}) [][]byte {
	pb := b.(*pruningBuffer)
	pb.mutOp.RLock()
	defer pb.mutOp.RUnlock()
	r := make([][]byte, len(pb.buffer))
	for i, e := range pb.buffer {
		r[i] = append([]byte{}, e...)
	}
	return r
}
