//go:build verif

package storagePruningManager

import "github.com/ElrondNetwork/elrond-go/data/state"

// VerifC09PruningBuffer returns the pruning buffer held by a storage pruning manager
// (read-only helper of the c09 harness).
func VerifC09PruningBuffer(m interface{}) state.AtomicBuffer {
	return m.(*storagePruningManager).pruningBuffer
}
