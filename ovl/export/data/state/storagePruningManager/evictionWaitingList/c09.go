//go:build verif

package evictionWaitingList

import "github.com/ElrondNetwork/elrond-go/data"

// VerifC09Cache returns a copy of the in-memory part of an eviction waiting list
// (key = root||identifier; a nil/empty value means "the hashes are in the backing DB").
// Read-only helper of the c09 harness (state-matching key and counters only).
func VerifC09Cache(l interface{}) map[string]data.ModifiedHashes {
	ewl := l.(*evictionWaitingList)
	ewl.opMutex.RLock()
	defer ewl.opMutex.RUnlock()
	r := make(map[string]data.ModifiedHashes, len(ewl.cache))
	for k, v := range ewl.cache {
		if v == nil {
			r[k] = nil
			continue
		}
		r[k] = v.Clone()
	}
	return r
}
