//go:build verif

package state

// Export helpers for the adb / c08 harnesses (C06, C07, C08). They only read unexported
// fields of AccountsDB and of the journal entry types (so drift is a build error); no repo
// logic is re-implemented here.

import (
	"encoding/hex"
	"fmt"
	"sort"
	"strings"

	"github.com/ElrondNetwork/elrond-go/data"
)

// VerifMainTrie returns the main trie currently used by the accounts DB (it is replaced by
// RevertToSnapshot(0) / RecreateTrie, so a handle kept by the harness would go stale).
func VerifMainTrie(adb *AccountsDB) data.Trie {
	adb.mutOp.Lock()
	defer adb.mutOp.Unlock()
	return adb.mainTrie
}

// VerifLastRootHash returns adb.lastRootHash (root of the last Commit).
func VerifLastRootHash(adb *AccountsDB) []byte {
	adb.mutOp.Lock()
	defer adb.mutOp.Unlock()
	return adb.lastRootHash
}

// VerifLoadedDataTries returns the content of adb.dataTries (address -> loaded data trie).
func VerifLoadedDataTries(adb *AccountsDB) map[string]data.Trie {
	adb.mutOp.Lock()
	defer adb.mutOp.Unlock()
	return adb.dataTries.(*dataTriesHolder).GetAllTries()
}

// VerifRestoreLoadedDataTries puts back a content of adb.dataTries obtained earlier from
// VerifLoadedDataTries (through the holder's own Reset/Put). The harness uses it to undo the
// caching side effect of its read-only observation.
func VerifRestoreLoadedDataTries(adb *AccountsDB, tries map[string]data.Trie) {
	adb.mutOp.Lock()
	defer adb.mutOp.Unlock()
	adb.dataTries.Reset()
	for k, t := range tries {
		adb.dataTries.Put([]byte(k), t)
	}
}

// VerifObsoleteRoots returns the sorted keys of adb.obsoleteDataTrieHashes (hex).
func VerifObsoleteRoots(adb *AccountsDB) []string {
	adb.mutOp.Lock()
	defer adb.mutOp.Unlock()
	r := make([]string, 0, len(adb.obsoleteDataTrieHashes))
	for k := range adb.obsoleteDataTrieHashes {
		r = append(r, hex.EncodeToString([]byte(k)))
	}
	sort.Strings(r)
	return r
}

// VerifJournalKinds returns the kind of every journal entry from index `from` on.
func VerifJournalKinds(adb *AccountsDB, from int) []string {
	adb.mutOp.Lock()
	defer adb.mutOp.Unlock()
	r := []string{}
	for i := from; i >= 0 && i < len(adb.entries); i++ {
		switch adb.entries[i].(type) {
		case *journalEntryAccount:
			r = append(r, "account")
		case *journalEntryAccountCreation:
			r = append(r, "creation")
		case *journalEntryCode:
			r = append(r, "code")
		case *journalEntryDataTrieUpdates:
			r = append(r, "dataTrieUpdates")
		case *journalEntryDataTrieRemove:
			r = append(r, "dataTrieRemove")
		default:
			r = append(r, fmt.Sprintf("%T", adb.entries[i]))
		}
	}
	return r
}

// VerifJournalDescribe serialises the undo information of every journal entry from index
// `from` on (canonical text; used only inside the state-matching key of the search).
func VerifJournalDescribe(adb *AccountsDB, from int) []string {
	adb.mutOp.Lock()
	defer adb.mutOp.Unlock()
	hx := hex.EncodeToString
	r := []string{}
	for i := from; i >= 0 && i < len(adb.entries); i++ {
		switch e := adb.entries[i].(type) {
		case *journalEntryAccount:
			b, err := adb.marshalizer.Marshal(e.account)
			r = append(r, fmt.Sprintf("account{%s %v}", hx(b), err))
		case *journalEntryAccountCreation:
			r = append(r, fmt.Sprintf("creation{%s}", hx(e.address)))
		case *journalEntryCode:
			old := "nil"
			if e.oldCodeEntry != nil {
				old = fmt.Sprintf("%s#%d", hx(e.oldCodeEntry.Code), e.oldCodeEntry.NumReferences)
			}
			r = append(r, fmt.Sprintf("code{%s -> %s old=%s}", hx(e.oldCodeHash), hx(e.newCodeHash), old))
		case *journalEntryDataTrieUpdates:
			keys := make([]string, 0, len(e.trieUpdates))
			for k := range e.trieUpdates {
				keys = append(keys, k)
			}
			sort.Strings(keys)
			var sb strings.Builder
			for _, k := range keys {
				fmt.Fprintf(&sb, "%s=%s,", hx([]byte(k)), hx(e.trieUpdates[k]))
			}
			b, err := adb.marshalizer.Marshal(e.account)
			held := adb.dataTries.Get(e.account.AddressBytes())
			trieRoot := "nil"
			if e.account.DataTrie() != nil {
				rh, _ := e.account.DataTrie().RootHash()
				trieRoot = hx(rh)
			}
			r = append(r, fmt.Sprintf("dataTrieUpdates{%s acc=%s %v trie=%s sameAsHeld=%v}", sb.String(), hx(b), err, trieRoot, held == e.account.DataTrie()))
		case *journalEntryDataTrieRemove:
			r = append(r, fmt.Sprintf("dataTrieRemove{%s}", hx(e.rootHash)))
		default:
			r = append(r, fmt.Sprintf("%T", adb.entries[i]))
		}
	}
	return r
}
