//go:build verif

package trie

// Export file of the C05 harness (trie synchronisation). It only writes one configuration
// field of the real syncers and forwards to the real node decoder; no trie or sync logic is
// re-implemented here.

import (
	"time"

	"github.com/ElrondNetwork/elrond-go/hashing"
	"github.com/ElrondNetwork/elrond-go/marshal"
)

// VerifC05SetWait sets the pause between two iterations of the StartSyncing loop of a real
// syncer (trieSyncer.waitTimeBetweenRequests / doubleListTrieSyncer.waitTimeBetweenChecks).
// Under the virtual time shim the value is never slept; the harness uses it as the identity
// of the execution that called time.After (executions run in parallel, the hook is global).
func VerifC05SetWait(s interface{}, d time.Duration) bool {
	switch x := s.(type) {
	case *trieSyncer:
		x.waitTimeBetweenRequests = d
		return true
	case *doubleListTrieSyncer:
		x.waitTimeBetweenChecks = d
		return true
	}
	return false
}

// VerifC05Children decodes one stored trie node with the real decodeNode and returns its
// kind (the type byte) and the hashes of its children as stored in the node (extension:
// EncodedChild, branch: the non-empty EncodedChildren in slot order, leaf: none). Used by the
// oracle to walk the target DB from the root independently of the syncer.
func VerifC05Children(enc []byte, m marshal.Marshalizer, h hashing.Hasher) (kind int, children [][]byte, err error) {
	n, err := decodeNode(enc, m, h)
	if err != nil {
		return -1, nil, err
	}
	switch x := n.(type) {
	case *extensionNode:
		return extension, [][]byte{x.EncodedChild}, nil
	case *leafNode:
		return leaf, nil, nil
	case *branchNode:
		for i := range x.EncodedChildren {
			if len(x.EncodedChildren[i]) != 0 {
				children = append(children, x.EncodedChildren[i])
			}
		}
		return branch, children, nil
	}
	return -1, nil, ErrInvalidNode
}
