//go:build verif

package trie

import "github.com/ElrondNetwork/elrond-go/data"

// VerifC10SnapshotDBs returns the snapshot databases of a trie storage manager (oldest first).
func VerifC10SnapshotDBs(sm data.StorageManager) []data.DBWriteCacher {
	tsm, ok := sm.(*trieStorageManager)
	if !ok {
		return nil
	}
	var out []data.DBWriteCacher
	for _, s := range tsm.snapshots {
		out = append(out, s)
	}
	return out
}

// VerifC10PruningBlockingOps returns the number of operations currently blocking pruning.
func VerifC10PruningBlockingOps(sm data.StorageManager) uint32 {
	tsm, ok := sm.(*trieStorageManager)
	if !ok {
		return 0
	}
	return tsm.pruningBlockingOps
}
