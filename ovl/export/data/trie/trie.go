//go:build verif

package trie

// Export file of the `trie` harness (C01-C04). It only *reads* unexported fields of the
// real trie nodes and forwards to unexported functions; it re-implements no trie logic.

import (
	"fmt"
	"strings"

	"github.com/ElrondNetwork/elrond-go/hashing"
	"github.com/ElrondNetwork/elrond-go/marshal"
)

// VerifTrieFingerprint returns the structural fingerprint of the in-memory part of a trie
// (a *patriciaMerkleTrie, possibly behind the data.Trie interface): per node its kind,
// dirty flag, whether a hash is cached, its key nibbles, and per child slot whether it is
// empty, collapsed (only the hash is held) or resolved (and whether a child hash is held in
// addition). Nothing is resolved, hashed or otherwise touched. "-" = nil root.
// Not included (does not influence Get/Update/Delete/Commit/RootHash/Recreate/leaves):
// oldHashes/oldRoot (pruning bookkeeping) and the leaf values (held in the reference map).
func VerifTrieFingerprint(t interface{}) string {
	tr, ok := t.(*patriciaMerkleTrie)
	if !ok || tr == nil {
		return "?"
	}
	var sb strings.Builder
	verifTrieFP(tr.root, &sb)
	return sb.String()
}

func verifTrieFlags(b *baseNode, sb *strings.Builder) {
	if b == nil {
		sb.WriteString("!")
		return
	}
	if b.dirty {
		sb.WriteByte('d')
	} else {
		sb.WriteByte('c')
	}
	switch {
	case b.hash == nil:
		sb.WriteByte('-')
	case len(b.hash) == 0:
		sb.WriteByte('0')
	default:
		sb.WriteByte('h')
	}
}

func verifTrieNibbles(k []byte, sb *strings.Builder) {
	const digits = "0123456789abcdefT"
	for _, n := range k {
		if int(n) < len(digits) {
			sb.WriteByte(digits[n])
		} else {
			sb.WriteByte('?')
		}
	}
}

func verifTrieFP(n node, sb *strings.Builder) {
	switch x := n.(type) {
	case nil:
		sb.WriteByte('-')
	case *leafNode:
		if x == nil {
			sb.WriteString("L!")
			return
		}
		sb.WriteByte('L')
		verifTrieFlags(x.baseNode, sb)
		verifTrieNibbles(x.Key, sb)
		sb.WriteByte(';')
	case *extensionNode:
		if x == nil {
			sb.WriteString("E!")
			return
		}
		sb.WriteByte('E')
		verifTrieFlags(x.baseNode, sb)
		verifTrieNibbles(x.Key, sb)
		sb.WriteByte('(')
		if len(x.EncodedChild) != 0 {
			sb.WriteByte('e')
		}
		if x.child == nil {
			sb.WriteByte('~') // collapsed (or empty when no 'e')
		} else {
			verifTrieFP(x.child, sb)
		}
		sb.WriteByte(')')
	case *branchNode:
		if x == nil {
			sb.WriteString("B!")
			return
		}
		sb.WriteByte('B')
		verifTrieFlags(x.baseNode, sb)
		fmt.Fprintf(sb, "%d[", len(x.EncodedChildren))
		for i := range x.children {
			enc := i < len(x.EncodedChildren) && len(x.EncodedChildren[i]) != 0
			if x.children[i] == nil {
				if enc {
					fmt.Fprintf(sb, "%x~", i) // collapsed child
				}
				continue
			}
			fmt.Fprintf(sb, "%x", i)
			if enc {
				sb.WriteByte('e')
			}
			sb.WriteByte(':')
			verifTrieFP(x.children[i], sb)
		}
		sb.WriteByte(']')
	default:
		sb.WriteString("?")
	}
}

// VerifTrieNodeSpan decodes one encoded trie node with the real decodeNode and returns its
// kind ("extension", "leaf", "branch") and the number of key nibbles it consumes on a
// lookup path (extension: len(Key), branch: 1, leaf: len(Key)). Used by the C04 harness only
// to *classify* an already established violation (which node kind the probe key diverges in).
func VerifTrieNodeSpan(enc []byte, m marshal.Marshalizer, h hashing.Hasher) (kind string, span int, err error) {
	n, err := decodeNode(enc, m, h)
	if err != nil {
		return "", 0, err
	}
	switch x := n.(type) {
	case *extensionNode:
		return "extension", len(x.Key), nil
	case *leafNode:
		return "leaf", len(x.Key), nil
	case *branchNode:
		return "branch", 1, nil
	}
	return "?", 0, nil
}

// VerifTrieKeyToHex forwards to the real keyBytesToHex (reversed nibbles + terminator).
func VerifTrieKeyToHex(k []byte) []byte { return keyBytesToHex(k) }
