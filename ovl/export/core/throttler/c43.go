//go:build verif

package throttler

import realatomic "sync/atomic"

// VerifCounter reads the throttler's counter without a scheduling point.
func (ngrt *NumGoRoutinesThrottler) VerifCounter() int32 {
	return realatomic.LoadInt32(&ngrt.counter)
}

// VerifMax returns the configured maximum.
func (ngrt *NumGoRoutinesThrottler) VerifMax() int32 { return ngrt.max }
