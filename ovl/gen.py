#!/usr/bin/env python3
"""Overlay generator (see gen.sh). Output: /verif/.cache/ovl/overlay.json."""
import json, os, re, sys, hashlib

VERIF = "/verif"
REPO = os.environ.get("VERIF_REPO", "/repo")
OUT = os.environ.get("VERIF_OVL", os.path.join(VERIF, ".cache", "ovl"))
GEN = os.path.join(OUT, "gen")
os.makedirs(GEN, exist_ok=True)
replace = {}

# 1. export files
exp_root = os.path.join(VERIF, "ovl", "export")
for d, _, files in os.walk(exp_root):
    for f in files:
        if not f.endswith(".go"):
            continue
        rel = os.path.relpath(d, exp_root)
        pkgdir = os.path.join(REPO, rel)
        if not os.path.isdir(pkgdir):
            print("overlay: package dir missing in /repo:", rel, file=sys.stderr)
            sys.exit(1)
        replace[os.path.join(pkgdir, "verifx_" + f)] = os.path.join(d, f)

# 2. import shims: lines "<pkg path> <import>=<shim import> ..."
SHIMS = {
    "sync": 'sync "verif/engine/shim/vsync"',
    "sync/atomic": 'atomic "verif/engine/shim/vatomic"',
    "time": 'time "verif/engine/shim/vtime"',
}
def apply_shims(rel, which, rep, tag=""):
    pkgdir = os.path.join(REPO, rel)
    for f in sorted(os.listdir(pkgdir)):
        if not f.endswith(".go") or f.endswith("_test.go"):
            continue
        target = os.path.join(pkgdir, f)
        src = open(rep.get(target, target)).read()
        new = src
        for w in which:
            imp, _, only = w.partition("@")
            if only and only != f:
                continue
            # single-line form: import "sync"
            pat1 = re.compile(r'^import\s+(?:[A-Za-z_][A-Za-z0-9_]*\s+)?"' + re.escape(imp) + r'"\s*$', re.M)
            new = pat1.sub(lambda m: "import " + SHIMS[imp], new)
            # inside an import block
            pat = re.compile(r'^(\s+)(?:[A-Za-z_][A-Za-z0-9_]*\s+)?"' + re.escape(imp) + r'"\s*$', re.M)
            new = pat.sub(lambda m: m.group(1) + SHIMS[imp], new)
        if new != src:
            dst = os.path.join(GEN, tag + rel.replace("/", "__") + "__" + f)
            old = open(dst).read() if os.path.exists(dst) else None
            if old != new:
                open(dst, "w").write(new)
            rep[target] = dst

shim_file = os.path.join(VERIF, "ovl", "shims.txt")
if os.path.exists(shim_file):
    for line in open(shim_file):
        line = line.split("#")[0].strip()
        if not line:
            continue
        parts = line.split()
        apply_shims(parts[0], parts[1:], replace)

def write_overlay(name, rep):
    ov = json.dumps({"Replace": rep}, indent=1, sort_keys=True)
    p = os.path.join(OUT, name)
    if not os.path.exists(p) or open(p).read() != ov:
        open(p, "w").write(ov)

write_overlay("overlay.json", replace)

# 3. profiles: /verif/ovl/profiles/<name>.txt with lines "maprange <pkg path>" give
#    (optionally followed by file names) give overlay-<name>.json = base overlay + every
#    non-test file (or only the named files) of the package rewritten by
#    engine/cmd/maprange (map iteration order becomes an explorable choice, see engine/vmap).
import subprocess
prof_dir = os.path.join(VERIF, "ovl", "profiles")
tool = os.path.join(VERIF, ".cache", "bin", "maprange")
if os.path.isdir(prof_dir):
    for pf in sorted(os.listdir(prof_dir)):
        if not pf.endswith(".txt"):
            continue
        rep = dict(replace)
        for line in open(os.path.join(prof_dir, pf)):
            line = line.split("#")[0].strip()
            if not line:
                continue
            kind, rel = line.split()[:2]
            only = line.split()[2:]  # optional file filter
            if kind == "shim":
                # shim <pkg path> <import>[@file.go] ...: import shims for this profile only
                apply_shims(rel, line.split()[2:], rep, "ps__" + pf[:-4] + "__")
                continue
            if kind == "gostmt":
                # gostmt <repo file> [daemon substrings...]: every go statement of the file
                # becomes vsched.Go / vsched.GoDaemon (engine/cmd/gostmt, AST rewrite)
                target = os.path.join(REPO, rel)
                cur = rep.get(target, target)
                dst = os.path.join(GEN, "gs__" + pf[:-4] + "__" + rel.replace("/", "__"))
                tmp = dst + ".tmp"
                r = subprocess.run([os.path.join(VERIF, ".cache", "bin", "gostmt"), cur, tmp] + line.split()[2:], capture_output=True, text=True)
                if r.returncode != 0 or r.stdout.strip() == "0":
                    print("overlay: gostmt failed or found no go statement in", rel, r.stderr, file=sys.stderr)
                    sys.exit(1)
                if not os.path.exists(dst) or open(dst).read() != open(tmp).read():
                    os.replace(tmp, dst)
                else:
                    os.remove(tmp)
                rep[target] = dst
                continue
            if kind == "subst":
                # subst <repo file> <subst spec under /verif/ovl/subst/>: exact-text
                # substitutions (each must match exactly once, else the build is refused)
                target = os.path.join(REPO, rel)
                spec = open(os.path.join(VERIF, "ovl", "subst", line.split()[2])).read()
                cur = rep.get(target, target)
                text = open(cur).read()
                blocks = [b for b in spec.split("\n@@\n") if b.strip()]
                for b in blocks:
                    if "\n==\n" not in b:
                        continue
                    old, new = b.split("\n==\n", 1)
                    old = old.lstrip("@").lstrip("\n") if old.startswith("@@") else old
                    if text.count(old) != 1:
                        print("overlay: subst pattern matches %d times in %s:\n%s" % (text.count(old), rel, old), file=sys.stderr)
                        sys.exit(1)
                    text = text.replace(old, new)
                dst = os.path.join(GEN, "sb__" + pf[:-4] + "__" + rel.replace("/", "__"))
                if not os.path.exists(dst) or open(dst).read() != text:
                    open(dst, "w").write(text)
                rep[target] = dst
                continue
            if kind != "maprange":
                print("overlay: unknown profile directive", kind, file=sys.stderr)
                sys.exit(1)
            pkgdir = os.path.join(REPO, rel)
            for f in sorted(os.listdir(pkgdir)):
                if not f.endswith(".go") or f.endswith("_test.go"):
                    continue
                if only and f not in only:
                    continue
                src = rep.get(os.path.join(pkgdir, f), os.path.join(pkgdir, f))
                dst = os.path.join(GEN, "mr__" + rel.replace("/", "__") + "__" + f)
                tmp = dst + ".tmp"
                r = subprocess.run([tool, src, tmp, rel + "/" + f], capture_output=True, text=True)
                if r.returncode != 0:
                    print("overlay: maprange failed on", src, r.stderr, file=sys.stderr)
                    sys.exit(1)
                if r.stdout.strip() == "0":
                    os.remove(tmp)
                    continue
                if not os.path.exists(dst) or open(dst).read() != open(tmp).read():
                    os.replace(tmp, dst)
                else:
                    os.remove(tmp)
                rep[os.path.join(pkgdir, f)] = dst
        write_overlay("overlay-" + pf[:-4] + ".json", rep)
