#!/bin/bash
# Generates /verif/.cache/ovl/overlay.json from /repo's current working tree:
#  - export files: /verif/ovl/export/<pkg path>/<name>.go are added to /repo/<pkg path>/ as
#    verifx_<name>.go (build tag verif); they reference unexported identifiers, so drift in
#    /repo is a build error, never a wrong verdict;
#  - import shims: packages listed in /verif/ovl/shims.txt get their files copied with
#    "sync"/"sync/atomic"/"time" imports rewritten to the verif shim packages.
set -eu
cd /verif
if [ -d ovl/profiles ] && { [ ! -x .cache/bin/maprange ] || [ engine/cmd/maprange/main.go -nt .cache/bin/maprange ]; }; then
  mkdir -p .cache/bin
  GOFLAGS=-mod=mod GOPROXY=off GOSUMDB=off GOTOOLCHAIN=local go build -o .cache/bin/maprange ./engine/cmd/maprange
fi
if [ -d ovl/profiles ] && { [ ! -x .cache/bin/gostmt ] || [ engine/cmd/gostmt/main.go -nt .cache/bin/gostmt ]; }; then
  GOFLAGS=-mod=mod GOPROXY=off GOSUMDB=off GOTOOLCHAIN=local go build -o .cache/bin/gostmt ./engine/cmd/gostmt
fi
exec python3 ovl/gen.py
