// C20 — fork choice is stable and respects finality.
//
// Statement: unless a rollback was explicitly requested or consensus is stuck, the fork
// detector never reports a fork at or below the highest final block nonce. The fork it
// selects for a nonce does not depend on the order in which competing headers were received.
//
// Seam: the real process/sync.NewShardForkDetector and NewMetaForkDetector with
//   - a stub round handler whose Index() is a harness-controlled counter and whose
//     TimeDuration() is a constant (no wall clock anywhere: header time stamps are
//     genesisTime + round*duration, so computeGenesisTimeFromHeader always matches),
//   - a stub black-list cacher (never contains anything, forgets what is added),
//   - a stub block tracker (genesis header nonce 0 / round 0; for the shard detector it
//     captures the ReceivedSelfNotarizedFromCrossHeaders handler the detector registers and
//     the harness fires it).
//
// An export file (ovl/export/process/sync/c20.go) reads the detector's unexported structure
// (per-nonce header lists in stored order, checkpoints, final checkpoint, scalars).
//
// Explicit-state BFS (mc.BFS). Every BFS transition instance is a replay of the history on
// a fresh detector and is thrown away after its check, and the state key is taken before the
// oracle calls CheckFork, so the call's side effect (it resets the rollback nonce) never leaks
// into an explored state ("CheckFork evaluated on a replayed copy").
//
// Oracles
//
//	P1 (finality) in every reached state: F = CheckFork(); if no rollback request is pending
//	   (rollBackNonce == MaxUint64, i.e. none since the last CheckFork event) and consensus is
//	   not stuck (recomputed by the harness from the stub round index and the detector's
//	   checkpoint/probable-nonce/forced-fork-round values, not by calling isConsensusStuck)
//	   then F.IsDetected => F.Nonce > GetHighestFinalBlockNonce().
//	P2 (arrival order): the state key contains the arrival order of the stored records, so
//	   states that differ only in that order are all explored. (a) All reached states whose
//	   content is equal up to the order of the Received/ReceivedTooLate records inside the
//	   per-nonce lists must give the same (IsDetected, Nonce, Hash, Round). (b) For every
//	   explored history ending in two different Received events e1 e2 (same round, nothing in
//	   between) the twin history with e2 e1 is replayed as well: it must give the same
//	   CheckFork result and the same content up to that order (so that (a) also relates the
//	   futures of both orders).
package main

import (
	"bytes"
	"encoding/json"
	"fmt"
	"math"
	"sort"
	"strconv"
	"strings"
	gosync "sync"
	"time"

	logger "github.com/ElrondNetwork/elrond-go-logger"
	"github.com/ElrondNetwork/elrond-go/core"
	"github.com/ElrondNetwork/elrond-go/data"
	"github.com/ElrondNetwork/elrond-go/data/block"
	"github.com/ElrondNetwork/elrond-go/process"
	"github.com/ElrondNetwork/elrond-go/process/mock"
	"github.com/ElrondNetwork/elrond-go/process/sync"
	"verif/engine/mc"
)

const (
	sigFinal   = "C20:fork-reported-at-or-below-highest-final-nonce"
	sigOrder   = "C20:fork-choice-depends-on-arrival-order-of-received-headers"
	sigContent = "C20:stored-records-depend-on-arrival-order-of-received-headers"
	sigCtor    = "C20:constructor-failed"
)

const (
	genesisTime  = int64(1600000000)
	roundSeconds = 6
	jumpRound    = 15 // proper round (multiple of RoundModulusTrigger) more than MaxRoundsWithoutCommittedBlock after any header round
)

// ---- stubs

type roundStub struct{ index *int64 }

func (r *roundStub) Index() int64                { return *r.index }
func (r *roundStub) BeforeGenesis() bool         { return false }
func (r *roundStub) UpdateRound(_, _ time.Time)  {}
func (r *roundStub) TimeStamp() time.Time        { return time.Unix(genesisTime+*r.index*roundSeconds, 0) }
func (r *roundStub) TimeDuration() time.Duration { return roundSeconds * time.Second }
func (r *roundStub) IsInterfaceNil() bool        { return r == nil }
func (r *roundStub) RemainingTime(_ time.Time, _ time.Duration) time.Duration {
	return 0
}

// trackerStub implements the two BlockTracker methods the fork detectors use; any other
// method would panic on the nil embedded interface (drift detector).
type trackerStub struct {
	process.BlockTracker
	genesis data.HeaderHandler
	handler func(shardID uint32, headers []data.HeaderHandler, headersHashes [][]byte)
}

func (t *trackerStub) GetSelfNotarizedHeader(_ uint32, _ uint64) (data.HeaderHandler, []byte, error) {
	return t.genesis, []byte("genesis"), nil
}
func (t *trackerStub) RegisterSelfNotarizedFromCrossHeadersHandler(h func(shardID uint32, headers []data.HeaderHandler, headersHashes [][]byte)) {
	t.handler = h
}
func (t *trackerStub) IsInterfaceNil() bool { return t == nil }

// detector is the part of the (unexported) shard/meta fork detector types the harness uses.
type detector interface {
	AddHeader(header data.HeaderHandler, headerHash []byte, state process.BlockHeaderState, selfNotarizedHeaders []data.HeaderHandler, selfNotarizedHeadersHashes [][]byte) error
	RemoveHeader(nonce uint64, hash []byte)
	CheckFork() *process.ForkInfo
	GetHighestFinalBlockNonce() uint64
	ResetFork()
	SetRollBackNonce(nonce uint64)
	VerifC20State() sync.VerifC20State
}

// ---- alphabet

type ident struct {
	nonce uint64
	round uint64
	epoch uint32
	hash  []byte
	name  string
}

type opKind int

const (
	kRecv opKind = iota
	kProc
	kNotar
	kRemove
	kResetFork
	kSetRollBack
	kCheckFork
	kRoundInc
	kRoundJump
)

type op struct {
	kind  opKind
	id    int    // identity (kRecv, kProc, kNotar, kRemove)
	notar int    // kProc on the shard detector: identity handed over as self-notarized header, -1 none
	arg   uint64 // kSetRollBack
}

type system struct {
	idx        int
	meta       bool
	idents     []ident
	ops        []op
	menu       []string
	startRound int64
	maxRound   int64
}

func (y *system) name() string {
	if y.meta {
		return "meta"
	}
	return "shard"
}

// newSystem builds the alphabet. Per nonce n the identities are the product
// round {n, n+1} x variant {a,b} (two competing hashes with equal round) [x epoch {0,1} when
// fullEpochs, else one extra identity with epoch 1 at round n+1]. Hashes are one distinctive
// byte chosen so that hash order is not aligned with enumeration order.
func newSystem(idx int, meta bool, nonces int, fullEpochs bool, startRound int64) *system {
	y := &system{idx: idx, meta: meta, startRound: startRound, maxRound: int64(nonces) + 3}
	hashByte := []byte{0x70, 0x30, 0x50, 0x10, 0x60, 0x20, 0x40, 0x80}
	for n := uint64(1); n <= uint64(nonces); n++ {
		type shape struct {
			dr uint64
			ep uint32
			v  string
		}
		var shapes []shape
		if fullEpochs {
			for _, ep := range []uint32{0, 1} {
				for _, dr := range []uint64{0, 1} {
					for _, v := range []string{"a", "b"} {
						shapes = append(shapes, shape{dr, ep, v})
					}
				}
			}
		} else {
			// the epoch-1 identity has the higher round, so that it is selected only because
			// lower-epoch competitors are disregarded (the epoch rule is decisive)
			shapes = []shape{{0, 0, "a"}, {0, 0, "b"}, {1, 0, "a"}, {1, 1, "b"}}
		}
		for k, sh := range shapes {
			id := ident{nonce: n, round: n + sh.dr, epoch: sh.ep, hash: []byte{byte(n), hashByte[k]}}
			id.name = fmt.Sprintf("n%d.r%d.e%d.%s#%02x", id.nonce, id.round, id.epoch, sh.v, hashByte[k])
			y.idents = append(y.idents, id)
		}
	}
	add := func(o op, name string) {
		y.ops = append(y.ops, o)
		y.menu = append(y.menu, name)
	}
	for i, id := range y.idents {
		add(op{kind: kRecv, id: i, notar: -1}, "AddHeader("+id.name+",Received)")
	}
	for i, id := range y.idents {
		add(op{kind: kProc, id: i, notar: -1}, "AddHeader("+id.name+",Processed)")
		if !meta && id.nonce >= 2 {
			// the processed shard block carries meta blocks that notarize a shard header of
			// the previous nonce: the first two identities of that nonce (equal round, competing hashes)
			cnt := 0
			for j, jd := range y.idents {
				if jd.nonce == id.nonce-1 && jd.round == jd.nonce && jd.epoch == 0 && cnt < 2 {
					cnt++
					add(op{kind: kProc, id: i, notar: j}, "AddHeader("+id.name+",Processed,selfNotarized=["+jd.name+"])")
				}
			}
		}
	}
	if !meta {
		for n := uint64(1); n <= uint64(nonces); n++ {
			cnt := 0
			for j, jd := range y.idents {
				if jd.nonce == n && jd.round == n && jd.epoch == 0 && cnt < 2 {
					cnt++
					add(op{kind: kNotar, id: j, notar: -1}, "ReceivedSelfNotarizedFromCrossHeaders(meta,["+jd.name+"])")
				}
			}
		}
	}
	for i, id := range y.idents {
		add(op{kind: kRemove, id: i, notar: -1}, "RemoveHeader("+id.name+")")
	}
	add(op{kind: kResetFork, notar: -1}, "ResetFork()")
	add(op{kind: kSetRollBack, arg: 1, notar: -1}, "SetRollBackNonce(1)")
	add(op{kind: kCheckFork, notar: -1}, "CheckFork()")
	add(op{kind: kRoundInc, notar: -1}, "round+1")
	add(op{kind: kRoundJump, notar: -1}, fmt.Sprintf("round=%d", jumpRound))
	if len(y.menu) > 255 {
		panic("menu too large for mc.BFS")
	}
	return y
}

// ---- state

type fres struct {
	det   bool
	nonce uint64
	round uint64
	hash  string
}

func (f fres) String() string {
	if !f.det {
		return "no fork"
	}
	n := strconv.FormatUint(f.nonce, 10)
	if f.nonce == math.MaxUint64 {
		n = "max"
	}
	r := strconv.FormatUint(f.round, 10)
	if f.round == math.MaxUint64 {
		r = "max"
	}
	return fmt.Sprintf("fork{nonce %s hash %s round %s}", n, f.hash, r)
}

type state struct {
	y       *system
	d       detector
	round   *int64
	tracker *trackerStub
	hist    []uint8

	snap    *sync.VerifC20State // cache for enabled()
	key     string
	ck      string
	multi   bool // some nonce holds >= 2 Received/ReceivedTooLate records
	f       fres
	exempt  string
	nt      string
	checked bool
}

func (y *system) init() *state {
	r := y.startRound
	s := &state{y: y, round: &r}
	rs := &roundStub{index: s.round}
	bl := &mock.BlackListHandlerStub{}
	var err error
	if y.meta {
		s.tracker = &trackerStub{genesis: &block.MetaBlock{}}
		s.d, err = sync.NewMetaForkDetector(rs, bl, s.tracker, genesisTime)
	} else {
		s.tracker = &trackerStub{genesis: &block.Header{}}
		s.d, err = sync.NewShardForkDetector(rs, bl, s.tracker, genesisTime)
	}
	if err != nil {
		panic("constructor: " + err.Error())
	}
	return s
}

func (y *system) header(id ident) data.HeaderHandler {
	ts := uint64(genesisTime) + id.round*roundSeconds
	if y.meta {
		return &block.MetaBlock{Nonce: id.nonce, Round: id.round, Epoch: id.epoch, TimeStamp: ts, PrevHash: []byte("prev")}
	}
	return &block.Header{Nonce: id.nonce, Round: id.round, Epoch: id.epoch, TimeStamp: ts, PrevHash: []byte("prev")}
}

func isRecv(st process.BlockHeaderState) bool {
	return st == process.BHReceived || st == process.BHReceivedTooLate
}

// tip = highest nonce the node has a block for, as far as the detector's records show.
func tipOf(v *sync.VerifC20State) uint64 {
	tip := v.Final.Nonce
	for n, l := range v.Headers {
		for _, hi := range l {
			if hi.State == process.BHProcessed && n > tip {
				tip = n
			}
		}
	}
	return tip
}

func (s *state) enabled(o int) bool {
	if s.snap == nil {
		v := s.d.VerifC20State()
		s.snap = &v
	}
	v := s.snap
	p := s.y.ops[o]
	switch p.kind {
	case kProc:
		// blocks are processed in chain order: only on top of the current tip
		return s.y.idents[p.id].nonce == tipOf(v)+1
	case kRemove:
		id := s.y.idents[p.id]
		present, processed := false, false
		for _, hi := range v.Headers[id.nonce] {
			if hi.State != process.BHNotarized && bytes.Equal(hi.Hash, id.hash) {
				present = true
				if hi.State == process.BHProcessed {
					processed = true
				}
			}
		}
		if !present {
			return false
		}
		if processed {
			// a processed block is only rolled back from the tip and never at/below the final nonce
			return id.nonce == tipOf(v) && id.nonce > v.Final.Nonce
		}
		return true
	case kRoundInc:
		return *s.round < s.y.maxRound || *s.round == jumpRound
	case kRoundJump:
		return *s.round < jumpRound
	}
	return true
}

// apply performs the operation on the real detector only.
func (s *state) apply(o int) {
	y := s.y
	p := y.ops[o]
	s.snap = nil
	switch p.kind {
	case kRecv:
		id := y.idents[p.id]
		_ = s.d.AddHeader(y.header(id), id.hash, process.BHReceived, nil, nil)
	case kProc:
		id := y.idents[p.id]
		var nh []data.HeaderHandler
		var nhh [][]byte
		if p.notar >= 0 {
			jd := y.idents[p.notar]
			nh, nhh = []data.HeaderHandler{y.header(jd)}, [][]byte{jd.hash}
		}
		// the block processor logs and ignores the error
		_ = s.d.AddHeader(y.header(id), id.hash, process.BHProcessed, nh, nhh)
	case kNotar:
		jd := y.idents[p.id]
		s.tracker.handler(core.MetachainShardId, []data.HeaderHandler{y.header(jd)}, [][]byte{jd.hash})
	case kRemove:
		id := y.idents[p.id]
		s.d.RemoveHeader(id.nonce, id.hash)
	case kResetFork:
		s.d.ResetFork()
	case kSetRollBack:
		s.d.SetRollBackNonce(p.arg)
	case kCheckFork:
		_ = s.d.CheckFork()
	case kRoundInc:
		*s.round++
	case kRoundJump:
		*s.round = jumpRound
	}
}

func (s *state) do(o int) (string, string) {
	s.apply(o)
	s.hist = append(s.hist, uint8(o))
	return "", ""
}

func appendInfo(b []byte, hi sync.VerifC20HeaderInfo) []byte {
	b = strconv.AppendUint(b, uint64(hi.Epoch), 10)
	b = append(b, ',')
	b = strconv.AppendUint(b, hi.Round, 10)
	b = append(b, ',')
	b = append(b, mc.Hex(hi.Hash)...)
	b = append(b, ',')
	b = strconv.AppendInt(b, int64(hi.State), 10)
	return append(b, ';')
}

func appendCp(b []byte, cp sync.VerifC20Checkpoint) []byte {
	b = strconv.AppendUint(b, cp.Nonce, 10)
	b = append(b, ',')
	b = strconv.AppendUint(b, cp.Round, 10)
	b = append(b, ',')
	b = append(b, mc.Hex(cp.Hash)...)
	return append(b, ';')
}

// keys returns the full state key (arrival order included) and the order-free key (the
// Received/ReceivedTooLate records of each list sorted into the slots they occupy).
func (s *state) keys(v *sync.VerifC20State) (key, ck string, multi bool) {
	nonces := make([]uint64, 0, len(v.Headers))
	for n := range v.Headers {
		nonces = append(nonces, n)
	}
	sort.Slice(nonces, func(i, j int) bool { return nonces[i] < nonces[j] })
	tail := make([]byte, 0, 128)
	tail = append(tail, '|')
	for _, cp := range v.Checkpoints {
		tail = appendCp(tail, cp)
	}
	tail = append(tail, '|')
	tail = appendCp(tail, v.Final)
	tail = append(tail, '|')
	for _, x := range []uint64{v.ProbableHighestNonce, v.HighestNonceReceived, v.RollBackNonce, uint64(v.LastRoundWithForcedFork), uint64(*s.round)} {
		tail = strconv.AppendUint(tail, x, 10)
		tail = append(tail, ' ')
	}
	kb := make([]byte, 0, 256)
	cb := make([]byte, 0, 256)
	for _, n := range nonces {
		l := v.Headers[n]
		kb = strconv.AppendUint(kb, n, 10)
		kb = append(kb, ':')
		cb = strconv.AppendUint(cb, n, 10)
		cb = append(cb, ':')
		var recv []string
		for _, hi := range l {
			kb = appendInfo(kb, hi)
			if isRecv(hi.State) {
				recv = append(recv, string(appendInfo(nil, hi)))
			}
		}
		if len(recv) >= 2 {
			multi = true
		}
		sort.Strings(recv)
		k := 0
		for _, hi := range l {
			if isRecv(hi.State) {
				cb = append(cb, recv[k]...)
				k++
			} else {
				cb = appendInfo(cb, hi)
			}
		}
		kb = append(kb, ' ')
		cb = append(cb, ' ')
	}
	return string(append(kb, tail...)), string(append(cb, tail...)), multi
}

func toFres(fi *process.ForkInfo) fres {
	return fres{det: fi.IsDetected, nonce: fi.Nonce, round: fi.Round, hash: mc.Hex(fi.Hash)}
}

// evaluate takes the keys, then (destructively, on this throwaway instance) the CheckFork result.
func (s *state) evaluate() (final uint64, v sync.VerifC20State) {
	v = s.d.VerifC20State()
	s.key, s.ck, s.multi = s.keys(&v)
	final = s.d.GetHighestFinalBlockNonce()
	s.f = toFres(s.d.CheckFork())
	s.checked = true
	return final, v
}

func (s *state) names() []string {
	r := make([]string, len(s.hist))
	for i, o := range s.hist {
		r[i] = s.y.menu[o]
	}
	return r
}

type orderRec struct {
	f    fres
	hist []uint8
}

// orderTable: order-free key -> distinct CheckFork results seen (smallest history for each).
type orderTable struct {
	mu gosync.Mutex
	m  map[[2]uint64][]orderRec
}

func lessHist(a, b []uint8) bool {
	if len(a) != len(b) {
		return len(a) < len(b)
	}
	return bytes.Compare(a, b) < 0
}

func (t *orderTable) record(ck string, f fres, hist []uint8) {
	h := hash128(ck)
	t.mu.Lock()
	defer t.mu.Unlock()
	l := t.m[h]
	for i := range l {
		if l[i].f == f {
			if lessHist(hist, l[i].hist) {
				l[i].hist = append([]uint8{}, hist...)
			}
			return
		}
	}
	t.m[h] = append(l, orderRec{f: f, hist: append([]uint8{}, hist...)})
}

func hash128(s string) [2]uint64 {
	// two independent FNV-1a style 64-bit hashes
	h1, h2 := uint64(14695981039346656037), uint64(0x9e3779b97f4a7c15)
	for i := 0; i < len(s); i++ {
		h1 = (h1 ^ uint64(s[i])) * 1099511628211
		h2 = (h2 + uint64(s[i]) + 1) * 0xff51afd7ed558ccd
		h2 ^= h2 >> 29
	}
	return [2]uint64{h1, h2}
}

func (s *state) check(c *mc.Ctx, tab *orderTable) (string, string) {
	y := s.y
	final, v := s.evaluate()
	idx := *s.round
	rollbackPending := v.RollBackNonce != math.MaxUint64
	syncing := int64(v.ProbableHighestNonce)-int64(v.Last.Nonce) > process.NonceDifferenceWhenSynced
	stuck := v.LastRoundWithForcedFork != idx && !syncing &&
		idx-int64(v.Last.Round) > process.MaxRoundsWithoutCommittedBlock && process.IsInProperRound(idx)
	s.exempt = ""
	switch {
	case stuck:
		s.exempt = "stuck"
	case rollbackPending:
		s.exempt = "rollback"
	}
	if s.exempt == "" && s.f.det && s.f.nonce <= final {
		return sigFinal, fmt.Sprintf("%s detector: CheckFork() = %v while GetHighestFinalBlockNonce() = %d; no rollback request pending, consensus not stuck (round index %d, last checkpoint round %d)",
			y.name(), s.f, final, idx, v.Last.Round)
	}
	// non-triviality: a processed header with >= 1 competitor at the same nonce
	s.nt = ""
	for n, l := range v.Headers {
		proc, comp := false, 0
		states := map[process.BlockHeaderState]bool{}
		for _, hi := range l {
			if hi.State == process.BHProcessed {
				proc = true
			} else {
				comp++
				states[hi.State] = true
			}
		}
		if proc && comp > 0 {
			var ss []int
			for st := range states {
				ss = append(ss, int(st))
			}
			sort.Ints(ss)
			k := fmt.Sprintf("%s|n%d|c%d|%v|final>=n:%v|%v", y.name(), n, comp, ss, final >= n, s.f.det)
			if s.nt == "" || k < s.nt {
				s.nt = k
			}
		}
	}
	// P2 (a)
	if s.multi {
		tab.record(s.ck, s.f, s.hist)
		c.Count("states_with_2+_received_records_at_a_nonce", 1)
	}
	// P2 (b): twin with the last two Received events swapped
	if n := len(s.hist); n >= 2 {
		o1, o2 := int(s.hist[n-2]), int(s.hist[n-1])
		if o1 != o2 && y.ops[o1].kind == kRecv && y.ops[o2].kind == kRecv {
			t := y.init()
			for _, o := range s.hist[:n-2] {
				t.do(int(o))
			}
			t.do(o2)
			t.do(o1)
			t.evaluate()
			c.Count("adjacent_received_pairs_swapped", 1)
			if t.f != s.f {
				return sigOrder, fmt.Sprintf("%s detector: after %v CheckFork() = %v, but with the last two Received events swapped CheckFork() = %v",
					y.name(), s.names(), s.f, t.f)
			}
			if t.ck != s.ck {
				return sigContent, fmt.Sprintf("%s detector: after %v the stored records (order of received records ignored) differ from those after the same history with the last two Received events swapped: %q vs %q",
					y.name(), s.names(), s.ck, t.ck)
			}
		}
	}
	return "", ""
}

func (s *state) outcome() string {
	return fmt.Sprintf("%s|%v|%v|%s", s.y.name(), s.f.det, s.f.det && s.f.nonce != math.MaxUint64, s.exempt)
}

// ---- main

type plan struct {
	meta       bool
	nonces     int
	fullEpochs bool
	depth      int
}

func main() {
	_ = logger.SetLogLevel("*:NONE")
	mc.Main("C20", "model_checking", func(c *mc.Ctx) {
		var plans []plan
		if c.Quick() {
			plans = []plan{{true, 2, false, 5}, {false, 2, false, 4}}
		} else {
			plans = []plan{{true, 3, false, 6}, {false, 3, false, 5}, {true, 2, true, 5}, {false, 2, true, 4}}
		}
		var systems []*system
		var desc []string
		for _, p := range plans {
			y := newSystem(len(systems), p.meta, p.nonces, p.fullEpochs, 2)
			systems = append(systems, y)
			desc = append(desc, fmt.Sprintf("%s detector, nonces 1..%d, %d header identities, %d operations, depth %d", y.name(), p.nonces, len(y.idents), len(y.menu), p.depth))
		}
		c.Rule = "explicit-state BFS with state matching (arrival order of stored records is part of the state) over all sequences of: AddHeader(h,Received), AddHeader(h,Processed[,one self-notarized header of the previous nonce; shard]) for h on top of the current tip, " +
			"ReceivedSelfNotarizedFromCrossHeaders(meta,[h]) (shard), RemoveHeader(h) for stored h (a processed one only from the tip and above the final nonce), ResetFork, SetRollBackNonce(1), CheckFork, round+1, round=15 (consensus-stuck territory); " +
			"header identities per nonce n: rounds {n,n+1} x two competing hashes, epochs {0,1} (full product in the 16-identity systems; otherwise (n,a,e0) (n,b,e0) (n+1,a,e0) (n+1,b,e1)); round index starts at 2; systems: " + strings.Join(desc, "; ") +
			"; non-trivial = a reached state holding a processed header and >= 1 competing record at the same nonce (distinguished by detector, nonce, number and states of competitors, nonce final or not, fork detected or not)"
		c.Assumptions = []string{
			"no wall clock: round index is a harness counter, round duration constant, header time stamps = genesis time + round*duration (genesis-time check always passes), black list always empty",
			"'rollback explicitly requested' = SetRollBackNonce called and not yet consumed by a CheckFork event (rollBackNonce != MaxUint64); 'consensus stuck' recomputed by the harness: lastRoundWithForcedFork != index, probableHighestNonce - lastCheckpoint.nonce <= 0, index - lastCheckpoint.round > 10, index % 5 == 0",
			"'highest final block nonce' = GetHighestFinalBlockNonce() at the moment of the check",
			"caller discipline: headers are processed in chain order (nonce = tip+1, tip = max(final nonce, highest nonce with a Processed record)); a Processed record is removed only from the tip and only above the final nonce (baseBootstrap.rollBack refuses otherwise); AddHeader errors are ignored as the callers do",
			"order independence is judged on the CheckFork result (IsDetected, Nonce, Hash, Round) between states whose stored records are equal up to the order of Received/ReceivedTooLate records (same classification, same scalars), and directly between each history ending in two Received events and its swapped twin",
			"BHProposed headers, RestoreToGenesis, SetFinalToLastCheckpoint, ResetProbableHighestNonce (except through ResetFork) and black-listed headers are not driven",
		}
		if len(c.ReplayData) > 0 {
			replay(c, systems)
			return
		}
		var bounds []string
		for i, y := range systems {
			y := y
			if perr := mc.Try(func() { y.init() }); perr != "" {
				c.Violation(sigCtor, y.name()+": "+perr, nil)
				continue
			}
			tab := &orderTable{m: map[[2]uint64][]orderRec{}}
			st := mc.BFS(c, mc.Sys[*state]{
				Init:    y.init,
				Menu:    y.menu,
				Enabled: func(s *state, o int) bool { return s.enabled(o) },
				Do:      func(s *state, o int) (string, string) { return s.do(o) },
				Check: func(s *state) (string, string) {
					if len(s.hist) == 0 {
						s.evaluate()
						return "", ""
					}
					return s.check(c, tab)
				},
				Key: func(s *state) string {
					if !s.checked {
						s.evaluate()
					}
					return s.key
				},
				Nontrivial: func(s *state) string { return s.nt },
				Outcome:    func(s *state) string { return s.outcome() },
			}, plans[i].depth)
			// P2 (a): deterministic post-pass over the order table
			var bad [][]orderRec
			for _, l := range tab.m {
				if len(l) > 1 {
					sort.Slice(l, func(i, j int) bool { return lessHist(l[i].hist, l[j].hist) })
					bad = append(bad, l)
				}
			}
			sort.Slice(bad, func(i, j int) bool { return lessHist(bad[i][0].hist, bad[j][0].hist) })
			for _, l := range bad {
				nm := func(h []uint8) []string {
					r := make([]string, len(h))
					for i, o := range h {
						r[i] = y.menu[o]
					}
					return r
				}
				c.Violation(sigOrder, map[string]interface{}{
					"what":      fmt.Sprintf("%s detector: two reached states with the same stored records up to the order of the received records give different CheckFork results: %v vs %v", y.name(), l[0].f, l[1].f),
					"history":   nm(l[0].hist),
					"history_2": nm(l[1].hist),
				}, nm(l[0].hist))
			}
			c.Set(fmt.Sprintf("order_classes %s", desc[i]), len(tab.m))
			c.Set(fmt.Sprintf("states %s", desc[i]), st.States)
			fp := ""
			if st.Fixpoint {
				fp = " (fixpoint)"
			}
			bounds = append(bounds, fmt.Sprintf("%s: all histories of length <= %d%s", desc[i], st.Depth, fp))
		}
		c.Bound = strings.Join(bounds, "; ")
	})
}

func replay(c *mc.Ctx, systems []*system) {
	var names []string
	if err := json.Unmarshal(c.ReplayData, &names); err != nil {
		c.Fatal("replay data is not a list of operation names: %v", err)
	}
	for _, y := range systems {
		var ops []int
		for _, n := range names {
			for i, m := range y.menu {
				if m == n {
					ops = append(ops, i)
				}
			}
		}
		if len(ops) != len(names) {
			continue
		}
		c.Eval(1)
		tab := &orderTable{m: map[[2]uint64][]orderRec{}}
		perr := mc.Try(func() {
			for k := 1; k <= len(ops); k++ {
				s := y.init()
				for _, o := range ops[:k] {
					s.do(o)
				}
				if sig, det := s.check(c, tab); sig != "" {
					c.Violation(sig, map[string]interface{}{"history": names[:k], "what": det}, names[:k])
					return
				}
			}
		})
		if perr != "" {
			c.Violation("panic", map[string]interface{}{"history": names, "what": strings.TrimSpace(perr)}, names)
		}
	}
}
