// C27 — cross-shard pool cache (storage/immunitycache) never evicts immune items, keeps its
// per-chunk limits (immune items excepted) and keeps admitting once full.
//
// Explicit-state BFS (mc.BFS) on the real ImmunityCache, one search per configuration, over
// EVERY configuration of a value box that the real CacheConfig.Verify accepts.
//
// Reading of the statement fixed here (see also c.Assumptions):
//
//	(i)   "Items marked immune are never evicted": a key for which ImmunizeKeys reported
//	      success (numNow+numFuture > 0; the capacity guard answers 0,0 when it refuses) is
//	      marked until Remove(key) or Clear. While marked and present it must stay present
//	      after every other operation.
//	(ii)  "never holds more items or bytes per chunk than configured, except for immune
//	      items": per chunk, after every operation, the items actually held that are not
//	      marked immune number <= the per-chunk item limit and sum to <= the per-chunk byte
//	      limit, the limits being the values the cache itself derives (getChunkConfig),
//	      compared literally; those derived values must not exceed the chunk's share of the
//	      configured global limit, max(1, ceil(limit/NumChunks)).
//	(iii) "once full, still admits new items by evicting older non-immune ones": HasOrAdd of a
//	      key that is not present must return added==true unless the target chunk is at
//	      capacity, holds at least one item and all its items are marked immune (nothing
//	      evictable). In particular an empty chunk and a chunk below capacity must admit.
//
// Nothing else is judged (results of HasOrAdd on a present key, eviction order, hospitality
// counter, NumBytes accounting).
package main

import (
	"encoding/json"
	"fmt"
	"sort"
	"strconv"
	"strings"
	"sync"

	logger "github.com/ElrondNetwork/elrond-go-logger"
	"github.com/ElrondNetwork/elrond-go/storage/immunitycache"
	"verif/engine/mc"
)

// configuration value box; every combination is offered to the real constructor and the
// ones it accepts (CacheConfig.Verify) are searched.
var (
	boxChunks = []uint32{0, 1, 2, 3, 5}
	boxItems  = []uint32{3, 4, 5, 6, 7}
	boxBytes  = []uint32{3, 4, 10, 11, 20}
	boxEvict  = []uint32{0, 1, 2, 3}
)

var sizes = []int{1, 3, 6}

const (
	keysHome  = 8 // keys colliding in chunk 0
	keysOther = 2 // keys in chunk 1 (when NumChunks >= 2)
)

// signatures, one per clause / case
const (
	sigImmuneLost    = "C27:(i)-immune-item-evicted"
	sigItemsOver     = "C27:(ii)-items-over-chunk-limit"
	sigBytesOver     = "C27:(ii)-bytes-over-chunk-limit"
	sigShare         = "C27:(ii)-per-chunk-limit-exceeds-configured-share"
	sigBytesLastItem = "C27:(ii)-bytes-overshoot-less-than-last-admitted-item"
	sigEmptyRefuses  = "C27:(iii)-empty-chunk-refuses-fresh-item"
	sigBelowRefuses  = "C27:(iii)-chunk-below-capacity-refuses-fresh-item"
	sigFullRefuses   = "C27:(iii)-full-chunk-with-evictable-item-refuses-fresh-item"
)

const (
	opAdd = iota
	opImm
	opRem
	opClear
)

type op struct {
	kind int
	k1   int // key index
	k2   int // second key of an immunize pair, -1 otherwise
	size int
}

// pool is the key pool for one chunk count (found with the real hash at start-up).
type pool struct {
	keys  [][]byte
	chunk []int          // chunk index of each key
	index map[string]int // key string -> key number (read-only after construction)
}

type system struct {
	cfgIdx int
	cfg    immunitycache.CacheConfig
	l, b   int // per-chunk limits as derived by the cache itself
	e      int
	pool   *pool
	menu   []string
	ops    []op
}

// state = real cache + the reference bookkeeping.
type state struct {
	sys *system
	ic  *immunitycache.ImmunityCache

	marked    []bool // API-level: key marked immune (now or for the future)
	present   []bool // as observed through Has after the last operation
	size      []int  // size the present item was admitted with
	lastAdded []int  // per chunk: key index of the last admitted item, -1 = none
	hist      []uint8

	last lastStep // facts about the last step (Nontrivial / Outcome), formatted lazily

	snap []immunitycache.VerifC27Chunk // lazily cached snapshot of the implementation
	der  *derived
}

type lastStep struct {
	kind                         int
	fresh, atCap, has, added     bool
	evicted, immuneKept          int
	nKeys, numNow, numFuture     int
	wasPresent, refused, fullAdd bool
}

func (s *state) outcome() string {
	l := &s.last
	switch l.kind {
	case opAdd:
		return fmt.Sprintf("add fresh=%v atCap=%v has=%v added=%v evicted=%d", l.fresh, l.atCap, l.has, l.added, l.evicted)
	case opImm:
		return fmt.Sprintf("imm n=%d now=%d future=%d", l.nKeys, l.numNow, l.numFuture)
	case opRem:
		return fmt.Sprintf("rem present=%v", l.wasPresent)
	}
	return "clear"
}

func (s *state) nontrivial() string {
	l := &s.last
	if l.kind == opAdd && l.fullAdd {
		return fmt.Sprintf("%d|full-chunk-add|added=%v|evicted=%d|immuneKept=%d", s.sys.cfgIdx, l.added, l.evicted, l.immuneKept)
	}
	if l.kind == opImm && l.refused {
		return fmt.Sprintf("%d|immunize-refused", s.sys.cfgIdx)
	}
	return ""
}

func (s *state) snapshot() []immunitycache.VerifC27Chunk {
	if s.snap == nil {
		s.snap = s.ic.VerifC27Chunks()
	}
	return s.snap
}

func cfgString(c immunitycache.CacheConfig) string {
	return fmt.Sprintf("{NumChunks:%d MaxNumItems:%d MaxNumBytes:%d NumItemsToPreemptivelyEvict:%d}",
		c.NumChunks, c.MaxNumItems, c.MaxNumBytes, c.NumItemsToPreemptivelyEvict)
}

func (y *system) describe() string {
	return fmt.Sprintf("config %s -> per-chunk {items:%d bytes:%d evictStep:%d}", cfgString(y.cfg), y.l, y.b, y.e)
}

func buildPool(numChunks uint32) (*pool, error) {
	probe, err := immunitycache.NewImmunityCache(immunitycache.CacheConfig{Name: "probe", NumChunks: numChunks, MaxNumItems: 4, MaxNumBytes: 4, NumItemsToPreemptivelyEvict: 1})
	if err != nil {
		return nil, err
	}
	p := &pool{}
	want := []int{keysHome, 0}
	if numChunks >= 2 {
		want[1] = keysOther
	}
	var home, other [][]byte
	for i := 0; i < 100000 && (len(home) < want[0] || len(other) < want[1]); i++ {
		k := []byte(fmt.Sprintf("k%d", i))
		switch probe.VerifC27ChunkIndex(k) {
		case 0:
			if len(home) < want[0] {
				home = append(home, k)
			}
		case 1:
			if len(other) < want[1] {
				other = append(other, k)
			}
		}
	}
	if len(home) < want[0] || len(other) < want[1] {
		return nil, fmt.Errorf("could not find colliding keys for %d chunks", numChunks)
	}
	for _, k := range home {
		p.keys = append(p.keys, k)
		p.chunk = append(p.chunk, 0)
	}
	for _, k := range other {
		p.keys = append(p.keys, k)
		p.chunk = append(p.chunk, 1)
	}
	p.index = map[string]int{}
	for k := range p.keys {
		p.index[string(p.keys[k])] = k
	}
	return p, nil
}

func (p *pool) name(k int) string { return fmt.Sprintf("%s@%d", p.keys[k], p.chunk[k]) }

func newSystem(idx int, cfg immunitycache.CacheConfig, p *pool) *system {
	y := &system{cfgIdx: idx, cfg: cfg, pool: p}
	l, b, e := immunitycache.VerifC27ChunkConfig(cfg)
	y.l, y.b, y.e = int(l), int(b), int(e)
	n := len(p.keys)
	for k := 0; k < n; k++ {
		for _, sz := range sizes {
			y.ops = append(y.ops, op{kind: opAdd, k1: k, k2: -1, size: sz})
			y.menu = append(y.menu, fmt.Sprintf("add(%s,%d)", p.name(k), sz))
		}
	}
	for k := 0; k < n; k++ {
		y.ops = append(y.ops, op{kind: opImm, k1: k, k2: -1})
		y.menu = append(y.menu, fmt.Sprintf("imm(%s)", p.name(k)))
	}
	for k := 0; k < n; k++ {
		for j := k + 1; j < n; j++ {
			y.ops = append(y.ops, op{kind: opImm, k1: k, k2: j})
			y.menu = append(y.menu, fmt.Sprintf("imm(%s,%s)", p.name(k), p.name(j)))
		}
	}
	for k := 0; k < n; k++ {
		y.ops = append(y.ops, op{kind: opRem, k1: k, k2: -1})
		y.menu = append(y.menu, fmt.Sprintf("rem(%s)", p.name(k)))
	}
	y.ops = append(y.ops, op{kind: opClear, k1: -1, k2: -1})
	y.menu = append(y.menu, "clear")
	return y
}

func (y *system) init() *state {
	ic, err := immunitycache.NewImmunityCache(y.cfg)
	if err != nil {
		panic(err)
	}
	n := len(y.pool.keys)
	s := &state{sys: y, ic: ic, marked: make([]bool, n), present: make([]bool, n), size: make([]int, n)}
	s.lastAdded = make([]int, int(y.cfg.NumChunks))
	for i := range s.lastAdded {
		s.lastAdded[i] = -1
	}
	return s
}

// observe refreshes the reference's presence view through the public API and evaluates
// clause (i): exempt is the key the operation itself was allowed to take away (-1 none,
// -2 all: Clear).
func (s *state) observe(oi int, exempt int) (sig, detail string) {
	p := s.sys.pool
	for k := range p.keys {
		now := s.ic.Has(p.keys[k])
		if s.present[k] && !now && s.marked[k] && exempt != k && exempt != -2 && sig == "" {
			sig = sigImmuneLost
			detail = fmt.Sprintf("%s: key %s was marked immune and present, and is gone after %s", s.sys.describe(), p.name(k), s.sys.menu[oi])
		}
		s.present[k] = now
	}
	return
}

func (s *state) do(oi int) (sig, detail string) {
	y := s.sys
	p := y.pool
	o := y.ops[oi]
	s.snap, s.der = nil, nil
	s.hist = append(s.hist, uint8(oi))
	s.last = lastStep{kind: o.kind}
	switch o.kind {
	case opAdd:
		k := o.k1
		ch := p.chunk[k]
		fresh := !s.present[k]
		// reference view of the target chunk before the operation
		count, bytes, evictable := 0, 0, 0
		for j := range p.keys {
			if p.chunk[j] == ch && s.present[j] {
				count++
				bytes += s.size[j]
				if !s.marked[j] {
					evictable++
				}
			}
		}
		atCapacity := count >= y.l || bytes >= y.b
		has, added := s.ic.HasOrAdd(p.keys[k], k, o.size)
		sig, detail = s.observe(oi, -1)
		if added {
			s.size[k] = o.size
			s.lastAdded[ch] = k
		}
		if sig != "" {
			return
		}
		after := 0
		for j := range p.keys {
			if p.chunk[j] == ch && s.present[j] {
				after++
			}
		}
		evicted := count - after
		if added {
			evicted++
		}
		if fresh {
			mustAdmit := !(atCapacity && count > 0 && evictable == 0)
			if mustAdmit && !added {
				switch {
				case count == 0:
					sig = sigEmptyRefuses
				case !atCapacity:
					sig = sigBelowRefuses
				default:
					sig = sigFullRefuses
				}
				detail = fmt.Sprintf("%s: HasOrAdd(%s, size %d) returned has=%v added=%v; target chunk %d held %d items / %d bytes of which %d not immune",
					y.describe(), p.name(k), o.size, has, added, ch, count, bytes, evictable)
				return
			}
			s.last.fullAdd = atCapacity
		}
		s.last.fresh, s.last.atCap, s.last.has, s.last.added = fresh, atCapacity, has, added
		s.last.evicted, s.last.immuneKept = evicted, count-evictable
	case opImm:
		keys := [][]byte{p.keys[o.k1]}
		if o.k2 >= 0 {
			keys = append(keys, p.keys[o.k2])
		}
		numNow, numFuture := s.ic.ImmunizeKeys(keys)
		if numNow+numFuture > 0 {
			s.marked[o.k1] = true
			if o.k2 >= 0 {
				s.marked[o.k2] = true
			}
		}
		sig, detail = s.observe(oi, -1)
		s.last.nKeys, s.last.numNow, s.last.numFuture = len(keys), numNow, numFuture
		s.last.refused = numNow+numFuture == 0
	case opRem:
		wasPresent := s.present[o.k1]
		s.ic.Remove(p.keys[o.k1])
		s.marked[o.k1] = false
		sig, detail = s.observe(oi, o.k1)
		s.last.wasPresent = wasPresent
	case opClear:
		s.ic.Clear()
		for k := range s.marked {
			s.marked[k] = false
		}
		for i := range s.lastAdded {
			s.lastAdded[i] = -1
		}
		sig, detail = s.observe(oi, -2)
	}
	return
}

// overshoot collects clause (ii) byte overshoots bounded by the last admitted item. They are
// reported through c.Violation after the searches (smallest witness first) instead of
// through mc.BFS, because BFS does not expand a state it reported: the search must go on
// behind such states, whether or not the signature is a listed known finding.
type overshootT struct {
	mu    sync.Mutex
	count int64
	hlen  int
	cfg   int
	hist  string
	det   map[string]interface{}
	names []string
}

var overshoot overshootT

func (s *state) check() (sig, detail string) {
	y := s.sys
	p := y.pool
	for ci, ch := range s.snapshot() {
		cnt, bytes := 0, 0
		for _, it := range ch.Items {
			k, ok := p.index[it.Key]
			if ok && s.marked[k] {
				continue
			}
			cnt++
			bytes += it.Size
		}
		if cnt > int(ch.MaxNumItems) {
			return sigItemsOver, fmt.Sprintf("%s: chunk %d holds %d items not marked immune, limit %d; chunk=%+v", y.describe(), ci, cnt, ch.MaxNumItems, ch.Items)
		}
		if bytes > int(ch.MaxNumBytes) {
			la := s.lastAdded[ci]
			if la >= 0 && s.present[la] && !s.marked[la] && bytes-s.size[la] < int(ch.MaxNumBytes) {
				s.recordOvershoot(ci, bytes, ch)
				continue
			}
			return sigBytesOver, fmt.Sprintf("%s: chunk %d holds %d bytes in items not marked immune, limit %d, and the excess is not explained by the last admitted item; chunk=%+v", y.describe(), ci, bytes, ch.MaxNumBytes, ch.Items)
		}
	}
	return "", ""
}

func (s *state) names() []string {
	r := make([]string, len(s.hist))
	for i, o := range s.hist {
		r[i] = s.sys.menu[o]
	}
	return r
}

func (s *state) recordOvershoot(ci, bytes int, ch immunitycache.VerifC27Chunk) {
	names := s.names()
	h := strings.Join(names, " ")
	o := &overshoot
	o.mu.Lock()
	defer o.mu.Unlock()
	o.count++
	better := o.det == nil || len(names) < o.hlen ||
		(len(names) == o.hlen && (s.sys.cfgIdx < o.cfg || (s.sys.cfgIdx == o.cfg && h < o.hist)))
	if better {
		o.hlen, o.cfg, o.hist, o.names = len(names), s.sys.cfgIdx, h, names
		o.det = map[string]interface{}{
			"config": s.sys.describe(), "history": names, "chunk": ci,
			"bytes_not_immune": bytes, "chunk_byte_limit": ch.MaxNumBytes,
			"last_admitted": s.sys.pool.name(s.lastAdded[ci]), "last_admitted_size": s.size[s.lastAdded[ci]],
			"what": "bytes held in non-immune items exceed the per-chunk byte limit by less than the size of the last admitted item (capacity is tested before the insertion, the new item's size is not taken into account)",
		}
	}
}

// derived caches, per state, what the snapshot says about every pool key.
type derived struct {
	held  []bool // key is in its chunk's item list
	inImm []bool // key is in its chunk's immuneKeys
	class []int
	rank  []int // -1 present; else number of lower-numbered absent keys of the same class
}

func (s *state) derive() *derived {
	if s.der != nil {
		return s.der
	}
	p := s.sys.pool
	n := len(p.keys)
	d := &derived{held: make([]bool, n), inImm: make([]bool, n), class: make([]int, n), rank: make([]int, n)}
	for _, ch := range s.snapshot() {
		for _, it := range ch.Items {
			if k, ok := p.index[it.Key]; ok {
				d.held[k] = true
			}
		}
		for _, ik := range ch.ImmuneKeys {
			if k, ok := p.index[ik]; ok {
				d.inImm[k] = true
			}
		}
	}
	for k := 0; k < n; k++ {
		c := p.chunk[k] * 4
		if s.marked[k] {
			c |= 1
		}
		if d.inImm[k] {
			c |= 2
		}
		d.class[k] = c
		if s.present[k] {
			d.rank[k] = -1
			continue
		}
		for j := 0; j < k; j++ {
			if !s.present[j] && d.class[j] == c {
				d.rank[k]++
			}
		}
	}
	s.der = d
	return d
}

func b2c(b bool) byte {
	if b {
		return '1'
	}
	return '0'
}

// key is the canonical state: per chunk the item list in eviction order with every
// behaviour-relevant attribute, plus the number of absent keys per class. Keys of one chunk
// that are absent and agree on (marked, held in immuneKeys) are interchangeable.
func (s *state) key() string {
	p := s.sys.pool
	d := s.derive()
	sb := make([]byte, 0, 128)
	for ci, ch := range s.snapshot() {
		sb = append(sb, 'c')
		sb = strconv.AppendInt(sb, int64(ch.NumBytes), 10)
		sb = append(sb, '[')
		sane := len(ch.MapKeys) == len(ch.Items)
		for _, it := range ch.Items {
			k, ok := p.index[it.Key]
			if !ok {
				sb = append(sb, '?')
				sb = append(sb, it.Key...)
				continue
			}
			sb = strconv.AppendInt(sb, int64(it.Size), 10)
			sb = append(sb, b2c(it.Immune), b2c(d.inImm[k]), b2c(s.marked[k]), b2c(s.present[k]), b2c(s.lastAdded[ci] == k), ' ')
			i := sort.SearchStrings(ch.MapKeys, it.Key)
			if i >= len(ch.MapKeys) || ch.MapKeys[i] != it.Key {
				sane = false
			}
		}
		sb = append(sb, ']')
		// structural agreement of map and list (always equal on a sane implementation)
		if !sane {
			sb = append(sb, fmt.Sprintf("map%v", ch.MapKeys)...)
		}
		// absent keys by class
		var cls [8]int
		for k := range p.keys {
			if p.chunk[k] != ci || d.held[k] {
				continue
			}
			c := d.class[k] & 3
			if s.present[k] { // reference believes present but the list does not hold it
				c |= 4
			}
			cls[c]++
		}
		for _, n := range cls {
			sb = strconv.AppendInt(sb, int64(n), 10)
			sb = append(sb, ',')
		}
	}
	return string(sb)
}

// enabled implements the symmetry reduction on the operation side: an absent key is offered
// only if it is the lowest-numbered key of its class (second lowest as the partner of the
// lowest one in an immunize pair).
func (s *state) enabled(oi int) bool {
	o := s.sys.ops[oi]
	if o.kind == opClear {
		return true
	}
	d := s.derive()
	r1 := d.rank[o.k1]
	if o.k2 < 0 {
		return r1 <= 0
	}
	r2 := d.rank[o.k2]
	switch {
	case r1 < 0 && r2 < 0: // both present
		return true
	case r1 < 0:
		return r2 == 0
	case r2 < 0:
		return r1 == 0
	case d.class[o.k1] == d.class[o.k2]: // both absent, same class (k1 < k2 by construction)
		return r1 == 0 && r2 == 1
	}
	return r1 == 0 && r2 == 0
}

func main() {
	_ = logger.SetLogLevel("*:NONE")
	mc.Main("C27", "model_checking", func(c *mc.Ctx) {
		depth := c.Pick(5, 7)
		c.Rule = fmt.Sprintf("explicit-state BFS with state matching on the real ImmunityCache, one search per configuration, for every configuration of the box NumChunks %v x MaxNumItems %v x MaxNumBytes %v x NumItemsToPreemptivelyEvict %v that NewImmunityCache/CacheConfig.Verify accepts; "+
			"keys: %d keys hashing (real fnv32) to chunk 0 and %d to chunk 1 (when NumChunks>=2); operations: HasOrAdd(key,size in %v), ImmunizeKeys(1 or 2 distinct keys), Remove(key), Clear, on every key up to symmetry (an absent key is offered only as lowest-numbered of its class); "+
			"non-trivial = HasOrAdd of an absent key into a chunk at capacity (distinguished by config, admitted?, number evicted, number of immune items kept) or an ImmunizeKeys refused by the capacity guard",
			boxChunks, boxItems, boxBytes, boxEvict, keysHome, keysOther, sizes)
		c.Assumptions = []string{
			"limits of clause (ii) are the per-chunk values the cache derives itself (CacheConfig.getChunkConfig), compared literally against the items actually held that are not marked immune; the derived values themselves must not exceed max(1, ceil(global limit / NumChunks))",
			"a key counts as marked immune from an ImmunizeKeys call that reported numNow+numFuture>0 until Remove(key) or Clear (Clear re-creates the chunks and forgets immunity); a refused ImmunizeKeys (capacity guard, returns 0,0) marks nothing",
			"clause (iii): HasOrAdd of an absent key must be admitted unless its chunk is at capacity, non-empty and holds only immune items; results of HasOrAdd on a present key are not judged",
			"symmetry reduction: the cache depends on a key only through its chunk index and identity, so absent keys of one chunk in the same immunity class are interchangeable (state key and operation menu are canonical up to that renaming)",
			"Put is HasOrAdd with the result dropped and is not driven separately; chunks >= 2 of a 3- or 5-chunk cache receive no keys (chunks are independent apart from ImmunizeKeys' global guard and Clear)",
			"single-threaded histories; the hospitality counter only feeds Diagnose and is not part of the state",
		}
		c.Bound = fmt.Sprintf("all operation sequences of length <= %d per configuration (state matching)", depth)

		// configurations: offer the whole box to the real constructor
		var systems []*system
		pools := map[uint32]*pool{}
		var rejected int64
		for _, nc := range boxChunks {
			for _, ni := range boxItems {
				for _, nb := range boxBytes {
					for _, ne := range boxEvict {
						cfg := immunitycache.CacheConfig{Name: "c27", NumChunks: nc, MaxNumItems: ni, MaxNumBytes: nb, NumItemsToPreemptivelyEvict: ne}
						if _, err := immunitycache.NewImmunityCache(cfg); err != nil {
							rejected++
							continue
						}
						if pools[nc] == nil {
							p, err := buildPool(nc)
							if err != nil {
								c.Fatal("%v", err)
							}
							pools[nc] = p
						}
						systems = append(systems, newSystem(len(systems), cfg, pools[nc]))
					}
				}
			}
		}
		c.Count("configurations_offered", int64(len(boxChunks)*len(boxItems)*len(boxBytes)*len(boxEvict)))
		c.Count("configurations_rejected_by_Verify", rejected)
		c.Count("configurations_accepted_and_searched", int64(len(systems)))
		zero := int64(0)
		for _, y := range systems {
			if y.l == 0 || y.b == 0 || y.e == 0 {
				zero++
			}
		}
		c.Count("accepted_configurations_with_a_zero_per_chunk_value", zero)
		// clause (ii), static part: "configured" per chunk cannot mean more than the chunk's
		// share of the global limit, rounded up, and at least 1.
		for _, y := range systems {
			share := func(v uint32) int { return max(1, int((v+y.cfg.NumChunks-1)/y.cfg.NumChunks)) }
			if y.l > share(y.cfg.MaxNumItems) || y.b > share(y.cfg.MaxNumBytes) {
				c.Violation(sigShare, y.describe()+fmt.Sprintf(": a chunk's share of the configured limits is at most %d items / %d bytes", share(y.cfg.MaxNumItems), share(y.cfg.MaxNumBytes)), nil)
			}
		}

		if len(c.ReplayData) > 0 {
			replay(c, systems)
			return
		}

		fix := 0
		for _, y := range systems {
			y := y
			st := mc.BFS(c, mc.Sys[*state]{
				Init:       y.init,
				Menu:       y.menu,
				Enabled:    func(s *state, o int) bool { return s.enabled(o) },
				Do:         func(s *state, o int) (string, string) { return s.do(o) },
				Check:      func(s *state) (string, string) { return s.check() },
				Key:        func(s *state) string { return s.key() },
				Nontrivial: func(s *state) string { return s.nontrivial() },
				Outcome:    func(s *state) string { return s.outcome() },
			}, depth)
			if st.Fixpoint {
				fix++
			}
		}
		c.Count("configurations_searched_to_fixpoint", int64(fix))
		o := &overshoot
		if o.count > 0 {
			o.det["transitions_showing_it"] = o.count
			c.Violation(sigBytesLastItem, o.det, o.names)
			for i := int64(1); i < o.count; i++ {
				c.Violation(sigBytesLastItem, nil, nil)
			}
		}
	})
}

// replay re-runs one recorded history (operation names) on every configuration whose menu
// knows all the names and reports what the oracle says.
func replay(c *mc.Ctx, systems []*system) {
	var names []string
	if err := json.Unmarshal(c.ReplayData, &names); err != nil {
		c.Fatal("replay data is not a list of operation names: %v", err)
	}
	for _, y := range systems {
		var ops []int
		for _, n := range names {
			for i, m := range y.menu {
				if m == n {
					ops = append(ops, i)
				}
			}
		}
		if len(ops) != len(names) {
			continue
		}
		s := y.init()
		c.Eval(1)
		for _, o := range ops {
			sig, det := s.do(o)
			if sig == "" {
				sig, det = s.check()
			}
			if sig != "" {
				c.Violation(sig, map[string]interface{}{"history": names, "what": det}, names)
				break
			}
		}
	}
	o := &overshoot
	if o.count > 0 {
		c.Violation(sigBytesLastItem, o.det, o.names)
	}
}
