package main

// Production-shaped wiring of the real nodes coordinator (sharding.NewIndexHashedNodesCoordinator,
// optionally wrapped by NewIndexHashedNodesCoordinatorWithRater) with the real shuffler, the
// real protobuf marshalizer and constructor-injected hasher / group cache / chance computer.
// Only inert collaborators are mocks (epoch-start subscriber, boot storer, shuffled-out
// handler, node-type provider) — the same ones the repo's own tests use.

import (
	"fmt"
	"sort"

	"github.com/ElrondNetwork/elrond-go/config"
	"github.com/ElrondNetwork/elrond-go/core"
	"github.com/ElrondNetwork/elrond-go/data"
	"github.com/ElrondNetwork/elrond-go/data/block"
	"github.com/ElrondNetwork/elrond-go/data/endProcess"
	"github.com/ElrondNetwork/elrond-go/data/state"
	"github.com/ElrondNetwork/elrond-go/hashing"
	"github.com/ElrondNetwork/elrond-go/marshal"
	"github.com/ElrondNetwork/elrond-go/sharding"
	shmock "github.com/ElrondNetwork/elrond-go/sharding/mock"
	"github.com/ElrondNetwork/elrond-go/testscommon/nodeTypeProviderMock"
)

const meta = core.MetachainShardId

// coord is the part of the coordinator API the harness drives (both the plain coordinator
// and the WithRater wrapper satisfy it).
type coord interface {
	ComputeConsensusGroup(randomness []byte, round uint64, shardID uint32, epoch uint32) ([]sharding.Validator, error)
	GetConsensusValidatorsPublicKeys(randomness []byte, round uint64, shardID uint32, epoch uint32) ([]string, error)
	GetAllEligibleValidatorsPublicKeys(epoch uint32) (map[uint32][][]byte, error)
	GetAllWaitingValidatorsPublicKeys(epoch uint32) (map[uint32][][]byte, error)
	GetValidatorWithPublicKey(publicKey []byte) (sharding.Validator, uint32, error)
	EpochStartPrepare(metaHdr data.HeaderHandler, body data.BodyHandler)
	EpochStartAction(hdr data.HeaderHandler)
	GetAllLeavingValidatorsPublicKeys(epoch uint32) (map[uint32][][]byte, error)
}

// chanceStub is the stub ChanceComputer: the rating *is* the chance for ratings 1..3, every
// other rating (including 0, the "minimum chance" probe) gives 1.
type chanceStub struct{}

func (chanceStub) GetChance(r uint32) uint32 {
	if r == 0 {
		return 1
	}
	return r
}
func (chanceStub) IsInterfaceNil() bool { return false }

// vspec describes one validator of an initial list.
type vspec struct {
	pk     string
	chance uint32
}

type wiring struct {
	shardG, metaG int
	nbShards      uint32
	eligible      map[uint32][]vspec
	waiting       map[uint32][]vspec
	hasher        hashing.Hasher
	cache         sharding.Cacher
	rater         bool
	minShard      uint32
	minMeta       uint32
	fixEpoch      uint32 // waiting-list-fix enable epoch (coordinator and shuffler)
	balEpoch      uint32 // balance-waiting-lists enable epoch (shuffler)
	cross         bool   // ShuffleBetweenShards
	toShuffle     uint32 // NodesToShufflePerShard through MaxNodesEnableConfig (0 = not configured)
}

func toValidators(m map[uint32][]vspec) map[uint32][]sharding.Validator {
	out := map[uint32][]sharding.Validator{}
	for s, l := range m {
		vs := make([]sharding.Validator, 0, len(l))
		for i, v := range l {
			nv, err := sharding.NewValidator([]byte(v.pk), v.chance, uint32(i))
			if err != nil {
				panic(err)
			}
			vs = append(vs, nv)
		}
		out[s] = vs
	}
	return out
}

func (w *wiring) build() (coord, error) {
	var maxNodes []config.MaxNodesChangeConfig
	if w.toShuffle > 0 {
		maxNodes = []config.MaxNodesChangeConfig{{EpochEnable: 0, MaxNumNodes: 100, NodesToShufflePerShard: w.toShuffle}}
	}
	sh, err := sharding.NewHashValidatorsShuffler(&sharding.NodesShufflerArgs{
		MaxNodesEnableConfig: maxNodes,
		NodesShard:           w.minShard, NodesMeta: w.minMeta, Hysteresis: 0, Adaptivity: false,
		ShuffleBetweenShards:           w.cross,
		BalanceWaitingListsEnableEpoch: w.balEpoch,
		WaitingListFixEnableEpoch:      w.fixEpoch,
	})
	if err != nil {
		return nil, err
	}
	args := sharding.ArgNodesCoordinator{
		ShardConsensusGroupSize:    w.shardG,
		MetaConsensusGroupSize:     w.metaG,
		Marshalizer:                &marshal.GogoProtoMarshalizer{},
		Hasher:                     w.hasher,
		Shuffler:                   sh,
		EpochStartNotifier:         &shmock.EpochStartNotifierStub{},
		BootStorer:                 shmock.NewStorerMock(),
		ShardIDAsObserver:          0,
		NbShards:                   w.nbShards,
		EligibleNodes:              toValidators(w.eligible),
		WaitingNodes:               toValidators(w.waiting),
		SelfPublicKey:              []byte("observer-key-in-no-list"),
		Epoch:                      0,
		StartEpoch:                 0,
		ConsensusGroupCache:        w.cache,
		ShuffledOutHandler:         &shmock.ShuffledOutHandlerStub{},
		WaitingListFixEnabledEpoch: w.fixEpoch,
		ChanStopNode:               make(chan endProcess.ArgEndProcess, 1),
		NodeTypeProvider:           &nodeTypeProviderMock.NodeTypeProviderStub{},
		IsFullArchive:              false,
	}
	base, err := sharding.NewIndexHashedNodesCoordinator(args)
	if err != nil {
		return nil, err
	}
	if !w.rater {
		return base, nil
	}
	return sharding.NewIndexHashedNodesCoordinatorWithRater(base, chanceStub{})
}

// rec is one ShardValidatorInfo record of an epoch-start body.
type rec struct {
	PK     string `json:"pk"`
	Shard  uint32 `json:"shard"`
	List   string `json:"list"`
	Index  uint32 `json:"index"`
	Rating uint32 `json:"rating"`
}

// epochStartInputs builds what production hands to EpochStartPrepare: an epoch-start meta
// block and a body with one PeerBlock miniblock per shard (ascending, meta last), records
// sorted by public key and marshalled with the real marshalizer (validatorInfoCreator.
// createMiniBlock does the same).
func epochStartInputs(epoch uint32, prevRand []byte, recs []rec) (*block.MetaBlock, *block.Body) {
	m := &marshal.GogoProtoMarshalizer{}
	byShard := map[uint32][]rec{}
	for _, r := range recs {
		byShard[r.Shard] = append(byShard[r.Shard], r)
	}
	shards := make([]uint32, 0, len(byShard))
	for s := range byShard {
		shards = append(shards, s)
	}
	sort.Slice(shards, func(i, j int) bool { return shards[i] < shards[j] })
	body := &block.Body{}
	for _, s := range shards {
		l := byShard[s]
		sort.SliceStable(l, func(i, j int) bool { return l[i].PK < l[j].PK })
		mb := &block.MiniBlock{SenderShardID: meta, ReceiverShardID: core.AllShardId, Type: block.PeerBlock}
		for _, r := range l {
			b, err := m.Marshal(&state.ShardValidatorInfo{PublicKey: []byte(r.PK), ShardId: r.Shard, List: r.List, Index: r.Index, TempRating: r.Rating})
			if err != nil {
				panic(err)
			}
			mb.TxHashes = append(mb.TxHashes, b)
		}
		body.MiniBlocks = append(body.MiniBlocks, mb)
	}
	hdr := &block.MetaBlock{
		Epoch:        epoch,
		Nonce:        uint64(epoch) * 100,
		Round:        uint64(epoch) * 100,
		PrevRandSeed: prevRand,
		EpochStart: block.EpochStart{LastFinalizedHeaders: []block.EpochStartShardData{
			{ShardID: 0, Epoch: epoch - 1}}},
	}
	return hdr, body
}

// lists reads the coordinator's lists of one epoch through its public API, sorted by shard.
type listing struct {
	shards   []uint32
	eligible map[uint32][]string
	waiting  map[uint32][]string
}

func readLists(nc coord, epoch uint32) (*listing, error) {
	e, err := nc.GetAllEligibleValidatorsPublicKeys(epoch)
	if err != nil {
		return nil, err
	}
	w, err := nc.GetAllWaitingValidatorsPublicKeys(epoch)
	if err != nil {
		return nil, err
	}
	l := &listing{eligible: map[uint32][]string{}, waiting: map[uint32][]string{}}
	seen := map[uint32]bool{}
	for s, ks := range e {
		seen[s] = true
		for _, k := range ks {
			l.eligible[s] = append(l.eligible[s], string(k))
		}
	}
	for s, ks := range w {
		seen[s] = true
		for _, k := range ks {
			l.waiting[s] = append(l.waiting[s], string(k))
		}
	}
	for s := range seen {
		l.shards = append(l.shards, s)
	}
	sort.Slice(l.shards, func(i, j int) bool { return l.shards[i] < l.shards[j] })
	return l, nil
}

func shardName(s uint32) string {
	if s == meta {
		return "meta"
	}
	return fmt.Sprint(s)
}
