// C13 — validator reshuffling is deterministic (independent of map iteration order).
// The `sharding` package is built through the map-range rewrite (ovl profile c13,
// engine/cmd/maprange + engine/vmap): every `for ... range <map>` inside
// UpdateNodeLists iterates in an order chosen through the mc.Chooser (default sorted;
// any other permutation of the <=4 keys costs one deviation). For every input of a small
// exhaustive input space, ALL executions with <= bound deviating loops are run and the
// result (eligible and waiting as ordered lists per shard, leaving, still-remaining) must
// be byte-identical to the default-order run. Phase B (coord.go) does the same for the real
// nodes coordinator's epoch-change path (EpochStartPrepare, with and without the rater). Input maps are also rebuilt in reverse
// insertion order.
package main

import (
	"fmt"
	"os"
	"runtime/debug"
	"runtime/pprof"
	"sort"
	"strings"

	logger "github.com/ElrondNetwork/elrond-go-logger"
	"github.com/ElrondNetwork/elrond-go/core"
	"github.com/ElrondNetwork/elrond-go/sharding"
	"verif/engine/mc"
	"verif/engine/vmap"
)

type input struct {
	NbShards   uint32
	Elig       []int // per chain (shards..., meta)
	Wait       []int
	NodesShard uint32
	NodesMeta  uint32
	NewNodes   int
	Leaving    int // index into leaving patterns
	Rand       string
	Balance    bool
	WaitFix    bool
	Cross      bool
	Reverse    bool
}

func chainID(i int, nb uint32) uint32 {
	if uint32(i) == nb {
		return core.MetachainShardId
	}
	return uint32(i)
}

func val(name string) sharding.Validator {
	v, err := sharding.NewValidator([]byte(name), 1, 0)
	if err != nil {
		panic(err)
	}
	return v
}

type built struct {
	args sharding.ArgsUpdateNodes
	shuf sharding.NodesShuffler
}

// leaving patterns: each returns (unstake, additional) names given the populated lists
var leavingPatterns = []string{"none", "unstake-e0", "unstake-wMeta", "unstake-e0+e1", "additional-eMeta", "unstake-e0,additional-w0", "unstake-ghost+e0"}

func build(in input) built {
	nChains := int(in.NbShards) + 1
	elig := map[uint32][]sharding.Validator{}
	wait := map[uint32][]sharding.Validator{}
	order := make([]int, nChains)
	for i := range order {
		order[i] = i
		if in.Reverse {
			order[i] = nChains - 1 - i
		}
	}
	name := func(kind string, chain, k int) string { return fmt.Sprintf("%s%d_%d", kind, chain, k) }
	for _, i := range order {
		id := chainID(i, in.NbShards)
		var e, w []sharding.Validator
		for k := 0; k < in.Elig[i%len(in.Elig)]; k++ {
			e = append(e, val(name("e", i, k)))
		}
		for k := 0; k < in.Wait[i%len(in.Wait)]; k++ {
			w = append(w, val(name("w", i, k)))
		}
		elig[id] = e
		wait[id] = w
	}
	var nn []sharding.Validator
	for k := 0; k < in.NewNodes; k++ {
		nn = append(nn, val(fmt.Sprintf("n%d", k)))
	}
	meta := int(in.NbShards)
	pick := func(kind string, chain int) []sharding.Validator {
		m := elig
		if kind == "w" {
			m = wait
		}
		l := m[chainID(chain%(meta+1), in.NbShards)]
		if len(l) == 0 {
			return nil
		}
		return []sharding.Validator{l[len(l)-1]}
	}
	var un, ad []sharding.Validator
	switch leavingPatterns[in.Leaving] {
	case "unstake-e0":
		un = pick("e", 0)
	case "unstake-wMeta":
		un = pick("w", meta)
	case "unstake-e0+e1":
		un = append(pick("e", 0), pick("e", 1)...)
	case "additional-eMeta":
		ad = pick("e", meta)
	case "unstake-e0,additional-w0":
		un, ad = pick("e", 0), pick("w", 0)
	case "unstake-ghost+e0":
		un = append([]sharding.Validator{val("ghost")}, pick("e", 0)...)
	}
	epoch := uint32(5)
	be, we := uint32(10), uint32(10)
	if in.Balance {
		be = 1
	}
	if in.WaitFix {
		we = 1
	}
	sh, err := sharding.NewHashValidatorsShuffler(&sharding.NodesShufflerArgs{
		NodesShard: in.NodesShard, NodesMeta: in.NodesMeta, Hysteresis: 0, Adaptivity: false,
		ShuffleBetweenShards: in.Cross, BalanceWaitingListsEnableEpoch: be, WaitingListFixEnableEpoch: we,
	})
	if err != nil {
		panic(err)
	}
	return built{shuf: sh, args: sharding.ArgsUpdateNodes{Eligible: elig, Waiting: wait, NewNodes: nn, UnStakeLeaving: un,
		AdditionalLeaving: ad, Rand: []byte(in.Rand), NbShards: in.NbShards, Epoch: epoch}}
}

func render(res *sharding.ResUpdateNodes, err error) string {
	if err != nil {
		return "ERR:" + err.Error()
	}
	var sb strings.Builder
	lst := func(l []sharding.Validator) string {
		s := []string{}
		for _, v := range l {
			s = append(s, string(v.PubKey()))
		}
		return strings.Join(s, ",")
	}
	mp := func(tag string, m map[uint32][]sharding.Validator) {
		ks := []int{}
		for k := range m {
			ks = append(ks, int(k))
		}
		sort.Ints(ks)
		for _, k := range ks {
			fmt.Fprintf(&sb, "%s[%d]=%s;", tag, uint32(k), lst(m[uint32(k)]))
		}
	}
	mp("E", res.Eligible)
	mp("W", res.Waiting)
	sb.WriteString("L=" + lst(res.Leaving) + ";S=" + lst(res.StillRemaining))
	return sb.String()
}

func main() {
	logger.SetLogLevel("*:NONE")
	debug.SetGCPercent(800)
	if f := os.Getenv("VERIF_PPROF"); f != "" {
		pf, _ := os.Create(f)
		pprof.StartCPUProfile(pf)
		defer pprof.StopCPUProfile()
	}
	mc.Main("C13", "exploration", func(c *mc.Ctx) {
		defer pprof.StopCPUProfile()
		bound := c.Pick(1, 2)
		var ins []input
		for _, nb := range []uint32{1, 2} {
			for _, el := range [][]int{{2}, {3}, {3, 2, 2}} {
				for _, wt := range [][]int{{0}, {1}, {2, 0, 1}, {0, 2, 1}} {
					for _, ns := range []uint32{2, 3} {
						for _, nn := range []int{0, 2} {
							for lv := range leavingPatterns {
								for _, rnd := range []string{"r1", "r2", "r3"} {
									for fl := 0; fl < 8; fl++ {
										for _, rev := range []bool{false, true} {
											if c.Quick() && (rnd != "r1" || (rev && fl != 6) || (nn == 2 && lv > 3)) {
												continue
											}
											ins = append(ins, input{nb, el, wt, ns, ns, nn, lv, rnd, fl&1 != 0, fl&2 != 0, fl&4 != 0, rev})
										}
									}
								}
							}
						}
					}
				}
			}
		}
		c.Rule = fmt.Sprintf("inputs: nbShards{1,2} x eligible patterns x waiting patterns x nodes{2,3} x new{0,2} x %d leaving patterns x seeds x balance/waitfix/cross flags x map insertion order (%d inputs); per input every execution with <= %d map loops taking a non-sorted key order (all permutations of <=4 keys per deviating loop); non-trivial = deviating executions (a loop over a map with >=2 keys ran in non-default order). Phase C (history.go): for the inputs with default insertion order, a shuffler whose epoch-dependent switches all change at different epochs (waiting-list fix 1, MaxNodesChange 2 and 4, balanced waiting lists 3): every target epoch 0..5 after every history of <= %d earlier UpdateNodeLists calls with epochs in 0..5 must give the result of a fresh instance; non-trivial there = inputs whose fresh result differs between epochs", len(leavingPatterns), len(ins), bound, c.Pick(2, 3))
		c.Bound = fmt.Sprintf("map-order deviation bound %d; shuffler call histories of length <= %d over epochs 0..5", bound, c.Pick(2, 3))
		c.Assumptions = []string{"maps with more than 4 keys would iterate sorted (none occur: <=3 shard keys)", "input validators have distinct public keys"}
		// the cheap phase first: the map-order search below uses up the thorough tier's time box
		phaseHistory(c, ins, c.Pick(2, 3))
		mc.Par(len(ins), func(i int) {
			in := ins[i]
			if c.Expired() {
				c.Cap("deadline")
				return
			}
			var ref string
			first := true
			mc.Explore(c, bound, 1, func(ch *mc.Chooser) {
				b := build(in)
				vmap.Attach(ch)
				var out string
				perr := mc.Try(func() {
					res, err := b.shuf.UpdateNodeLists(b.args)
					out = render(res, err)
				})
				vmap.Detach()
				if perr != "" {
					out = "PANIC:" + perr
				}
				if first {
					ref, first = out, false
					c.Outcome(out)
					if strings.HasPrefix(out, "PANIC") {
						c.Violation("panic-in-UpdateNodeLists", map[string]interface{}{"input": in, "panic": perr}, in)
					}
					return
				}
				if ch.Deviations() > 0 {
					c.Nontrivial(fmt.Sprint(i, ch.Choices()))
				}
				if out != ref {
					site := ""
					for _, l := range ch.Labels() {
						if !strings.HasSuffix(l, "=0/2") && !strings.HasSuffix(l, "=0/6") && !strings.HasSuffix(l, "=0/24") {
							site += l + " "
						}
					}
					sig := "result-depends-on-map-iteration-order"
					c.ViolationR(sig, ch.Deviations()*1000+len(ch.Choices()), map[string]interface{}{"input": in, "leaving": leavingPatterns[in.Leaving], "default_order_result": ref, "this_result": out, "deviating_loops": strings.TrimSpace(site)}, map[string]interface{}{"input": in, "choices": ch.Choices()})
				}
				if c.WantSample() && ch.Deviations() > 0 {
					c.Sample(map[string]interface{}{"input": in, "map_orders": ch.Labels(), "result": out})
				}
			})
		})
		phaseCoordinator(c, bound)
		st := map[string]int64{}
		for k, v := range vmap.Sites {
			st[k] = v
		}
		c.Set("map_range_sites_hit", st)
		dv := map[string]int64{}
		for k, v := range vmap.Deviated {
			dv[k] = v
		}
		c.Set("map_range_sites_deviated", dv)
	})
}
