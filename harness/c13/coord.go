package main

// Phase B of C13: the coordinator's epoch-change path (EpochStartPrepare ->
// computeNodesConfigFromList -> createSortedListFromMap -> shuffler.UpdateNodeLists ->
// setNodesPerShards) under map-iteration-order exploration, with and without the rater.

import (
	"fmt"
	"sort"
	"strings"

	"github.com/ElrondNetwork/elrond-go/hashing/blake2b"
	"github.com/ElrondNetwork/elrond-go/storage/lrucache"
	"verif/engine/mc"
	"verif/engine/vmap"
)

type coordInput struct {
	PerShard  int    // eligible and waiting validators per chain
	Leaving   uint32 // bitmask over the waiting validators (chain-major) marked leaving
	Ratings   string // "equal" | "distinct"
	Rater     bool
	Fix       bool
	Cross     bool
	ToShuffle uint32
	Rand      string
}

func (in coordInput) chains() []uint32 { return []uint32{0, 1, meta} }

func runCoord(in coordInput) (string, error) {
	w := &wiring{shardG: 1, metaG: 1, nbShards: 2, eligible: map[uint32][]vspec{}, waiting: map[uint32][]vspec{},
		hasher: blake2b.NewBlake2b(), rater: in.Rater, minShard: uint32(in.PerShard), minMeta: uint32(in.PerShard),
		fixEpoch: 100, balEpoch: 100, cross: in.Cross, toShuffle: in.ToShuffle}
	if in.Fix {
		w.fixEpoch, w.balEpoch = 0, 0
	}
	cache, err := lrucache.NewCache(100)
	if err != nil {
		return "", err
	}
	w.cache = cache
	var recs []rec
	bit := 0
	for _, s := range in.chains() {
		for i := 0; i < in.PerShard; i++ {
			pk := fmt.Sprintf("e-%s-%d", shardName(s), i)
			w.eligible[s] = append(w.eligible[s], vspec{pk, 50})
			recs = append(recs, rec{PK: pk, Shard: s, List: "eligible", Index: uint32(i), Rating: 50})
		}
		for i := 0; i < in.PerShard; i++ {
			pk := fmt.Sprintf("w-%s-%d", shardName(s), i)
			w.waiting[s] = append(w.waiting[s], vspec{pk, 50})
			list, rating := "waiting", uint32(50)
			if in.Leaving&(1<<uint(bit)) != 0 {
				list = "leaving"
				if in.Ratings == "distinct" {
					rating = 60 + 10*uint32(bit)
				}
			}
			bit++
			recs = append(recs, rec{PK: pk, Shard: s, List: list, Index: uint32(i), Rating: rating})
		}
	}
	nc, err := w.build()
	if err != nil {
		return "", err
	}
	hdr, body := epochStartInputs(1, []byte(in.Rand), recs)
	nc.EpochStartPrepare(hdr, body)
	l, err := readLists(nc, 1)
	if err != nil {
		return "prepare-refused:" + err.Error(), nil
	}
	var sb strings.Builder
	for _, s := range l.shards {
		fmt.Fprintf(&sb, "E[%s]=%s;W[%s]=%s;", shardName(s), strings.Join(l.eligible[s], ","), shardName(s), strings.Join(l.waiting[s], ","))
	}
	lv, err := nc.GetAllLeavingValidatorsPublicKeys(1)
	if err == nil {
		ks := []int{}
		for s := range lv {
			ks = append(ks, int(s))
		}
		sort.Ints(ks)
		for _, s := range ks {
			x := []string{}
			for _, k := range lv[uint32(s)] {
				x = append(x, string(k))
			}
			fmt.Fprintf(&sb, "L[%s]=%s;", shardName(uint32(s)), strings.Join(x, ","))
		}
	}
	return sb.String(), nil
}

func coordInputs(c *mc.Ctx) []coordInput {
	var ins []coordInput
	for _, per := range []int{2} {
		n := 3 * per
		for mask := uint32(0); mask < 1<<uint(n); mask++ {
			for _, rt := range []string{"equal", "distinct"} {
				if mask == 0 && rt == "distinct" {
					continue
				}
				for _, rater := range []bool{false, true} {
					for _, fix := range []bool{false, true} {
						for _, ts := range []uint32{0, 1} {
							for _, cross := range []bool{false, true} {
								for _, rnd := range []string{"r1", "r2"} {
									if c.Quick() && (rnd == "r2" || (cross && ts == 1)) {
										continue
									}
									ins = append(ins, coordInput{per, mask, rt, rater, fix, cross, ts, rnd})
								}
							}
						}
					}
				}
			}
		}
	}
	return ins
}

func phaseCoordinator(c *mc.Ctx, bound int) {
	ins := coordInputs(c)
	c.Set("coordinator_inputs", len(ins))
	mc.Par(len(ins), func(i int) {
		in := ins[i]
		if c.Expired() {
			c.Cap("deadline")
			return
		}
		var ref string
		first := true
		mc.Explore(c, bound, 1, func(ch *mc.Chooser) {
			vmap.Attach(ch)
			var out string
			perr := mc.Try(func() {
				o, err := runCoord(in)
				if err != nil {
					o = "ERR:" + err.Error()
				}
				out = o
			})
			vmap.Detach()
			if perr != "" {
				out = "PANIC:" + perr
			}
			if first {
				ref, first = out, false
				c.Outcome("coord:" + out)
				if strings.HasPrefix(out, "PANIC") || strings.HasPrefix(out, "ERR") {
					c.Violation("coordinator:"+out[:strings.Index(out, ":")], map[string]interface{}{"input": in, "what": out}, in)
				}
				return
			}
			if ch.Deviations() > 0 {
				c.Nontrivial(fmt.Sprint("coord", i, ch.Choices()))
			}
			if out != ref {
				site := ""
				for _, l := range ch.Labels() {
					if !strings.Contains(l, "=0/") {
						site += l + " "
					}
				}
				c.ViolationR("coordinator:result-depends-on-map-iteration-order", ch.Deviations()*1000+len(ch.Choices()),
					map[string]interface{}{"input": in, "default_order_result": ref, "this_result": out, "deviating_loops": strings.TrimSpace(site)},
					map[string]interface{}{"coord_input": in, "choices": ch.Choices()})
			}
		})
	})
}
