package main

// Phase C — the reshuffling result is a function of its arguments (lists, randomness, epoch),
// not of what the shuffler instance served before. Nodes join at different times and re-run
// epochs after rollbacks, so two nodes with identical configuration call UpdateNodeLists for
// the same epoch after different call histories. The shuffler is configured so that every
// epoch-dependent switch changes at a different epoch (waiting-list fix at 1, first
// MaxNodesChange entry at 2, balanced waiting lists at 3, second MaxNodesChange entry at 4);
// for every input, every target epoch in 0..5 and every history of <= 2 earlier calls with
// epochs in 0..5 (rising, falling, repeated), the result on the instance with that history
// must equal the result on a fresh instance.

import (
	"fmt"

	"github.com/ElrondNetwork/elrond-go/config"
	"github.com/ElrondNetwork/elrond-go/sharding"
	"verif/engine/mc"
)

const histEpochs = 6

func histShuffler(in input) sharding.NodesShuffler {
	sh, err := sharding.NewHashValidatorsShuffler(&sharding.NodesShufflerArgs{
		NodesShard: in.NodesShard, NodesMeta: in.NodesMeta, Hysteresis: 0, Adaptivity: false,
		ShuffleBetweenShards: in.Cross, BalanceWaitingListsEnableEpoch: 3, WaitingListFixEnableEpoch: 1,
		MaxNodesEnableConfig: []config.MaxNodesChangeConfig{
			{EpochEnable: 4, MaxNumNodes: 100, NodesToShufflePerShard: in.NodesShard + 1},
			{EpochEnable: 2, MaxNumNodes: 100, NodesToShufflePerShard: 1},
		},
	})
	if err != nil {
		panic(err)
	}
	return sh
}

func histCall(sh sharding.NodesShuffler, in input, epoch uint32) string {
	args := build(in).args
	args.Epoch = epoch
	var out string
	if p := mc.Try(func() { out = render(sh.UpdateNodeLists(args)) }); p != "" {
		return "PANIC:" + p
	}
	return out
}

func phaseHistory(c *mc.Ctx, ins []input, maxHist int) {
	var sel []int
	for i, in := range ins {
		if !in.Reverse && !in.Balance && !in.WaitFix { // the two flags are driven by the epoch here
			sel = append(sel, i)
		}
	}
	mc.Par(len(sel), func(k int) {
		in := ins[sel[k]]
		if c.Expired() {
			c.Cap("deadline (history phase)")
			return
		}
		ref := make([]string, histEpochs)
		distinct := map[string]bool{}
		for e := 0; e < histEpochs; e++ {
			ref[e] = histCall(histShuffler(in), in, uint32(e))
			distinct[ref[e]] = true
			c.Outcome("hist|" + ref[e])
		}
		if len(distinct) >= 2 {
			c.Nontrivial(fmt.Sprint("hist:", sel[k]))
		}
		var rec func(hist []uint32)
		rec = func(hist []uint32) {
			if len(hist) > 0 {
				for e := 0; e < histEpochs; e++ {
					sh := histShuffler(in)
					for _, h := range hist {
						histCall(sh, in, h)
					}
					got := histCall(sh, in, uint32(e))
					c.Eval(1)
					if got != ref[e] {
						c.ViolationR("result-depends-on-shuffler-call-history", len(hist)*100+e,
							map[string]interface{}{"input": in, "leaving": leavingPatterns[in.Leaving], "earlier_epochs": hist, "epoch": e,
								"fresh_instance_result": ref[e], "this_result": got}, map[string]interface{}{"input": in, "history": hist, "epoch": e})
					}
				}
			}
			if len(hist) >= maxHist {
				return
			}
			for h := 0; h < histEpochs; h++ {
				rec(append(append([]uint32{}, hist...), uint32(h)))
			}
		}
		rec(nil)
	})
}
