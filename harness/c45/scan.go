package main

import (
	"bufio"
	"fmt"
	"os"
	"path/filepath"
	"reflect"
	"regexp"
	"sort"
	"strings"
)

var marshalRe = regexp.MustCompile(`^func \(m \*([A-Za-z0-9_]+)\) Marshal\(\)`)

// scanTree lists "<package dir relative to repo>.<Type>" for every generated message type
// (a `func (m *T) Marshal()` in a *.pb.go) of the checked tree.
func scanTree(root string) ([]string, error) {
	var found []string
	err := filepath.Walk(root, func(p string, info os.FileInfo, err error) error {
		if err != nil {
			return err
		}
		if info.IsDir() {
			n := info.Name()
			if p != root && (strings.HasPrefix(n, ".") || n == "vendor" || n == "node_modules") {
				return filepath.SkipDir
			}
			return nil
		}
		if !strings.HasSuffix(p, ".pb.go") {
			return nil
		}
		f, err := os.Open(p)
		if err != nil {
			return err
		}
		defer f.Close()
		rel, err := filepath.Rel(root, filepath.Dir(p))
		if err != nil {
			return err
		}
		sc := bufio.NewScanner(f)
		sc.Buffer(make([]byte, 1<<20), 1<<24)
		for sc.Scan() {
			if m := marshalRe.FindStringSubmatch(sc.Text()); m != nil {
				found = append(found, filepath.ToSlash(rel)+"."+m[1])
			}
		}
		return sc.Err()
	})
	sort.Strings(found)
	return found, err
}

func keyOf(m message) string {
	t := reflect.TypeOf(m).Elem()
	return strings.TrimPrefix(t.PkgPath(), modulePrefix) + "." + t.Name()
}

// verifyRegistry returns an error naming every generated type of the tree that the
// registry does not list (outside the excluded packages), and every listed type that the
// tree no longer has.
func verifyRegistry(root string) (scanned, excluded int, err error) {
	found, err := scanTree(root)
	if err != nil {
		return 0, 0, fmt.Errorf("scanning %s: %v", root, err)
	}
	if len(found) == 0 {
		return 0, 0, fmt.Errorf("no generated message types found under %s", root)
	}
	listed := map[string]bool{}
	for _, m := range registry {
		k := keyOf(m)
		if listed[k] {
			return 0, 0, fmt.Errorf("registry lists %s twice", k)
		}
		listed[k] = true
	}
	inTree := map[string]bool{}
	var missing []string
	for _, k := range found {
		inTree[k] = true
		pkg := k[:strings.LastIndex(k, ".")]
		if _, ex := excludedPackages[pkg]; ex {
			excluded++
			continue
		}
		if !listed[k] {
			missing = append(missing, k)
		}
	}
	if len(missing) > 0 {
		return 0, 0, fmt.Errorf("generated message type(s) of the tree missing from the harness registry (add them to harness/c45/registry.go): %s", strings.Join(missing, ", "))
	}
	var gone []string
	for k := range listed {
		if !inTree[k] {
			gone = append(gone, k)
		}
	}
	sort.Strings(gone)
	if len(gone) > 0 {
		return 0, 0, fmt.Errorf("registry lists type(s) without a generated Marshal() in the tree: %s", strings.Join(gone, ", "))
	}
	return len(found), excluded, nil
}
