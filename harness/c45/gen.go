package main

// Value generation by reflection over the generated structs: per-kind alphabets, the
// default value first and the most extreme one last.

import (
	"fmt"
	"math"
	"math/big"
	"reflect"
	"strings"
)

const maxNest = 2 // nested messages are given non-default contents down to this level

type fieldGen struct {
	name  string
	idx   int
	alpha []reflect.Value // alpha[0] is the field's default (zero) value
}

var bigIntType = reflect.TypeOf(big.Int{})

func conv(v interface{}, t reflect.Type) reflect.Value {
	return reflect.ValueOf(v).Convert(t)
}

// fieldsOf describes the message type t whose values sit at nesting level `level`
// (0 = the message under test).
func fieldsOf(t reflect.Type, level int) ([]fieldGen, error) {
	if t.Kind() != reflect.Struct {
		return nil, fmt.Errorf("%v is not a struct", t)
	}
	var out []fieldGen
	for i := 0; i < t.NumField(); i++ {
		sf := t.Field(i)
		if _, oneof := sf.Tag.Lookup("protobuf_oneof"); oneof {
			a, err := oneofAlphabet(t, sf, level)
			if err != nil {
				return nil, err
			}
			out = append(out, fieldGen{sf.Name, i, a})
			continue
		}
		if _, ok := sf.Tag.Lookup("protobuf"); !ok {
			return nil, fmt.Errorf("%s.%s has no protobuf tag: the generator does not know what it is", t.Name(), sf.Name)
		}
		if strings.Contains(sf.Tag.Get("protobuf"), "customtype") {
			return nil, fmt.Errorf("%s.%s uses customtype: no alphabet defined", t.Name(), sf.Name)
		}
		a, err := alphabet(sf.Type, level)
		if err != nil {
			return nil, fmt.Errorf("%s.%s: %v", t.Name(), sf.Name, err)
		}
		out = append(out, fieldGen{sf.Name, i, a})
	}
	return out, nil
}

func alphabet(ft reflect.Type, level int) ([]reflect.Value, error) {
	zero := reflect.Zero(ft)
	switch ft.Kind() {
	case reflect.Bool:
		return []reflect.Value{zero, conv(true, ft)}, nil
	case reflect.Uint32:
		return []reflect.Value{zero, conv(uint32(1), ft), conv(uint32(128), ft), conv(uint32(math.MaxUint32), ft)}, nil
	case reflect.Uint64:
		return []reflect.Value{zero, conv(uint64(1), ft), conv(uint64(128), ft), conv(uint64(math.MaxUint64), ft)}, nil
	case reflect.Int32:
		return []reflect.Value{zero, conv(int32(1), ft), conv(int32(-1), ft), conv(int32(math.MinInt32), ft), conv(int32(math.MaxInt32), ft)}, nil
	case reflect.Int64, reflect.Int:
		return []reflect.Value{zero, conv(int64(1), ft), conv(int64(-1), ft), conv(int64(math.MinInt64), ft), conv(int64(math.MaxInt64), ft)}, nil
	case reflect.Float32:
		return []reflect.Value{zero, conv(float32(1), ft), conv(float32(-1.5), ft), conv(float32(math.SmallestNonzeroFloat32), ft),
			conv(float32(math.MaxFloat32), ft), conv(float32(math.Inf(1)), ft)}, nil
	case reflect.Float64:
		return []reflect.Value{zero, conv(float64(1), ft), conv(float64(-1.5), ft), conv(float64(math.SmallestNonzeroFloat64), ft),
			conv(float64(math.MaxFloat64), ft), conv(math.Inf(1), ft)}, nil
	case reflect.String:
		return []reflect.Value{zero, conv("a", ft), conv("é", ft)}, nil
	case reflect.Ptr:
		if ft.Elem() == bigIntType {
			return []reflect.Value{zero, reflect.ValueOf(big.NewInt(0)), reflect.ValueOf(big.NewInt(1)), reflect.ValueOf(big.NewInt(-1)),
				reflect.ValueOf(new(big.Int).Lsh(big.NewInt(1), 70))}, nil
		}
		if ft.Elem().Kind() == reflect.Struct {
			vals, err := nestedValues(ft.Elem(), level+1)
			if err != nil {
				return nil, err
			}
			out := []reflect.Value{zero} // nil
			for _, v := range vals {
				p := reflect.New(ft.Elem())
				p.Elem().Set(v)
				out = append(out, p)
			}
			return out, nil
		}
	case reflect.Struct:
		return nestedValues(ft, level+1)
	case reflect.Slice:
		if ft.Elem().Kind() == reflect.Uint8 {
			return []reflect.Value{zero, conv([]byte{0}, ft), conv([]byte{1, 2, 3}, ft)}, nil
		}
		elems, err := alphabet(ft.Elem(), level)
		if err != nil {
			return nil, err
		}
		if ft.Elem().Kind() == reflect.Ptr && ft.Elem().Elem().Kind() == reflect.Struct {
			elems = elems[1:] // no nil elements inside a repeated message field
		}
		if ft.Elem().Kind() == reflect.Slice {
			// repeated bytes: the "default" element is an empty, non-nil byte string
			elems = append([]reflect.Value{reflect.MakeSlice(ft.Elem(), 0, 0)}, elems[1:]...)
		}
		first, last := elems[0], elems[len(elems)-1]
		one := reflect.MakeSlice(ft, 0, 1)
		one = reflect.Append(one, last)
		two := reflect.MakeSlice(ft, 0, 2)
		two = reflect.Append(two, first, last)
		return []reflect.Value{zero, one, two}, nil
	}
	return nil, fmt.Errorf("no alphabet for Go type %v (kind %v)", ft, ft.Kind())
}

// nestedValues: zero value, one field set, all fields extreme — for a message at `level`.
func nestedValues(t reflect.Type, level int) ([]reflect.Value, error) {
	zero := reflect.Zero(t)
	if level > maxNest {
		return []reflect.Value{zero}, nil
	}
	fs, err := fieldsOf(t, level)
	if err != nil {
		return nil, err
	}
	one := reflect.New(t).Elem()
	for _, f := range fs {
		if len(f.alpha) > 1 {
			one.Field(f.idx).Set(f.alpha[len(f.alpha)-1])
			break
		}
	}
	all := reflect.New(t).Elem()
	for _, f := range fs {
		all.Field(f.idx).Set(f.alpha[len(f.alpha)-1])
	}
	return []reflect.Value{zero, one, all}, nil
}

// oneofAlphabet: unset, then every member wrapper with every value of the member's alphabet
// (including its zero value: a set member is emitted even when zero).
func oneofAlphabet(parent reflect.Type, sf reflect.StructField, level int) ([]reflect.Value, error) {
	m, ok := reflect.PtrTo(parent).MethodByName("XXX_OneofWrappers")
	if !ok {
		return nil, fmt.Errorf("%s.%s is a oneof but the type has no XXX_OneofWrappers", parent.Name(), sf.Name)
	}
	res := m.Func.Call([]reflect.Value{reflect.Zero(reflect.PtrTo(parent))})
	ws, ok := res[0].Interface().([]interface{})
	if !ok {
		return nil, fmt.Errorf("%s.XXX_OneofWrappers has an unexpected result", parent.Name())
	}
	out := []reflect.Value{reflect.Zero(sf.Type)}
	for _, w := range ws {
		wt := reflect.TypeOf(w) // *Wrapper
		if !wt.Implements(sf.Type) {
			continue // wrapper of another oneof of the same message
		}
		if wt.Elem().NumField() != 1 {
			return nil, fmt.Errorf("oneof wrapper %v has %d fields", wt, wt.Elem().NumField())
		}
		a, err := alphabet(wt.Elem().Field(0).Type, level)
		if err != nil {
			return nil, err
		}
		for _, v := range a {
			p := reflect.New(wt.Elem())
			p.Elem().Field(0).Set(v)
			out = append(out, p.Convert(sf.Type))
		}
	}
	return out, nil
}

// show renders an alphabet value for a violation detail.
func show(v reflect.Value) interface{} {
	if !v.IsValid() {
		return nil
	}
	if v.Kind() == reflect.Ptr && !v.IsNil() && v.Type().Elem() == bigIntType {
		return v.Interface().(*big.Int).String()
	}
	if v.Kind() == reflect.Interface && !v.IsNil() {
		return fmt.Sprintf("%T%+v", v.Interface(), v.Elem().Elem().Interface())
	}
	return v.Interface()
}
