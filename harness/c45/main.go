// C45 — protocol data encodes deterministically and round-trips.
//
// Statement: "Every protocol data structure ... encodes to the same bytes each time, and
// decoding those bytes gives back an equal structure."
//
// Seam: the real marshal.GogoProtoMarshalizer on every generated message type of the tree
// (registry.go, verified against a scan of the tree at run time). Values are built by
// reflection from per-kind alphabets (gen.go). Enumeration per type: the default value,
// every field through its whole alphabet with the others default, all t-subsets of fields
// through the product of their alphabets (t = 3 quick, 4 thorough), the all-extreme value;
// the full product instead when the type has <= 6 fields (or a small product).
// Oracle per value x: Marshal(x) twice and Marshal of an independently rebuilt x give the
// same bytes; len == x.Size(); Unmarshal(bytes) succeeds into y; x.Equal(y) && y.Equal(x);
// Unmarshal(bytes) into a reused object z (every field preset to its last alphabet value) gives x too
// (generated Equal); Marshal(y) == bytes.
package main

import (
	"bytes"
	"encoding/hex"
	"encoding/json"
	"fmt"
	"os"
	"reflect"
	"sort"
	"strings"

	"github.com/ElrondNetwork/elrond-go/marshal"
	"verif/engine/mc"
)

var gogo = &marshal.GogoProtoMarshalizer{}

type typeRun struct {
	key     string
	t       reflect.Type
	fields  []fieldGen
	cases   int64
	mode    string
	lens    map[int]bool
	touched map[string]bool
	viols   []violation
	err     string
	// defaultFailed: the all-default value already violates the oracle; every other value
	// of the type would fail for the same reason, so the enumeration of the type stops
	defaultFailed bool
}

type violation struct {
	sig    string
	rank   int
	detail map[string]interface{}
	replay replayCase
}

type replayCase struct {
	Type    string `json:"type"`
	Choices []int  `json:"choices"`
}

func build(t reflect.Type, fields []fieldGen, choice []int) message {
	p := reflect.New(t)
	for i, f := range fields {
		if choice[i] != 0 {
			p.Elem().Field(f.idx).Set(f.alpha[choice[i]])
		}
	}
	return p.Interface().(message)
}

// checkOne evaluates the oracle on one value; it returns the violated clause ("" = holds),
// a short explanation and the encoding.
func checkOne(t reflect.Type, fields []fieldGen, choice []int) (clause, why string, enc []byte) {
	if p := mc.Try(func() {
		x := build(t, fields, choice)
		b1, err := gogo.Marshal(x)
		if err != nil {
			clause, why = "marshal-error", err.Error()
			return
		}
		enc = b1
		b2, err := gogo.Marshal(x)
		if err != nil || !bytes.Equal(b1, b2) {
			clause, why = "marshal-not-deterministic", fmt.Sprintf("second Marshal of the same object: %x (err %v)", b2, err)
			return
		}
		x2 := build(t, fields, choice)
		b2, err = gogo.Marshal(x2)
		if err != nil || !bytes.Equal(b1, b2) {
			clause, why = "marshal-not-deterministic", fmt.Sprintf("Marshal of an equal, independently built object: %x (err %v)", b2, err)
			return
		}
		if n := x.Size(); n != len(b1) {
			clause, why = "size-differs-from-encoding-length", fmt.Sprintf("Size()=%d len(Marshal)=%d", n, len(b1))
			return
		}
		y := reflect.New(t).Interface().(message)
		if err := gogo.Unmarshal(y, b1); err != nil {
			clause, why = "unmarshal-error", err.Error()
			return
		}
		if !x.Equal(y) || !y.Equal(x) {
			clause, why = "roundtrip-not-equal", fmt.Sprintf("decoded %+v", y)
			return
		}
		b3, err := gogo.Marshal(y)
		if err != nil || !bytes.Equal(b1, b3) {
			clause, why = "remarshal-differs", fmt.Sprintf("Marshal(Unmarshal(bytes)) = %x (err %v)", b3, err)
			return
		}
		// decoding into an object that is being reused (the node reuses batches, headers and
		// records): the destination starts with every field at its last alphabet value
		full := make([]int, len(fields))
		for i, f := range fields {
			full[i] = len(f.alpha) - 1
		}
		z := build(t, fields, full)
		if err := gogo.Unmarshal(z, b1); err != nil {
			clause, why = "unmarshal-into-used-object-error", err.Error()
			return
		}
		if !x.Equal(z) || !z.Equal(x) {
			clause, why = "roundtrip-into-used-object-not-equal", fmt.Sprintf("decoded %+v", z)
			return
		}
	}); p != "" {
		clause, why = "panic", p
	}
	return
}

func cut(s string, n int) string {
	if len(s) > n {
		return s[:n] + "..."
	}
	return s
}

func (r *typeRun) describe(choice []int) map[string]string {
	m := map[string]string{}
	for i, f := range r.fields {
		if choice[i] != 0 {
			m[f.name] = cut(fmt.Sprintf("%+v", show(f.alpha[choice[i]])), 200)
		}
	}
	return m
}

func (r *typeRun) eval(choice []int) {
	if r.defaultFailed {
		return
	}
	r.cases++
	clause, why, enc := checkOne(r.t, r.fields, choice)
	if clause == "" {
		r.lens[len(enc)] = true
		return
	}
	// narrow the signature: which single field (with the same value, others default) fails alone?
	var set []int
	for i, c := range choice {
		if c != 0 {
			set = append(set, i)
		}
	}
	if len(set) == 0 {
		r.defaultFailed = true
	}
	var culprits []string
	if len(set) > 1 {
		for _, i := range set {
			single := make([]int, len(choice))
			single[i] = choice[i]
			if cl, _, _ := checkOne(r.t, r.fields, single); cl != "" {
				culprits = append(culprits, r.fields[i].name)
			}
		}
	}
	names := culprits
	if len(names) == 0 {
		for _, i := range set {
			names = append(names, r.fields[i].name)
		}
	}
	if len(set) > 1 && len(culprits) > 0 {
		return // reported (smaller) by the single-field case of the same value
	}
	if len(names) == 0 {
		names = []string{"default-value"}
	}
	sig := fmt.Sprintf("%s:%s:%s", r.key, clause, strings.Join(names, "+"))
	r.viols = append(r.viols, violation{sig: sig, rank: len(set)*1000 + len(enc),
		detail: map[string]interface{}{"type": r.key, "clause": clause, "why": cut(why, 400), "non_default_fields": r.describe(choice),
			"encoding_hex": cut(hex.EncodeToString(enc), 400)},
		replay: replayCase{r.key, append([]int{}, choice...)}})
}

// subsets calls fn for every k-subset of [0,n)
func subsets(n, k int, fn func(idx []int)) {
	idx := make([]int, k)
	var rec func(pos, from int)
	rec = func(pos, from int) {
		if pos == k {
			fn(idx)
			return
		}
		for i := from; i < n; i++ {
			idx[pos] = i
			rec(pos+1, i+1)
		}
	}
	rec(0, 0)
}

func (r *typeRun) run(c *mc.Ctx, t int, productLimit int64) {
	n := len(r.fields)
	product := int64(1)
	for _, f := range r.fields {
		product *= int64(len(f.alpha))
		if product > 1<<40 {
			product = 1 << 40
		}
	}
	choice := make([]int, n)
	if n <= 6 || product <= productLimit {
		r.mode = "full-product"
		var rec func(i int)
		rec = func(i int) {
			if i == n {
				r.eval(choice)
				return
			}
			for v := range r.fields[i].alpha {
				choice[i] = v
				rec(i + 1)
			}
			choice[i] = 0
		}
		rec(0)
	} else {
		r.mode = fmt.Sprintf("%d-wise", t)
		r.eval(choice) // all default
		for k := 1; k <= t && k <= n; k++ {
			subsets(n, k, func(idx []int) {
				// all assignments of non-default values to exactly these k fields
				var rec func(p int)
				rec = func(p int) {
					if p == k {
						r.eval(choice)
						return
					}
					f := idx[p]
					for v := 1; v < len(r.fields[f].alpha); v++ {
						choice[f] = v
						rec(p + 1)
					}
					choice[f] = 0
				}
				rec(0)
			})
		}
		for i, f := range r.fields {
			choice[i] = len(f.alpha) - 1
		}
		r.eval(choice) // all extreme
	}
	for _, f := range r.fields {
		if len(f.alpha) > 1 {
			r.touched[r.key+"."+f.name] = true
		}
	}
}

func main() {
	mc.Main("C45", "exploration", func(c *mc.Ctx) {
		root := os.Getenv("VERIF_REPO")
		if root == "" {
			root = "/repo"
		}
		scanned, excluded, err := verifyRegistry(root)
		if err != nil {
			c.Fatal("%v", err)
		}
		t := c.Pick(3, 4)
		limit := int64(c.Pick(20000, 500000))
		c.Rule = fmt.Sprintf("every generated message type of the tree (%d types with `func (m *T) Marshal()` in *.pb.go under %s, %d in excluded test-fixture packages; list verified against the tree at run time) "+
			"x values built by reflection: bool{f,t} uint{0,1,128,max} int{0,1,-1,min,max} float{0,1,-1.5,smallest,max,+Inf} bytes{nil,{0},{1,2,3}} string{\"\",a,é} "+
			"big.Int{nil,0,1,-1,2^70} repeated{nil,[last],[first,last]} nested{zero,one field set,all extreme}(nullable: +nil) to depth 2, oneof{unset, each member x its alphabet}; "+
			"per type: default, each field through its alphabet, all %d-subsets of fields through the product of their non-default values, the all-extreme value; full product when <=6 fields or product <= %d. "+
			"each value is decoded both into a fresh object and into a reused one whose fields all hold their last alphabet value. Non-trivial = (type, field) pairs driven through a non-default value", scanned, root, excluded, t, limit)
		c.Bound = fmt.Sprintf("%d-wise field coverage per type (full product for small types), nesting depth 2", t)
		c.Assumptions = []string{
			"nil and empty slices are one value (proto3 semantics; the generated Equal agrees)",
			"float fields are finite or +Inf (NaN is not equal to itself, so 'equal structure' is undefined for it)",
			"repeated message fields hold no nil elements (a nil element is not a protobuf value)",
			"values outside the alphabets and interactions of more than t fields of wide messages are not covered",
		}

		var runs []*typeRun
		for _, m := range registry {
			rt := reflect.TypeOf(m).Elem()
			fs, err := fieldsOf(rt, 0)
			if err != nil {
				c.Fatal("%s: %v", keyOf(m), err)
			}
			runs = append(runs, &typeRun{key: keyOf(m), t: rt, fields: fs, lens: map[int]bool{}, touched: map[string]bool{}})
		}
		sort.Slice(runs, func(i, j int) bool { return runs[i].key < runs[j].key })

		if len(c.ReplayData) > 0 {
			var rc replayCase
			if err := json.Unmarshal(c.ReplayData, &rc); err != nil {
				c.Fatal("bad replay: %v", err)
			}
			for _, r := range runs {
				if r.key == rc.Type && len(rc.Choices) == len(r.fields) {
					r.eval(rc.Choices)
					c.Eval(1)
					for _, v := range r.viols {
						c.ViolationR(v.sig, v.rank, v.detail, v.replay)
					}
					if len(r.viols) == 0 {
						fmt.Println("replay: the case holds")
					}
					return
				}
			}
			c.Fatal("replay names unknown type %q or a different field count", rc.Type)
		}

		// widest types first for load balance
		order := make([]int, len(runs))
		for i := range order {
			order[i] = i
		}
		sort.SliceStable(order, func(a, b int) bool { return len(runs[order[a]].fields) > len(runs[order[b]].fields) })
		mc.Par(len(order), func(i int) {
			r := runs[order[i]]
			if p := mc.Try(func() { r.run(c, t, limit) }); p != "" {
				r.err = p
			}
		})
		modes := map[string]int{}
		perType := map[string]int64{}
		for _, r := range runs {
			if r.err != "" {
				c.Fatal("%s: %s", r.key, r.err)
			}
			c.Eval(r.cases)
			perType[r.key] = r.cases
			modes[r.mode]++
			for k := range r.touched {
				c.Nontrivial(k)
			}
			for l := range r.lens {
				c.Outcome(fmt.Sprintf("%s:%d", r.key, l))
			}
			if strings.HasSuffix(r.key, ".Header") || strings.HasSuffix(r.key, ".Transaction") || strings.HasSuffix(r.key, ".Fund") {
				var fn []string
				for _, f := range r.fields {
					fn = append(fn, fmt.Sprintf("%s:%d", f.name, len(f.alpha)))
				}
				c.Sample(map[string]interface{}{"type": r.key, "mode": r.mode, "cases": r.cases, "field:alphabet_size": fn})
			}
			sort.SliceStable(r.viols, func(i, j int) bool { return r.viols[i].rank < r.viols[j].rank })
			for _, v := range r.viols {
				c.ViolationR(v.sig, v.rank, v.detail, v.replay)
			}
		}
		c.Set("types", len(runs))
		c.Set("types_by_mode", modes)
		c.Set("cases_per_type", perType)
		c.Set("tree_scanned", root)
	})
}
