package main

// The hard-coded list of generated protocol message types. It is verified at run time
// against a scan of the checked tree (scan.go): a `func (m *T) Marshal()` in any *.pb.go of
// the tree whose type is not listed here (and whose package is not explicitly excluded)
// is a harness error naming the type — never a silent gap.

import (
	"github.com/ElrondNetwork/elrond-go/consensus"
	"github.com/ElrondNetwork/elrond-go/core/dblookupext"
	"github.com/ElrondNetwork/elrond-go/data/batch"
	"github.com/ElrondNetwork/elrond-go/data/block"
	"github.com/ElrondNetwork/elrond-go/data/metrics"
	datamock "github.com/ElrondNetwork/elrond-go/data/mock"
	"github.com/ElrondNetwork/elrond-go/data/receipt"
	"github.com/ElrondNetwork/elrond-go/data/rewardTx"
	"github.com/ElrondNetwork/elrond-go/data/smartContractResult"
	"github.com/ElrondNetwork/elrond-go/data/state"
	"github.com/ElrondNetwork/elrond-go/data/transaction"
	"github.com/ElrondNetwork/elrond-go/data/trie"
	"github.com/ElrondNetwork/elrond-go/dataRetriever"
	hbdata "github.com/ElrondNetwork/elrond-go/heartbeat/data"
	p2pdata "github.com/ElrondNetwork/elrond-go/p2p/data"
	"github.com/ElrondNetwork/elrond-go/process/block/bootstrapStorage"
	"github.com/ElrondNetwork/elrond-go/vm/systemSmartContracts"
)

const modulePrefix = "github.com/ElrondNetwork/elrond-go/"

// excludedPackages hold generated codecs that are not protocol data (repo-relative paths).
var excludedPackages = map[string]string{
	"marshal/testSizeCheckUnmarshal": "test fixture of the size-check unmarshalizer, not protocol data",
}

// message is what every generated type offers.
type message interface {
	Marshal() ([]byte, error)
	Unmarshal([]byte) error
	Size() int
	Equal(that interface{}) bool
	Reset()
}

var registry = []message{
	// consensus
	&consensus.Message{},
	// core/dblookupext
	&dblookupext.EpochByHash{}, &dblookupext.MiniblockMetadata{}, &dblookupext.ScResultsHashesAndEpoch{}, &dblookupext.ResultsHashesByTxHash{},
	// data/batch
	&batch.Batch{},
	// data/block
	&block.MiniBlock{}, &block.MiniBlockHeader{}, &block.PeerChange{}, &block.Header{}, &block.Body{}, &block.BodyHeaderPair{},
	&block.PeerData{}, &block.ShardData{}, &block.EpochStartShardData{}, &block.Economics{}, &block.EpochStart{}, &block.MetaBlock{},
	// data/metrics
	&metrics.Metric{}, &metrics.MetricsList{},
	// data/mock
	&datamock.AccountWrapMockData{},
	// data/receipt, rewardTx, smartContractResult
	&receipt.Receipt{}, &rewardTx.RewardTx{}, &smartContractResult.SmartContractResult{},
	// data/state
	&state.SignRate{}, &state.ValidatorApiResponse{}, &state.PeerAccountData{}, &state.UserAccountData{}, &state.CodeEntry{},
	&state.ValidatorInfo{}, &state.ShardValidatorInfo{},
	// data/transaction
	&transaction.Event{}, &transaction.Log{}, &transaction.Transaction{},
	// data/trie
	&trie.CollapsedBn{}, &trie.CollapsedEn{}, &trie.CollapsedLn{},
	// dataRetriever
	&dataRetriever.RequestData{},
	// heartbeat/data
	&hbdata.Heartbeat{}, &hbdata.HeartbeatDTO{}, &hbdata.DbTimeStamp{},
	// p2p/data
	&p2pdata.AuthMessagePb{}, &p2pdata.TopicMessage{},
	// process/block/bootstrapStorage
	&bootstrapStorage.MiniBlocksInMeta{}, &bootstrapStorage.BootstrapHeaderInfo{}, &bootstrapStorage.PendingMiniBlocksInfo{},
	&bootstrapStorage.BootstrapData{}, &bootstrapStorage.RoundNum{},
	// vm/systemSmartContracts
	&systemSmartContracts.DelegationManagement{}, &systemSmartContracts.DelegationContractList{}, &systemSmartContracts.DelegationConfig{},
	&systemSmartContracts.DelegationMetaData{}, &systemSmartContracts.DelegationContractStatus{}, &systemSmartContracts.Fund{},
	&systemSmartContracts.DelegatorData{}, &systemSmartContracts.GlobalFundData{}, &systemSmartContracts.NodesData{},
	&systemSmartContracts.RewardComputationData{},
	&systemSmartContracts.ESDTData{}, &systemSmartContracts.ESDTRoles{}, &systemSmartContracts.ESDTConfig{},
	&systemSmartContracts.GeneralProposal{}, &systemSmartContracts.WhiteListProposal{}, &systemSmartContracts.HardForkProposal{},
	&systemSmartContracts.GovernanceConfig{}, &systemSmartContracts.GovernanceConfigV2{}, &systemSmartContracts.VoteDetails{},
	&systemSmartContracts.VoteSet{},
	&systemSmartContracts.StakedDataV1_0{}, &systemSmartContracts.StakedDataV1_1{}, &systemSmartContracts.StakedDataV2_0{},
	&systemSmartContracts.StakingNodesConfig{}, &systemSmartContracts.ElementInList{}, &systemSmartContracts.WaitingList{},
	&systemSmartContracts.ValidatorDataV1{}, &systemSmartContracts.UnstakedValue{}, &systemSmartContracts.ValidatorDataV2{},
	&systemSmartContracts.ValidatorConfig{},
}
