// Harness c09 — C09: state pruning never deletes nodes that a live state root needs.
//
// Explicit-state BFS (mc.BFS) over the REAL state.AccountsDB + real patricia-merkle trie +
// real trieStorageManager (trie.NewTrieStorageManager, in-memory DBs) + real
// storagePruningManager + real evictionWaitingList (cache size 1 and 100) + real pruning
// queue (core/queue.sliceQueue, size 0 and 1), driven by a miniature of baseProcessor:
//
//	commit of block h   : LoadAccount/mutate/SaveAccount ..., AccountsDB.Commit()
//	header f becomes final: the real baseProcessor.updateStateStorage(hdr_f, root_f, root_{f-1})
//	                        = queue.Add(root_{f-1}) -> CancelPrune(r, NewRoot); PruneTrie(r, OldRoot)
//	rollback of the head : RecreateTrie(root_{h-1}) (shardProcessor.RevertStateToBlock), then the
//	                        real baseProcessor.PruneStateOnRollback(hdr_h, hdr_{h-1})
//	                        = CancelPrune(root_{h-1}, OldRoot); PruneTrie(root_h, NewRoot)
//	snapshot in progress : trieStorageManager.EnterPruningBufferingMode / ExitPruningBufferingMode
//
// The two baseProcessor methods are the repo's own code, reached through an export file.
// Reference = a chain model (blocks with their roots and the plain-map account state each
// block must have). Oracle in every state: every live root (not yet handed to the pruning
// schedule, not rolled back; the head root is the current root) is recreated from the same
// DB through a separate read-only view and traversed completely (main trie + every data
// trie); its content must equal the reference state of its block.
package main

import (
	"bytes"
	"crypto/sha256"
	"encoding/hex"
	"encoding/json"
	"flag"
	"fmt"
	"math/big"
	"os"
	"runtime/debug"
	"runtime/pprof"
	"sort"
	"strings"
	"sync"
	"time"

	logger "github.com/ElrondNetwork/elrond-go-logger"
	"github.com/ElrondNetwork/elrond-go/config"
	"github.com/ElrondNetwork/elrond-go/core"
	"github.com/ElrondNetwork/elrond-go/core/queue"
	"github.com/ElrondNetwork/elrond-go/data"
	"github.com/ElrondNetwork/elrond-go/data/batch"
	dblock "github.com/ElrondNetwork/elrond-go/data/block"
	"github.com/ElrondNetwork/elrond-go/data/state"
	"github.com/ElrondNetwork/elrond-go/data/state/factory"
	"github.com/ElrondNetwork/elrond-go/data/state/storagePruningManager"
	"github.com/ElrondNetwork/elrond-go/data/state/storagePruningManager/disabled"
	"github.com/ElrondNetwork/elrond-go/data/state/storagePruningManager/evictionWaitingList"
	"github.com/ElrondNetwork/elrond-go/data/state/storagePruningManager/pruningBuffer"
	"github.com/ElrondNetwork/elrond-go/data/trie"
	"github.com/ElrondNetwork/elrond-go/data/trie/hashesHolder"
	"github.com/ElrondNetwork/elrond-go/hashing/blake2b"
	"github.com/ElrondNetwork/elrond-go/marshal"
	pblock "github.com/ElrondNetwork/elrond-go/process/block"
	"github.com/ElrondNetwork/elrond-go/storage/memorydb"
	"verif/engine/mc"
)

// ---------------------------------------------------------------- alphabet

func addr(last2 ...byte) []byte {
	a := bytes.Repeat([]byte{0x01}, 32)
	copy(a[32-len(last2):], last2)
	return a
}

var (
	// The trie path of a key starts with its LAST byte (low nibble first). A and B share three
	// leading nibbles (-> branch / extension / branch / leaves), D shares one with them, S and
	// the code entries (keyed by code hash) hang off the root branch.
	addrA = addr(0xA0, 0x11)
	addrB = addr(0xB0, 0x11)
	addrD = addr(0x21) // the driver account: every block bumps its nonce
	// S looks like a smart-contract address (8 zero bytes + VM type)
	addrS = append(append(make([]byte, 8), 5, 0), bytes.Repeat([]byte{0x5C}, 22)...)
	addrs = map[string][]byte{"A": addrA, "B": addrB, "D": addrD, "S": addrS}
	names = []string{"A", "B", "D", "S"}

	codes  = map[string][]byte{"c1": []byte("code-one"), "c2": []byte("code-two-longer")}
	keys   = map[string][]byte{"k1": []byte("k1"), "k2": []byte("key2")}
	knames = []string{"k1", "k2"}
	vals   = map[string][]byte{"x": []byte("x"), "y": []byte("yy")}

	hasher      = blake2b.NewBlake2b()
	marshalizer = &marshal.GogoProtoMarshalizer{}
)

const (
	kCfg = iota
	kTransfer
	kStore // a = key, b = value ("" = delete)
	kRemove
	kCode // who, a = code name
	kFailedTx
	kFinalize
	kRollback
	kEnter
	kExit
)

type opDef struct {
	name string
	kind int
	who  string
	a, b string
	ewl  uint // kCfg
	q    uint // kCfg
}

func buildMenu() []opDef {
	return []opDef{
		{name: "cfg(ewl=100,queue=0)", kind: kCfg, ewl: 100, q: 0},
		{name: "cfg(ewl=1,queue=0)", kind: kCfg, ewl: 1, q: 0},
		{name: "cfg(ewl=100,queue=1)", kind: kCfg, ewl: 100, q: 1},
		{name: "cfg(ewl=1,queue=1)", kind: kCfg, ewl: 1, q: 1},
		{name: "block(S.k1:=x)", kind: kStore, who: "S", a: "k1", b: "x"},
		{name: "block(S.k1:=y)", kind: kStore, who: "S", a: "k1", b: "y"},
		{name: "block(del S.k1)", kind: kStore, who: "S", a: "k1", b: ""},
		{name: "block(S.k2:=x)", kind: kStore, who: "S", a: "k2", b: "x"},
		{name: "block(remove S)", kind: kRemove, who: "S"},
		{name: "block(S.k1 write+revert)", kind: kFailedTx, who: "S", a: "k1"},
		{name: "block(A->B)", kind: kTransfer},
		{name: "block(S.code:=c1)", kind: kCode, who: "S", a: "c1"},
		{name: "block(S.code:=c2)", kind: kCode, who: "S", a: "c2"},
		{name: "block(B.code:=c1)", kind: kCode, who: "B", a: "c1"},
		{name: "finalize", kind: kFinalize},
		{name: "rollback", kind: kRollback},
		{name: "enterBuffering", kind: kEnter},
		{name: "exitBuffering", kind: kExit},
	}
}

// core alphabet (searched deeper): the data-trie life cycle (create, rewrite the same value,
// modify, empty, remove with the account) with the full pruning schedule and environment.
var coreOps = []string{
	"cfg(ewl=100,queue=0)", "cfg(ewl=1,queue=0)", "cfg(ewl=100,queue=1)", "cfg(ewl=1,queue=1)",
	"block(S.k1:=x)", "block(S.k1:=y)", "block(del S.k1)", "block(remove S)",
	"finalize", "rollback", "enterBuffering", "exitBuffering",
}

func isBlock(k int) bool {
	return k == kTransfer || k == kStore || k == kRemove || k == kCode || k == kFailedTx
}

// ---------------------------------------------------------------- reference model

type racct struct {
	Bal   int64
	Nonce uint64
	Code  string
	Store map[string]string
}

type rstate map[string]*racct

func (r rstate) clone() rstate {
	c := rstate{}
	for k, a := range r {
		n := *a
		n.Store = map[string]string{}
		for sk, sv := range a.Store {
			n.Store[sk] = sv
		}
		c[k] = &n
	}
	return c
}

func (r rstate) String() string {
	var sb strings.Builder
	for _, n := range names {
		a, ok := r[n]
		if !ok {
			continue
		}
		fmt.Fprintf(&sb, "%s{b%d n%d c%s", n, a.Bal, a.Nonce, a.Code)
		for _, k := range knames {
			if v, ok := a.Store[k]; ok {
				fmt.Fprintf(&sb, " %s=%s", k, v)
			}
		}
		sb.WriteString("}")
	}
	return sb.String()
}

func (r rstate) get(n string) *racct {
	a, ok := r[n]
	if !ok {
		a = &racct{Store: map[string]string{}}
		r[n] = a
	}
	return a
}

// chain model: blocks[0] is genesis; blocks[len-1] is the head (= current state).
type blk struct {
	op   string
	root []byte
	ref  rstate
}

// ---------------------------------------------------------------- delegating wrappers (operation counters only)

// nodeDB is the trie-node DB handed to the storage manager: the real memorydb plus a key set
// and per-step counters. It adds no behaviour.
type nodeDB struct {
	mu             sync.Mutex
	in             *memorydb.DB
	keys           map[string]struct{}
	added, removed int
	overwritten    int // Put of an existing key with a different value (never happens: keys are content hashes)
}

func newNodeDB() *nodeDB { return &nodeDB{in: memorydb.New(), keys: map[string]struct{}{}} }

func (d *nodeDB) Put(key, val []byte) error {
	d.mu.Lock()
	if _, ok := d.keys[string(key)]; !ok {
		d.keys[string(key)] = struct{}{}
		d.added++
	} else if old, err := d.in.Get(key); err != nil || !bytes.Equal(old, val) {
		d.overwritten++
	}
	d.mu.Unlock()
	return d.in.Put(key, val)
}
func (d *nodeDB) Get(key []byte) ([]byte, error) { return d.in.Get(key) }
func (d *nodeDB) Remove(key []byte) error {
	d.mu.Lock()
	if _, ok := d.keys[string(key)]; ok {
		delete(d.keys, string(key))
		d.removed++
	}
	d.mu.Unlock()
	return d.in.Remove(key)
}
func (d *nodeDB) Close() error         { return d.in.Close() }
func (d *nodeDB) IsInterfaceNil() bool { return d == nil }
func (d *nodeDB) has(key string) bool {
	d.mu.Lock()
	defer d.mu.Unlock()
	_, ok := d.keys[key]
	return ok
}
func (d *nodeDB) sortedKeys() []string {
	d.mu.Lock()
	defer d.mu.Unlock()
	r := make([]string, 0, len(d.keys))
	for k := range d.keys {
		r = append(r, k)
	}
	sort.Strings(r)
	return r
}

// countingEWL delegates every call to the real eviction waiting list and counts results.
type countingEWL struct {
	in            state.DBRemoveCacher
	evicted, kept int
}

func (e *countingEWL) Put(k []byte, h data.ModifiedHashes) error { return e.in.Put(k, h) }
func (e *countingEWL) Evict(k []byte) (data.ModifiedHashes, error) {
	h, err := e.in.Evict(k)
	if len(h) > 0 {
		e.evicted++
	}
	return h, err
}
func (e *countingEWL) ShouldKeepHash(h string, id data.TriePruningIdentifier) (bool, error) {
	keep, err := e.in.ShouldKeepHash(h, id)
	if keep {
		e.kept++
	}
	return keep, err
}
func (e *countingEWL) IsInterfaceNil() bool { return e == nil }
func (e *countingEWL) Close() error         { return e.in.Close() }

// ---------------------------------------------------------------- the world

type world struct {
	configured bool
	ewlSize    uint
	queueSize  uint

	adb     *state.AccountsDB
	tsm     data.StorageManager
	db      *nodeDB      // trie nodes
	ewlDB   *memorydb.DB // backing DB of the eviction waiting list
	ewl     *countingEWL // real waiting list behind a counting delegate
	spm     state.StoragePruningManager
	pq      core.Queue
	viewTsm data.StorageManager // pruning-less storage manager over the SAME db, for the oracle

	blocks  []blk
	final   int   // index of the highest final block
	lowLive int   // lowest index whose root has not been handed to CancelPrune/PruneTrie by the schedule
	queued  []int // block indices whose roots sit in the pruning queue (mirror of what Add returned)
	blocked int

	// leak classification (counters only)
	prunedSinceUnblock bool
	rollbackBlocked    bool // a rollback ran while pruning was blocked (PruneTrie(NewRoot) degraded to cancel)
	cancelBuffered     bool // a rollback's CancelPrune(OldRoot) was buffered (blocked or buffer non-empty)

	sig, detail string
	nt, out     string
	leak        string
	ctx         *mc.Ctx
	checked     bool
	lastKind    int
	fullCheck   bool // replay mode: read every live root after every step
}

func must(err error) {
	if err != nil {
		panic(err)
	}
}

func hx(b []byte) string { return hex.EncodeToString(b) }
func cp(b []byte) []byte { return append(make([]byte, 0, len(b)), b...) }

func (w *world) configure(ewlSize, queueSize uint) {
	w.configured, w.ewlSize, w.queueSize = true, ewlSize, queueSize
	w.db = newNodeDB()
	w.ewlDB = memorydb.New()
	cfg := config.TrieStorageManagerConfig{PruningBufferLen: 1000, SnapshotsBufferLen: 10, MaxSnapshots: 2}
	tsm, err := trie.NewTrieStorageManager(trie.NewTrieStorageManagerArgs{
		DB: w.db, Marshalizer: marshalizer, Hasher: hasher,
		SnapshotDbConfig:       config.DBConfig{Type: "MemoryDB"},
		GeneralConfig:          cfg,
		CheckpointHashesHolder: hashesHolder.NewCheckpointHashesHolder(10000000, uint64(hasher.Size())),
	})
	must(err)
	w.tsm = tsm
	tr, err := trie.NewTrie(tsm, marshalizer, hasher, 5)
	must(err)
	ewl, err := evictionWaitingList.NewEvictionWaitingList(ewlSize, w.ewlDB, marshalizer)
	must(err)
	w.ewl = &countingEWL{in: ewl}
	spm, err := storagePruningManager.NewStoragePruningManager(w.ewl, cfg.PruningBufferLen)
	must(err)
	w.spm = spm
	w.adb, err = state.NewAccountsDB(tr, hasher, marshalizer, factory.NewAccountCreator(), spm)
	must(err)
	w.pq = queue.NewSliceQueue(queueSize)
	vt, err := trie.NewTrieStorageManagerWithoutPruning(w.db)
	must(err)
	w.viewTsm = vt

	// genesis: A funded, D (driver) exists; committed through the same AccountsDB
	ref := rstate{}
	must(w.setBalance("A", 1000))
	ref.get("A").Bal = 1000
	must(w.setBalance("D", 1))
	ref.get("D").Bal = 1
	root, err := w.adb.Commit()
	must(err)
	w.blocks = []blk{{op: "genesis", root: cp(root), ref: ref}}
}

func (w *world) close() {
	if !w.configured {
		return
	}
	_ = w.adb.Close()
	_ = w.tsm.Close()
}

func (w *world) head() *blk { return &w.blocks[len(w.blocks)-1] }

func (w *world) load(who string) (state.UserAccountHandler, error) {
	acc, err := w.adb.LoadAccount(cp(addrs[who]))
	if err != nil {
		return nil, err
	}
	return acc.(state.UserAccountHandler), nil
}

func (w *world) setBalance(who string, v int64) error {
	ua, err := w.load(who)
	if err != nil {
		return err
	}
	if err = ua.AddToBalance(big.NewInt(v)); err != nil {
		return err
	}
	return w.adb.SaveAccount(ua)
}

// applyBlock executes the transactions of one block on the accounts DB (no commit).
func (w *world) applyBlock(op opDef) error {
	d, err := w.load("D")
	if err != nil {
		return err
	}
	d.IncreaseNonce(1)
	if err = w.adb.SaveAccount(d); err != nil {
		return err
	}
	switch op.kind {
	case kTransfer:
		a, err := w.load("A")
		if err != nil {
			return err
		}
		if err = a.SubFromBalance(big.NewInt(1)); err != nil {
			return err
		}
		if err = w.adb.SaveAccount(a); err != nil {
			return err
		}
		b, err := w.load("B")
		if err != nil {
			return err
		}
		if err = b.AddToBalance(big.NewInt(1)); err != nil {
			return err
		}
		return w.adb.SaveAccount(b)
	case kStore:
		s, err := w.load(op.who)
		if err != nil {
			return err
		}
		var v []byte
		if op.b != "" {
			v = cp(vals[op.b])
		}
		if err = s.DataTrieTracker().SaveKeyValue(cp(keys[op.a]), v); err != nil {
			return err
		}
		return w.adb.SaveAccount(s)
	case kCode:
		s, err := w.load(op.who)
		if err != nil {
			return err
		}
		s.SetCode(cp(codes[op.a]))
		return w.adb.SaveAccount(s)
	case kRemove:
		return w.adb.RemoveAccount(cp(addrs[op.who]))
	case kFailedTx:
		// a transaction that writes storage and then fails: the sc/tx processors revert to the
		// journal length taken before it (the trie nodes it touched are re-created with their
		// previous hashes, so they are obsolete and new in the same commit)
		snap := w.adb.JournalLen()
		s, err := w.load(op.who)
		if err != nil {
			return err
		}
		v := vals["y"]
		if ra := w.head().ref[op.who]; ra != nil && ra.Store[op.a] == "y" {
			v = vals["x"]
		}
		if err = s.DataTrieTracker().SaveKeyValue(cp(keys[op.a]), cp(v)); err != nil {
			return err
		}
		if err = w.adb.SaveAccount(s); err != nil {
			return err
		}
		return w.adb.RevertToSnapshot(snap)
	}
	return nil
}

func refApply(r rstate, op opDef) {
	r.get("D").Nonce++
	switch op.kind {
	case kTransfer:
		r.get("A").Bal--
		r.get("B").Bal++
	case kStore:
		a := r.get(op.who)
		if op.b == "" {
			delete(a.Store, op.a)
		} else {
			a.Store[op.a] = op.b
		}
	case kCode:
		r.get(op.who).Code = op.a
	case kRemove:
		delete(r, op.who)
	}
}

func (w *world) enabled(op opDef) bool {
	if op.kind == kCfg {
		return !w.configured
	}
	if !w.configured {
		return false
	}
	ref := w.head().ref
	switch op.kind {
	case kStore:
		if op.b == "" { // deleting an absent key is only the nonce bump (= any other block)
			a := ref[op.who]
			return a != nil && a.Store[op.a] != ""
		}
	case kRemove:
		return ref[op.who] != nil
	case kCode:
		a := ref[op.who]
		return a == nil || a.Code != op.a
	case kFinalize:
		return w.final < len(w.blocks)-1
	case kRollback:
		return len(w.blocks)-1 > w.final
	case kEnter:
		// IsPruningBlocked only tests the counter against 0: nesting depth 1 is representative
		return w.blocked == 0
	case kExit:
		return w.blocked > 0 // Exit at 0 is a logged no-op
	}
	return true
}

func (w *world) fail(sig string, detail interface{}) {
	if w.sig != "" {
		return
	}
	w.sig = sig
	switch d := detail.(type) {
	case string:
		w.detail = d
	case error:
		w.detail = d.Error()
	default:
		b, _ := json.Marshal(d)
		w.detail = string(b)
	}
}

func errClass(err error) string {
	s := err.Error()
	if i := strings.IndexAny(s, ":0123456789"); i > 0 {
		s = s[:i]
	}
	s = strings.TrimSpace(s)
	if len(s) > 40 {
		s = s[:40]
	}
	return s
}

func hdr(nonce int, root []byte) *dblock.Header {
	return &dblock.Header{Nonce: uint64(nonce), RootHash: cp(root)}
}

// waiting-list and buffer content (for the state key)
type book struct {
	ewl   map[string]map[string]struct{} // entry -> hashes (resolved from the backing DB if needed)
	where map[string]string              // entry -> "c" (cache) | "d" (backing DB)
	buf   []string
}

func (w *world) bufLen() int { return storagePruningManager.VerifC09PruningBuffer(w.spm).Len() }

func (w *world) book() *book {
	b := &book{ewl: map[string]map[string]struct{}{}, where: map[string]string{}}
	for k, v := range evictionWaitingList.VerifC09Cache(w.ewl.in) {
		hs := map[string]struct{}{}
		if len(v) != 0 {
			b.where[k] = "c"
			for h := range v {
				hs[h] = struct{}{}
			}
		} else {
			b.where[k] = "d"
			raw, err := w.ewlDB.Get([]byte(k))
			if err == nil {
				bt := &batch.Batch{}
				if marshalizer.Unmarshal(bt, raw) == nil {
					for _, h := range bt.Data {
						hs[string(h)] = struct{}{}
					}
				}
			} else {
				b.where[k] = "d-missing"
			}
		}
		b.ewl[k] = hs
	}
	for _, e := range pruningBuffer.VerifC09Content(storagePruningManager.VerifC09PruningBuffer(w.spm)) {
		b.buf = append(b.buf, hx(e))
	}
	return b
}

func (w *world) indexOfRoot(r []byte) int {
	for i := range w.blocks {
		if bytes.Equal(w.blocks[i].root, r) {
			return i
		}
	}
	return -1
}

func (w *world) do(op opDef) {
	w.sig, w.detail, w.nt, w.out, w.leak, w.checked = "", "", "", "", "", false
	if op.kind == kCfg {
		w.configure(op.ewl, op.q)
		w.out = "cfg"
		return
	}
	bufBefore := w.bufLen()
	w.db.added, w.db.removed, w.db.overwritten, w.ewl.evicted, w.ewl.kept = 0, 0, 0, 0, 0
	w.lastKind = op.kind
	liveBefore := len(w.blocks) - w.lowLive
	wasBlocked := w.blocked > 0
	switch {
	case isBlock(op.kind):
		if err := w.applyBlock(op); err != nil {
			// every operation of the menu succeeds on the reference state, so an error means the
			// current state could not be read
			w.fail("block-execution-error-on-current-root:"+errClass(err), fmt.Sprintf("%s: %v", op.name, err))
			return
		}
		root, err := w.adb.Commit()
		if err != nil {
			w.fail("commit-error:"+errClass(err), err)
			return
		}
		ref := w.head().ref.clone()
		refApply(ref, op)
		w.blocks = append(w.blocks, blk{op: op.name, root: cp(root), ref: ref})
	case op.kind == kFinalize:
		w.final++
		f := w.final
		// shardProcessor.updateState: for the header that became final, prune what the queue
		// releases (the real baseProcessor.updateStateStorage)
		pblock.VerifC09UpdateStateStorage(hdr(f, w.blocks[f].root), cp(w.blocks[f].root), cp(w.blocks[f-1].root), w.adb, w.pq)
		// mirror of the queue content, from its contract (size 0: passes through; full: releases
		// the oldest)
		released := -1
		if w.queueSize == 0 {
			released = f - 1
		} else {
			w.queued = append(w.queued, f-1)
			if uint(len(w.queued)) > w.queueSize {
				released = w.queued[0]
				w.queued = w.queued[1:]
			}
		}
		if released >= 0 {
			w.lowLive = released + 1
			if !wasBlocked {
				w.prunedSinceUnblock = true
			}
		}
	case op.kind == kRollback:
		cur := w.blocks[len(w.blocks)-1]
		prev := w.blocks[len(w.blocks)-2]
		// baseBootstrap.rollBackOneBlock: RevertStateToBlock(prevHeader) then PruneStateOnRollback
		if err := w.adb.RecreateTrie(cp(prev.root)); err != nil {
			w.fail("rollback-cannot-recreate-previous-root:"+errClass(err), err)
			return
		}
		bufLen := bufBefore
		pblock.VerifC09PruneStateOnRollback(w.adb, hdr(len(w.blocks)-1, cur.root), hdr(len(w.blocks)-2, prev.root))
		w.blocks = w.blocks[:len(w.blocks)-1]
		if wasBlocked {
			w.rollbackBlocked = true
		}
		if wasBlocked || bufLen > 0 {
			w.cancelBuffered = true
		}
		if !wasBlocked {
			w.prunedSinceUnblock = true
		}
	case op.kind == kEnter:
		w.tsm.EnterPruningBufferingMode()
		w.blocked++
	case op.kind == kExit:
		w.tsm.ExitPruningBufferingMode()
		w.blocked--
		w.prunedSinceUnblock = false
	}
	// what the step did to the bookkeeping (counted by the delegating wrappers)
	removed, evicted, kept := w.db.removed, w.ewl.evicted, w.ewl.kept
	kind := op.name
	if isBlock(op.kind) {
		kind = "block"
	}
	w.out = fmt.Sprintf("%s blocked=%v rm=%d evicted=%d kept=%v buf=%d->%d live=%d", kind, wasBlocked, removed, evicted, kept > 0, bufBefore, w.bufLen(), liveBefore)
	if (op.kind == kFinalize || op.kind == kRollback) && liveBefore >= 2 && (removed > 0 || kept > 0) {
		w.nt = fmt.Sprintf("%s removed=%v kept=%v bufferedBefore=%v ewl=%d queue=%d", kind, removed > 0, kept > 0, bufBefore > 0, w.ewlSize, w.queueSize)
	}
}

// ---------------------------------------------------------------- oracle

// readRoot recreates root on the same DB (through the pruning-less view) and reads it
// completely. It returns the set of reachable node hashes.
func (w *world) readRoot(which string, b *blk, reach map[string]struct{}) {
	base, err := trie.NewTrie(w.viewTsm, marshalizer, hasher, 5)
	must(err)
	tr, err := base.Recreate(cp(b.root))
	if err != nil {
		w.fail("live-root-not-recreatable:"+which, fmt.Sprintf("root %s of %s: %v", hx(b.root)[:12], b.op, err))
		return
	}
	hashes, err := tr.GetAllHashes()
	if err != nil {
		w.fail("live-root-missing-node:"+which+":main-trie", fmt.Sprintf("root %s of %s: %v", hx(b.root)[:12], b.op, err))
		return
	}
	for _, h := range hashes {
		reach[string(h)] = struct{}{}
	}
	view, err := state.NewAccountsDB(tr, hasher, marshalizer, factory.NewAccountCreator(), disabled.NewDisabledStoragePruningManager())
	must(err)
	// every data trie referenced by any leaf of the main trie
	all, err := view.RecreateAllTries(cp(b.root))
	if err != nil {
		w.fail("live-root-missing-node:"+which+":data-trie-root", fmt.Sprintf("root %s of %s: %v", hx(b.root)[:12], b.op, err))
		return
	}
	dataRoots := 0
	for r, t := range all {
		if r == string(b.root) {
			continue
		}
		dataRoots++
		hs, err := t.GetAllHashes()
		if err != nil {
			w.fail("live-root-missing-node:"+which+":data-trie", fmt.Sprintf("root %s of %s, data trie %s: %v", hx(b.root)[:12], b.op, hx([]byte(r))[:12], err))
			return
		}
		for _, h := range hs {
			reach[string(h)] = struct{}{}
		}
	}
	// contents = reference state of that block
	var diffs []string
	wantCodes := map[string]int{}
	wantLeaves := 0
	for _, n := range names {
		ra := b.ref[n]
		acc, err := view.GetExistingAccount(cp(addrs[n]))
		if err == state.ErrAccNotFound {
			if ra != nil {
				diffs = append(diffs, n+": missing")
			}
			continue
		}
		if err != nil {
			w.fail("live-root-account-unreadable:"+which, fmt.Sprintf("root %s of %s, account %s: %v", hx(b.root)[:12], b.op, n, err))
			return
		}
		if ra == nil {
			diffs = append(diffs, n+": present, reference has none")
			continue
		}
		wantLeaves++
		ua := acc.(state.UserAccountHandler)
		if ua.GetBalance().Int64() != ra.Bal {
			diffs = append(diffs, fmt.Sprintf("%s.balance %v want %d", n, ua.GetBalance(), ra.Bal))
		}
		if ua.GetNonce() != ra.Nonce {
			diffs = append(diffs, fmt.Sprintf("%s.nonce %d want %d", n, ua.GetNonce(), ra.Nonce))
		}
		wantCode := []byte(nil)
		if ra.Code != "" {
			wantCode = codes[ra.Code]
			wantCodes[ra.Code]++
		}
		if got := view.GetCode(ua.GetCodeHash()); !bytes.Equal(got, wantCode) {
			diffs = append(diffs, fmt.Sprintf("%s.code %q want %q", n, got, wantCode))
		}
		for _, k := range knames {
			v, err := ua.DataTrieTracker().RetrieveValue(cp(keys[k]))
			if err != nil && err != state.ErrNilTrie {
				w.fail("live-root-storage-unreadable:"+which, fmt.Sprintf("root %s of %s, %s[%s]: %v", hx(b.root)[:12], b.op, n, k, err))
				return
			}
			if !bytes.Equal(v, vals[ra.Store[k]]) {
				diffs = append(diffs, fmt.Sprintf("%s[%s] %q want %q", n, k, v, vals[ra.Store[k]]))
			}
		}
	}
	// no additional leaves: accounts + one code entry per distinct code
	leaves, err := tr.GetAllLeavesOnChannel(cp(b.root))
	if err != nil {
		w.fail("live-root-missing-node:"+which+":leaves", err)
		return
	}
	nLeaves := 0
	for range leaves { // the channel is closed by the producer when it is done (its completion signal)
		nLeaves++
	}
	if nLeaves != wantLeaves+len(wantCodes) {
		diffs = append(diffs, fmt.Sprintf("main trie has %d leaves, reference %d accounts + %d codes", nLeaves, wantLeaves, len(wantCodes)))
	}
	if len(diffs) > 0 {
		w.fail("live-root-content-differs:"+which, fmt.Sprintf("root %s of %s: %s", hx(b.root)[:12], b.op, strings.Join(diffs, "; ")))
	}
}

func (w *world) check() {
	w.checked = true
	if !w.configured || w.sig != "" {
		return
	}
	// the accounts DB must sit on the head root
	rh, err := w.adb.RootHash()
	if err != nil || !bytes.Equal(rh, w.head().root) {
		w.fail("current-root-differs-from-head", fmt.Sprintf("RootHash()=%s err=%v head=%s", hx(rh), err, hx(w.head().root)))
		return
	}
	// Incremental evaluation. The BFS reaches this state by one step from a state in which
	// every live root was read completely and found equal to its reference. Trie-node keys are
	// content hashes, so what a root reads can only change when a node is removed (or a key
	// overwritten with different bytes - counted, never observed). Therefore: after a step that
	// removed/overwrote nothing, only a root that is new in this step (the head after a block)
	// has to be read; after finalize/rollback steps and after any step that removed or
	// overwrote a node, every live root is read again.
	full := w.fullCheck || w.db.removed > 0 || w.db.overwritten > 0 || w.lastKind == kFinalize || w.lastKind == kRollback || w.lastKind == kCfg
	lowest := w.lowLive
	if !full {
		lowest = len(w.blocks) // nothing
		if isBlock(w.lastKind) {
			lowest = len(w.blocks) - 1
		}
	}
	reach := map[string]struct{}{}
	for i := len(w.blocks) - 1; i >= lowest; i-- {
		which := "older-live-root"
		if i == len(w.blocks)-1 {
			which = "current-root"
		}
		w.readRoot(which, &w.blocks[i], reach)
		if w.sig != "" {
			return
		}
	}
	if !(w.lastKind == kFinalize || w.lastKind == kRollback) {
		return
	}
	// second oracle (classification only, never a violation): at quiescent points reached by a
	// finalize/rollback step the DB holds nothing but nodes reachable from live roots
	if w.blocked == 0 && w.prunedSinceUnblock {
		if w.bufLen() == 0 {
			surplus := 0
			for _, k := range w.db.sortedKeys() {
				if _, ok := reach[k]; !ok {
					surplus++
				}
			}
			if surplus > 0 {
				switch {
				case w.rollbackBlocked:
					w.leak = "leak-after-rollback-while-blocked"
				case w.cancelBuffered:
					w.leak = "leak-after-buffered-cancel-of-rollback"
				default:
					w.leak = "leak-other"
				}
			} else {
				w.leak = "quiescent-no-leak"
			}
		}
	}
	if w.leak != "" && w.ctx != nil {
		w.ctx.Count(w.leak, 1)
	}
}

// ---------------------------------------------------------------- canonical state key

func (w *world) key(withShape bool) string {
	if !w.configured {
		return "unconfigured"
	}
	var sb strings.Builder
	fmt.Fprintf(&sb, "ewl=%d q=%d blocked=%d final=%d head=%d low=%d queued=%v psu=%v rb=%v cb=%v\n",
		w.ewlSize, w.queueSize, w.blocked, w.final, len(w.blocks)-1, w.lowLive, w.queued, w.prunedSinceUnblock, w.rollbackBlocked, w.cancelBuffered)
	// live part of the chain (roots below lowLive are never used again: the final index never
	// moves back and rollback stops at it) + the roots still waiting in the queue
	for i := w.lowLive; i < len(w.blocks); i++ {
		fmt.Fprintf(&sb, "blk%d %s %s\n", i, hx(w.blocks[i].root), w.blocks[i].ref.String())
	}
	rh, _ := w.adb.RootHash()
	fmt.Fprintf(&sb, "root=%s last=%s journal=%d loaded=%d obsolete=%d\n", hx(rh), hx(state.VerifLastRootHash(w.adb)), w.adb.JournalLen(),
		len(state.VerifLoadedDataTries(w.adb)), len(state.VerifObsoleteRoots(w.adb)))
	if withShape {
		fmt.Fprintf(&sb, "shape=%s\n", trie.VerifTrieFingerprint(state.VerifMainTrie(w.adb)))
	}
	b := w.book()
	dk := w.db.sortedKeys()
	h := sha256.New()
	for _, k := range dk {
		h.Write([]byte(k))
	}
	fmt.Fprintf(&sb, "db=%d:%x\n", len(dk), h.Sum(nil)[:12])
	ek := make([]string, 0, len(b.ewl))
	for k := range b.ewl {
		ek = append(ek, k)
	}
	sort.Strings(ek)
	for _, k := range ek {
		hs := make([]string, 0, len(b.ewl[k]))
		for x := range b.ewl[k] {
			hs = append(hs, x)
		}
		sort.Strings(hs)
		h := sha256.New()
		for _, x := range hs {
			h.Write([]byte(x))
		}
		fmt.Fprintf(&sb, "ewl %s %s %d:%x\n", hx([]byte(k)), b.where[k], len(hs), h.Sum(nil)[:12])
	}
	fmt.Fprintf(&sb, "buf=%v\n", b.buf)
	return sb.String()
}

// ---------------------------------------------------------------- main

func subMenu(full []opDef, names []string) []opDef {
	var r []opDef
	for _, n := range names {
		found := false
		for _, o := range full {
			if o.name == n {
				r = append(r, o)
				found = true
			}
		}
		if !found {
			panic("unknown operation " + n)
		}
	}
	return r
}

func opNames(menu []opDef) []string {
	r := make([]string, len(menu))
	for i, o := range menu {
		r[i] = o.name
	}
	return r
}

func search(c *mc.Ctx, menu []opDef, depth int, withShape bool) mc.BFSStats {
	return mc.BFS(c, mc.Sys[*world]{
		Init:    func() *world { return &world{ctx: c} },
		Menu:    opNames(menu),
		Enabled: func(w *world, op int) bool { return w.enabled(menu[op]) },
		Do: func(w *world, op int) (string, string) {
			w.do(menu[op])
			return w.sig, w.detail
		},
		Check: func(w *world) (string, string) {
			w.check()
			return w.sig, w.detail
		},
		Key:        func(w *world) string { return w.key(withShape) },
		Nontrivial: func(w *world) string { return w.nt },
		Outcome:    func(w *world) string { return w.out },
		Close:      func(w *world) { w.close() },
	}, depth)
}

func replay(c *mc.Ctx, full []opDef) {
	var hist []string
	if err := json.Unmarshal(c.ReplayData, &hist); err != nil {
		c.Fatal("replay data is not a list of operation names: %v", err)
	}
	w := &world{fullCheck: true}
	defer w.close()
	for i, n := range hist {
		op := subMenu(full, []string{n})[0]
		if !w.enabled(op) {
			c.Fatal("replay: %s not enabled at step %d", n, i)
		}
		var perr string
		perr = mc.Try(func() {
			w.do(op)
			w.check()
		})
		if perr != "" {
			w.sig, w.detail = "panic", perr
		}
		c.Eval(1)
		if w.sig != "" {
			c.Violation(w.sig, map[string]interface{}{"history": hist[:i+1], "what": w.detail}, hist[:i+1])
			return
		}
	}
}

func main() {
	_ = logger.SetLogLevel("*:NONE")
	if os.Getenv("GOGC") == "" {
		debug.SetGCPercent(400)
	}
	depthFlag := flag.Int("depth", 0, "override the full-alphabet search depth, counting the cfg step (development aid)")
	coreFlag := flag.Int("coredepth", -1, "override the core-alphabet search depth, 0 = skip (development aid)")
	noShape := flag.Bool("noshape", false, "leave the in-memory trie shape out of the state key (development aid)")
	prof := flag.String("cpuprofile", "", "write a CPU profile (development aid)")
	mc.Main("C09", "model_checking", func(c *mc.Ctx) {
		if *prof != "" {
			f, err := os.Create(*prof)
			must(err)
			must(pprof.StartCPUProfile(f))
			defer pprof.StopCPUProfile()
			defer func() {
				mf, err := os.Create(*prof + ".mem")
				must(err)
				must(pprof.Lookup("allocs").WriteTo(mf, 0))
				mf.Close()
			}()
		}
		menu := buildMenu()
		coreMenu := subMenu(menu, coreOps)
		// depths count the leading cfg(...) step
		depth, coreDepth := c.Pick(1+4, 1+5), c.Pick(1+7, 1+8)
		if *depthFlag > 0 {
			depth = *depthFlag
		}
		if *coreFlag >= 0 {
			coreDepth = *coreFlag
		}
		if c.Quick() {
			c.Deadline = time.Now().Add(115 * time.Second)
		} else {
			c.Deadline = time.Now().Add(14 * time.Minute)
		}
		c.Set("alphabet", opNames(menu))
		c.Set("core_alphabet", opNames(coreMenu))
		c.Rule = "non-trivial = a finalize or rollback step, made while >= 2 roots were live, whose CancelPrune/PruneTrie calls removed >= 1 node from the trie DB or evicted a waiting-list entry of which >= 1 hash was kept in the DB (key = step kind, removed?, kept?, requests buffered before?, EWL cache size, queue size)"
		c.Assumptions = []string{
			"accounts A,B (wallets), S (contract address, holds storage and code), D (driver); keys k1,k2; values x,yy; codes c1,c2; every block = bump D.nonce + one mutation (LoadAccount/mutate/SaveAccount or RemoveAccount with fresh byte slices) + Commit, so roots repeat only through rollback + re-apply",
			"chain model: one chain, final index only grows; 'finalize' makes the next block final and calls the real baseProcessor.updateStateStorage(hdr_f, root_f, root_{f-1}) with the real core/queue.sliceQueue (size 0 or 1); it is offered whenever final < head (superset of the shard processor, where final < head always holds after a commit); 'rollback' is offered for a non-final head only and is RecreateTrie(prevRoot) (RevertStateToBlock) followed by the real baseProcessor.PruneStateOnRollback",
			"live roots = roots of the blocks from the lowest one not yet released by the pruning queue up to the head, minus rolled-back blocks; a root released to CancelPrune/PruneTrie counts as pruned even while the request is still buffered",
			"EnterPruningBufferingMode/ExitPruningBufferingMode are called directly on the real trieStorageManager (models a snapshot in progress; the concurrent snapshot itself is C10); nesting depth is capped at 1 because IsPruningBlocked only tests the counter against 0; Exit at 0 (logged no-op) is not offered; pruning buffer length 1000 (never full here)",
			"the oracle reads through a separate trie + read-only AccountsDB over the same DB with a pruning-less storage manager, so it never touches the real storage manager, the waiting list or the accounts DB under test; the storage manager's only goroutine (storageProcessLoop) idles on its request channel for the whole run (no snapshot/checkpoint request is ever sent; the checkpoint hashes holder never fills), every pruning call is synchronous",
			"state key = config, blocked counter, final/head/lowest-live index, queue content, live blocks (root + reference state), RootHash, lastRootHash, trie DB key set, every waiting-list entry (key, cache-or-DB residence, hash set), pruning-buffer content, leak-classification flags, and the in-memory shape of the main trie (resolved/collapsed/dirty per node)",
			"leak classification (DB keys not reachable from any live root at a quiescent point reached by a finalize/rollback step: not blocked, buffer empty, a prune executed since the last unblock) is reported in counters only, never as a violation",
			"incremental oracle: every explored state is one step away from a state whose live roots were all read completely; trie-node keys are content hashes, so after a step that removed no node (and overwrote none: counted by the DB wrapper, never observed) only the root created by that step is read; after every finalize/rollback and after any step that removed a node all live roots are read again; replays read all live roots after every step",
		}
		if len(c.ReplayData) > 0 {
			replay(c, menu)
			return
		}
		st := search(c, menu, depth, !*noShape)
		c.Bound = fmt.Sprintf("4 configs (EWL cache 1|100 x pruning queue 0|1) x all sequences of <= %d steps over the full %d-step alphabet (depth reached %d incl. cfg step, fixpoint=%v)", depth-1, len(menu)-4, st.Depth, st.Fixpoint)
		if coreDepth > 0 {
			st2 := search(c, coreMenu, coreDepth, !*noShape)
			c.Bound += fmt.Sprintf(" + all sequences of <= %d steps over the %d-step core alphabet (depth reached %d incl. cfg step, fixpoint=%v)", coreDepth-1, len(coreMenu)-4, st2.Depth, st2.Fixpoint)
		}
		if !c.Quick() && *depthFlag == 0 && *coreFlag < 0 {
			// thorough only: the core alphabet plus the reverted-write block (a hash that is
			// obsolete and new in one commit) one step shallower
			core2 := subMenu(menu, append(append([]string{}, coreOps...), "block(S.k1 write+revert)"))
			c.Set("core2_alphabet", opNames(core2))
			st3 := search(c, core2, coreDepth-1, !*noShape)
			c.Bound += fmt.Sprintf(" + all sequences of <= %d steps over the %d-step core alphabet extended with block(S.k1 write+revert) (depth reached %d incl. cfg step, fixpoint=%v)", coreDepth-2, len(core2)-4, st3.Depth, st3.Fixpoint)
		}
	})
}
