// C41 — token identifiers are unique and well-formed.
//
// Seam: the real ESDT system contract (vm/systemSmartContracts.NewESDTSmartContract) executed
// through the real systemVM + vmContext over a world that is one map (the ESDT contract's
// committed storage, served by a stub blockchain hook). The contract gets a *stub hasher* whose
// first three output bytes are the enumerated choice of the current issue, so the first
// candidate identifier of every issue is chosen by the harness. A transaction's storage updates
// are committed to the world iff it returns Ok (what scProcessor does).
//
// Space: every sequence of <= N issue transactions, each = function {issue, issueSemiFungible,
// issueNonFungible} x ticker x caller x hash prefix (registerMetaESDT does not exist in this
// version of the contract). Oracle after every successful issue: the returned identifier
// (ESDTTransfer data for issue, ReturnData[0] otherwise) is TICKER-[0-9a-f]{6}, differs from
// every identifier returned earlier in the history, the token record (ticker, owner, type) is
// stored under it, and the records of earlier tokens are untouched.
// Thorough tier also searches a real (caller, seed) whose blake2b hash starts with ffffff and
// replays the two-issue witness with the production hasher.
package main

import (
	"bytes"
	"encoding/binary"
	"encoding/hex"
	"encoding/json"
	"errors"
	"fmt"
	"math/big"
	"strings"
	"sync"

	"github.com/ElrondNetwork/elrond-go/config"
	"github.com/ElrondNetwork/elrond-go/core"
	"github.com/ElrondNetwork/elrond-go/hashing"
	"github.com/ElrondNetwork/elrond-go/hashing/blake2b"
	"github.com/ElrondNetwork/elrond-go/marshal"
	"github.com/ElrondNetwork/elrond-go/process/smartContract/hooks"
	"github.com/ElrondNetwork/elrond-go/testscommon"
	"github.com/ElrondNetwork/elrond-go/vm"
	vmfactory "github.com/ElrondNetwork/elrond-go/vm/factory"
	"github.com/ElrondNetwork/elrond-go/vm/mock"
	vmprocess "github.com/ElrondNetwork/elrond-go/vm/process"
	"github.com/ElrondNetwork/elrond-go/vm/systemSmartContracts"
	vmcommon "github.com/ElrondNetwork/elrond-vm-common"
	"github.com/ElrondNetwork/elrond-vm-common/parsers"
	"verif/engine/mc"
)

var functions = []string{"issue", "issueSemiFungible", "issueNonFungible"}
var tokenTypes = []string{core.FungibleESDT, core.SemiFungibleESDT, core.NonFungibleESDT}
var tickers = []string{"ABC", "ABCDEF", "A1B2C3D4E5"}
var prefixes = [][3]byte{{0, 0, 0}, {0, 0, 1}, {0, 0, 0x0f}, {0x7f, 0xff, 0xff}, {0xff, 0xff, 0xfe}, {0xff, 0xff, 0xff},
	// only used by the deep unary pass: the wrap ffffff -> 000000 happens in the middle of the retries
	{0xff, 0xff, 0xd0}}

const numEnumPrefixes = 6

func caller(i int) []byte {
	a := bytes.Repeat([]byte{byte('1' + i)}, 32)
	return a
}

var randomSeed = []byte("verif-c41-current-random-seed-00")

const issuingCost = 1000

// op is one issue transaction of the alphabet.
type op struct{ fn, ticker, caller, prefix int }

func (o op) String() string {
	return fmt.Sprintf("%s(%s) by c%d, hash prefix %s", functions[o.fn], tickers[o.ticker], o.caller+1, hex.EncodeToString(prefixes[o.prefix][:]))
}

// stubHasher returns 32 bytes whose first three are the current choice.
type stubHasher struct{ prefix [3]byte }

func (h *stubHasher) Compute(string) []byte {
	r := make([]byte, 32)
	copy(r, h.prefix[:])
	for i := 3; i < 32; i++ {
		r[i] = 0xa5
	}
	return r
}
func (h *stubHasher) Size() int            { return 32 }
func (h *stubHasher) IsInterfaceNil() bool { return h == nil }

// inst is one wiring of real contract + real context + world.
type inst struct {
	sysv   vmcommon.VMExecutionHandler
	stub   *stubHasher
	world  map[string][]byte // committed storage of the ESDT contract
	m      marshal.Marshalizer
	issued []issuedTok
}

type issuedTok struct {
	id     string
	record []byte
}

func newInst(hasher hashing.Hasher, stub *stubHasher) (*inst, error) {
	in := &inst{world: map[string][]byte{}, m: &marshal.GogoProtoMarshalizer{}, stub: stub}
	hook := &mock.BlockChainHookStub{
		GetUserAccountCalled: func([]byte) (vmcommon.UserAccountHandler, error) { return nil, errors.New("no account") },
		GetStorageDataCalled: func(addr, key []byte) ([]byte, error) {
			if bytes.Equal(addr, vm.ESDTSCAddress) {
				return in.world[string(key)], nil
			}
			return nil, nil
		},
		CurrentNonceCalled:      func() uint64 { return 1 },
		CurrentRandomSeedCalled: func() []byte { return randomSeed },
	}
	eei, err := systemSmartContracts.NewVMContext(hook, hooks.NewVMCryptoHook(), parsers.NewCallArgsParser(),
		&testscommon.AccountsStub{}, &mock.RaterMock{})
	if err != nil {
		return nil, err
	}
	esdt, err := systemSmartContracts.NewESDTSmartContract(systemSmartContracts.ArgsNewESDTSmartContract{
		Eei:                    eei,
		GasCost:                vm.GasCost{MetaChainSystemSCsCost: vm.MetaChainSystemSCsCost{ESDTIssue: 10}},
		ESDTSCConfig:           config.ESDTSystemSCConfig{BaseIssuingCost: fmt.Sprint(issuingCost), OwnerAddress: "owner"},
		ESDTSCAddress:          vm.ESDTSCAddress,
		Marshalizer:            in.m,
		Hasher:                 hasher,
		EpochNotifier:          &mock.EpochNotifierStub{}, // calls EpochConfirmed(0): contract enabled
		EndOfEpochSCAddress:    vm.EndOfEpochAddress,
		AddressPubKeyConverter: mock.NewPubkeyConverterMock(32),
	})
	if err != nil {
		return nil, err
	}
	cont := vmfactory.NewSystemSCContainer()
	if err := cont.Add(vm.ESDTSCAddress, esdt); err != nil {
		return nil, err
	}
	if err := eei.SetSystemSCContainer(cont); err != nil {
		return nil, err
	}
	gs := mock.NewGasScheduleNotifierMock(map[string]map[string]uint64{
		"ElrondAPICost": {"AsyncCallStep": 1, "AsyncCallbackGasLock": 1}})
	in.sysv, err = vmprocess.NewSystemVM(vmprocess.ArgsNewSystemVM{SystemEI: eei, SystemContracts: cont,
		VmType: []byte{0, 1}, GasSchedule: gs})
	return in, err
}

type undo struct {
	keys   []string
	old    [][]byte
	had    []bool
	issued int
}

func (in *inst) revert(u *undo) {
	for i := len(u.keys) - 1; i >= 0; i-- {
		if u.had[i] {
			in.world[u.keys[i]] = u.old[i]
		} else {
			delete(in.world, u.keys[i])
		}
	}
	in.issued = in.issued[:u.issued]
}

type finding struct {
	sig    string
	detail map[string]interface{}
}

// result of one issue
type result struct {
	rc       vmcommon.ReturnCode
	msg      string
	id       string
	collided bool // the first candidate identifier already existed
	findings []finding
}

// issue runs one issue transaction with the real contract, commits it iff Ok and judges it.
func (in *inst) issue(c *mc.Ctx, fn, ticker string, tokenType string, callerAddr []byte, firstCandidate string) (*result, *undo) {
	u := &undo{issued: len(in.issued)}
	res := &result{}
	if firstCandidate != "" {
		res.collided = len(in.world[firstCandidate]) > 0
	}
	args := [][]byte{[]byte("TokenName"), []byte(ticker)}
	if fn == "issue" {
		args = append(args, big.NewInt(100).Bytes(), big.NewInt(2).Bytes())
	}
	out, err := in.sysv.RunSmartContractCall(&vmcommon.ContractCallInput{
		VMInput: vmcommon.VMInput{CallerAddr: callerAddr, CallValue: big.NewInt(issuingCost), GasProvided: 1000,
			Arguments: args},
		RecipientAddr: vm.ESDTSCAddress, Function: fn})
	if err != nil || out == nil {
		c.Fatal("RunSmartContractCall: %v", err)
	}
	res.rc, res.msg = out.ReturnCode, out.ReturnMessage
	if out.ReturnCode != vmcommon.Ok {
		return res, u // nothing issued, nothing committed
	}
	// commit
	if acc, ok := out.OutputAccounts[string(vm.ESDTSCAddress)]; ok {
		keys := make([]string, 0, len(acc.StorageUpdates))
		for k := range acc.StorageUpdates {
			keys = append(keys, k)
		}
		sortStrings(keys)
		for _, k := range keys {
			old, had := in.world[k]
			u.keys, u.old, u.had = append(u.keys, k), append(u.old, old), append(u.had, had)
			in.world[k] = acc.StorageUpdates[k].Data
		}
	}
	// returned identifier
	if fn == "issue" {
		if acc, ok := out.OutputAccounts[string(callerAddr)]; ok && len(acc.OutputTransfers) == 1 {
			parts := strings.Split(string(acc.OutputTransfers[0].Data), "@")
			if len(parts) == 3 && parts[0] == core.BuiltInFunctionESDTTransfer {
				b, _ := hex.DecodeString(parts[1])
				res.id = string(b)
			}
		}
	} else if len(out.ReturnData) == 1 {
		res.id = string(out.ReturnData[0])
	}
	bad := func(sig string, d map[string]interface{}) {
		d["identifier"] = res.id
		res.findings = append(res.findings, finding{sig, d})
	}
	if res.id == "" {
		bad("successful-issue-returns-no-identifier", map[string]interface{}{})
		return res, u
	}
	// well-formed
	if !tickerShapeOK(ticker) {
		bad("issued-for-a-ticker-that-is-not-3-to-10-uppercase-alphanumerics", map[string]interface{}{"ticker": ticker, "ticker_hex": hex.EncodeToString([]byte(ticker))})
	}
	if !strings.HasPrefix(res.id, ticker+"-") {
		bad("identifier-does-not-start-with-ticker", map[string]interface{}{"ticker": ticker})
	} else {
		suffix := res.id[len(ticker)+1:]
		switch {
		case len(suffix) > 6:
			bad("identifier-has-more-than-6-hex-digits", map[string]interface{}{"suffix": suffix})
		case len(suffix) < 6:
			bad("identifier-has-fewer-than-6-hex-digits", map[string]interface{}{"suffix": suffix})
		case strings.Trim(suffix, "0123456789abcdef") != "":
			bad("identifier-suffix-not-lowercase-hex", map[string]interface{}{"suffix": suffix})
		}
	}
	// unique
	for _, t := range in.issued {
		if t.id == res.id {
			bad("identifier-not-unique", map[string]interface{}{})
			break
		}
	}
	// stored under it
	rec := in.world[res.id]
	tok := &systemSmartContracts.ESDTData{}
	if len(rec) == 0 {
		bad("token-record-not-stored-under-identifier", map[string]interface{}{})
	} else if err := in.m.Unmarshal(tok, rec); err != nil || string(tok.TickerName) != ticker ||
		!bytes.Equal(tok.OwnerAddress, callerAddr) || string(tok.TokenType) != tokenType {
		bad("record-under-identifier-is-not-this-token", map[string]interface{}{"ticker": string(tok.TickerName), "type": string(tok.TokenType)})
	}
	// earlier tokens untouched
	for _, t := range in.issued {
		if t.id != res.id && !bytes.Equal(in.world[t.id], t.record) {
			bad("earlier-token-record-changed", map[string]interface{}{"earlier": t.id})
			break
		}
	}
	in.issued = append(in.issued, issuedTok{res.id, rec})
	return res, u
}

// tickerShapeOK is the documented ticker format: 3..10 characters from A-Z and 0-9.
func tickerShapeOK(t string) bool {
	if len(t) < 3 || len(t) > 10 {
		return false
	}
	for i := 0; i < len(t); i++ {
		if !(t[i] >= 'A' && t[i] <= 'Z') && !(t[i] >= '0' && t[i] <= '9') {
			return false
		}
	}
	return true
}

func sortStrings(s []string) {
	for i := 1; i < len(s); i++ {
		for j := i; j > 0 && s[j] < s[j-1]; j-- {
			s[j], s[j-1] = s[j-1], s[j]
		}
	}
}

func (in *inst) doOp(c *mc.Ctx, o op) (*result, *undo) {
	in.stub.prefix = prefixes[o.prefix]
	first := tickers[o.ticker] + "-" + hex.EncodeToString(prefixes[o.prefix][:])
	return in.issue(c, functions[o.fn], tickers[o.ticker], tokenTypes[o.fn], caller(o.caller), first)
}

func main() {
	mc.Main("C41", "exploration", func(c *mc.Ctx) {
		// pass (a): histories of <=3 issues over the full alphabet (2 callers);
		// pass (b), thorough: histories of <=4 issues by one caller (with the stub hasher the
		// caller only ends up in the owner field, it does not influence the identifier).
		type pass struct{ maxLen, callers int }
		passes := []pass{{3, 2}}
		c.Bound = "history length <= 3 (2 callers, 108 ops/step)"
		if !c.Quick() {
			passes = append(passes, pass{4, 1})
			c.Bound += "; history length <= 4 (1 caller, 54 ops/step)"
		}
		c.Rule = fmt.Sprintf("all sequences of issue transactions on the real ESDT contract (committed iff Ok), each from functions %v x tickers %v x callers x first-3-hash-bytes {000000,000001,00000f,7fffff,fffffe,ffffff} (stub hasher): (a) length <=3 with 2 callers; thorough adds (b) length <=4 with 1 caller and (c) the ffffff witness with the production blake2b hasher; every prefix of a sequence is judged. non-trivial = an issue whose first candidate identifier already existed (retry loop taken)", functions, tickers)
		c.Assumptions = []string{
			"call value == base issuing cost, enough gas, valid token name, no optional properties (argument validation is not the subject)",
			"registerMetaESDT is not a function of this contract version",
			"exhaustion of the 50 retries is reached only by the deep unary pass (the same issue repeated 53 times); mixed histories that long are outside the bound",
		}
		if len(c.ReplayData) > 0 {
			var seq []op
			var raw [][4]int
			if err := json.Unmarshal(c.ReplayData, &raw); err != nil {
				c.Fatal("bad replay: %v", err)
			}
			for _, r := range raw {
				seq = append(seq, op{r[0], r[1], r[2], r[3]})
			}
			stub := &stubHasher{}
			in, err := newInst(stub, stub)
			if err != nil {
				c.Fatal("wiring: %v", err)
			}
			for i, o := range seq {
				res, _ := in.doOp(c, o)
				report(c, seq[:i+1], res)
				c.Eval(1)
			}
			return
		}

		var poolMu sync.Mutex
		var pool []*inst
		get := func() *inst {
			poolMu.Lock()
			defer poolMu.Unlock()
			if n := len(pool); n > 0 {
				in := pool[n-1]
				pool = pool[:n-1]
				return in
			}
			stub := &stubHasher{}
			in, err := newInst(stub, stub)
			if err != nil {
				c.Fatal("wiring: %v", err)
			}
			return in
		}
		put := func(in *inst) { poolMu.Lock(); pool = append(pool, in); poolMu.Unlock() }

		for _, ps := range passes {
			maxLen := ps.maxLen
			var ops []op
			for f := range functions {
				for t := range tickers {
					for cl := 0; cl < ps.callers; cl++ {
						for p := range prefixes[:numEnumPrefixes] {
							ops = append(ops, op{f, t, cl, p})
						}
					}
				}
			}
			var dfs func(in *inst, seq []op, depth int)
			dfs = func(in *inst, seq []op, depth int) {
				for _, o := range ops {
					s := append(seq, o)
					res, u := in.doOp(c, o)
					c.Eval(1)
					report(c, s, res)
					if depth+1 < maxLen && !c.Expired() {
						dfs(in, s, depth+1)
					}
					in.revert(u)
				}
			}
			n := len(ops)
			mc.Par(n*n, func(i int) {
				if c.Expired() {
					c.Cap("deadline")
					return
				}
				a, b := ops[i/n], ops[i%n]
				in := get()
				defer put(in)
				if len(in.world) != 0 || len(in.issued) != 0 {
					c.Fatal("world not reverted")
				}
				r1, u1 := in.doOp(c, a)
				if i%n == 0 {
					c.Eval(1)
					report(c, []op{a}, r1)
				}
				if maxLen >= 2 {
					seq := []op{a, b}
					r2, u2 := in.doOp(c, b)
					c.Eval(1)
					report(c, seq, r2)
					if maxLen >= 3 {
						dfs(in, seq, 2)
					}
					in.revert(u2)
				}
				in.revert(u1)
			})

		}
		// pass (d), both tiers: deep unary histories — the SAME issue repeated 53 times (more than
		// the 50 collision retries), for every function x ticker x first candidate in
		// {000000, ffffd0 (wrap in the middle), ffffff}: over a one-letter alphabet every
		// history up to that length is enumerated. Every successful issue must still get a
		// fresh well-formed identifier and leave earlier records unchanged; a refusal
		// (retries exhausted) is allowed. Added after the independent seed C41-1.
		if !c.Expired() {
			deepLen := 53
			for f := range functions {
				for t := range tickers {
					for _, p := range []int{0, 6, 5} {
						in := get()
						var seq []op
						var undos []*undo
						for i := 0; i < deepLen; i++ {
							o := op{f, t, 0, p}
							seq = append(seq, o)
							res, u := in.doOp(c, o)
							undos = append(undos, u)
							c.Eval(1)
							report(c, seq, res)
						}
						for i := len(undos) - 1; i >= 0; i-- {
							in.revert(undos[i])
						}
						put(in)
					}
				}
			}
			c.Bound += "; deep unary histories: the same issue x 53 for 3 functions x 3 tickers x 3 first candidates"
		}
		// pass (e), both tiers: ticker shapes. One issue on a fresh world for every function x
		// every ticker obtained from a base of length 2, 3, 4, 10 or 11 by replacing one
		// position with every byte value 0..255 (plus the empty ticker): an issue that succeeds
		// must be for a ticker of the documented shape (and is judged like every other issue).
		// Added after the independent seed C41-2.
		if !c.Expired() {
			bases := []string{"AB", "ABC", "A1B2", "A1B2C3D4E5", "A1B2C3D4E5F"}
			accepted := 0
			for f := range functions {
				in := get()
				try := func(tk string) {
					in.stub.prefix = prefixes[0]
					res, u := in.issue(c, functions[f], tk, tokenTypes[f], caller(0), "")
					c.Eval(1)
					if res.rc == vmcommon.Ok {
						accepted++
					}
					c.Outcome(fmt.Sprintf("ticker-shape: %s shapeOK=%v", res.rc, tickerShapeOK(tk)))
					for _, fd := range res.findings {
						fd.detail["history"] = []string{fmt.Sprintf("%s(ticker hex %s) by c1", functions[f], hex.EncodeToString([]byte(tk)))}
						c.ViolationR("ticker-shape:"+fd.sig, len(tk)*1000+f, fd.detail, nil)
					}
					in.revert(u)
				}
				try("")
				for _, b := range bases {
					for pos := 0; pos < len(b); pos++ {
						for v := 0; v < 256; v++ {
							t := []byte(b)
							t[pos] = byte(v)
							try(string(t))
						}
					}
				}
				put(in)
			}
			if accepted > 0 {
				c.Nontrivial("ticker-shape:some-accepted")
			}
			c.Bound += "; ticker shapes: every one-byte replacement (256 values) in bases of length 2,3,4,10,11 x 3 functions"
		}
		if !c.Quick() {
			realHasherWitness(c)
		}
	})
}

func report(c *mc.Ctx, seq []op, res *result) {
	if res.collided && res.rc == vmcommon.Ok {
		c.Nontrivial(fmt.Sprint(seq))
		if c.WantSample() {
			c.Sample(map[string]interface{}{"history": describe(seq), "last_identifier": res.id})
		}
	}
	suffix := ""
	if i := strings.LastIndex(res.id, "-"); i >= 0 {
		suffix = res.id[i+1:]
	}
	c.Outcome(fmt.Sprintf("%s collided=%v suffix=%s", res.rc, res.collided, suffix))
	if res.rc != vmcommon.Ok {
		c.Count("issue_rejected:"+res.msg, 1)
	}
	for _, f := range res.findings {
		f.detail["history"] = describe(seq)
		raw := make([][4]int, len(seq))
		for i, o := range seq {
			raw[i] = [4]int{o.fn, o.ticker, o.caller, o.prefix}
		}
		rank := len(seq) * 1000
		for _, o := range seq {
			rank += o.fn + o.ticker + o.caller
		}
		c.ViolationR(f.sig, rank, f.detail, raw)
	}
}

func describe(seq []op) []string {
	r := make([]string, len(seq))
	for i, o := range seq {
		r[i] = o.String()
	}
	return r
}

// realHasherWitness: find, deterministically, the smallest counter n such that
// blake2b(caller_n || seed) starts with ff ff ff (production hasher of the metachain VM
// factory), then issue two tokens from that caller with the production hasher.
func realHasherWitness(c *mc.Ctx) {
	h := blake2b.NewBlake2b()
	const chunk = 1 << 20
	found := int64(-1)
	mk := func(n uint64) []byte {
		a := bytes.Repeat([]byte{0xc4}, 32)
		binary.BigEndian.PutUint64(a[24:], n)
		return a
	}
	var tried int64
	for base := uint64(0); found < 0 && base < 1<<30 && !c.Expired(); base += chunk {
		const parts = 64
		hits := make([]int64, parts)
		mc.Par(parts, func(p int) {
			hits[p] = -1
			buf := make([]byte, 0, 64)
			for n := base + uint64(p)*(chunk/parts); n < base+uint64(p+1)*(chunk/parts); n++ {
				buf = append(append(buf[:0], mk(n)...), randomSeed...)
				d := h.Compute(string(buf))
				if d[0] == 0xff && d[1] == 0xff && d[2] == 0xff {
					hits[p] = int64(n)
					return
				}
			}
		})
		tried += chunk
		for _, x := range hits {
			if x >= 0 {
				found = x
				break
			}
		}
	}
	c.Count("real_hasher_candidates_tried_upper_bound", tried)
	if found < 0 {
		c.Cap("no blake2b preimage with prefix ffffff found within 2^30 callers")
		return
	}
	in, err := newInst(h, &stubHasher{})
	if err != nil {
		c.Fatal("wiring: %v", err)
	}
	cl := mk(uint64(found))
	c.Set("real_hasher_witness", map[string]interface{}{"hasher": "blake2b", "caller": hex.EncodeToString(cl), "random_seed": string(randomSeed)})
	var ids []string
	defer func() { c.Set("real_hasher_identifiers", ids) }()
	for i := 0; i < 2; i++ {
		first := ""
		if i == 1 {
			first = "ABC-ffffff"
		}
		res, _ := in.issue(c, "issue", "ABC", core.FungibleESDT, cl, first)
		c.Eval(1)
		if res.collided {
			c.Nontrivial("real-hasher-second-issue")
		}
		c.Outcome(fmt.Sprintf("real-hasher %s %s", res.rc, res.id))
		ids = append(ids, res.id)
		for _, f := range res.findings {
			f.detail["history"] = fmt.Sprintf("issue(ABC) twice by caller %s with the production blake2b hasher and random seed %q", hex.EncodeToString(cl), randomSeed)
			c.ViolationR(f.sig, 1<<30, f.detail, nil)
		}
	}
}
