// C28 — the size-bounded LRU cache (storage/lrucache/capacity) behaves like a reference
// least-recently-used cache with an item limit and a byte limit that always keeps the most
// recent item.
//
// Explicit-state BFS (mc.BFS) to fixpoint on two seams of the real code:
//
//	capacityLRU  capacity.NewCapacityLRU driven directly (all its operations),
//	lruCache     lrucache.NewCacheWithSizeInBytes (the storage.Cacher wrapper around it).
//
// Reference: a slice ordered by recency (oldest first) of (key,size) + item limit + byte
// limit; after an insertion/update it drops the oldest entries while more than one entry is
// left and (count > item limit or sum of sizes > byte limit).
//
// Oracle = what the statement lists: after every operation the keys present are the same
// (Keys(), Len(), found-results of Get/Peek/Contains/Remove/add-if-missing), reads refresh
// recency (Keys() order equals the reference order; Peek/Contains/add-if-missing on a present
// key do not), SizeInBytesContained() equals the sum of the reference sizes of the items
// present. Get/Peek must also return the value stored last for the key.
// The "an eviction occurred" results of the add operations (bool / evicted map) are not part
// of the statement: differences from the reference are counted in the evidence
// (counters.*) and become violations only with --strict-evicted.
package main

import (
	"encoding/json"
	"flag"
	"fmt"
	"sort"
	"strconv"

	logger "github.com/ElrondNetwork/elrond-go-logger"
	"github.com/ElrondNetwork/elrond-go/storage"
	"github.com/ElrondNetwork/elrond-go/storage/lrucache"
	"github.com/ElrondNetwork/elrond-go/storage/lrucache/capacity"
	"verif/engine/mc"
)

var strictEvicted = flag.Bool("strict-evicted", false, "treat a wrong 'eviction occurred' result of an add operation as a violation")

var sizes = []int64{-1, 0, 1, 3, 6}

const (
	sigKeys    = "C28:keys-present-differ-from-reference"
	sigOrder   = "C28:recency-order-differs-from-reference"
	sigLen     = "C28:Len-differs-from-number-of-keys-present"
	sigBytes   = "C28:SizeInBytesContained-differs-from-sum-of-sizes"
	sigFound   = "C28:found-result-differs-from-reference"
	sigValue   = "C28:value-returned-differs-from-value-stored-last"
	sigEvFlag  = "C28:eviction-flag-differs-from-reference"
	sigEvSet   = "C28:evicted-set-differs-from-reference"
	sigInitErr = "C28:constructor-rejects-valid-capacity"
)

const (
	kAdd = iota // AddSized / Put
	kAddIfMissing
	kAddRetEvicted
	kGet
	kPeek
	kContains
	kRemove
	kPurge
)

type op struct {
	kind int
	key  int
	size int64
}

type entry struct {
	key  int
	size int64
}

// impl is the seam-independent view of the object under test.
type impl interface {
	add(k string, s int64) bool
	addIfMissing(k string, s int64) (found, evicted, evictedKnown bool)
	addRetEvicted(k string, s int64) map[interface{}]interface{}
	get(k string) (interface{}, bool)
	peek(k string) (interface{}, bool)
	contains(k string) bool
	remove(k string) (found, known bool)
	purge()
	keys() []string
	length() int
	bytes() uint64
	hidden() string // implementation structure not visible through the API ("" if none)
}

// ---- seam 1: capacityLRU directly

type directCache interface {
	storage.AdaptedSizedLRUCache
	VerifC28Entries() ([]capacity.VerifC28Entry, int, int64)
}

type direct struct{ c directCache }

func (d direct) add(k string, s int64) bool { return d.c.AddSized(k, s, s) }
func (d direct) addIfMissing(k string, s int64) (bool, bool, bool) {
	f, e := d.c.AddSizedIfMissing(k, s, s)
	return f, e, true
}
func (d direct) addRetEvicted(k string, s int64) map[interface{}]interface{} {
	return d.c.AddSizedAndReturnEvicted(k, s, s)
}
func (d direct) get(k string) (interface{}, bool)  { return d.c.Get(k) }
func (d direct) peek(k string) (interface{}, bool) { return d.c.Peek(k) }
func (d direct) contains(k string) bool            { return d.c.Contains(k) }
func (d direct) remove(k string) (bool, bool)      { return d.c.Remove(k), true }
func (d direct) purge()                            { d.c.Purge() }
func (d direct) keys() []string {
	var r []string
	for _, k := range d.c.Keys() {
		r = append(r, fmt.Sprint(k))
	}
	return r
}
func (d direct) length() int   { return d.c.Len() }
func (d direct) bytes() uint64 { return d.c.SizeInBytesContained() }
func (d direct) hidden() string {
	ents, mapLen, cur := d.c.VerifC28Entries()
	b := make([]byte, 0, 64)
	for _, e := range ents {
		b = append(b, fmt.Sprint(e.Key)...)
		b = append(b, ':')
		b = strconv.AppendInt(b, e.Size, 10)
		b = append(b, '=')
		b = append(b, fmt.Sprint(e.Value)...)
		b = append(b, ' ')
	}
	b = append(b, '|')
	b = strconv.AppendInt(b, int64(mapLen), 10)
	b = append(b, '|')
	b = strconv.AppendInt(b, cur, 10)
	return string(b)
}

// ---- seam 2: the storage.Cacher wrapper

type wrapped struct{ c storage.Cacher }

func (w wrapped) add(k string, s int64) bool { return w.c.Put([]byte(k), s, int(s)) }
func (w wrapped) addIfMissing(k string, s int64) (bool, bool, bool) {
	has, _ := w.c.HasOrAdd([]byte(k), s, int(s)) // second result is !has, no eviction info
	return has, false, false
}
func (w wrapped) addRetEvicted(string, int64) map[interface{}]interface{} { panic("not offered") }
func (w wrapped) get(k string) (interface{}, bool)                        { return w.c.Get([]byte(k)) }
func (w wrapped) peek(k string) (interface{}, bool)                       { return w.c.Peek([]byte(k)) }
func (w wrapped) contains(k string) bool                                  { return w.c.Has([]byte(k)) }
func (w wrapped) remove(k string) (bool, bool)                            { w.c.Remove([]byte(k)); return false, false }
func (w wrapped) purge()                                                  { w.c.Clear() }
func (w wrapped) keys() []string {
	var r []string
	for _, k := range w.c.Keys() {
		r = append(r, string(k))
	}
	return r
}
func (w wrapped) length() int    { return w.c.Len() }
func (w wrapped) bytes() uint64  { return w.c.SizeInBytesContained() }
func (w wrapped) hidden() string { return "" }

// ---- system

type system struct {
	seam     string
	idx      int
	maxItems int
	maxBytes int64
	keys     []string
	menu     []string
	ops      []op
}

func (y *system) describe() string {
	return fmt.Sprintf("%s(items %d, bytes %d)", y.seam, y.maxItems, y.maxBytes)
}

type state struct {
	sys *system
	im  impl
	ref []entry // oldest first

	// last step, for Nontrivial / Outcome
	lastKind    int
	lastEvicted int
	lastUpdate  bool
	lastFound   bool
	lastByBytes bool
	infoFlag    bool // eviction flag differed from the reference (informational)
	infoSet     bool
}

func newSystem(idx int, seam string, maxItems int, maxBytes int64, nKeys int) *system {
	y := &system{seam: seam, idx: idx, maxItems: maxItems, maxBytes: maxBytes}
	for i := 0; i < nKeys; i++ {
		y.keys = append(y.keys, string(rune('a'+i)))
	}
	addNames := map[int]string{kAdd: "AddSized", kAddIfMissing: "AddSizedIfMissing", kAddRetEvicted: "AddSizedAndReturnEvicted"}
	readNames := map[int]string{kGet: "Get", kPeek: "Peek", kContains: "Contains", kRemove: "Remove"}
	purge := "Purge"
	adds := []int{kAdd, kAddIfMissing, kAddRetEvicted}
	if seam == "lruCache" {
		addNames = map[int]string{kAdd: "Put", kAddIfMissing: "HasOrAdd"}
		readNames[kContains] = "Has"
		purge = "Clear"
		adds = []int{kAdd, kAddIfMissing}
	}
	for _, kind := range adds {
		for k := range y.keys {
			for _, s := range sizes {
				y.ops = append(y.ops, op{kind, k, s})
				y.menu = append(y.menu, fmt.Sprintf("%s(%s,%d)", addNames[kind], y.keys[k], s))
			}
		}
	}
	for _, kind := range []int{kGet, kPeek, kContains, kRemove} {
		for k := range y.keys {
			y.ops = append(y.ops, op{kind, k, 0})
			y.menu = append(y.menu, fmt.Sprintf("%s(%s)", readNames[kind], y.keys[k]))
		}
	}
	y.ops = append(y.ops, op{kPurge, -1, 0})
	y.menu = append(y.menu, purge)
	return y
}

func (y *system) init() *state {
	s := &state{sys: y}
	if y.seam == "capacityLRU" {
		c, err := capacity.NewCapacityLRU(y.maxItems, y.maxBytes)
		if err != nil {
			panic(sigInitErr + ": " + err.Error())
		}
		s.im = direct{c}
	} else {
		c, err := lrucache.NewCacheWithSizeInBytes(y.maxItems, y.maxBytes)
		if err != nil {
			panic(sigInitErr + ": " + err.Error())
		}
		s.im = wrapped{c}
	}
	return s
}

// ---- reference

func (s *state) refIndex(k int) int {
	for i, e := range s.ref {
		if e.key == k {
			return i
		}
	}
	return -1
}

func (s *state) refSum() int64 {
	var t int64
	for _, e := range s.ref {
		t += e.size
	}
	return t
}

// refEvict drops oldest entries and returns them.
func (s *state) refEvict() (out []entry) {
	for len(s.ref) > 1 && (len(s.ref) > s.sys.maxItems || s.refSum() > s.sys.maxBytes) {
		if len(s.ref) <= s.sys.maxItems {
			s.lastByBytes = true
		}
		out = append(out, s.ref[0])
		s.ref = s.ref[1:]
	}
	return
}

func (s *state) refTouch(i int) {
	e := s.ref[i]
	s.ref = append(append(append([]entry{}, s.ref[:i]...), s.ref[i+1:]...), e)
}

// refAdd is insert-or-update; refAddIfMissing inserts only.
func (s *state) refAdd(k int, size int64) (evicted []entry, update bool) {
	if size < 0 {
		return nil, false
	}
	if i := s.refIndex(k); i >= 0 {
		s.refTouch(i)
		s.ref[len(s.ref)-1].size = size
		update = true
	} else {
		s.ref = append(append([]entry{}, s.ref...), entry{k, size})
	}
	return s.refEvict(), update
}

func (s *state) do(oi int) (sig, detail string) {
	y := s.sys
	o := y.ops[oi]
	s.lastKind, s.lastEvicted, s.lastUpdate, s.lastFound, s.lastByBytes = o.kind, 0, false, false, false
	s.infoFlag, s.infoSet = false, false
	name := y.menu[oi]
	bad := func(sg, f string, a ...interface{}) (string, string) {
		return sg, y.describe() + " " + name + ": " + fmt.Sprintf(f, a...)
	}
	var k string
	if o.key >= 0 {
		k = y.keys[o.key]
	}
	switch o.kind {
	case kAdd:
		got := s.im.add(k, o.size)
		ev, upd := s.refAdd(o.key, o.size)
		s.lastEvicted, s.lastUpdate = len(ev), upd
		if got != (len(ev) > 0) {
			s.infoFlag = true
			if *strictEvicted {
				return bad(sigEvFlag, "returned evicted=%v, reference evicted %d entries (update of a present key=%v)", got, len(ev), upd)
			}
		}
	case kAddIfMissing:
		found, evf, known := s.im.addIfMissing(k, o.size)
		var ev []entry
		want := false
		if o.size >= 0 {
			if s.refIndex(o.key) >= 0 {
				want = true
			} else {
				ev, _ = s.refAdd(o.key, o.size)
			}
		}
		s.lastEvicted, s.lastFound = len(ev), want
		if found != want {
			return bad(sigFound, "returned found=%v, reference %v", found, want)
		}
		if known && evf != (len(ev) > 0) {
			s.infoFlag = true
			if *strictEvicted {
				return bad(sigEvFlag, "returned evicted=%v, reference evicted %d entries", evf, len(ev))
			}
		}
	case kAddRetEvicted:
		got := s.im.addRetEvicted(k, o.size)
		ev, upd := s.refAdd(o.key, o.size)
		s.lastEvicted, s.lastUpdate = len(ev), upd
		same := len(got) == len(ev)
		for _, e := range ev {
			v, ok := got[y.keys[e.key]]
			if !ok || v != interface{}(e.size) {
				same = false
			}
		}
		if !same {
			s.infoSet = true
			if *strictEvicted {
				return bad(sigEvSet, "returned evicted map %v, reference evicted %v (update of a present key=%v)", got, s.fmtEntries(ev), upd)
			}
		}
	case kGet, kPeek:
		var v interface{}
		var ok bool
		if o.kind == kGet {
			v, ok = s.im.get(k)
		} else {
			v, ok = s.im.peek(k)
		}
		i := s.refIndex(o.key)
		s.lastFound = i >= 0
		if ok != (i >= 0) {
			return bad(sigFound, "returned found=%v, reference %v", ok, i >= 0)
		}
		if ok && v != interface{}(s.ref[i].size) {
			return bad(sigValue, "returned value %v, the value stored last is %v", v, s.ref[i].size)
		}
		if i >= 0 && o.kind == kGet {
			s.refTouch(i)
		}
	case kContains:
		ok := s.im.contains(k)
		i := s.refIndex(o.key)
		s.lastFound = i >= 0
		if ok != (i >= 0) {
			return bad(sigFound, "returned %v, reference %v", ok, i >= 0)
		}
	case kRemove:
		found, known := s.im.remove(k)
		i := s.refIndex(o.key)
		s.lastFound = i >= 0
		if i >= 0 {
			s.ref = append(append([]entry{}, s.ref[:i]...), s.ref[i+1:]...)
		}
		if known && found != (i >= 0) {
			return bad(sigFound, "returned %v, reference %v", found, i >= 0)
		}
	case kPurge:
		s.im.purge()
		s.ref = nil
	}
	return "", ""
}

func (s *state) fmtEntries(es []entry) string {
	b := []byte{'['}
	for i, e := range es {
		if i > 0 {
			b = append(b, ' ')
		}
		b = append(b, s.sys.keys[e.key]...)
		b = append(b, ':')
		b = strconv.AppendInt(b, e.size, 10)
	}
	return string(append(b, ']'))
}

func (s *state) check() (sig, detail string) {
	y := s.sys
	keys := s.im.keys()
	want := make([]string, len(s.ref))
	for i, e := range s.ref {
		want[i] = y.keys[e.key]
	}
	bad := func(sg, f string, a ...interface{}) (string, string) {
		return sg, y.describe() + ": " + fmt.Sprintf(f, a...) + "; reference (oldest first) " + s.fmtEntries(s.ref)
	}
	sameOrder := len(keys) == len(want)
	if sameOrder {
		for i := range keys {
			if keys[i] != want[i] {
				sameOrder = false
			}
		}
	}
	if !sameOrder {
		a := append([]string{}, keys...)
		b := append([]string{}, want...)
		sort.Strings(a)
		sort.Strings(b)
		if fmt.Sprint(a) == fmt.Sprint(b) {
			return bad(sigOrder, "Keys() (oldest first) = %v", keys)
		}
		return bad(sigKeys, "Keys() = %v", keys)
	}
	if n := s.im.length(); n != len(s.ref) {
		return bad(sigLen, "Len() = %d with Keys() = %v", n, keys)
	}
	if b := s.im.bytes(); b != uint64(s.refSum()) {
		return bad(sigBytes, "SizeInBytesContained() = %d, sum of the sizes of the items present = %d", b, s.refSum())
	}
	return "", ""
}

func (s *state) key() string {
	b := make([]byte, 0, 96)
	for _, e := range s.ref {
		b = append(b, s.sys.keys[e.key]...)
		b = strconv.AppendInt(b, e.size, 10)
		b = append(b, ' ')
	}
	b = append(b, '|')
	for _, k := range s.im.keys() {
		b = append(b, k...)
		b = append(b, ' ')
	}
	b = append(b, '|')
	b = strconv.AppendUint(b, s.im.bytes(), 10)
	b = append(b, '|')
	b = append(b, s.im.hidden()...)
	return string(b)
}

func (s *state) nontrivial() string {
	if s.lastEvicted == 0 {
		return ""
	}
	return fmt.Sprintf("%s|%d|kind%d|evicted%d|update=%v|byBytes=%v", s.sys.seam, s.sys.idx, s.lastKind, s.lastEvicted, s.lastUpdate, s.lastByBytes)
}

func (s *state) outcome() string {
	return fmt.Sprintf("kind%d found=%v update=%v evicted=%d len=%d", s.lastKind, s.lastFound, s.lastUpdate, s.lastEvicted, len(s.ref))
}

func main() {
	_ = logger.SetLogLevel("*:NONE")
	mc.Main("C28", "model_checking", func(c *mc.Ctx) {
		items := []int{2, 3}
		bytes := []int64{5, 6}
		nKeys := 4
		if !c.Quick() {
			items = []int{1, 2, 3, 4}
			bytes = []int64{1, 5, 6, 12}
			nKeys = 5
		}
		c.Rule = fmt.Sprintf("explicit-state BFS with state matching to fixpoint, for each seam {capacityLRU direct, lruCache wrapper (NewCacheWithSizeInBytes)} x item limit %v x byte limit %v: all sequences of AddSized/Put, AddSizedIfMissing/HasOrAdd, AddSizedAndReturnEvicted (direct only), Get, Peek, Contains/Has, Remove, Purge/Clear over %d keys and sizes %v (updates of present keys with new sizes included); "+
			"non-trivial = a step in which the reference evicts (distinguished by seam, capacity, operation, number evicted, update-of-present-key or insertion, evicted for bytes or for count)", items, bytes, nKeys, sizes)
		c.Assumptions = []string{
			"reference LRU: insert/update makes the key most recent, then the oldest entries are dropped while more than one entry is left and (count > item limit or sum of sizes > byte limit); a negative size makes every add operation a no-op; add-if-missing, Peek and Contains/Has do not refresh recency; Get does",
			"the value stored with a key is its size, so the stored value is a function of the reference state; Get/Peek must return it",
			"the 'eviction occurred' flag / evicted map returned by the add operations are not in the statement: differences are counted (counters.eviction_flag_differs, counters.evicted_set_differs), violations only with --strict-evicted",
			"the wrapper's HasOrAdd second result is !has by construction and is not judged; single-threaded histories",
		}
		var systems []*system
		for _, seam := range []string{"capacityLRU", "lruCache"} {
			for _, n := range items {
				for _, b := range bytes {
					systems = append(systems, newSystem(len(systems), seam, n, b, nKeys))
				}
			}
		}
		if len(c.ReplayData) > 0 {
			replay(c, systems)
			return
		}
		allFix := true
		maxDepth := 0
		for _, y := range systems {
			y := y
			st := mc.BFS(c, mc.Sys[*state]{
				Init: y.init,
				Menu: y.menu,
				Do:   func(s *state, o int) (string, string) { return s.do(o) },
				Check: func(s *state) (string, string) {
					// called once per explored transition: the place to count informational facts
					if s.infoFlag {
						c.Count("eviction_flag_differs", 1)
					}
					if s.infoSet {
						c.Count("evicted_set_differs", 1)
					}
					return s.check()
				},
				Key:        func(s *state) string { return s.key() },
				Nontrivial: func(s *state) string { return s.nontrivial() },
				Outcome:    func(s *state) string { return s.outcome() },
			}, 1000)
			if !st.Fixpoint {
				allFix = false
			}
			if st.Depth > maxDepth {
				maxDepth = st.Depth
			}
			c.Set("states_"+y.describe(), st.States)
		}
		if allFix {
			c.Bound = fmt.Sprintf("fixpoint for all %d (seam, capacity) systems: every reachable state expanded with every operation (deepest new state at depth %d); unbounded history length", len(systems), maxDepth-1)
		} else {
			c.Bound = "fixpoint NOT reached for every system"
			c.Cap("search stopped before fixpoint")
		}
	})
}

func replay(c *mc.Ctx, systems []*system) {
	var names []string
	if err := json.Unmarshal(c.ReplayData, &names); err != nil {
		c.Fatal("replay data is not a list of operation names: %v", err)
	}
	for _, y := range systems {
		var ops []int
		for _, n := range names {
			for i, m := range y.menu {
				if m == n {
					ops = append(ops, i)
				}
			}
		}
		if len(ops) != len(names) {
			continue
		}
		c.Eval(1)
		perr := mc.Try(func() {
			s := y.init()
			for _, o := range ops {
				sig, det := s.do(o)
				if sig == "" {
					sig, det = s.check()
				}
				if sig != "" {
					c.Violation(sig, map[string]interface{}{"history": names, "what": det}, names)
					return
				}
			}
		})
		if perr != "" {
			c.Violation("panic", map[string]interface{}{"history": names, "what": perr}, names)
		}
	}
}
