package main

// Protobuf wire-level view of one encoding: the top-level field records with their raw
// tag / length / payload bytes, the content-preserving rewrites that are the transitions
// of the search, and the analyser that names which non-canonical features an encoding has
// (relative to the canonical gogo-proto encoding of the same value).
//
// Nothing here re-implements repository logic: decoding, size checking, equality and
// hashing are all done by the real code; this file only produces byte strings.

import (
	"bytes"
	"fmt"
	"reflect"
	"sort"
	"strconv"
	"strings"
)

// rewrite classes (also the feature names reported by the analyser)
const (
	clsSwap    = "reordered-fields"
	clsUnknown = "unknown-field"
	clsWiden   = "non-minimal-varint"
	clsDefault = "explicit-default-field"
	clsDup     = "duplicated-scalar-field"
	clsBigInt  = "non-canonical-bigint-bytes"
	clsOther   = "unclassified"
)

type field struct {
	num int
	wt  int
	tag []byte // raw tag varint
	ln  []byte // raw length varint (wire type 2 only)
	val []byte // raw value: varint bytes (0), 8 bytes (1), content (2), 4 bytes (5)
}

func join(fs []field) []byte {
	var r []byte
	for _, f := range fs {
		r = append(r, f.tag...)
		r = append(r, f.ln...)
		r = append(r, f.val...)
	}
	return r
}

// readVarint accepts non-minimal encodings (as the generated decoders do), up to 10 bytes.
func readVarint(b []byte) (v uint64, n int, ok bool) {
	for shift := uint(0); shift < 64; shift += 7 {
		if n >= len(b) {
			return 0, 0, false
		}
		c := b[n]
		n++
		v |= uint64(c&0x7f) << shift
		if c < 0x80 {
			return v, n, true
		}
	}
	return 0, 0, false
}

func putVarint(v uint64) []byte {
	var r []byte
	for v >= 0x80 {
		r = append(r, byte(v)|0x80)
		v >>= 7
	}
	return append(r, byte(v))
}

// widen appends one redundant continuation byte: same value, one byte longer.
func widen(v []byte) []byte {
	r := append([]byte{}, v...)
	r[len(r)-1] |= 0x80
	return append(r, 0x00)
}

func parse(b []byte) ([]field, error) {
	var fs []field
	for i := 0; i < len(b); {
		t, n, ok := readVarint(b[i:])
		if !ok {
			return nil, fmt.Errorf("bad tag at %d", i)
		}
		f := field{num: int(t >> 3), wt: int(t & 7), tag: b[i : i+n]}
		i += n
		switch f.wt {
		case 0:
			_, n, ok := readVarint(b[i:])
			if !ok {
				return nil, fmt.Errorf("bad varint at %d", i)
			}
			f.val = b[i : i+n]
			i += n
		case 1, 5:
			n := 8
			if f.wt == 5 {
				n = 4
			}
			if i+n > len(b) {
				return nil, fmt.Errorf("short fixed at %d", i)
			}
			f.val = b[i : i+n]
			i += n
		case 2:
			l, n, ok := readVarint(b[i:])
			if !ok || i+n+int(l) > len(b) || int(l) < 0 {
				return nil, fmt.Errorf("bad length at %d", i)
			}
			f.ln = b[i : i+n]
			f.val = b[i+n : i+n+int(l)]
			i += n + int(l)
		default:
			return nil, fmt.Errorf("wire type %d at %d", f.wt, i)
		}
		fs = append(fs, f)
	}
	return fs, nil
}

// ---- message description from the generated struct tags ----

type finfo struct {
	num    int
	name   string
	wire   string // varint | bytes | fixed64 | fixed32
	rep    bool
	caster bool // casttypewith (big.Int through data.BigIntCaster)
}

type desc struct {
	byNum  map[int]finfo
	nums   []int
	maxNum int
}

func describe(t reflect.Type) (*desc, error) {
	for t.Kind() == reflect.Ptr {
		t = t.Elem()
	}
	d := &desc{byNum: map[int]finfo{}}
	for i := 0; i < t.NumField(); i++ {
		sf := t.Field(i)
		tag, ok := sf.Tag.Lookup("protobuf")
		if !ok {
			if strings.HasPrefix(sf.Name, "XXX_") {
				return nil, fmt.Errorf("%s keeps %s: unknown fields would be content", t.Name(), sf.Name)
			}
			continue
		}
		parts := strings.Split(tag, ",")
		if len(parts) < 3 {
			return nil, fmt.Errorf("%s.%s: tag %q", t.Name(), sf.Name, tag)
		}
		n, err := strconv.Atoi(parts[1])
		if err != nil {
			return nil, err
		}
		fi := finfo{num: n, name: sf.Name, wire: parts[0], rep: parts[2] == "rep"}
		for _, p := range parts[3:] {
			if strings.HasPrefix(p, "casttypewith=") {
				fi.caster = true
			}
		}
		d.byNum[n] = fi
		d.nums = append(d.nums, n)
		if n > d.maxNum {
			d.maxNum = n
		}
	}
	sort.Ints(d.nums)
	return d, nil
}

// ---- transitions ----

type succ struct {
	class string
	what  string
	buf   []byte
}

func cloneFields(fs []field) []field { return append([]field{}, fs...) }

// successors lists every single wire-level rewrite of the encoding (top-level fields only).
// All of them are meant to keep the decoded content; whether they do is decided by the real
// decoder + the generated Equal, not here.
func successors(d *desc, fs []field) []succ {
	var out []succ
	add := func(class, what string, nf []field) {
		out = append(out, succ{class, what, join(nf)})
	}
	// 1. swap two adjacent top-level fields with different numbers (swapping two elements
	// of one repeated field changes the content and is excluded)
	for i := 0; i+1 < len(fs); i++ {
		if fs[i].num == fs[i+1].num {
			continue
		}
		nf := cloneFields(fs)
		nf[i], nf[i+1] = nf[i+1], nf[i]
		add(clsSwap, fmt.Sprintf("swap fields #%d(%d) and #%d(%d)", i, fs[i].num, i+1, fs[i+1].num), nf)
	}
	// 2. append an unknown field: number in {next unused, 1000} x wire type {varint, fixed64, bytes}
	for _, num := range []int{d.maxNum + 1, 1000} {
		for _, wt := range []int{0, 1, 2} {
			f := field{num: num, wt: wt, tag: putVarint(uint64(num)<<3 | uint64(wt))}
			switch wt {
			case 0:
				f.val = []byte{0x01}
			case 1:
				f.val = []byte{1, 2, 3, 4, 5, 6, 7, 8}
			case 2:
				f.ln = []byte{0x00}
			}
			add(clsUnknown, fmt.Sprintf("append unknown field %d wire type %d", num, wt), append(cloneFields(fs), f))
		}
	}
	// 3. widen one varint (tag, length or value) by a redundant continuation byte
	for i, f := range fs {
		if len(f.tag) < 9 {
			nf := cloneFields(fs)
			nf[i].tag = widen(f.tag)
			add(clsWiden, fmt.Sprintf("widen tag of field #%d(%d)", i, f.num), nf)
		}
		if f.wt == 2 && len(f.ln) < 9 {
			nf := cloneFields(fs)
			nf[i].ln = widen(f.ln)
			add(clsWiden, fmt.Sprintf("widen length of field #%d(%d)", i, f.num), nf)
		}
		if f.wt == 0 && len(f.val) < 9 {
			nf := cloneFields(fs)
			nf[i].val = widen(f.val)
			add(clsWiden, fmt.Sprintf("widen value of field #%d(%d)", i, f.num), nf)
		}
	}
	// 4. emit an explicit zero/empty value for an absent singular field, at its sorted place
	present := map[int]bool{}
	for _, f := range fs {
		present[f.num] = true
	}
	for _, n := range d.nums {
		fi := d.byNum[n]
		if present[n] || fi.rep {
			continue
		}
		var f field
		switch fi.wire {
		case "varint":
			f = field{num: n, wt: 0, tag: putVarint(uint64(n) << 3), val: []byte{0}}
		case "bytes":
			f = field{num: n, wt: 2, tag: putVarint(uint64(n)<<3 | 2), ln: []byte{0}}
		case "fixed64":
			f = field{num: n, wt: 1, tag: putVarint(uint64(n)<<3 | 1), val: make([]byte, 8)}
		case "fixed32":
			f = field{num: n, wt: 5, tag: putVarint(uint64(n)<<3 | 5), val: make([]byte, 4)}
		default:
			continue
		}
		pos := len(fs)
		for i, g := range fs {
			if g.num > n {
				pos = i
				break
			}
		}
		nf := append(cloneFields(fs[:pos]), f)
		nf = append(nf, fs[pos:]...)
		add(clsDefault, fmt.Sprintf("emit default of absent field %d (%s)", n, fi.name), nf)
	}
	// 5. duplicate a singular known field in place
	for i, f := range fs {
		fi, known := d.byNum[f.num]
		if !known || fi.rep {
			continue
		}
		nf := append(cloneFields(fs[:i+1]), f)
		nf = append(nf, fs[i+1:]...)
		add(clsDup, fmt.Sprintf("duplicate field #%d(%d %s)", i, f.num, fi.name), nf)
	}
	// 6. big.Int caster payloads: a zero byte after the sign byte / another sign byte for
	// nil and zero (value-level rewrite; length varint re-encoded minimally unless widened)
	for i, f := range fs {
		fi, known := d.byNum[f.num]
		if !known || !fi.caster || f.wt != 2 {
			continue
		}
		setVal := func(v []byte, what string) {
			nf := cloneFields(fs)
			nf[i].val = v
			l := putVarint(uint64(len(v)))
			for len(l) < len(f.ln) { // keep an already widened length widened
				l = widen(l)
			}
			nf[i].ln = l
			add(clsBigInt, fmt.Sprintf("%s in big.Int field #%d(%d %s)", what, i, f.num, fi.name), nf)
		}
		if len(f.val) >= 2 {
			v := append([]byte{f.val[0], 0x00}, f.val[1:]...)
			setVal(v, "leading zero magnitude byte")
		}
		if len(f.val) == 1 || (len(f.val) == 2 && f.val[1] == 0) {
			v := append([]byte{}, f.val...)
			v[0] ^= 1
			setVal(v, "other sign byte for nil/zero")
		}
	}
	return out
}

// ---- analyser: which non-canonical features does this encoding have? ----

func minimal(v []byte) bool {
	x, _, ok := readVarint(v)
	return ok && len(putVarint(x)) == len(v)
}

func features(d *desc, canon, fs []field) []string {
	set := map[string]bool{}
	// canonical payloads per number
	cpay := map[int][][]byte{}
	for _, f := range canon {
		cpay[f.num] = append(cpay[f.num], f.val)
	}
	spay := map[int][][]byte{}
	last := -1
	seenUnknown := false
	for _, f := range fs {
		if !minimal(f.tag) || (f.wt == 2 && !minimal(f.ln)) || (f.wt == 0 && !minimal(f.val)) {
			set[clsWiden] = true
		}
		if _, known := d.byNum[f.num]; !known {
			// unknown fields are appended in any order of numbers: only their position
			// relative to known fields says something about reordering
			set[clsUnknown] = true
			seenUnknown = true
			continue
		}
		if f.num < last || seenUnknown {
			set[clsSwap] = true
		}
		last = f.num
		v := f.val
		if f.wt == 0 {
			x, _, _ := readVarint(v)
			v = putVarint(x)
		}
		spay[f.num] = append(spay[f.num], v)
	}
	for num, ps := range spay {
		fi := d.byNum[num]
		cs := cpay[num]
		if fi.rep {
			if len(ps) != len(cs) {
				set[clsOther] = true
				continue
			}
			for i := range ps {
				if !bytes.Equal(ps[i], cs[i]) {
					set[clsOther] = true
				}
			}
			continue
		}
		if len(cs) == 0 {
			set[clsDefault] = true
		}
		if len(ps) > 1 {
			set[clsDup] = true
		}
		if len(cs) == 1 {
			for _, p := range ps {
				if !bytes.Equal(p, cs[0]) {
					if fi.caster {
						set[clsBigInt] = true
					} else {
						set[clsOther] = true
					}
				}
			}
		}
	}
	for num := range cpay {
		if _, ok := spay[num]; !ok {
			set[clsOther] = true // a canonical field disappeared
		}
	}
	var r []string
	for c := range set {
		r = append(r, c)
	}
	sort.Strings(r)
	return r
}
