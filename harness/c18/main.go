// C18 — block and transaction hashes cannot be changed without changing signed content.
//
// Statement: "Any two byte strings that are accepted as valid encodings of a block header,
// miniblock or transaction and that decode to the same content have the same hash."
//
// Explicit-state search over ENCODINGS. Initial states: the canonical gogo-proto encodings
// of three representative, really signed values per intercepted type. Transitions: single
// wire-level rewrites meant to keep the decoded content (wire.go). A state is kept (and
// expanded) only if the REAL intercepted-data constructor, given the marshalizer stack
// production builds (NewSizeCheckUnmarshalizer(gogo, SizeCheckDelta)), accepts it, the
// object it decoded Equal()s the initial value (generated Equal) and CheckValidity()
// (integrity + real signature verification) passes. Oracle on every kept state:
// Hash() == Hash() of the canonical encoding.
//
// Reading fixed: "accepted" = constructor returns no error AND CheckValidity() == nil
// (both depend only on the bytes and on fixed configuration); "same content" = the
// generated Equal of the decoded structs.
package main

import (
	"bytes"
	"crypto/sha256"
	"encoding/hex"
	"encoding/json"
	"errors"
	"fmt"
	"math"
	"sort"
	"strings"

	"github.com/ElrondNetwork/elrond-go/marshal"
	"verif/engine/mc"
)

type cfg struct {
	name  string
	m     marshal.Marshalizer
	depth int
}

type witness struct {
	depth int
	buf   []byte
	path  []string
	hash  []byte
	feats []string
}

func (w *witness) less(o *witness) bool {
	if w.depth != o.depth {
		return w.depth < o.depth
	}
	if len(w.buf) != len(o.buf) {
		return len(w.buf) < len(o.buf)
	}
	return bytes.Compare(w.buf, o.buf) < 0
}

// result of the search from one (type, value, configuration)
type result struct {
	cfgIdx           int
	kind, label, cfg string
	canon, canonHash []byte
	states           int64 // kept states (accepted, same content), incl. the initial one
	transitions      int64 // rewrites applied
	rejected         map[string]int64
	contentChanged   int64
	invalid          int64
	sameHash         int64 // kept non-canonical states whose hash equals the canonical hash
	perDepth         []int64
	viol             map[string]*witness // by feature
	violCount        map[string]int64
	nontrivial       map[string]bool
	selfErr          string
	capped           bool
}

type node struct {
	buf   []byte
	path  []string
	class map[string]bool
}

// key16 is the dedup key of a state (the byte string itself, hashed to keep the set small).
func key16(b []byte) (k [16]byte) {
	h := sha256.Sum256(b)
	copy(k[:], h[:16])
	return k
}

func classify(err error) string {
	switch {
	case errors.Is(err, marshal.ErrUnmarshallingBadSize):
		return "size-check"
	default:
		return "decode-error"
	}
}

func search(c *mc.Ctx, k *kind, vi int, cf cfg) *result {
	r := &result{kind: k.name, label: k.labels[vi], cfg: cf.name, rejected: map[string]int64{},
		viol: map[string]*witness{}, violCount: map[string]int64{}, nontrivial: map[string]bool{}}
	init := k.values[vi]
	canon, err := init.Marshal()
	if err != nil {
		r.selfErr = "marshal initial value: " + err.Error()
		return r
	}
	r.canon = canon
	b0, err := k.build(cf.m, canon)
	if err != nil {
		r.selfErr = "canonical encoding of the initial value is rejected: " + err.Error()
		return r
	}
	if b0.validity != nil || !b0.decoded.Equal(init) {
		r.selfErr = fmt.Sprintf("canonical encoding of the initial value is not accepted: validity=%v equal=%v", b0.validity, b0.decoded.Equal(init))
		return r
	}
	r.canonHash = b0.hash
	cfs, err := parse(canon)
	if err != nil {
		r.selfErr = "parse canonical: " + err.Error()
		return r
	}
	if f := features(k.desc, cfs, cfs); len(f) != 0 {
		r.selfErr = fmt.Sprintf("analyser finds features %v in the canonical encoding", f)
		return r
	}
	seen := map[[16]byte]struct{}{key16(canon): {}}
	frontier := []node{{buf: canon, class: map[string]bool{}}}
	r.states = 1
	r.perDepth = append(r.perDepth, 1)
	for depth := 1; depth <= cf.depth && len(frontier) > 0; depth++ {
		var next []node
		var kept int64
		for _, nd := range frontier {
			if c.Expired() {
				r.capped = true
				return r
			}
			fs, err := parse(nd.buf)
			if err != nil {
				r.selfErr = "cannot parse own state: " + err.Error()
				return r
			}
			for _, s := range successors(k.desc, fs) {
				r.transitions++
				sk := key16(s.buf)
				if _, dup := seen[sk]; dup {
					continue
				}
				seen[sk] = struct{}{}
				b, err := k.build(cf.m, s.buf)
				if err != nil {
					r.rejected[classify(err)]++
					continue
				}
				if !b.decoded.Equal(init) {
					r.contentChanged++
					continue
				}
				if b.validity != nil {
					// same content but CheckValidity differs from the canonical one: not "accepted"
					r.invalid++
					continue
				}
				kept++
				r.states++
				sfs, err := parse(s.buf)
				if err != nil {
					r.selfErr = "cannot parse own successor: " + err.Error()
					return r
				}
				feats := features(k.desc, cfs, sfs)
				if len(feats) == 0 {
					feats = []string{clsOther}
				}
				classes := map[string]bool{s.class: true}
				for cl := range nd.class {
					classes[cl] = true
				}
				// harness self-check: the analyser may only name rewrite classes that were applied
				for _, f := range feats {
					if !classes[f] {
						r.selfErr = fmt.Sprintf("analyser names %q for an encoding reached by %v + %q: %s", f, nd.path, s.what, hex.EncodeToString(s.buf))
						return r
					}
				}
				if depth == 1 && !(len(feats) == 1 && feats[0] == s.class) {
					r.selfErr = fmt.Sprintf("analyser gives %v for the single rewrite %q", feats, s.what)
					return r
				}
				path := append(append([]string{}, nd.path...), s.what)
				r.nontrivial[k.name+"|"+strings.Join(feats, "+")] = true
				if bytes.Equal(b.hash, r.canonHash) {
					r.sameHash++
				} else {
					w := &witness{depth: depth, buf: s.buf, path: path, hash: b.hash, feats: feats}
					for _, f := range feats {
						r.violCount[f]++
						if old := r.viol[f]; old == nil || w.less(old) {
							r.viol[f] = w
						}
					}
				}
				if depth < cf.depth {
					next = append(next, node{buf: s.buf, path: path, class: classes})
				}
			}
		}
		r.perDepth = append(r.perDepth, kept)
		frontier = next
	}
	return r
}

type replayCase struct {
	Kind  string `json:"type"`
	Value string `json:"value"`
	Cfg   string `json:"marshalizer"`
	Hex   string `json:"encoding_hex"`
}

func main() {
	mc.Main("C18", "model_checking", func(c *mc.Ctx) {
		kinds, bls, err := buildKinds()
		if err != nil {
			c.Fatal("wiring: %v", err)
		}
		dMain := c.Pick(2, 3)
		cfgs := []cfg{
			{"SizeCheckUnmarshalizer(gogo,10)", marshal.NewSizeCheckUnmarshalizer(gogo, 10), dMain},
			// configuration variants: SizeCheckDelta = 0 leaves the plain marshalizer in place
			// (interceptorscontainer factories), MaxUint32 is what the export/import tool uses
			{"gogo (SizeCheckDelta=0)", gogo, dMain},
			{"SizeCheckUnmarshalizer(gogo,MaxUint32)", marshal.NewSizeCheckUnmarshalizer(gogo, math.MaxUint32), dMain},
		}
		c.Rule = fmt.Sprintf("states = byte strings; initial = canonical gogo-proto encodings of 3 really signed values (sparse/typical/rich) of each of "+
			"{shard header, meta header, miniblock, transaction, unsigned tx, reward tx}; transitions (top-level fields) = swap two adjacent fields | "+
			"append unknown field {max+1,1000}x{varint,fixed64,bytes} | widen one tag/length/value varint by a redundant continuation byte | "+
			"emit explicit zero/empty for an absent singular field | duplicate a singular field | big.Int payload with a leading zero byte or the other sign byte for nil/0; "+
			"a state is kept iff the real NewIntercepted* constructor accepts it, its decoded struct Equal()s the initial value and CheckValidity()==nil "+
			"(real ed25519 / BLS signature verification); dedup by bytes; depth %d for each marshalizer configuration SizeCheckDelta in {10 (production), 0, MaxUint32}. "+
			"Oracle: Hash()==Hash(canonical). Non-trivial = kept non-canonical encoding (per type x feature set)", dMain)
		c.Assumptions = []string{
			"'accepted as valid' = constructor returns nil error and CheckValidity() returns nil; 'same content' = generated Equal of the decoded structs",
			"rewrites touch top-level fields only (payloads of nested messages are opaque), so non-canonical encodings inside nested messages are not enumerated",
			"hasher blake2b, internal marshalizer gogo protobuf, tx sign marshalizer JSON, tx sign hasher keccak as in cmd/node/config/config.toml; header signatures by a 3-member BLS group; fee handler, validity attester and epoch trigger are permissive stubs (they only see decoded content)",
			"the real HeaderSigVerifier is memoised per distinct decoded header (its verdict is a function of the decoded header)",
		}

		if len(c.ReplayData) > 0 {
			var rc replayCase
			if err := json.Unmarshal(c.ReplayData, &rc); err != nil {
				c.Fatal("bad replay: %v", err)
			}
			replay(c, kinds, cfgs, rc)
			return
		}

		type job struct {
			k  *kind
			vi int
			cf cfg
		}
		var jobs []job
		// biggest first (meta/shard header, rich value) for load balance
		for vi := 2; vi >= 0; vi-- {
			for _, cf := range cfgs {
				for _, k := range kinds {
					jobs = append(jobs, job{k, vi, cf})
				}
			}
		}
		results := make([]*result, len(jobs))
		mc.Par(len(jobs), func(i int) {
			j := jobs[i]
			var r *result
			if p := mc.Try(func() { r = search(c, j.k, j.vi, j.cf) }); p != "" {
				r = &result{kind: j.k.name, label: j.k.labels[j.vi], cfg: j.cf.name, selfErr: p}
			}
			for ci := range cfgs {
				if cfgs[ci].name == j.cf.name {
					r.cfgIdx = ci
				}
			}
			results[i] = r
		})
		// deterministic merge
		order := make([]int, len(jobs))
		for i := range order {
			order[i] = i
		}
		sort.SliceStable(order, func(a, b int) bool {
			ra, rb := results[order[a]], results[order[b]]
			if ra.kind != rb.kind {
				return ra.kind < rb.kind
			}
			if ra.cfgIdx != rb.cfgIdx {
				return ra.cfgIdx < rb.cfgIdx // production configuration first
			}
			return ra.label < rb.label
		})
		type best struct {
			w *witness
			r *result
			n int64
		}
		bests := map[string]*best{}
		var sigs []string
		perKind := map[string]map[string]int64{}
		for _, oi := range order {
			r := results[oi]
			if r.selfErr != "" {
				c.Fatal("%s/%s/%s: %s", r.kind, r.label, r.cfg, r.selfErr)
			}
			if r.capped {
				c.Cap("deadline during " + r.kind + "/" + r.label)
			}
			c.AddStates(r.states)
			c.AddTransitions(r.transitions)
			c.Eval(r.states + r.contentChanged + r.invalid + r.rejected["size-check"] + r.rejected["decode-error"])
			c.Count("kept_states", r.states)
			c.Count("kept_noncanonical_with_canonical_hash", r.sameHash)
			c.Count("rejected_by_size_check", r.rejected["size-check"])
			c.Count("rejected_decode_error", r.rejected["decode-error"])
			c.Count("content_changed_not_kept", r.contentChanged)
			c.Count("same_content_but_invalid", r.invalid)
			if perKind[r.kind] == nil {
				perKind[r.kind] = map[string]int64{}
			}
			perKind[r.kind]["kept"] += r.states
			perKind[r.kind]["size_rejected"] += r.rejected["size-check"]
			for nt := range r.nontrivial {
				c.Nontrivial(nt)
			}
			c.Outcome(fmt.Sprintf("%s same-hash=%v differ=%v sizerej=%v", r.kind, r.sameHash > 0, len(r.viol) > 0, r.rejected["size-check"] > 0))
			if r.label == "typical" && strings.HasSuffix(r.cfg, ",10)") {
				c.Sample(map[string]interface{}{"type": r.kind, "value": r.label, "marshalizer": r.cfg, "canonical_len": len(r.canon),
					"kept_states_per_depth": r.perDepth, "size_rejected": r.rejected["size-check"], "content_changed": r.contentChanged})
			}
			var fs []string
			for f := range r.viol {
				fs = append(fs, f)
			}
			sort.Strings(fs)
			for _, f := range fs {
				sig := "hash-differs-for-same-content:" + r.kind + ":" + f
				b := bests[sig]
				if b == nil {
					b = &best{}
					bests[sig] = b
					sigs = append(sigs, sig)
				}
				b.n += r.violCount[f]
				if b.w == nil || r.viol[f].less(b.w) {
					b.w, b.r = r.viol[f], r
				}
			}
		}
		c.Set("per_type", perKind)
		c.Set("real_header_signature_verifications", bls.hsv.n)
		sort.Strings(sigs)
		for _, sig := range sigs {
			b := bests[sig]
			detail := map[string]interface{}{
				"type": b.r.kind, "value": b.r.label, "marshalizer": b.r.cfg,
				"rewrites":                      b.w.path,
				"features":                      b.w.feats,
				"canonical_hex":                 hex.EncodeToString(b.r.canon),
				"canonical_hash":                hex.EncodeToString(b.r.canonHash),
				"encoding_hex":                  hex.EncodeToString(b.w.buf),
				"encoding_hash":                 hex.EncodeToString(b.w.hash),
				"what":                          "both byte strings are accepted by the real constructor, decode to Equal structs, pass CheckValidity (real signature check) and have different Hash()",
				"encodings_with_this_signature": b.n,
			}
			c.ViolationR(sig, b.w.depth, detail, replayCase{b.r.kind, b.r.label, b.r.cfg, hex.EncodeToString(b.w.buf)})
		}
		c.Bound = fmt.Sprintf("all rewrite sequences of length <= %d from 18 initial encodings x 3 marshalizer configurations", dMain)
	})
}

func replay(c *mc.Ctx, kinds []*kind, cfgs []cfg, rc replayCase) {
	buf, err := hex.DecodeString(rc.Hex)
	if err != nil {
		c.Fatal("bad replay hex: %v", err)
	}
	for _, k := range kinds {
		if k.name != rc.Kind {
			continue
		}
		for vi, l := range k.labels {
			if l != rc.Value {
				continue
			}
			for _, cf := range cfgs {
				if cf.name != rc.Cfg {
					continue
				}
				init := k.values[vi]
				canon, _ := init.Marshal()
				b0, err := k.build(cf.m, canon)
				if err != nil {
					c.Fatal("canonical rejected: %v", err)
				}
				c.Eval(1)
				c.AddStates(1)
				b, err := k.build(cf.m, buf)
				if err != nil || !b.decoded.Equal(init) || b.validity != nil {
					fmt.Printf("replay: encoding no longer kept (err=%v)\n", err)
					return
				}
				cfs, _ := parse(canon)
				sfs, err := parse(buf)
				if err != nil {
					c.Fatal("replay parse: %v", err)
				}
				feats := features(k.desc, cfs, sfs)
				if len(feats) == 0 {
					feats = []string{clsOther}
				}
				c.Nontrivial("replay")
				if !bytes.Equal(b.hash, b0.hash) {
					for _, f := range feats {
						c.Violation("hash-differs-for-same-content:"+k.name+":"+f, map[string]interface{}{
							"type": k.name, "value": l, "marshalizer": cf.name, "features": feats,
							"canonical_hash": hex.EncodeToString(b0.hash), "encoding_hex": rc.Hex, "encoding_hash": hex.EncodeToString(b.hash)}, rc)
					}
				} else {
					fmt.Println("replay: hash equals the canonical hash")
				}
				return
			}
		}
	}
	c.Fatal("replay names unknown type/value/marshalizer")
}
