package main

// The six intercepted data types: three representative, really signed values each, and the
// wiring of the REAL intercepted-data constructors with the marshalizer stack production
// builds. Signature verification is the real one: ed25519 for transactions, BLS
// (single + multi signature, herumi) through the real HeaderSigVerifier for headers.

import (
	"bytes"
	"fmt"
	"math/big"
	"reflect"
	"sync"

	"github.com/ElrondNetwork/elrond-go/config"
	"github.com/ElrondNetwork/elrond-go/core"
	"github.com/ElrondNetwork/elrond-go/core/pubkeyConverter"
	"github.com/ElrondNetwork/elrond-go/core/versioning"
	"github.com/ElrondNetwork/elrond-go/crypto"
	"github.com/ElrondNetwork/elrond-go/crypto/signing"
	"github.com/ElrondNetwork/elrond-go/crypto/signing/ed25519"
	edsig "github.com/ElrondNetwork/elrond-go/crypto/signing/ed25519/singlesig"
	"github.com/ElrondNetwork/elrond-go/crypto/signing/mcl"
	mclmultisig "github.com/ElrondNetwork/elrond-go/crypto/signing/mcl/multisig"
	mclsig "github.com/ElrondNetwork/elrond-go/crypto/signing/mcl/singlesig"
	"github.com/ElrondNetwork/elrond-go/crypto/signing/multisig"
	"github.com/ElrondNetwork/elrond-go/data"
	"github.com/ElrondNetwork/elrond-go/data/block"
	"github.com/ElrondNetwork/elrond-go/data/rewardTx"
	"github.com/ElrondNetwork/elrond-go/data/smartContractResult"
	"github.com/ElrondNetwork/elrond-go/data/transaction"
	"github.com/ElrondNetwork/elrond-go/hashing"
	"github.com/ElrondNetwork/elrond-go/hashing/blake2b"
	"github.com/ElrondNetwork/elrond-go/hashing/keccak"
	"github.com/ElrondNetwork/elrond-go/marshal"
	"github.com/ElrondNetwork/elrond-go/process"
	"github.com/ElrondNetwork/elrond-go/process/block/interceptedBlocks"
	"github.com/ElrondNetwork/elrond-go/process/headerCheck"
	"github.com/ElrondNetwork/elrond-go/process/mock"
	"github.com/ElrondNetwork/elrond-go/process/rewardTransaction"
	"github.com/ElrondNetwork/elrond-go/process/smartContract"
	txproc "github.com/ElrondNetwork/elrond-go/process/transaction"
	"github.com/ElrondNetwork/elrond-go/process/unsigned"
	"github.com/ElrondNetwork/elrond-go/sharding"
	"github.com/ElrondNetwork/elrond-go/storage/lrucache"
	"github.com/ElrondNetwork/elrond-go/testscommon"
)

type gogoMsg interface {
	Marshal() ([]byte, error)
	Equal(that interface{}) bool
}

// built is what one run of a real constructor gives back.
type built struct {
	hash     []byte
	decoded  gogoMsg
	validity error // CheckValidity() of the intercepted object
}

type kind struct {
	name   string
	desc   *desc
	values []gogoMsg
	labels []string
	// build runs the real intercepted-data constructor (+ CheckValidity) on buf
	build func(m marshal.Marshalizer, buf []byte) (*built, error)
}

const chainID = "1"
const softwareVersion = "v1"

var (
	gogo     = &marshal.GogoProtoMarshalizer{}
	jsonM    = &marshal.JsonMarshalizer{}
	hasher   = blake2b.NewBlake2b() // [Hasher] Type = "blake2b" in cmd/node/config/config.toml
	signHash = keccak.NewKeccak()   // [TxSignHasher] Type = "keccak"
)

func rep(b byte, n int) []byte { return bytes.Repeat([]byte{b}, n) }

// cachedSigVerifier wraps the real HeaderSigVerifier: its verdict is a function of the
// decoded header only, so it is computed once per distinct decoded header (keyed by the
// header's canonical encoding) instead of once per explored encoding (BLS pairings are
// ~2 ms each). A header that decodes differently is verified for real again.
type cachedSigVerifier struct {
	real *headerCheck.HeaderSigVerifier
	mu   sync.Mutex
	memo map[string][2]error
	n    int
}

func (v *cachedSigVerifier) get(h data.HeaderHandler) [2]error {
	b, err := gogo.Marshal(h)
	if err != nil {
		return [2]error{err, err}
	}
	v.mu.Lock()
	defer v.mu.Unlock()
	if r, ok := v.memo[string(b)]; ok {
		return r
	}
	r := [2]error{v.real.VerifyRandSeedAndLeaderSignature(h), v.real.VerifySignature(h)}
	v.memo[string(b)] = r
	v.n++
	return r
}
func (v *cachedSigVerifier) VerifyRandSeedAndLeaderSignature(h data.HeaderHandler) error {
	return v.get(h)[0]
}
func (v *cachedSigVerifier) VerifySignature(h data.HeaderHandler) error { return v.get(h)[1] }
func (v *cachedSigVerifier) VerifyRandSeed(h data.HeaderHandler) error {
	return v.real.VerifyRandSeed(h)
}
func (v *cachedSigVerifier) VerifyLeaderSignature(h data.HeaderHandler) error {
	return v.real.VerifyLeaderSignature(h)
}
func (v *cachedSigVerifier) IsInterfaceNil() bool { return v == nil }

type blsWorld struct {
	kg     crypto.KeyGenerator
	ll     crypto.LowLevelSignerBLS
	privs  []crypto.PrivateKey
	pubs   []string
	single *mclsig.BlsSingleSigner
	hsv    *cachedSigVerifier
}

func newBLSWorld(n int) (*blsWorld, error) {
	h, err := blake2b.NewBlake2bWithSize(hashing.BlsHashSize)
	if err != nil {
		return nil, err
	}
	w := &blsWorld{kg: signing.NewKeyGenerator(mcl.NewSuiteBLS12()), ll: &mclmultisig.BlsMultiSigner{Hasher: h},
		single: mclsig.NewBlsSigner()}
	for i := 0; i < n; i++ {
		sk := make([]byte, 32) // fixed private scalars: nothing random in the harness
		sk[0], sk[30], sk[31] = 0x18, byte(n), byte(i+1)
		p, err := w.kg.PrivateKeyFromByteArray(sk)
		if err != nil {
			return nil, err
		}
		pb, err := p.GeneratePublic().ToByteArray()
		if err != nil {
			return nil, err
		}
		w.privs = append(w.privs, p)
		w.pubs = append(w.pubs, string(pb))
	}
	root, err := multisig.NewBLSMultisig(w.ll, w.pubs, w.privs[0], w.kg, 0)
	if err != nil {
		return nil, err
	}
	nc := &mock.NodesCoordinatorMock{
		GetValidatorsPublicKeysCalled: func(_ []byte, _ uint64, _ uint32, _ uint32) ([]string, error) {
			return append([]string{}, w.pubs...), nil
		},
		ComputeValidatorsGroupCalled: func(_ []byte, _ uint64, _ uint32, _ uint32) ([]sharding.Validator, error) {
			var vs []sharding.Validator
			for i, p := range w.pubs {
				v, err := sharding.NewValidator([]byte(p), 1, uint32(i))
				if err != nil {
					return nil, err
				}
				vs = append(vs, v)
			}
			return vs, nil
		},
	}
	real, err := headerCheck.NewHeaderSigVerifier(&headerCheck.ArgsHeaderSigVerifier{
		Marshalizer: gogo, Hasher: hasher, NodesCoordinator: nc, MultiSigVerifier: root,
		SingleSigVerifier: w.single, KeyGen: w.kg,
		FallbackHeaderValidator: &testscommon.FallBackHeaderValidatorStub{},
	})
	if err != nil {
		return nil, err
	}
	w.hsv = &cachedSigVerifier{real: real, memo: map[string][2]error{}}
	return w, nil
}

// sign fills RandSeed, Signature + PubKeysBitmap (all members sign) and LeaderSignature the
// way consensus does: leader = member 0.
func (w *blsWorld) sign(h data.HeaderHandler) error {
	rs, err := w.single.Sign(w.privs[0], h.GetPrevRandSeed())
	if err != nil {
		return err
	}
	h.SetRandSeed(rs)
	h.SetSignature(nil)
	h.SetPubKeysBitmap(nil)
	h.SetLeaderSignature(nil)
	msg, err := core.CalculateHash(gogo, hasher, h)
	if err != nil {
		return err
	}
	n := len(w.privs)
	agg, err := multisig.NewBLSMultisig(w.ll, w.pubs, w.privs[0], w.kg, 0)
	if err != nil {
		return err
	}
	bitmap := make([]byte, (n+7)/8)
	for i := 0; i < n; i++ {
		ms, err := multisig.NewBLSMultisig(w.ll, w.pubs, w.privs[i], w.kg, uint16(i))
		if err != nil {
			return err
		}
		sh, err := ms.CreateSignatureShare(msg, nil)
		if err != nil {
			return err
		}
		if err = agg.StoreSignatureShare(uint16(i), sh); err != nil {
			return err
		}
		bitmap[i/8] |= 1 << uint(i%8)
	}
	sig, err := agg.AggregateSigs(bitmap)
	if err != nil {
		return err
	}
	h.SetSignature(sig)
	h.SetPubKeysBitmap(bitmap)
	hb, err := gogo.Marshal(h)
	if err != nil {
		return err
	}
	ls, err := w.single.Sign(w.privs[0], hb)
	if err != nil {
		return err
	}
	h.SetLeaderSignature(ls)
	return nil
}

// normalise returns the value as the real decoder produces it from its canonical encoding
// (nil vs empty slices, nil vs zero big.Int), so that Equal compares decoder outputs.
func normalise(v gogoMsg) (gogoMsg, error) {
	b, err := v.Marshal()
	if err != nil {
		return nil, err
	}
	n := reflect.New(reflect.TypeOf(v).Elem()).Interface()
	if err := gogo.Unmarshal(n, b); err != nil {
		return nil, err
	}
	return n.(gogoMsg), nil
}

func buildKinds() ([]*kind, *blsWorld, error) {
	coord, err := sharding.NewMultiShardCoordinator(3, 0)
	if err != nil {
		return nil, nil, err
	}
	metaCoord, err := sharding.NewMultiShardCoordinator(3, core.MetachainShardId)
	if err != nil {
		return nil, nil, err
	}
	bls, err := newBLSWorld(3)
	if err != nil {
		return nil, nil, err
	}
	verCache, err := lrucache.NewCache(16)
	if err != nil {
		return nil, nil, err
	}
	integrity, err := headerCheck.NewHeaderIntegrityVerifier([]byte(chainID),
		[]config.VersionByEpochs{{StartEpoch: 0, Version: "*"}}, softwareVersion, verCache)
	if err != nil {
		return nil, nil, err
	}
	attester := &mock.ValidityAttesterStub{}
	trigger := &testscommon.EpochStartTriggerStub{}
	hdrArg := func(m marshal.Marshalizer, buf []byte, sc sharding.Coordinator) *interceptedBlocks.ArgInterceptedBlockHeader {
		return &interceptedBlocks.ArgInterceptedBlockHeader{HdrBuff: buf, Marshalizer: m, Hasher: hasher,
			ShardCoordinator: sc, HeaderSigVerifier: bls.hsv, HeaderIntegrityVerifier: integrity,
			ValidityAttester: attester, EpochStartTrigger: trigger}
	}
	var kinds []*kind
	add := func(name string, vals []gogoMsg, labels []string, build func(m marshal.Marshalizer, buf []byte) (*built, error)) error {
		d, err := describe(reflect.TypeOf(vals[0]))
		if err != nil {
			return err
		}
		k := &kind{name: name, desc: d, labels: labels, build: build}
		for _, v := range vals {
			n, err := normalise(v)
			if err != nil {
				return fmt.Errorf("%s: %v", name, err)
			}
			k.values = append(k.values, n)
		}
		kinds = append(kinds, k)
		return nil
	}
	labels := []string{"sparse", "typical", "rich"}

	// ---------------- shard header ----------------
	mbh := func(i byte, typ block.Type) block.MiniBlockHeader {
		return block.MiniBlockHeader{Hash: rep(0xa0+i, 32), SenderShardID: uint32(i % 3), ReceiverShardID: uint32((i + 1) % 3), TxCount: uint32(i) + 1, Type: typ}
	}
	hdrs := []*block.Header{
		{PrevHash: rep(1, 32), PrevRandSeed: rep(2, 96), RootHash: rep(3, 32), ChainID: []byte(chainID),
			SoftwareVersion: []byte(softwareVersion)},
		{Nonce: 7, PrevHash: rep(1, 32), PrevRandSeed: rep(2, 96), ShardID: 0, TimeStamp: 1600000000, Round: 9, Epoch: 1,
			RootHash: rep(3, 32), MiniBlockHeaders: []block.MiniBlockHeader{mbh(0, block.TxBlock)}, TxCount: 1,
			ChainID: []byte(chainID), SoftwareVersion: []byte(softwareVersion),
			AccumulatedFees: big.NewInt(1000), DeveloperFees: big.NewInt(0)},
		{Nonce: 1 << 40, PrevHash: rep(1, 32), PrevRandSeed: rep(2, 96), ShardID: 2, TimeStamp: 1600000000, Round: 300, Epoch: 200,
			BlockBodyType: block.TxBlock, RootHash: rep(3, 32),
			MiniBlockHeaders: []block.MiniBlockHeader{mbh(0, block.TxBlock), mbh(1, block.SmartContractResultBlock)},
			PeerChanges:      []block.PeerChange{{PubKey: rep(9, 96), ShardIdDest: 1}},
			MetaBlockHashes:  [][]byte{rep(4, 32), rep(5, 32)}, TxCount: 300, EpochStartMetaHash: rep(6, 32),
			ReceiptsHash: rep(7, 32), ChainID: []byte(chainID), SoftwareVersion: []byte(softwareVersion),
			AccumulatedFees: new(big.Int).Lsh(big.NewInt(1), 70), DeveloperFees: big.NewInt(255)},
	}
	var hv []gogoMsg
	for _, h := range hdrs {
		if err := bls.sign(h); err != nil {
			return nil, nil, fmt.Errorf("sign header: %v", err)
		}
		hv = append(hv, h)
	}
	err = add("shard-header", hv, labels, func(m marshal.Marshalizer, buf []byte) (*built, error) {
		ih, err := interceptedBlocks.NewInterceptedHeader(hdrArg(m, buf, coord))
		if err != nil {
			return nil, err
		}
		return &built{hash: ih.Hash(), decoded: ih.HeaderHandler().(*block.Header), validity: ih.CheckValidity()}, nil
	})
	if err != nil {
		return nil, nil, err
	}

	// ---------------- meta header ----------------
	sd := func(i byte) block.ShardData {
		return block.ShardData{ShardID: uint32(i), HeaderHash: rep(0xb0+i, 32), ShardMiniBlockHeaders: []block.MiniBlockHeader{mbh(i, block.TxBlock)},
			PrevRandSeed: rep(1, 96), PubKeysBitmap: []byte{7}, Signature: rep(2, 96), Round: 8, PrevHash: rep(3, 32), Nonce: 6,
			AccumulatedFees: big.NewInt(5), DeveloperFees: big.NewInt(1), NumPendingMiniBlocks: 1, LastIncludedMetaNonce: 5, TxCount: 3}
	}
	metas := []*block.MetaBlock{
		{PrevHash: rep(1, 32), PrevRandSeed: rep(2, 96), RootHash: rep(3, 32), ChainID: []byte(chainID),
			SoftwareVersion: []byte(softwareVersion)},
		{Nonce: 7, Epoch: 1, Round: 9, TimeStamp: 1600000000, ShardInfo: []block.ShardData{sd(0)},
			PrevHash: rep(1, 32), PrevRandSeed: rep(2, 96), RootHash: rep(3, 32), ValidatorStatsRootHash: rep(4, 32),
			ChainID: []byte(chainID), SoftwareVersion: []byte(softwareVersion), AccumulatedFees: big.NewInt(10),
			AccumulatedFeesInEpoch: big.NewInt(100), DeveloperFees: big.NewInt(0), DevFeesInEpoch: big.NewInt(3), TxCount: 3},
		{Nonce: 1 << 40, Epoch: 200, Round: 300, TimeStamp: 1600000000, ShardInfo: []block.ShardData{sd(0), sd(1)},
			PeerInfo: []block.PeerData{{Address: rep(8, 32), PublicKey: rep(9, 96), Action: block.PeerUnstaking, TimeStamp: 5, ValueChange: big.NewInt(-3)}},
			PrevHash: rep(1, 32), PrevRandSeed: rep(2, 96), RootHash: rep(3, 32), ValidatorStatsRootHash: rep(4, 32),
			MiniBlockHeaders: []block.MiniBlockHeader{mbh(0, block.PeerBlock), mbh(1, block.RewardsBlock)}, ReceiptsHash: rep(5, 32),
			EpochStart: block.EpochStart{
				LastFinalizedHeaders: []block.EpochStartShardData{{ShardID: 1, Epoch: 199, Round: 290, Nonce: 280, HeaderHash: rep(6, 32),
					RootHash: rep(7, 32), FirstPendingMetaBlock: rep(8, 32), LastFinishedMetaBlock: rep(9, 32),
					PendingMiniBlockHeaders: []block.MiniBlockHeader{mbh(2, block.TxBlock)}}},
				Economics: block.Economics{TotalSupply: new(big.Int).Lsh(big.NewInt(1), 80), TotalToDistribute: big.NewInt(7),
					TotalNewlyMinted: big.NewInt(6), RewardsPerBlock: big.NewInt(5), RewardsForProtocolSustainability: big.NewInt(4),
					NodePrice: big.NewInt(2500), PrevEpochStartRound: 100, PrevEpochStartHash: rep(10, 32)}},
			ChainID: []byte(chainID), SoftwareVersion: []byte(softwareVersion), AccumulatedFees: new(big.Int).Lsh(big.NewInt(1), 70),
			AccumulatedFeesInEpoch: big.NewInt(100), DeveloperFees: big.NewInt(255), DevFeesInEpoch: big.NewInt(3), TxCount: 300},
	}
	var mv []gogoMsg
	for _, h := range metas {
		if err := bls.sign(h); err != nil {
			return nil, nil, fmt.Errorf("sign meta header: %v", err)
		}
		mv = append(mv, h)
	}
	err = add("meta-header", mv, labels, func(m marshal.Marshalizer, buf []byte) (*built, error) {
		ih, err := interceptedBlocks.NewInterceptedMetaHeader(hdrArg(m, buf, metaCoord))
		if err != nil {
			return nil, err
		}
		return &built{hash: ih.Hash(), decoded: ih.HeaderHandler().(*block.MetaBlock), validity: ih.CheckValidity()}, nil
	})
	if err != nil {
		return nil, nil, err
	}

	// ---------------- miniblock ----------------
	var hashes [][]byte
	for i := 0; i < 6; i++ {
		hashes = append(hashes, rep(byte(0xc0+i), 32))
	}
	mbs := []gogoMsg{
		&block.MiniBlock{TxHashes: [][]byte{rep(0xc0, 32)}},
		&block.MiniBlock{TxHashes: hashes[:2], ReceiverShardID: 1, SenderShardID: 0, Type: block.TxBlock},
		&block.MiniBlock{TxHashes: hashes, ReceiverShardID: core.MetachainShardId, SenderShardID: 2, Type: block.RewardsBlock},
	}
	err = add("miniblock", mbs, labels, func(m marshal.Marshalizer, buf []byte) (*built, error) {
		im, err := interceptedBlocks.NewInterceptedMiniblock(&interceptedBlocks.ArgInterceptedMiniblock{
			MiniblockBuff: buf, Marshalizer: m, Hasher: hasher, ShardCoordinator: coord})
		if err != nil {
			return nil, err
		}
		return &built{hash: im.Hash(), decoded: im.Miniblock(), validity: im.CheckValidity()}, nil
	})
	if err != nil {
		return nil, nil, err
	}

	// ---------------- transaction (really signed, ed25519) ----------------
	pkConv, err := pubkeyConverter.NewBech32PubkeyConverter(32)
	if err != nil {
		return nil, nil, err
	}
	edKG := signing.NewKeyGenerator(ed25519.NewEd25519())
	edSigner := &edsig.Ed25519Signer{}
	seed := make([]byte, 32)
	seed[0], seed[31] = 0x18, 1
	sk, err := edKG.PrivateKeyFromByteArray(seed)
	if err != nil {
		return nil, nil, err
	}
	sender, err := sk.GeneratePublic().ToByteArray()
	if err != nil {
		return nil, nil, err
	}
	verChecker := versioning.NewTxVersionChecker(1)
	txs := []*transaction.Transaction{
		{Value: big.NewInt(0), RcvAddr: rep(0x11, 32), SndAddr: sender, ChainID: []byte(chainID), Version: 1},
		{Nonce: 5, Value: big.NewInt(1000000), RcvAddr: rep(0x11, 32), SndAddr: sender, GasPrice: 1000000000, GasLimit: 50000,
			Data: []byte("hello"), ChainID: []byte(chainID), Version: 1},
		{Nonce: 1 << 40, Value: new(big.Int).Lsh(big.NewInt(1), 70), RcvAddr: rep(0x11, 32), RcvUserName: []byte("bob"),
			SndAddr: sender, SndUserName: []byte("alice"), GasPrice: 1000000000, GasLimit: 60000000,
			Data: rep('d', 200), ChainID: []byte(chainID), Version: 2, Options: 1},
	}
	var tv []gogoMsg
	for _, tx := range txs {
		msg, err := tx.GetDataForSigning(pkConv, jsonM)
		if err != nil {
			return nil, nil, err
		}
		if verChecker.IsSignedWithHash(tx) {
			msg = signHash.Compute(string(msg))
		}
		tx.Signature, err = edSigner.Sign(sk, msg)
		if err != nil {
			return nil, nil, err
		}
		tv = append(tv, tx)
	}
	feeStub := &mock.FeeHandlerStub{}
	argsParser := smartContract.NewArgumentParser()
	err = add("transaction", tv, labels, func(m marshal.Marshalizer, buf []byte) (*built, error) {
		// a fresh whitelist per call: CheckValidity must verify the signature every time
		wl := &testscommon.WhiteListHandlerStub{}
		it, err := txproc.NewInterceptedTransaction(buf, m, jsonM, hasher, edKG, edSigner, pkConv, coord, feeStub, wl,
			argsParser, []byte(chainID), true, signHash, verChecker)
		if err != nil {
			return nil, err
		}
		return &built{hash: it.Hash(), decoded: it.Transaction().(*transaction.Transaction), validity: it.CheckValidity()}, nil
	})
	if err != nil {
		return nil, nil, err
	}

	// ---------------- unsigned tx (smart contract result) ----------------
	scrs := []gogoMsg{
		&smartContractResult.SmartContractResult{Value: big.NewInt(0), RcvAddr: rep(0x11, 32), SndAddr: rep(0x22, 32), PrevTxHash: rep(0x33, 32)},
		&smartContractResult.SmartContractResult{Nonce: 5, Value: big.NewInt(1000), RcvAddr: rep(0x11, 32), SndAddr: rep(0x22, 32),
			Data: []byte("@6f6b"), PrevTxHash: rep(0x33, 32), OriginalTxHash: rep(0x44, 32), GasLimit: 500, GasPrice: 1000000000},
		&smartContractResult.SmartContractResult{Nonce: 1 << 40, Value: new(big.Int).Lsh(big.NewInt(1), 70), RcvAddr: rep(0x11, 32), SndAddr: rep(0x22, 32),
			RelayerAddr: rep(0x55, 32), RelayedValue: big.NewInt(9), Code: rep('c', 150), Data: []byte("@6f6b"), PrevTxHash: rep(0x33, 32),
			OriginalTxHash: rep(0x44, 32), GasLimit: 500, GasPrice: 1000000000, CallType: 1, CodeMetadata: []byte{1, 0},
			ReturnMessage: []byte("msg"), OriginalSender: rep(0x66, 32)},
	}
	err = add("unsigned-tx", scrs, labels, func(m marshal.Marshalizer, buf []byte) (*built, error) {
		iu, err := unsigned.NewInterceptedUnsignedTransaction(buf, m, hasher, pkConv, coord)
		if err != nil {
			return nil, err
		}
		return &built{hash: iu.Hash(), decoded: iu.Transaction().(*smartContractResult.SmartContractResult), validity: iu.CheckValidity()}, nil
	})
	if err != nil {
		return nil, nil, err
	}

	// ---------------- reward tx ----------------
	rws := []gogoMsg{
		&rewardTx.RewardTx{Value: big.NewInt(0), RcvAddr: rep(0x11, 32)},
		&rewardTx.RewardTx{Round: 9, Epoch: 1, Value: big.NewInt(1000), RcvAddr: rep(0x11, 32)},
		&rewardTx.RewardTx{Round: 1 << 40, Epoch: 200, Value: new(big.Int).Lsh(big.NewInt(1), 70), RcvAddr: rep(0x11, 32)},
	}
	err = add("reward-tx", rws, labels, func(m marshal.Marshalizer, buf []byte) (*built, error) {
		ir, err := rewardTransaction.NewInterceptedRewardTransaction(buf, m, hasher, pkConv, coord)
		if err != nil {
			return nil, err
		}
		return &built{hash: ir.Hash(), decoded: ir.Transaction().(*rewardTx.RewardTx), validity: ir.CheckValidity()}, nil
	})
	if err != nil {
		return nil, nil, err
	}
	return kinds, bls, nil
}

var _ process.InterceptedHeaderSigVerifier = (*cachedSigVerifier)(nil)
