// C44 — peer eviction keeps connections within quotas.
//
// Exhaustive input enumeration on the real networksharding.listsSharder (NewListsSharder,
// SetSeeders, ComputeEvictionList) with a stub PeerShardResolver and a stub preferred-peers
// holder: every constructor-accepted sharding configuration of the design's product x every
// peer list given by a count per peer class x every set of <= 2 preferred peers of the list.
//
// What the statement promises about ComputeEvictionList(list), checked on every case:
//
//	(a) every proposed peer is a member of the list;
//	(b) no proposed peer is a preferred peer;
//	(c) no peer is proposed twice;
//	(d) after removing the proposed peers, the non-preferred peers that remain respect
//	    - the target peer count,
//	    - the seeder limit and the full-history-observer limit (strict, no borrowing),
//	    - for the cascade intra-shard validators -> cross-shard validators -> intra-shard
//	      observers -> cross-shard observers -> unknown: "own maximum + the capacity left
//	      unused by the categories before it", i.e. every prefix sum of the kept counts is
//	      <= the prefix sum of the maxima (max unknown = target - sum of the other maxima).
//
// Category of a peer (the sharder's documented classification, needed to state (d)): a
// seeder is a seeder whatever the resolver says; an intra-shard full-history observer is a
// full-history observer when MaxFullHistoryObservers > 0 and an ordinary intra-shard
// observer otherwise; a cross-shard full-history observer is a cross-shard observer.
// Which member of a category is evicted (distance order) is not part of the statement.
package main

import (
	"encoding/json"
	"fmt"
	"math/bits"
	"sort"
	"sync"

	logger "github.com/ElrondNetwork/elrond-go-logger"
	"github.com/ElrondNetwork/elrond-go/config"
	"github.com/ElrondNetwork/elrond-go/core"
	"github.com/ElrondNetwork/elrond-go/p2p/libp2p/networksharding"
	"github.com/ElrondNetwork/elrond-go/p2p/mock"
	"github.com/ElrondNetwork/elrond-go/testscommon/p2pmocks"
	"github.com/libp2p/go-libp2p-core/peer"
	"verif/engine/mc"
)

// peer classes of the enumeration (what the resolver / seeder list say about a peer)
const (
	clIntraVal = iota
	clCrossVal
	clIntraObs
	clCrossObs
	clIntraFH
	clCrossFH
	clSeeder
	clUnknown
	numClasses
)

var classNames = [numClasses]string{"intraValidator", "crossValidator", "intraObserver", "crossObserver", "intraFullHistory", "crossFullHistory", "seeder", "unknown"}
var classShort = [numClasses]string{"iv", "cv", "io", "co", "ifh", "cfh", "seed", "unk"}

// categories of the sharder (what the limits are about)
const (
	catIntraVal = iota
	catCrossVal
	catIntraObs
	catCrossObs
	catUnknown
	catSeeder
	catFullHistory
	numCats
)

var catNames = [numCats]string{"intraShardValidators", "crossShardValidators", "intraShardObservers", "crossShardObservers", "unknown", "seeders", "fullHistoryObservers"}

const perClass = 3
const numIDs = numClasses * perClass
const selfShard, otherShard = uint32(0), uint32(1)

var selfID = peer.ID("self")

type world struct {
	ids     [numIDs]peer.ID // ids[class*perClass+j]
	names   [numIDs]string
	dist    [numIDs]int64
	idx     map[peer.ID]int
	info    [numIDs]core.P2PPeerInfo
	seeders []string
}

// buildWorld picks the fixed peer ids: 4-byte ids (short ids keep the base58 rendering done
// by IsSeeder cheap), pairwise different distances to the self id under the sharder's real
// distance function, seeders first so that every other id can be checked against the real
// IsSeeder (which is a substring test on the seeder addresses).
func buildWorld() *world {
	w := &world{idx: map[peer.ID]int{}}
	used := map[int64]bool{}
	salt := 0
	var probe interface{ IsSeeder(pid core.PeerID) bool }
	pick := func(cl, j int) {
		for {
			id := peer.ID([]byte{byte('A' + cl), byte('0' + j), byte('a' + salt/26%26), byte('a' + salt%26)})
			salt++
			d := networksharding.VerifC44Distance(id, selfID).Int64()
			if used[d] {
				continue
			}
			if probe != nil && probe.IsSeeder(core.PeerID(id)) {
				continue
			}
			used[d] = true
			k := cl*perClass + j
			w.ids[k], w.dist[k] = id, d
			w.names[k] = fmt.Sprintf("%s%d", classShort[cl], j)
			w.idx[id] = k
			return
		}
	}
	for j := 0; j < perClass; j++ {
		pick(clSeeder, j)
		k := clSeeder*perClass + j
		w.seeders = append(w.seeders, fmt.Sprintf("/ip4/10.0.0.%d/tcp/10000/p2p/%s", j+1, core.PeerID(w.ids[k]).Pretty()))
	}
	ls, err := networksharding.NewListsSharder(networksharding.ArgListsSharder{
		PeerResolver:         &mock.PeerShardResolverStub{},
		SelfPeerId:           selfID,
		P2pConfig:            shardCfg{1, 1, 1, 1, 0, 0, 5}.p2p(),
		PreferredPeersHolder: &p2pmocks.PeersHolderStub{},
	})
	if err != nil {
		panic(err)
	}
	ls.SetSeeders(w.seeders)
	probe = ls
	for j := 0; j < perClass; j++ {
		if !probe.IsSeeder(core.PeerID(w.ids[clSeeder*perClass+j])) {
			panic("seeder id not recognised by IsSeeder")
		}
	}
	if probe.IsSeeder(core.PeerID(selfID)) {
		panic("self id recognised as seeder")
	}
	// round-robin over classes so that near and far ids are spread over all classes
	for j := 0; j < perClass; j++ {
		for cl := 0; cl < numClasses; cl++ {
			if cl != clSeeder {
				pick(cl, j)
			}
		}
	}
	for k := 0; k < numIDs; k++ {
		cl := k / perClass
		var pi core.P2PPeerInfo
		switch cl {
		case clIntraVal:
			pi = core.P2PPeerInfo{PeerType: core.ValidatorPeer, ShardID: selfShard}
		case clCrossVal:
			pi = core.P2PPeerInfo{PeerType: core.ValidatorPeer, ShardID: otherShard}
		case clIntraObs:
			pi = core.P2PPeerInfo{PeerType: core.ObserverPeer, PeerSubType: core.RegularPeer, ShardID: selfShard}
		case clCrossObs:
			pi = core.P2PPeerInfo{PeerType: core.ObserverPeer, PeerSubType: core.RegularPeer, ShardID: otherShard}
		case clIntraFH:
			pi = core.P2PPeerInfo{PeerType: core.ObserverPeer, PeerSubType: core.FullHistoryObserver, ShardID: selfShard}
		case clCrossFH:
			pi = core.P2PPeerInfo{PeerType: core.ObserverPeer, PeerSubType: core.FullHistoryObserver, ShardID: otherShard}
		default: // seeders and unknown peers did not advertise anything
			pi = core.P2PPeerInfo{PeerType: core.UnknownPeer, ShardID: selfShard}
		}
		w.info[k] = pi
	}
	return w
}

type shardCfg struct {
	IntraVal, CrossVal, IntraObs, CrossObs, Seeders, FullHistory, Target uint32
}

func (g shardCfg) p2p() config.P2PConfig {
	return config.P2PConfig{Sharding: config.ShardingConfig{
		TargetPeerCount:         g.Target,
		MaxIntraShardValidators: g.IntraVal,
		MaxCrossShardValidators: g.CrossVal,
		MaxIntraShardObservers:  g.IntraObs,
		MaxCrossShardObservers:  g.CrossObs,
		MaxSeeders:              g.Seeders,
		MaxFullHistoryObservers: g.FullHistory,
		Type:                    "ListsSharder",
	}}
}

// limits in category order; max unknown = target - sum of the others (the documented rule:
// "unknown list is able to fill the gap until maximum peer count value is fulfilled")
func (g shardCfg) limits() [numCats]int {
	var l [numCats]int
	l[catIntraVal], l[catCrossVal], l[catIntraObs], l[catCrossObs] = int(g.IntraVal), int(g.CrossVal), int(g.IntraObs), int(g.CrossObs)
	l[catSeeder], l[catFullHistory] = int(g.Seeders), int(g.FullHistory)
	l[catUnknown] = int(g.Target) - (l[catIntraVal] + l[catCrossVal] + l[catIntraObs] + l[catCrossObs] + l[catSeeder] + l[catFullHistory])
	return l
}

func (g shardCfg) category(class int) int {
	switch class {
	case clIntraVal:
		return catIntraVal
	case clCrossVal:
		return catCrossVal
	case clIntraObs:
		return catIntraObs
	case clCrossObs, clCrossFH:
		return catCrossObs
	case clIntraFH:
		if g.FullHistory > 0 {
			return catFullHistory
		}
		return catIntraObs
	case clSeeder:
		return catSeeder
	}
	return catUnknown
}

type sharder interface {
	ComputeEvictionList(pidList []peer.ID) []peer.ID
}

// one case, also the replay format
type caseDesc struct {
	Config    shardCfg         `json:"config"`
	Counts    [numClasses]int  `json:"peers_per_class"`
	Preferred []string         `json:"preferred"`
	List      []string         `json:"list,omitempty"`
	Evicted   []string         `json:"proposed_for_eviction,omitempty"`
	Kept      map[string]int   `json:"kept_non_preferred_per_category,omitempty"`
	Limits    map[string]int   `json:"limits,omitempty"`
	What      string           `json:"what,omitempty"`
	Distances map[string]int64 `json:"distance_to_self,omitempty"`
}

type found struct {
	rank int
	n    int64
	d    *caseDesc
}

// taskCtx is the per-task (one peer list) state: the sharders share one holder stub whose
// answer is the task-local prefMask.
type taskCtx struct {
	w        *world
	li       int // index of the peer list (lists are sorted by number of peers)
	prefMask uint32
	viol     map[string]*found
	nontriv  map[string]struct{}
	outcomes map[string]struct{}
	evals    int64
}

func (w *world) newSharder(g shardCfg, t *taskCtx) (sharder, error) {
	resolver := &mock.PeerShardResolverStub{GetPeerInfoCalled: func(pid core.PeerID) core.P2PPeerInfo {
		if k, ok := w.idx[peer.ID(pid)]; ok {
			return w.info[k]
		}
		return core.P2PPeerInfo{PeerType: core.ObserverPeer, ShardID: selfShard} // the self id
	}}
	holder := &p2pmocks.PeersHolderStub{ContainsCalled: func(pid core.PeerID) bool {
		k, ok := w.idx[peer.ID(pid)]
		return ok && t.prefMask&(1<<uint(k)) != 0
	}}
	ls, err := networksharding.NewListsSharder(networksharding.ArgListsSharder{
		PeerResolver:         resolver,
		SelfPeerId:           selfID,
		P2pConfig:            g.p2p(),
		PreferredPeersHolder: holder,
	})
	if err != nil {
		return nil, err
	}
	ls.SetSeeders(w.seeders)
	return ls, nil
}

func (w *world) maskNames(m uint32) []string {
	r := []string{}
	for k := 0; k < numIDs; k++ {
		if m&(1<<uint(k)) != 0 {
			r = append(r, w.names[k])
		}
	}
	return r
}

// runCase runs one case on the real sharder and evaluates (a)-(d).
func (t *taskCtx) runCase(ci int, g shardCfg, sh sharder, counts [numClasses]int, list []peer.ID, listMask uint32, nPeers int) {
	w := t.w
	t.evals++
	var ev []peer.ID
	if p := mc.Try(func() { ev = sh.ComputeEvictionList(list) }); p != "" {
		t.report("ComputeEvictionList:panic", ci, g, counts, listMask, nPeers, nil, p)
		return
	}
	var evMask uint32
	for _, pid := range ev {
		k, ok := w.idx[pid]
		if !ok || listMask&(1<<uint(k)) == 0 {
			t.report("eviction:peer-not-in-the-given-list", ci, g, counts, listMask, nPeers, ev, fmt.Sprintf("proposed peer %q is not in the list", string(pid)))
			return
		}
		b := uint32(1) << uint(k)
		if evMask&b != 0 {
			t.report("eviction:peer-proposed-twice", ci, g, counts, listMask, nPeers, ev, w.names[k]+" is proposed twice")
		}
		evMask |= b
		if t.prefMask&b != 0 {
			t.report("eviction:preferred-peer-proposed:"+classNames[k/perClass], ci, g, counts, listMask, nPeers, ev, "preferred peer "+w.names[k]+" is proposed for eviction")
		}
	}
	// (d) what remains, preferred peers not counted
	rem := listMask &^ evMask &^ t.prefMask
	var kept [numCats]int
	for m := rem; m != 0; m &= m - 1 {
		k := bits.TrailingZeros32(m)
		kept[g.category(k/perClass)]++
	}
	lim := g.limits()
	total := 0
	for _, n := range kept {
		total += n
	}
	if total > int(g.Target) {
		t.report("remaining:over-target-peer-count", ci, g, counts, listMask, nPeers, ev, fmt.Sprintf("%d non-preferred peers remain, target %d", total, g.Target))
	}
	if kept[catSeeder] > lim[catSeeder] {
		t.report("remaining:over-limit:"+catNames[catSeeder], ci, g, counts, listMask, nPeers, ev, fmt.Sprintf("%d non-preferred seeders remain, limit %d", kept[catSeeder], lim[catSeeder]))
	}
	if kept[catFullHistory] > lim[catFullHistory] {
		t.report("remaining:over-limit:"+catNames[catFullHistory], ci, g, counts, listMask, nPeers, ev, fmt.Sprintf("%d non-preferred full-history observers remain, limit %d", kept[catFullHistory], lim[catFullHistory]))
	}
	sumKept, sumLim, borrowed := 0, 0, 0
	for cat := catIntraVal; cat <= catUnknown; cat++ {
		sumKept += kept[cat]
		sumLim += lim[cat]
		if kept[cat] > lim[cat] {
			borrowed++
		}
		if sumKept > sumLim {
			t.report("remaining:over-limit:"+catNames[cat], ci, g, counts, listMask, nPeers, ev,
				fmt.Sprintf("%d non-preferred %s remain; own maximum %d + capacity left unused by the categories before it %d", kept[cat], catNames[cat], lim[cat], sumLim-lim[cat]-(sumKept-kept[cat])))
			break
		}
	}
	ne := bits.OnesCount32(evMask)
	if ne > 0 {
		t.nontriv[fmt.Sprintf("%d|%d|%d|%d", ci, ne, borrowed, bits.OnesCount32(t.prefMask&listMask))] = struct{}{}
	}
	t.outcomes[fmt.Sprintf("%d|%d", ne, borrowed)] = struct{}{}
}

func (t *taskCtx) report(sig string, ci int, g shardCfg, counts [numClasses]int, listMask uint32, nPeers int, ev []peer.ID, what string) {
	// unique per (list, number of preferred peers, configuration): lists are sorted by size, so
	// the smallest witness wins and the choice does not depend on the parallel schedule
	rank := (t.li*3+bits.OnesCount32(t.prefMask))*128 + ci
	f := t.viol[sig]
	if f == nil {
		f = &found{rank: 1 << 30}
		t.viol[sig] = f
	}
	f.n++
	if rank >= f.rank {
		return
	}
	w := t.w
	d := &caseDesc{Config: g, Counts: counts, Preferred: w.maskNames(t.prefMask), List: w.maskNames(listMask), What: what,
		Kept: map[string]int{}, Limits: map[string]int{}, Distances: map[string]int64{}}
	var evMask uint32
	for _, pid := range ev {
		if k, ok := w.idx[pid]; ok {
			d.Evicted = append(d.Evicted, w.names[k])
			evMask |= 1 << uint(k)
		} else {
			d.Evicted = append(d.Evicted, "?"+string(pid))
		}
	}
	rem := listMask &^ evMask &^ t.prefMask
	for m := rem; m != 0; m &= m - 1 {
		k := bits.TrailingZeros32(m)
		d.Kept[catNames[g.category(k/perClass)]]++
	}
	for cat, l := range g.limits() {
		d.Limits[catNames[cat]] = l
	}
	for m := listMask; m != 0; m &= m - 1 {
		k := bits.TrailingZeros32(m)
		d.Distances[w.names[k]] = w.dist[k]
	}
	f.rank, f.d = rank, d
}

func enumConfigs(w *world) (cfgs []shardCfg, rejected int) {
	probe := &taskCtx{w: w}
	for _, target := range []uint32{5, 8, 10} {
		for _, s := range []uint32{0, 1} {
			for _, f := range []uint32{0, 1} {
				for _, iv := range []uint32{1, 2} {
					for _, cv := range []uint32{1, 2} {
						for _, io := range []uint32{1, 2} {
							for _, co := range []uint32{1, 2} {
								g := shardCfg{IntraVal: iv, CrossVal: cv, IntraObs: io, CrossObs: co, Seeders: s, FullHistory: f, Target: target}
								if _, err := w.newSharder(g, probe); err != nil {
									rejected++
									continue
								}
								cfgs = append(cfgs, g)
							}
						}
					}
				}
			}
		}
	}
	return
}

func main() {
	mc.Main("C44", "exploration", func(c *mc.Ctx) {
		_ = logger.SetLogLevel("*:NONE")
		w := buildWorld()
		cfgs, rejected := enumConfigs(w)
		maxCount := c.Pick(2, 3)  // per-class counts enumerated with <= 1 preferred peer
		maxCount2 := c.Pick(1, 2) // per-class counts up to which pairs of preferred peers are enumerated too
		c.Rule = fmt.Sprintf("every sharding configuration accepted by NewListsSharder within max intra/cross validators {1,2} x max intra/cross observers {1,2} x max seeders {0,1} x max full-history {0,1} x target {5,8,10} (%d accepted, %d rejected) x every peer list with a count in 0..%d for each of the 8 classes %v (distinct fixed peer ids with pairwise different distances to self; seeders are the ids named in SetSeeders) x every set of <= 1 preferred peer of the list, and every set of 2 preferred peers for the lists with all counts <= %d; the real ComputeEvictionList is run on each case; non-trivial = a case with >= 1 proposed eviction (distinguished by configuration, number proposed, number of categories kept above their own maximum by borrowing, number of preferred peers)",
			len(cfgs), rejected, maxCount, classNames, maxCount2)
		c.Bound = fmt.Sprintf("per-class counts <= %d (<= %d peers) with <= 1 preferred peer; per-class counts <= %d with <= 2 preferred peers; %d configurations", maxCount, maxCount*numClasses, maxCount2, len(cfgs))
		c.Assumptions = []string{
			"peer ids in a list are distinct (a connection list has no duplicates) and the self id is not in the list",
			"the resolver answers consistently for the whole call; seeders and unknown peers are reported as UnknownPeer by the resolver; intra = shard 0 (self), cross = shard 1",
			"category of a peer as documented by the sharder: seeder first; intra-shard full-history observer is a full-history observer only when MaxFullHistoryObservers > 0, else an intra-shard observer; cross-shard full-history observer is a cross-shard observer",
			"per-category limit = own maximum + capacity left unused by earlier categories of the cascade intraV -> crossV -> intraO -> crossO -> unknown (prefix sums); seeders and full-history observers strict; max unknown = target - sum of the other maxima",
			"'remaining non-preferred connections': preferred peers are not counted against any limit",
			"peers are listed class by class; which member of a category is evicted (distance order) is not judged",
		}
		c.Set("peer_distances_to_self", func() map[string]int64 {
			m := map[string]int64{}
			for k := 0; k < numIDs; k++ {
				m[w.names[k]] = w.dist[k]
			}
			return m
		}())

		if len(c.ReplayData) > 0 {
			replay(c, w)
			return
		}

		// all count vectors, fewest peers first (so the smallest witnesses come first)
		var lists [][numClasses]int
		var rec func(cl int, cur [numClasses]int)
		rec = func(cl int, cur [numClasses]int) {
			if cl == numClasses {
				lists = append(lists, cur)
				return
			}
			for n := 0; n <= maxCount; n++ {
				cur[cl] = n
				rec(cl+1, cur)
			}
		}
		rec(0, [numClasses]int{})
		sort.SliceStable(lists, func(i, j int) bool { return sum(lists[i]) < sum(lists[j]) })

		var mu sync.Mutex
		global := map[string]*found{}
		var capped bool
		samples := make([]interface{}, 6) // written by distinct tasks, emitted in index order
		mc.Par(len(lists), func(li int) {
			if c.Expired() {
				mu.Lock()
				capped = true
				mu.Unlock()
				return
			}
			t := &taskCtx{w: w, li: li, viol: map[string]*found{}, nontriv: map[string]struct{}{}, outcomes: map[string]struct{}{}}
			counts := lists[li]
			var list []peer.ID
			var members []int
			var listMask uint32
			for cl := 0; cl < numClasses; cl++ {
				for j := 0; j < counts[cl]; j++ {
					k := cl*perClass + j
					list = append(list, w.ids[k])
					members = append(members, k)
					listMask |= 1 << uint(k)
				}
			}
			pairs := true
			for _, n := range counts {
				if n > maxCount2 {
					pairs = false
				}
			}
			for ci, g := range cfgs {
				sh, err := w.newSharder(g, t)
				if err != nil {
					c.Fatal("constructor result changed: %v", err)
				}
				t.prefMask = 0
				t.runCase(ci, g, sh, counts, list, listMask, len(list))
				for a := 0; a < len(members); a++ {
					t.prefMask = 1 << uint(members[a])
					t.runCase(ci, g, sh, counts, list, listMask, len(list))
					for b := a + 1; pairs && b < len(members); b++ {
						t.prefMask = 1<<uint(members[a]) | 1<<uint(members[b])
						t.runCase(ci, g, sh, counts, list, listMask, len(list))
					}
				}
			}
			c.Eval(t.evals)
			for k := range t.nontriv {
				c.Nontrivial(k)
			}
			for k := range t.outcomes {
				c.Outcome(k)
			}
			if li%997 == 0 && li/997 < len(samples) {
				samples[li/997] = map[string]interface{}{"peers_per_class": counts, "configs": len(cfgs), "cases": t.evals}
			}
			if len(t.viol) > 0 {
				mu.Lock()
				for sig, f := range t.viol {
					gf := global[sig]
					if gf == nil {
						global[sig] = f
						continue
					}
					gf.n += f.n
					if f.rank < gf.rank {
						gf.rank, gf.d = f.rank, f.d
					}
				}
				mu.Unlock()
			}
		})
		if capped {
			c.Cap("deadline before all peer lists were run")
		}
		for _, sm := range samples {
			if sm != nil {
				c.Sample(sm)
			}
		}
		sigs := make([]string, 0, len(global))
		for sig := range global {
			sigs = append(sigs, sig)
		}
		sort.Strings(sigs)
		for _, sig := range sigs {
			f := global[sig]
			rp := caseDesc{Config: f.d.Config, Counts: f.d.Counts, Preferred: f.d.Preferred}
			c.ViolationR(sig, f.rank, f.d, rp)
			c.Count("violating_cases:"+sig, f.n)
		}
		c.Count("configurations", int64(len(cfgs)))
		c.Count("peer_lists", int64(len(lists)))
	})
}

func sum(a [numClasses]int) int {
	s := 0
	for _, v := range a {
		s += v
	}
	return s
}

// replay re-runs one recorded case.
func replay(c *mc.Ctx, w *world) {
	var d caseDesc
	if err := json.Unmarshal(c.ReplayData, &d); err != nil {
		c.Fatal("bad replay data: %v", err)
	}
	t := &taskCtx{w: w, viol: map[string]*found{}, nontriv: map[string]struct{}{}, outcomes: map[string]struct{}{}}
	sh, err := w.newSharder(d.Config, t)
	if err != nil {
		c.Fatal("configuration of the replay is rejected by the constructor: %v", err)
	}
	var list []peer.ID
	var listMask uint32
	for cl := 0; cl < numClasses; cl++ {
		if d.Counts[cl] > perClass {
			c.Fatal("replay count out of range")
		}
		for j := 0; j < d.Counts[cl]; j++ {
			k := cl*perClass + j
			list = append(list, w.ids[k])
			listMask |= 1 << uint(k)
		}
	}
	for _, n := range d.Preferred {
		for k := 0; k < numIDs; k++ {
			if w.names[k] == n {
				t.prefMask |= 1 << uint(k)
			}
		}
	}
	t.runCase(0, d.Config, sh, d.Counts, list, listMask, len(list))
	c.Eval(1)
	sigs := make([]string, 0)
	for sig := range t.viol {
		sigs = append(sigs, sig)
	}
	sort.Strings(sigs)
	for _, sig := range sigs {
		c.Violation(sig, t.viol[sig].d, d)
	}
}
