// C16 — after an epoch change each validator has exactly one place.
//
// Real sharding.NewIndexHashedNodesCoordinator + real hash validators shuffler + real protobuf
// marshalizer. Each execution builds a fresh coordinator (2 shards + metachain) and drives
// K consecutive epoch changes through EpochStartPrepare(metaBlock, body) + EpochStartAction.
// The body of every epoch is derived from the coordinator's *current* lists (that is what
// "validator information consistent with the previous epoch" means here): one
// ShardValidatorInfo record per listed validator carrying its shard, list and position, on
// which the explorer applies per-validator choices stay / leaving / jailed / inactive, plus
// the number of new validators (default 1, alternatives 0 or 2) and optionally a leaving
// record for a key that is in no list. Every alternative other than the default costs one
// deviation; all executions with at most D deviations in total are run (mc.Explore).
//
// Oracle after each epoch change (only what the statement says): over all keys of
// GetAllEligibleValidatorsPublicKeys(new) and GetAllWaitingValidatorsPublicKeys(new) no key
// occurs twice (neither in two shards, nor in both lists, nor twice in one list), and
// GetValidatorWithPublicKey(k) returns the shard in which k is listed.
package main

import (
	"encoding/json"
	"fmt"
	"os"
	"runtime"
	"runtime/debug"
	"runtime/pprof"
	"sort"
	"strings"
	"sync"

	logger "github.com/ElrondNetwork/elrond-go-logger"
	"github.com/ElrondNetwork/elrond-go/hashing/blake2b"
	shmock "github.com/ElrondNetwork/elrond-go/sharding/mock"
	"verif/engine/mc"
)

type task struct {
	name  string
	e, w  [3]int // eligible / waiting sizes of shard 0, shard 1, metachain
	fix   bool   // waiting-list fix (coordinator + shuffler) active from epoch 0
	bal   bool   // balance-waiting-lists (shuffler) active from epoch 0
	cross bool   // ShuffleBetweenShards
}

func (t task) String() string {
	return fmt.Sprintf("E%v W%v fix=%v bal=%v cross=%v", t.e, t.w, t.fix, t.bal, t.cross)
}

var shardIDs = [3]uint32{0, 1, meta}

const never = uint32(1 << 30)

func (t task) build() (coord, error) {
	w := &wiring{shardG: 1, metaG: 1, nbShards: 2, hasher: blake2b.NewBlake2b(), cache: &shmock.NodesCoordinatorCacheMock{},
		minShard: 2, minMeta: 2, cross: t.cross, fixEpoch: never, balEpoch: never,
		eligible: map[uint32][]vspec{}, waiting: map[uint32][]vspec{}}
	if t.fix {
		w.fixEpoch = 0
	}
	if t.bal {
		w.balEpoch = 0
	}
	for i, s := range shardIDs {
		var el, wl []vspec
		for k := 0; k < t.e[i]; k++ {
			el = append(el, vspec{pk: fmt.Sprintf("e%s.%d", shardName(s), k), chance: 1})
		}
		for k := 0; k < t.w[i]; k++ {
			wl = append(wl, vspec{pk: fmt.Sprintf("w%s.%d", shardName(s), k), chance: 1})
		}
		w.eligible[s], w.waiting[s] = el, wl
	}
	return w.build()
}

// plan = one set-up explored to (epochs, budget).
type plan struct {
	t       task
	epochs  int
	budget  int
	comment string
}

var layoutsEW = [][2][3]int{
	{{2, 2, 2}, {0, 0, 0}},
	{{2, 2, 2}, {1, 1, 1}},
	{{3, 3, 3}, {1, 1, 1}},
	{{3, 3, 3}, {2, 2, 2}},
	{{2, 3, 2}, {0, 2, 1}},
	{{3, 2, 3}, {2, 0, 1}},
}

type knob struct{ fix, bal, cross bool }

func mk(l int, k knob) task {
	return task{e: layoutsEW[l][0], w: layoutsEW[l][1], fix: k.fix, bal: k.bal, cross: k.cross}
}

// plans lists what a tier explores. quick: 6 layouts x {all features on, all off} at
// (3 epochs, <=2 deviations). thorough: A = 6 layouts x 6 feature settings at (4, <=2);
// B = 5 layouts (all but the largest) x 2 settings at (3, <=3); C = the smallest layout x 2
// settings at (4, <=3). (4 epochs, <=3 deviations) on every layout would be ~2*10^7
// executions of ~1 ms and does not fit the thorough budget.
func plans(quick bool) []plan {
	main2 := []knob{{true, true, true}, {false, false, true}}
	var out []plan
	if quick {
		for l := range layoutsEW {
			for _, k := range main2 {
				out = append(out, plan{mk(l, k), 3, 2, "quick"})
			}
		}
		return out
	}
	all6 := append(append([]knob{}, main2...), knob{true, false, true}, knob{false, true, true}, knob{true, true, false}, knob{false, false, false})
	for l := range layoutsEW {
		for _, k := range all6 {
			out = append(out, plan{mk(l, k), 4, 2, "A"})
		}
	}
	for _, l := range []int{0, 1, 2, 4, 5} {
		for _, k := range main2 {
			out = append(out, plan{mk(l, k), 3, 3, "B"})
		}
	}
	for _, k := range main2 {
		out = append(out, plan{mk(0, k), 4, 3, "C"})
	}
	return out
}

var statuses = [4]string{"stay", "leaving", "jailed", "inactive"}

// place is where a key is listed.
type place struct {
	shard uint32
	list  string // "E" or "W"
}

func (p place) String() string { return p.list + shardName(p.shard) }

type epochTrace struct {
	Epoch     uint32              `json:"epoch"`
	Deviating []string            `json:"non_default_choices"`
	Records   int                 `json:"records"`
	Before    map[string][]string `json:"lists_before"`
	After     map[string][]string `json:"lists_after,omitempty"`
}

func listsJSON(l *listing) map[string][]string {
	m := map[string][]string{}
	for _, s := range l.shards {
		if len(l.eligible[s]) > 0 {
			m["E"+shardName(s)] = l.eligible[s]
		}
		if len(l.waiting[s]) > 0 {
			m["W"+shardName(s)] = l.waiting[s]
		}
	}
	return m
}

type result struct {
	viols      []violation
	moves      map[string]struct{}
	outcome    string
	failedAt   uint32 // epoch whose preparation produced no configuration (0 = none)
	epochsDone int
	trace      []epochTrace
}

type violation struct {
	sig    string
	detail map[string]interface{}
}

// run performs one execution: fresh coordinator, `epochs` epoch changes driven by ch.
// wrongShard (information only): leaving records carry the id of another shard.
func run(t task, epochs int, ch *mc.Chooser, wrongShard bool) (*result, error) {
	nc, err := t.build()
	if err != nil {
		return nil, err
	}
	res := &result{moves: map[string]struct{}{}}
	cur, err := readLists(nc, 0)
	if err != nil {
		return nil, err
	}
	prevPlace := places(cur, nil)
	newSerial := 0
	for ep := uint32(1); ep <= uint32(epochs); ep++ {
		tr := epochTrace{Epoch: ep, Before: listsJSON(cur)}
		var recs []rec
		add := func(pk string, s uint32, list string, idx int) {
			st := ch.ChooseDev(4, "status")
			l := list
			sid := s
			if st != 0 {
				l = statuses[st]
				tr.Deviating = append(tr.Deviating, pk+":"+l)
				if wrongShard && st == 1 {
					sid = shardIDs[(indexOfShard(s)+1)%3]
				}
			}
			recs = append(recs, rec{PK: pk, Shard: sid, List: l, Index: uint32(idx), Rating: 50})
		}
		for _, s := range cur.shards {
			for i, k := range cur.eligible[s] {
				add(k, s, "eligible", i)
			}
			for i, k := range cur.waiting[s] {
				add(k, s, "waiting", i)
			}
		}
		nNew := [3]int{1, 0, 2}[ch.ChooseDev(3, "new")]
		if nNew != 1 {
			tr.Deviating = append(tr.Deviating, fmt.Sprintf("new-validators:%d", nNew))
		}
		for i := 0; i < nNew; i++ {
			recs = append(recs, rec{PK: fmt.Sprintf("n%d.%d", ep, newSerial), Shard: shardIDs[(int(ep)+i)%3], List: "new", Index: uint32(i), Rating: 50})
			newSerial++
		}
		if ch.ChooseDev(2, "unknown-leaving") == 1 {
			g := fmt.Sprintf("ghost%d", ep)
			recs = append(recs, rec{PK: g, Shard: shardIDs[int(ep)%3], List: "leaving", Index: 0, Rating: 50})
			tr.Deviating = append(tr.Deviating, g+":leaving(unknown key)")
		}
		tr.Records = len(recs)
		hdr, body := epochStartInputs(ep, []byte(fmt.Sprintf("rand-seed-before-epoch-%d", ep)), recs)
		var p string
		p = mc.Try(func() {
			nc.EpochStartPrepare(hdr, body)
			nc.EpochStartAction(hdr)
		})
		if p != "" {
			res.trace = append(res.trace, tr)
			res.viols = append(res.viols, violation{"panic", map[string]interface{}{"panic": p}})
			return res, nil
		}
		next, err := readLists(nc, ep)
		if err != nil {
			// the coordinator logged an error and created no configuration for the epoch: the
			// statement speaks about prepared epochs only; a real node is stuck here.
			res.failedAt = ep
			res.trace = append(res.trace, tr)
			break
		}
		tr.After = listsJSON(next)
		res.trace = append(res.trace, tr)
		dups := map[string][]string{}
		pl := places(next, dups)
		if len(dups) > 0 {
			keys := make([]string, 0, len(dups))
			for k := range dups {
				keys = append(keys, k)
			}
			sort.Strings(keys)
			k := keys[0]
			res.viols = append(res.viols, violation{"key-listed-twice:" + dupClass(dups[k]), map[string]interface{}{"key": k, "listed_in": dups[k], "epoch": ep}})
		}
		for _, s := range next.shards {
			for _, k := range append(append([]string{}, next.eligible[s]...), next.waiting[s]...) {
				if len(dups[k]) > 0 {
					continue // which of its places the lookup should report is undefined
				}
				v, sid, err := nc.GetValidatorWithPublicKey([]byte(k))
				switch {
				case err != nil:
					res.viols = append(res.viols, violation{"lookup:listed-key-not-found", map[string]interface{}{"key": k, "listed_in": pl[k].String(), "epoch": ep, "err": err.Error()}})
				case sid != s:
					res.viols = append(res.viols, violation{"lookup:reports-other-shard", map[string]interface{}{"key": k, "listed_in": pl[k].String(), "reported_shard": shardName(sid), "epoch": ep}})
				case string(v.PubKey()) != k:
					res.viols = append(res.viols, violation{"lookup:returns-other-validator", map[string]interface{}{"key": k, "returned": string(v.PubKey()), "epoch": ep}})
				}
			}
		}
		for k, np := range pl {
			if op, ok := prevPlace[k]; ok && op != np {
				res.moves[op.String()+">"+np.String()] = struct{}{}
			}
		}
		prevPlace, cur = pl, next
		res.epochsDone++
		if len(res.viols) > 0 {
			break
		}
	}
	var sb strings.Builder
	for _, s := range cur.shards {
		fmt.Fprintf(&sb, "%s:%v|%v;", shardName(s), cur.eligible[s], cur.waiting[s])
	}
	res.outcome = sb.String()
	return res, nil
}

func indexOfShard(s uint32) int {
	for i, x := range shardIDs {
		if x == s {
			return i
		}
	}
	return 0
}

func places(l *listing, dups map[string][]string) map[string]place {
	pl := map[string]place{}
	all := map[string][]string{}
	for _, s := range l.shards {
		for _, k := range l.eligible[s] {
			p := place{s, "E"}
			all[k] = append(all[k], p.String())
			pl[k] = p
		}
		for _, k := range l.waiting[s] {
			p := place{s, "W"}
			all[k] = append(all[k], p.String())
			pl[k] = p
		}
	}
	if dups != nil {
		for k, ps := range all {
			if len(ps) > 1 {
				dups[k] = ps
			}
		}
	}
	return pl
}

func dupClass(ps []string) string {
	a, b := ps[0], ps[1]
	switch {
	case a == b:
		return "twice-in-one-list"
	case a[1:] == b[1:]:
		return "eligible-and-waiting-of-one-shard"
	case a[0] == b[0]:
		return "same-list-kind-in-two-shards"
	default:
		return "eligible-and-waiting-of-two-shards"
	}
}

type replayData struct {
	PlanIdx int   `json:"plan"`
	Choices []int `json:"choices"`
}

func main() {
	mc.Main("C16", "exploration", func(c *mc.Ctx) {
		_ = logger.SetLogLevel("*:NONE")
		bm, gp := 64, 100
		if v := os.Getenv("C16_GC"); v != "" {
			fmt.Sscanf(v, "%d,%d", &bm, &gp)
		}
		ballast := make([]byte, bm<<20)
		if pf := os.Getenv("C16_PROF"); pf != "" {
			f, _ := os.Create(pf)
			pprof.StartCPUProfile(f)
			defer pprof.StopCPUProfile()
		}
		debug.SetGCPercent(gp)
		ps := plans(c.Quick())
		space := "12 set-ups (6 start layouts E2..3/W0..2 per shard x {waiting-list fix+balance on, both off}, cross-shard shuffling) x 3 consecutive epoch changes, <= 2 deviations"
		c.Bound = "3 epochs, <= 2 deviations, 12 set-ups"
		if !c.Quick() {
			space = "A: 36 set-ups (6 layouts x 6 settings of {waiting-list fix, balance, cross-shard}) x 4 epochs, <= 2 deviations; B: 10 set-ups (5 layouts x 2 settings) x 3 epochs, <= 3 deviations; " +
				"C: 2 set-ups (smallest layout) x 4 epochs, <= 3 deviations; plus an information-only run with inconsistent leaving shard ids (counted in evaluations, never judged)"
			c.Bound = "A 4 epochs/<=2 deviations/36 set-ups; B 3 epochs/<=3 deviations/10 set-ups; C 4 epochs/<=3 deviations/2 set-ups"
		}
		c.Rule = "real coordinator (2 shards + meta, consensus size 1, shuffler minimum 2 nodes per shard/meta, hysteresis 0): " + space + "; per epoch one record per listed " +
			"validator (shard, list, position from the coordinator's current lists) with choice stay|leaving|jailed|inactive, new validators 1 (default) | 0 | 2, optional leaving " +
			"record for an unknown key; every non-default choice costs 1 deviation, all executions within the deviation bound. " +
			"non-trivial = kind of move (list+shard -> list+shard) of a validator across an epoch change, per set-up"
		c.Assumptions = []string{
			"'consistent with the previous epoch' = one record per validator listed by the coordinator for the current epoch, with that shard id and position; records of new validators and of an unknown leaving key are additional",
			"an epoch whose preparation the coordinator refuses (logged error, no configuration stored, e.g. a shard left without eligible nodes) ends the execution: counted as prepare_refused, not judged",
			"map iteration orders are whatever the runtime gives (C13 explores them); randomness = one fixed PrevRandSeed per epoch, blake2b hasher",
			"validator chances/ratings are constant (plain coordinator); the group cache is the no-op mock",
		}
		if len(c.ReplayData) > 0 {
			var r replayData
			if err := json.Unmarshal(c.ReplayData, &r); err != nil || r.PlanIdx >= len(ps) {
				c.Fatal("bad replay data: %v", err)
			}
			mc.Replay(r.Choices, func(ch *mc.Chooser) {
				res, err := run(ps[r.PlanIdx].t, ps[r.PlanIdx].epochs, ch, false)
				if err != nil {
					c.Fatal("replay: %v", err)
				}
				report(c, ps[r.PlanIdx], r.PlanIdx, ch, res)
			})
			c.Eval(1)
			return
		}
		for pi, p := range ps {
			if c.Expired() {
				c.Cap("deadline before all set-ups")
				break
			}
			explore(c, p, pi)
		}
		infoWrongShard(c)
		runtime.KeepAlive(ballast)
	})
}

func report(c *mc.Ctx, p plan, pi int, ch *mc.Chooser, res *result) {
	for _, v := range res.viols {
		d := v.detail
		d["setup"] = p.t.String()
		d["epochs"] = res.trace
		nrec := 0
		for _, tr := range res.trace {
			nrec += tr.Records
		}
		c.ViolationR(v.sig, ch.Deviations()*100000+len(res.trace)*1000+nrec, d, replayData{PlanIdx: pi, Choices: ch.Choices()})
	}
}

func explore(c *mc.Ctx, p plan, pi int) {
	t, epochs, budget := p.t, p.epochs, p.budget
	var mu sync.Mutex
	moves := map[string]struct{}{}
	outcomes := map[string]struct{}{}
	var refused, judgedEpochs int64
	var sampled bool
	var sampleKey string
	var sample interface{}
	st := mc.Explore(c, budget, mc.Workers(), func(ch *mc.Chooser) {
		res, err := run(t, epochs, ch, false)
		if err != nil {
			c.Fatal("cannot build set-up %v: %v", t, err)
		}
		report(c, p, pi, ch, res)
		mu.Lock()
		for m := range res.moves {
			moves[m] = struct{}{}
		}
		outcomes[res.outcome] = struct{}{}
		if res.failedAt != 0 {
			refused++
			if refused <= 3 && os.Getenv("C16_DEBUG") == "2" {
				b, _ := json.Marshal(res.trace)
				fmt.Fprintf(os.Stderr, "c16: refused at epoch %d: %s\n", res.failedAt, b)
			}
		}
		judgedEpochs += int64(res.epochsDone)
		if pi == 4 && ch.Deviations() == 2 && res.epochsDone == epochs && len(res.moves) >= 3 {
			// the written-out case is the qualifying execution with the smallest choice list
			if k := fmt.Sprintf("%03d", ch.Choices()); !sampled || k < sampleKey {
				sampled, sampleKey = true, k
				sample = map[string]interface{}{"setup": t.String(), "epochs": res.trace}
			}
		}
		mu.Unlock()
	})
	if sampled {
		c.Sample(sample)
	}
	for m := range moves {
		c.Nontrivial(fmt.Sprintf("%v:%s", t, m))
	}
	for o := range outcomes {
		c.Outcome(fmt.Sprintf("%v:%s", t, o))
	}
	c.Count("executions", st.Executions)
	c.Count("epoch_changes_judged", judgedEpochs)
	c.Count("prepare_refused", refused)
	if os.Getenv("C16_DEBUG") != "" {
		fmt.Fprintf(os.Stderr, "c16: %s %v epochs=%d dev<=%d: %d executions, %d judged epochs, %d refused, %d move kinds, %d outcomes\n", p.comment, t, epochs, budget, st.Executions, judgedEpochs, refused, len(moves), len(outcomes))
	}
}

// infoWrongShard (information only, outside the statement's precondition): leaving records
// that carry the id of another shard than the one the validator is listed in. Counted, never
// reported as a violation.
func infoWrongShard(c *mc.Ctx) {
	if c.Quick() {
		return
	}
	var ts []task
	for l := range layoutsEW {
		ts = append(ts, mk(l, knob{true, true, true}), mk(l, knob{false, false, true}))
	}
	var mu sync.Mutex
	sigs := map[string]int64{}
	var execs int64
	for _, t := range ts {
		mc.Explore(c, 1, mc.Workers(), func(ch *mc.Chooser) {
			res, err := run(t, 2, ch, true)
			if err != nil {
				c.Fatal("cannot build set-up %v: %v", t, err)
			}
			mu.Lock()
			execs++
			for _, v := range res.viols {
				sigs[fmt.Sprintf("fix=%v:%s", t.fix, v.sig)]++
			}
			mu.Unlock()
		})
	}
	c.Set("info_inconsistent_leaving_shard_id", map[string]interface{}{
		"what":       "leaving record carries another shard id than the validator's list (not 'consistent', not judged); executions with <=1 deviation over 2 epochs",
		"executions": execs, "oracle_failures_by_class": sigs})
}
