// Harness c05 — property C05: trie synchronisation reconstructs exactly the requested trie.
//
// Seam (all real code): trie.CreateTrieSyncer (version 1 = trieSyncer, version 2 =
// doubleListTrieSyncer) and its StartSyncing *loop*, run in its own goroutine; the real
// interceptor path trie.NewInterceptedTrieNode -> CheckValidity -> TrieNodeInterceptorProcessor
// .Validate/.Save into a real storage/lrucache that is the syncer's interceptedNodes cacher;
// a stub RequestHandler that records the requested hashes; the target DB is a real memorydb
// behind a wrapper that records every Put.
//
// Time: the "time" import of data/trie/sync.go and doubleListSync.go is shimmed
// (ovl/shims.txt) to verif/engine/shim/vtime. vtime.AfterHook turns `time.After(wait)` into
// the rendezvous "one loop iteration finished". StartSyncing runs as a coroutine
// (iter.Pull): the hook yields to the harness, which delivers messages and resumes it; the
// channel the hook then returns has already fired (or never fires when the harness has
// cancelled the context at the horizon). Exactly one side runs at any time: no timers, no
// polling, no free-running goroutines, nothing left to the Go scheduler. The hook is
// global while executions run in parallel: the wait duration of each syncer is set (export
// file, VerifC05SetWait) to a value that identifies the execution slot.
// vtime.SetLogical(true) makes time.Now logical; the watchdog timeout is 1000 h, i.e. it
// never fires (ErrTimeIsOut would be "completion with error": nothing to assert).
//
// Map order: both syncers range over Go maps while inserting into them, so their behaviour
// depends on the runtime's map iteration order. The harness is built with the `maprange`
// overlay profile (ovl/profiles/c05.txt) which makes every map range of the two syncer files iterate
// in sorted key order (keys inserted during a loop are not visited - a legal Go order), or,
// with a chooser attached (stage map-order), in an order chosen by the explorer.
//
// Environment = choice tree (mc.Explore): after every loop iteration the environment picks
// what the peers deliver before the next iteration. Choice 0 = exactly the nodes requested
// in that iteration; every other choice costs one deviation (see menu()).
package main

import (
	"bytes"
	"context"
	"encoding/hex"
	"encoding/json"
	"fmt"
	"iter"
	"os"
	"runtime"
	"runtime/debug"
	"runtime/pprof"
	"sort"
	"strconv"
	"strings"
	"sync"
	"time"

	logger "github.com/ElrondNetwork/elrond-go-logger"
	"github.com/ElrondNetwork/elrond-go/core"
	"github.com/ElrondNetwork/elrond-go/data"
	"github.com/ElrondNetwork/elrond-go/data/trie"
	"github.com/ElrondNetwork/elrond-go/data/trie/statistics"
	"github.com/ElrondNetwork/elrond-go/hashing/blake2b"
	"github.com/ElrondNetwork/elrond-go/marshal"
	"github.com/ElrondNetwork/elrond-go/process/interceptors/processor"
	"github.com/ElrondNetwork/elrond-go/storage/lrucache"
	"github.com/ElrondNetwork/elrond-go/storage/memorydb"
	"verif/engine/mc"
	"verif/engine/shim/vtime"
	"verif/engine/vmap"
)

// Key alphabet of DESIGN 3.1 (see harness/trie): suffixes of the byte strings are prefixes
// of the trie paths; value "v" for every key (C04 family), so equal leaves are shared
// between paths (one hash needed at two places of the tree).
var keysQuick = []string{"", "00", "01", "0100", "1100", "aa", "01aa", "02aa"} // the 8-key sub-alphabet of harness/trie
var keysAll = []string{"", "00", "01", "10", "11", "0100", "0001", "1100", "aa", "01aa", "02aa", "01aaaa"}

var (
	marsh  = &marshal.GogoProtoMarshalizer{}
	hasher = blake2b.NewBlake2b()
)

func unhex(s string) []byte {
	b, err := hex.DecodeString(s)
	if err != nil {
		panic(err)
	}
	return b
}

func hx(b []byte) string { return hex.EncodeToString(b) }

func short(h string) string {
	s := hx([]byte(h))
	if len(s) > 8 {
		s = s[:8]
	}
	return s
}

// ---------------------------------------------------------------- source tries

type source struct {
	ID      int
	Keys    []string          // hex keys
	root    []byte            // root hash
	hashes  []string          // all node hashes (raw strings), sorted
	enc     map[string][]byte // hash -> stored bytes of the node in the source DB
	foreign map[string][]byte // hash -> node at the same position of the trie with the same keys and other values
	flood   [][]byte          // all nodes of that other trie
	garbage [][]byte          // byte strings that are not (valid) nodes
	// garbageQuiet = the garbage items on which the interceptor does not panic
	garbageQuiet [][]byte
	garbageClass map[string]int
	panics       []string
	menuMu       sync.Mutex
	menus        map[string][]action
	verdicts     map[string][]violation
}

func newTrieOver(db data.DBWriteCacher) data.Trie {
	tsm, err := trie.NewTrieStorageManagerWithoutPruning(db)
	if err != nil {
		panic(err)
	}
	tr, err := trie.NewTrie(tsm, marsh, hasher, 5)
	if err != nil {
		panic(err)
	}
	return tr
}

// buildTrie builds and commits a real trie and returns its root and all its stored nodes
// (read back through the real GetAllHashes / GetSerializedNode, which is what the real
// trieNodeResolver serves).
func buildTrie(keys []string, val string) (root []byte, enc map[string][]byte) {
	tr := newTrieOver(memorydb.New())
	for _, k := range keys {
		if err := tr.Update(unhex(k), []byte(val)); err != nil {
			panic(err)
		}
	}
	if err := tr.Commit(); err != nil {
		panic(err)
	}
	root, err := tr.RootHash()
	if err != nil {
		panic(err)
	}
	hs, err := tr.GetAllHashes()
	if err != nil {
		panic(err)
	}
	enc = map[string][]byte{}
	for _, h := range hs {
		b, err := tr.GetSerializedNode(h)
		if err != nil {
			panic(err)
		}
		enc[string(h)] = append([]byte{}, b...)
	}
	return root, enc
}

func children(enc []byte) [][]byte {
	_, ch, err := trie.VerifC05Children(enc, marsh, hasher)
	if err != nil {
		panic(err)
	}
	return ch
}

// nonCanonical returns another encoding of the same node: an unknown proto field (number
// 15, varint 1) appended before the type byte. The real decoder drops it, so the decoded
// node re-encodes to the canonical bytes and hashes to the canonical hash.
func nonCanonical(enc []byte) []byte {
	n := len(enc)
	r := append([]byte{}, enc[:n-1]...)
	r = append(r, 0x78, 0x01)
	return append(r, enc[n-1])
}

func buildSource(id int, keys []string) *source {
	s := &source{ID: id, Keys: keys, foreign: map[string][]byte{}}
	s.root, s.enc = buildTrie(keys, "v")
	for h := range s.enc {
		s.hashes = append(s.hashes, h)
	}
	sort.Strings(s.hashes)
	froot, fenc := buildTrie(keys, "w")
	var pair func(hs, hf []byte)
	pair = func(hs, hf []byte) {
		if !bytes.Equal(hs, hf) {
			s.foreign[string(hs)] = fenc[string(hf)]
		}
		cs, cf := children(s.enc[string(hs)]), children(fenc[string(hf)])
		if len(cs) != len(cf) {
			panic("c05: tries with equal key sets differ in shape")
		}
		for i := range cs {
			pair(cs[i], cf[i])
		}
	}
	pair(s.root, froot)
	fh := []string{}
	for h := range fenc {
		fh = append(fh, h)
	}
	sort.Strings(fh)
	for _, h := range fh {
		s.flood = append(s.flood, fenc[h])
	}
	rootEnc := s.enc[string(s.root)]
	n := len(rootEnc)
	tb := rootEnc[n-1]
	s.garbage = [][]byte{
		{}, {0}, {1}, {2}, {3}, {0xff},
		{0x0a, 0x00, 0x02},                                        // branch with one empty child entry
		{0x0a, 0x01, 0x10, 0x01},                                  // leaf with key [16] and no value
		{0x0a, 0x01, 0x05, 0x00},                                  // extension with a key and no child
		append(append([]byte{}, rootEnc[:n/2]...), tb),            // truncated root
		append(append([]byte{}, rootEnc[:n-1]...), (tb+1)%3),      // root with another type byte
		append(append([]byte{}, rootEnc[:n-1]...), (tb+2)%3),      // root with yet another type byte
		append(append([]byte{}, rootEnc[:n-1]...), 0x0a, 0x00, 2), // root + one more (empty) child entry, as a branch
		hasher.Compute(string(rootEnc)),                           // a bare hash
	}
	// Classify every garbage item once with the real interceptor functions. Items on which
	// NewInterceptedTrieNode/CheckValidity panic (DESIGN section 0 side observation) are not
	// delivered again inside the exploration: both functions depend on the bytes only and the
	// panic happens before Save, so such a message cannot change any state.
	s.garbageClass = map[string]int{}
	for _, g := range s.garbage {
		var cls string
		perr := mc.Try(func() {
			n, err := trie.NewInterceptedTrieNode(append([]byte{}, g...), marsh, hasher)
			if err != nil {
				cls = "rejected-by-decoder"
				return
			}
			if err = n.CheckValidity(); err != nil {
				cls = "rejected-by-CheckValidity"
				return
			}
			cls = "accepted-as-node"
		})
		if perr != "" {
			cls = "panic"
			if i := strings.Index(perr, " @ "); i > 0 {
				s.panics = append(s.panics, perr[:i]+" <"+hx(g[:min(len(g), 4)])+"..>")
			}
		} else {
			s.garbageQuiet = append(s.garbageQuiet, g)
		}
		s.garbageClass[cls]++
	}
	s.menus = map[string][]action{}
	s.verdicts = map[string][]violation{}
	return s
}

func allSources(alphabet []string, maxKeys int) [][]string {
	var out [][]string
	var rec func(start int, cur []string, want int)
	rec = func(start int, cur []string, want int) {
		if len(cur) == want {
			out = append(out, append([]string{}, cur...))
			return
		}
		for i := start; i < len(alphabet); i++ {
			rec(i+1, append(cur, alphabet[i]), want)
		}
	}
	for n := 1; n <= maxKeys; n++ {
		rec(0, nil, n)
	}
	return out
}

// ---------------------------------------------------------------- target DB

// recDB is the target DB: a real memorydb plus a record of every Put.
type recDB struct {
	inner *memorydb.DB
	mu    sync.Mutex
	puts  [][2][]byte
	rems  int
	// removed = "position in the put sequence:key" of every Remove call (none is expected)
	removed []string
}

func (d *recDB) Put(k, v []byte) error {
	d.mu.Lock()
	d.puts = append(d.puts, [2][]byte{append([]byte{}, k...), append([]byte{}, v...)})
	d.mu.Unlock()
	return d.inner.Put(k, v)
}
func (d *recDB) Get(k []byte) ([]byte, error) { return d.inner.Get(k) }
func (d *recDB) Remove(k []byte) error {
	d.mu.Lock()
	d.rems++
	d.removed = append(d.removed, fmt.Sprintf("%d:%x", len(d.puts), k))
	d.mu.Unlock()
	return d.inner.Remove(k)
}
func (d *recDB) Close() error         { return nil }
func (d *recDB) IsInterfaceNil() bool { return d == nil }

// ---------------------------------------------------------------- execution environment

type env struct {
	yield   func(struct{}) bool // coroutine switch syncer -> harness: "iteration finished, I am inside time.After"
	fire    bool                // set by the harness before it resumes the syncer: the timer fires (false: it never does)
	lastReq []string            // hashes requested during the last iteration (sorted, unique)
	numReq  int
	unknown int // requested hashes that are not nodes of the source trie
	known   map[string][]byte
}

type reqStub struct{ e *env }

func (r *reqStub) RequestTrieNodes(_ uint32, hashes [][]byte, _ string) {
	e := r.e
	e.numReq++
	seen := map[string]bool{}
	for _, h := range e.lastReq {
		seen[h] = true
	}
	for _, h := range hashes {
		if !seen[string(h)] {
			seen[string(h)] = true
			e.lastReq = append(e.lastReq, string(h))
			if _, ok := e.known[string(h)]; !ok {
				e.unknown++
			}
		}
	}
	sort.Strings(e.lastReq)
}
func (r *reqStub) RequestInterval() time.Duration { return time.Second }
func (r *reqStub) IsInterfaceNil() bool           { return r == nil }

const waitBase = 7 * time.Second
const maxSlots = 256

var (
	envs  [maxSlots]*env
	slots chan int
)

func afterHook(d time.Duration) <-chan time.Time {
	i := int(d - waitBase)
	if i < 0 || i >= maxSlots || envs[i] == nil {
		panic(fmt.Sprintf("c05: time.After(%v) from an unknown execution", d))
	}
	e := envs[i]
	e.yield(struct{}{}) // control goes to the harness (runOne) until it resumes this coroutine
	if !e.fire {
		return nil // a timer that never fires (the harness has cancelled the context)
	}
	ch := make(chan time.Time, 1)
	ch <- time.Time{}
	return ch
}

// ---------------------------------------------------------------- the fault menu

type action struct {
	kind string
	what string
	msgs [][]byte // delivered in this order, each as its own message
}

// menu builds the environment alphabet of one round. req = hashes requested in the
// iteration that just finished (sorted).
//
//	0                deliver exactly the requested nodes
//	omit             deliver a proper subset of them (every proper subset, incl. nothing)
//	foreign          answer one request with the node at the same position of another trie
//	                 with the same keys (other values), the rest normally
//	noncanon         answer one request with a non-canonical encoding of the node (sending
//	                 it in addition to the canonical bytes leaves the same cache content:
//	                 both are stored under the same key, the later one wins)
//	unrequested      deliver everything plus one node of the source trie that was not
//	                 requested in this round (early, i.e. never requested yet, or repeated,
//	                 i.e. delivered before)
//	flood            deliver everything plus all nodes of the other trie
//	garbage          deliver everything plus the byte strings that are not valid nodes
func (s *source) menu(req []string) []action {
	key := strings.Join(req, "")
	s.menuMu.Lock()
	m, ok := s.menus[key]
	s.menuMu.Unlock()
	if ok {
		return m
	}
	m = s.buildMenu(req)
	s.menuMu.Lock()
	s.menus[key] = m
	s.menuMu.Unlock()
	return m
}

func (s *source) buildMenu(req []string) []action {
	var all [][]byte
	var reqKnown []string
	inReq := map[string]bool{}
	for _, h := range req {
		if b, ok := s.enc[h]; ok {
			all = append(all, b)
			reqKnown = append(reqKnown, h)
			inReq[h] = true
		}
	}
	k := len(reqKnown)
	acts := []action{{kind: "default", msgs: all}}
	except := func(i int, repl []byte) [][]byte {
		var m [][]byte
		for j, h := range reqKnown {
			if j == i {
				if repl != nil {
					m = append(m, repl)
				}
				continue
			}
			m = append(m, s.enc[h])
		}
		return m
	}
	// proper subsets, fewest omissions first
	masks := []int{}
	for m := 1; m < 1<<uint(k); m++ {
		masks = append(masks, m)
	}
	sort.SliceStable(masks, func(a, b int) bool { return popcount(masks[a]) < popcount(masks[b]) })
	for _, m := range masks {
		var msgs [][]byte
		om := []string{}
		for j, h := range reqKnown {
			if m&(1<<uint(j)) != 0 {
				om = append(om, short(h))
				continue
			}
			msgs = append(msgs, s.enc[h])
		}
		acts = append(acts, action{kind: "omit", what: strings.Join(om, "+"), msgs: msgs})
	}
	for i, h := range reqKnown {
		if f, ok := s.foreign[h]; ok {
			acts = append(acts, action{kind: "foreign", what: short(h), msgs: except(i, f)})
		}
	}
	for i, h := range reqKnown {
		acts = append(acts, action{kind: "noncanon", what: short(h), msgs: except(i, nonCanonical(s.enc[h]))})
	}
	for _, h := range s.hashes {
		if !inReq[h] {
			acts = append(acts, action{kind: "unrequested", what: short(h), msgs: append(append([][]byte{}, all...), s.enc[h])})
		}
	}
	acts = append(acts, action{kind: "flood", msgs: append(append([][]byte{}, all...), s.flood...)})
	acts = append(acts, action{kind: "garbage", msgs: append(append([][]byte{}, all...), s.garbageQuiet...)})
	return acts
}

func popcount(x int) int {
	n := 0
	for ; x != 0; x &= x - 1 {
		n++
	}
	return n
}

// ---------------------------------------------------------------- one execution

type config struct {
	Syncer   int  `json:"syncer"`    // 1 = trieSyncer, 2 = doubleListTrieSyncer
	CacheCap int  `json:"cache_cap"` // capacity of the intercepted-nodes LRU cache
	HardCap  int  `json:"hard_cap"`  // MaxHardCapForMissingNodes
	MapOrder bool `json:"map_order"` // map iteration orders of the syncer are explored too
}

type result struct {
	outcome  string // synced | horizon | error:... | panic:...
	rounds   int
	kinds    []string // deviation kinds taken
	steps    []step
	accepted int
	rejected int
	panics   []string
	viol     []violation
	unknown  int
}

type violation struct {
	sig    string
	detail map[string]interface{}
}

var peer = core.PeerID("peer")

// deliver pushes one message through the real interceptor path, exactly as
// MultiDataInterceptor does for a one-element batch: factory.Create = NewInterceptedTrieNode,
// CheckValidity, processor.Validate, processor.Save.
func deliver(proc *processor.TrieNodeInterceptorProcessor, buf []byte, r *result) {
	perr := mc.Try(func() {
		n, err := trie.NewInterceptedTrieNode(append([]byte{}, buf...), marsh, hasher)
		if err != nil {
			r.rejected++
			return
		}
		if err = n.CheckValidity(); err != nil {
			r.rejected++
			return
		}
		if err = proc.Validate(n, peer); err != nil {
			r.rejected++
			return
		}
		if err = proc.Save(n, peer, "topic"); err != nil {
			r.rejected++
			return
		}
		r.accepted++
	})
	if perr != "" {
		r.panics = append(r.panics, perr)
	}
}

func runOne(s *source, cfg config, ch *mc.Chooser) *result {
	slot := <-slots
	defer func() { envs[slot] = nil; slots <- slot }()

	r := &result{}
	db := &recDB{inner: memorydb.New()}
	cache, err := lrucache.NewCache(cfg.CacheCap)
	if err != nil {
		panic(err)
	}
	proc, err := processor.NewTrieNodesInterceptorProcessor(cache)
	if err != nil {
		panic(err)
	}
	e := &env{known: s.enc}
	envs[slot] = e
	syncer, err := trie.CreateTrieSyncer(trie.ArgTrieSyncer{
		Marshalizer:                    marsh,
		Hasher:                         hasher,
		DB:                             db,
		RequestHandler:                 &reqStub{e: e},
		InterceptedNodes:               cache,
		ShardId:                        0,
		Topic:                          "topic",
		TrieSyncStatistics:             statistics.NewTrieSyncStatistics(),
		TimeoutBetweenTrieNodesCommits: 1000 * time.Hour,
		MaxHardCapForMissingNodes:      cfg.HardCap,
	}, cfg.Syncer)
	if err != nil {
		panic(err)
	}
	if !trie.VerifC05SetWait(syncer, waitBase+time.Duration(slot)) {
		panic("c05: unknown syncer type")
	}
	ctx, cancel := context.WithCancel(context.Background())
	defer cancel()
	// The syncer runs as a coroutine (iter.Pull): StartSyncing executes in its own goroutine,
	// but control is handed over explicitly - next() resumes it, the time.After hook yields
	// back - so exactly one side runs at any time and the Go scheduler decides nothing.
	var outcome string
	next, stop := iter.Pull(func(yield func(struct{}) bool) {
		e.yield = yield
		if cfg.MapOrder {
			vmap.Attach(ch)
			defer vmap.Detach()
		}
		var serr error
		perr := mc.Try(func() { serr = syncer.StartSyncing(s.root, ctx) })
		switch {
		case perr != "":
			outcome = "panic:" + perr
		case serr != nil:
			outcome = "error:" + serr.Error()
		default:
			outcome = "synced"
		}
	})
	defer stop()

	horizon := 4 * len(s.hashes)
	for {
		if _, alive := next(); !alive {
			r.outcome = outcome
			break
		}
		if r.rounds >= horizon {
			// horizon reached: the timer never fires, the context is cancelled
			e.fire = false
			cancel()
			if _, alive := next(); alive {
				panic("c05: syncer still looping after its context was cancelled")
			}
			r.outcome = outcome
			if outcome == "error:"+trie.ErrContextClosing.Error() {
				r.outcome = "horizon"
			}
			break
		}
		acts := s.menu(e.lastReq)
		a := ch.ChooseDev(len(acts), "round")
		act := &acts[a]
		if a != 0 {
			r.kinds = append(r.kinds, act.kind)
		}
		r.steps = append(r.steps, step{req: e.lastReq, act: act})
		e.lastReq = nil
		for _, m := range act.msgs {
			deliver(proc, m, r)
		}
		r.rounds++
		e.fire = true
	}
	r.unknown = e.unknown
	if r.outcome == "synced" {
		r.viol = s.judge(db)
	}
	return r
}

// judge evaluates the oracle, memoised per source on the exact sequence of Put/Remove calls
// the target DB has seen: the DB starts empty, so its content - all the oracle looks at - is
// a function of that sequence (most schedules end with the same few sequences).
func (s *source) judge(db *recDB) []violation {
	var sb strings.Builder
	fmt.Fprintf(&sb, "%v|", db.removed)
	for _, kv := range db.puts {
		sb.Write(kv[0])
		sb.WriteByte(byte(len(kv[1])))
		sb.Write(kv[1])
	}
	key := sb.String()
	s.menuMu.Lock()
	v, ok := s.verdicts[key]
	s.menuMu.Unlock()
	if ok {
		return cloneViolations(v)
	}
	v = oracle(s, db)
	s.menuMu.Lock()
	s.verdicts[key] = v
	s.menuMu.Unlock()
	return cloneViolations(v)
}

func cloneViolations(v []violation) []violation {
	if len(v) == 0 {
		return nil
	}
	out := make([]violation, len(v))
	for i, x := range v {
		d := make(map[string]interface{}, len(x.detail)+4)
		for k, y := range x.detail {
			d[k] = y
		}
		out[i] = violation{x.sig, d}
	}
	return out
}

type step struct {
	req []string
	act *action
}

// trace renders the schedule of an execution (only needed for samples and witnesses).
func (r *result) trace() []string {
	var out []string
	for i, st := range r.steps {
		t := fmt.Sprintf("r%d req=%s -> %s", i, shortList(st.req), st.act.kind)
		if st.act.what != "" {
			t += "(" + st.act.what + ")"
		}
		out = append(out, t)
	}
	return out
}

func shortList(hs []string) string {
	p := make([]string, len(hs))
	for i, h := range hs {
		p[i] = short(h)
	}
	return "[" + strings.Join(p, " ") + "]"
}

// oracle is evaluated only when StartSyncing returned nil.
func oracle(s *source, db *recDB) []violation {
	var vs []violation
	add := func(sig string, d map[string]interface{}) { vs = append(vs, violation{sig, d}) }
	// (1) every node reachable from the root is in the target DB under the hash of its
	// stored bytes (independent walk over the DB with the real node decoder).
	visited := map[string]bool{}
	var walk func(h []byte, depth int) bool
	walk = func(h []byte, depth int) bool {
		if visited[string(h)] {
			return true
		}
		visited[string(h)] = true
		val, err := db.Get(h)
		if err != nil || len(val) == 0 {
			add("synced-but-reachable-node-missing-in-db", map[string]interface{}{"missing_hash": hx(h), "depth": depth, "is_source_node": s.enc[string(h)] != nil})
			return false
		}
		if !bytes.Equal(hasher.Compute(string(val)), h) {
			add("synced-but-node-stored-under-foreign-hash", map[string]interface{}{"key": hx(h), "value": hx(val), "hash_of_value": hx(hasher.Compute(string(val)))})
			return false
		}
		_, ch, err := trie.VerifC05Children(val, marsh, hasher)
		if err != nil {
			add("synced-but-stored-node-undecodable", map[string]interface{}{"key": hx(h), "value": hx(val), "err": err.Error()})
			return false
		}
		ok := true
		for _, c := range ch {
			if !walk(c, depth+1) {
				ok = false
			}
		}
		return ok
	}
	complete := walk(s.root, 0)
	if complete {
		for _, h := range s.hashes {
			if !visited[h] {
				add("synced-but-source-node-not-reachable-in-target", map[string]interface{}{"hash": hx([]byte(h))})
			}
		}
		for h := range visited {
			if _, ok := s.enc[h]; !ok {
				add("synced-but-target-reaches-node-not-in-source", map[string]interface{}{"hash": hx([]byte(h))})
			}
		}
	}
	// (2) Recreate(root) over the target DB has the root hash and the source contents.
	perr := mc.Try(func() {
		tr, err := newTrieOver(db).Recreate(s.root)
		if err != nil {
			add("synced-but-recreate-fails", map[string]interface{}{"err": err.Error()})
			return
		}
		rh, err := tr.RootHash()
		if err != nil || !bytes.Equal(rh, s.root) {
			add("synced-but-recreated-root-differs", map[string]interface{}{"root": hx(rh), "want": hx(s.root), "err": fmt.Sprint(err)})
		}
		in := map[string]bool{}
		for _, k := range s.Keys {
			in[k] = true
		}
		for _, k := range keysAll {
			v, err := tr.Get(unhex(k))
			want := ""
			if in[k] {
				want = "v"
			}
			if err != nil || string(v) != want {
				add("synced-but-recreated-contents-differ", map[string]interface{}{"key": k, "got": string(v), "want": want, "err": fmt.Sprint(err)})
				break
			}
		}
	})
	if perr != "" {
		add("synced-but-recreate-panics", map[string]interface{}{"panic": perr})
	}
	// (3) no DB entry's key differs from the hash of its value.
	for _, kv := range db.puts {
		if !bytes.Equal(hasher.Compute(string(kv[1])), kv[0]) {
			add("db-entry-key-is-not-hash-of-value", map[string]interface{}{"key": hx(kv[0]), "value": hx(kv[1]), "hash_of_value": hx(hasher.Compute(string(kv[1])))})
			break
		}
	}
	return vs
}

// ---------------------------------------------------------------- driver

type replay struct {
	Keys    []string `json:"keys"`
	Cfg     config   `json:"cfg"`
	Choices []int    `json:"choices"`
}

// stats accumulates the figures of one task (one Explore call, single-threaded) and is
// flushed into the run context once, to keep the global mutex out of the hot path.
type stats struct {
	counts   map[string]int64
	outcomes map[string]struct{}
	nontriv  map[string]struct{}
}

func newStats() *stats {
	return &stats{counts: map[string]int64{}, outcomes: map[string]struct{}{}, nontriv: map[string]struct{}{}}
}

func (st *stats) flush(c *mc.Ctx) {
	for k, v := range st.counts {
		c.Count(k, v)
	}
	for k := range st.outcomes {
		c.Outcome(k)
	}
	for k := range st.nontriv {
		c.Nontrivial(k)
	}
}

func report(c *mc.Ctx, st *stats, s *source, cfg config, ch *mc.Chooser, r *result) {
	dev := ch.Deviations()
	st.counts["outcome_"+strings.SplitN(r.outcome, ":", 2)[0]]++
	st.counts["messages_accepted_by_interceptor"] += int64(r.accepted)
	st.counts["messages_rejected_by_interceptor"] += int64(r.rejected)
	if len(r.panics) > 0 {
		st.counts["messages_panicking_in_interceptor"] += int64(len(r.panics))
	}
	if r.unknown > 0 {
		st.counts["requests_for_hashes_outside_source_trie"] += int64(r.unknown)
	}
	kinds := append([]string{}, r.kinds...)
	sort.Strings(kinds)
	st.outcomes[fmt.Sprintf("%d|%s|%d|%v", cfg.Syncer, r.outcome, r.rounds, kinds)] = struct{}{}
	if dev > 0 && r.outcome == "synced" {
		st.nontriv[fmt.Sprintf("%d|%v|%v", s.ID, cfg, kinds)] = struct{}{}
		for _, k := range r.kinds {
			st.counts["synced_with_deviation_"+k]++
		}
	}
	if strings.HasPrefix(r.outcome, "panic:") {
		st.counts["syncer_panics"]++
		if c.WantSample() {
			c.Sample(map[string]interface{}{"keys": s.Keys, "cfg": cfg, "trace": r.trace(), "outcome": r.outcome})
		}
	}
	if dev > 1 && len(s.Keys) >= 3 && r.outcome == "synced" && c.WantSample() {
		c.Sample(map[string]interface{}{"keys": s.Keys, "cfg": cfg, "trace": r.trace(), "outcome": r.outcome})
	}
	for _, v := range r.viol {
		d := v.detail
		d["trie_keys"] = s.Keys
		d["cfg"] = cfg
		d["schedule"] = r.trace()
		d["deviations"] = dev
		c.ViolationR(fmt.Sprintf("syncer%d:%s", cfg.Syncer, v.sig), dev*100000+len(s.Keys)*10000+len(s.hashes)*100+len(r.steps), d,
			replay{Keys: s.Keys, Cfg: cfg, Choices: ch.Choices()})
	}
}

func main() {
	if err := logger.SetLogLevel("*:NONE"); err != nil {
		panic(err)
	}
	debug.SetGCPercent(gcPercent())
	mc.Main("C05", "fault_enumeration", func(c *mc.Ctx) {
		if f := os.Getenv("VERIF_PPROF"); f != "" { // development aid only
			if w, err := os.Create(f); err == nil {
				_ = pprof.StartCPUProfile(w)
				defer pprof.StopCPUProfile()
			}
		}
		vtime.SetLogical(true)
		vtime.AfterHook = afterHook
		if mc.Workers() < runtime.NumCPU() {
			runtime.GOMAXPROCS(mc.Workers() + 1)
		}
		slots = make(chan int, maxSlots)
		for i := 0; i < maxSlots; i++ {
			slots <- i
		}

		if c.ReplayData != nil {
			var rp replay
			if err := json.Unmarshal(c.ReplayData, &rp); err != nil {
				c.Fatal("bad replay data: %v", err)
			}
			vmap.MaxPermute = 4
			s := buildSource(0, rp.Keys)
			var r *result
			ch := mc.Replay(rp.Choices, func(ch *mc.Chooser) { r = runOne(s, rp.Cfg, ch) })
			st := newStats()
			report(c, st, s, rp.Cfg, ch, r)
			st.flush(c)
			fmt.Printf("replay: outcome=%s rounds=%d schedule=%v violations=%d\n", r.outcome, r.rounds, r.trace(), len(r.viol))
			return
		}

		// ---- the enumerated space per tier
		type stage struct {
			name  string
			set   string // which source tries: "<=3", "4q" (4 keys, all from keysQuick), "4r" (the other 4-key tries), "all"
			bound int
			cfgs  []config
		}
		base := func(sy int) config { return config{Syncer: sy, CacheCap: 64, HardCap: 100} }
		smallCache := func(sy int) config { return config{Syncer: sy, CacheCap: 2, HardCap: 100} }
		smallCap := func(sy int) config { return config{Syncer: sy, CacheCap: 64, HardCap: 1} }
		order := func(sy int) config { return config{Syncer: sy, CacheCap: 64, HardCap: 100, MapOrder: true} }
		both := func(f func(int) config) []config { return []config{f(1), f(2)} }
		// Map orders are only explored in stages whose config has MapOrder (a chooser is
		// attached to the syncer coroutine); everywhere else the order is the sorted one.
		vmap.MaxPermute = 4
		var stages []stage
		if c.Quick() {
			stages = []stage{
				{"base", "<=3", 2, both(base)},
				{"base", "4q", 2, both(base)},
				{"base", "4r", 1, both(base)},
				{"small-cache", "all", 1, both(smallCache)},
				{"hard-cap-1", "all", 1, both(smallCap)},
				{"map-order", "all", 1, both(order)},
			}
		} else {
			stages = []stage{
				{"base", "<=3", 3, both(base)},
				{"base", "4q", 3, both(base)},
				{"base", "4r", 2, both(base)},
				{"small-cache", "all", 2, both(smallCache)},
				{"hard-cap-1", "all", 2, both(smallCap)},
				{"map-order", "<=3", 2, both(order)},
				{"map-order", "4q", 2, both(order)},
				{"map-order", "4r", 1, both(order)},
			}
		}
		inQuick := map[string]bool{}
		for _, k := range keysQuick {
			inQuick[k] = true
		}
		inSet := func(s *source, set string) bool {
			q := true
			for _, k := range s.Keys {
				q = q && inQuick[k]
			}
			switch set {
			case "<=3":
				return len(s.Keys) <= 3
			case "4q":
				return len(s.Keys) == 4 && q
			case "4r":
				return len(s.Keys) == 4 && !q
			}
			return true
		}
		if v := c.Seed; v < 0 { // development aid: VERIF_SEED=-n restricts to stage n-1
			stages = stages[-v-1 : -v]
		}

		// sources
		keysets := allSources(keysAll, 4)
		if v, err := strconv.Atoi(os.Getenv("C05_MAXSRC")); err == nil && v > 0 && v < len(keysets) { // development aid only
			keysets = keysets[len(keysets)-v:]
		}
		srcs := make([]*source, len(keysets))
		mc.Par(len(keysets), func(i int) { srcs[i] = buildSource(i, keysets[i]) })
		var nodesTotal, shared, ncSame, ncOther, nMax int
		garb := map[string]int{}
		panicsSeen := map[string]bool{}
		for _, s := range srcs {
			nodesTotal += len(s.hashes)
			if len(s.hashes) > nMax {
				nMax = len(s.hashes)
			}
			// a node referenced from two places?
			refs := map[string]int{}
			for _, h := range s.hashes {
				for _, ch := range children(s.enc[h]) {
					refs[string(ch)]++
				}
			}
			for _, n := range refs {
				if n > 1 {
					shared++
					break
				}
			}
			for _, h := range s.hashes {
				n, err := trie.NewInterceptedTrieNode(nonCanonical(s.enc[h]), marsh, hasher)
				if err == nil && bytes.Equal(n.Hash(), []byte(h)) && !bytes.Equal(hasher.Compute(string(nonCanonical(s.enc[h]))), []byte(h)) {
					ncSame++
				} else {
					ncOther++
				}
			}
			for k, v := range s.garbageClass {
				garb[k] += v
			}
			for _, p := range s.panics {
				panicsSeen[p] = true
			}
		}
		ps := []string{}
		for p := range panicsSeen {
			ps = append(ps, p)
		}
		sort.Strings(ps)
		if len(ps) > 12 {
			ps = ps[:12]
		}
		c.Set("source_tries", len(srcs))
		c.Set("source_tries_with_a_shared_node", shared)
		c.Set("source_nodes_total", nodesTotal)
		c.Set("source_nodes_max", nMax)
		c.Set("noncanonical_encodings_decoding_to_the_requested_hash", ncSame)
		c.Set("noncanonical_encodings_other", ncOther)
		c.Set("garbage_classification", garb)
		c.Set("side_observation_interceptor_panics", ps)

		desc := []string{}
		for _, st := range stages {
			type task struct {
				s   *source
				cfg config
			}
			var tasks []task
			for _, s := range srcs {
				if !inSet(s, st.set) {
					continue
				}
				for _, cfg := range st.cfgs {
					tasks = append(tasks, task{s, cfg})
				}
			}
			t0 := time.Now()
			before := c.Counter("executions")
			mc.Par(len(tasks), func(i int) {
				if c.Expired() {
					c.Cap("deadline before stage " + st.name + "[" + st.set + "] finished")
					return
				}
				t := tasks[i]
				acc := newStats()
				stt := mc.Explore(c, st.bound, 1, func(ch *mc.Chooser) {
					r := runOne(t.s, t.cfg, ch)
					report(c, acc, t.s, t.cfg, ch, r)
				})
				acc.counts["executions"] += stt.Executions
				acc.counts[fmt.Sprintf("executions_%s_%dkeys_bound%d", st.name, len(t.s.Keys), st.bound)] += stt.Executions
				acc.flush(c)
			})
			desc = append(desc, fmt.Sprintf("%s[tries %s: %d tries x 2 syncers] bound %d: %d executions, %.0fs",
				st.name, st.set, len(tasks)/2, st.bound, c.Counter("executions")-before, time.Since(t0).Seconds()))
		}
		c.Set("stages", desc)
		if cfgOrder := vmap.Sites; len(cfgOrder) > 0 {
			st := map[string]int64{}
			for k, v := range vmap.Sites {
				st[k] = v
			}
			dv := map[string]int64{}
			for k, v := range vmap.Deviated {
				dv[k] = v
			}
			c.Set("map_range_sites_hit", st)
			c.Set("map_range_sites_deviated", dv)
		}

		c.Rule = "source tries = all 793 non-empty subsets of <=4 keys of the 12-key alphabet (value \"v\" each; sets: <=3 = 298 tries of <=3 keys, 4q = 70 tries of 4 keys from the 8-key sub-alphabet, 4r = the other 425 tries of 4 keys); per (trie, syncer version 1|2, config) every delivery schedule within the deviation bound of the stage (see bound_completed): after each iteration of the real StartSyncing loop the environment delivers, through the real interceptor path, either exactly the requested nodes (default) or one deviation: any proper subset (incl. nothing); one request answered by the node at the same position of a trie with the same keys and other values; one request answered by a non-canonical encoding (unknown proto field); one unrequested node of the source trie (early or repeated); all nodes of the other trie; the batch of byte strings that are not valid nodes (those the interceptor does not panic on; the panicking ones are classified once per trie at start-up); stage map-order: additionally any order of a map range (<=4 keys) inside the syncer as one deviation. Configs: base = LRU cache 64 / hard cap 100, small-cache = LRU cache 2, hard-cap-1 = MaxHardCapForMissingNodes 1. Oracle only when StartSyncing returns nil. Non-trivial = execution with >=1 deviation that completed with nil, keyed by (trie, config, multiset of deviation kinds)."
		c.Bound = strings.Join(desc, " | ")
		c.Assumptions = []string{
			"one delivered byte string = one message (a one-element batch); a real multi-element batch is all-or-nothing, which is a delivery of the whole batch or of nothing",
			"map ranges inside sync.go/doubleListSync.go iterate in sorted key order and keys inserted during a loop are not visited in that loop (maprange overlay; a legal Go order, the real runtime may also visit inserted keys); stage map-order explores every order of the keys present at loop start (maps with <=4 keys) as deviations",
			"watchdog (TimeoutBetweenTrieNodesCommits) never fires: 1000 h on a logical clock; horizon 4 x nodes iterations, nothing asserted when reached",
			"the intercepted-nodes cacher is storage/lrucache (capacity 64, or 2 in stage small-cache), not the production storageCacherAdapter",
			"panics of NewInterceptedTrieNode/CheckValidity on malformed bytes are recovered and only counted (DESIGN section 0 side observation, outside the statement)",
			"target DB starts empty",
		}
	})
}

func gcPercent() int {
	if v, err := strconv.Atoi(os.Getenv("C05_GC")); err == nil { // development aid only
		return v
	}
	return 400
}
