package main

import (
	"encoding/hex"
	"fmt"

	"github.com/ElrondNetwork/elrond-go/data/trie"
	"github.com/ElrondNetwork/elrond-go/hashing/blake2b"
	"github.com/ElrondNetwork/elrond-go/marshal"
	"github.com/ElrondNetwork/elrond-go/storage/memorydb"
)

func main() {
	marsh := &marshal.GogoProtoMarshalizer{}
	hasher := blake2b.NewBlake2b()
	tsm, _ := trie.NewTrieStorageManagerWithoutPruning(memorydb.New())
	tr, _ := trie.NewTrie(tsm, marsh, hasher, 5)
	tr.Update([]byte{}, []byte("v"))
	tr.Update([]byte{1}, []byte("v"))
	fmt.Println(tr.Commit())
	r, _ := tr.RootHash()
	fmt.Println("root", hex.EncodeToString(r))
	hs, err := tr.GetAllHashes()
	fmt.Println(err)
	for _, h := range hs {
		b, err := tr.GetSerializedNode(h)
		k, ch, e2 := trie.VerifC05Children(b, marsh, hasher)
		fmt.Println(hex.EncodeToString(h)[:8], hex.EncodeToString(b), err, k, len(ch), e2)
		for _, c := range ch {
			fmt.Println("   child", hex.EncodeToString(c))
		}
	}
}
