// C34 — metachain epochs respect the minimum and maximum length.
//
// Statement: for any sequence of rounds and forced epoch-start requests, the metachain epoch
// increases by exactly one at each epoch start, a new epoch never starts fewer than the
// configured minimum number of rounds after the previous one, and without forcing it starts
// at the first round after the configured rounds per epoch.
//
// Seam: the real epochStart/metachain.NewEpochStartTrigger (write-only stub storers, stub notifier,
// stub status handler, mock marshalizer/hasher) driven through Update, ForceEpochStart,
// SetProcessed; observed through Epoch, IsEpochStart, EpochStartRound. An export file
// (ovl/export/epochStart/metachain/c34.go) reads nextEpochStartRound & co for the state key.
//
// Explicit-state BFS (mc.BFS) with state matching to fixpoint under a round horizon, one
// search per (roundsPerEpoch, minRoundsBetweenEpochs) setting.
//
// Readings fixed here (also in c.Assumptions):
//   - "an epoch starts" = a false->true flip of IsEpochStart during Update(round, nonce); the
//     new epoch's start round is that round.
//   - "the previous one" = EpochStartRound() as reported by the trigger just before the flip,
//     i.e. the round of the previous epoch's start-of-epoch block once SetProcessed ran (the
//     real metachain processor calls SetProcessed with the committed start-of-epoch block,
//     whose round is the round of the flip or a later one when proposals failed meanwhile).
//   - "without forcing" = no ForceEpochStart call since the previous flip.
//   - Update calls with nonce < minimumNonceToStartEpoch (4) never start an epoch (genesis edge
//     case in the code); the "starts at the first round after roundsPerEpoch" clause is judged
//     only on Update calls with nonce >= 4.
package main

import (
	"encoding/json"
	"fmt"
	"math"
	"strconv"
	"strings"

	logger "github.com/ElrondNetwork/elrond-go-logger"
	"github.com/ElrondNetwork/elrond-go/config"
	"github.com/ElrondNetwork/elrond-go/data"
	"github.com/ElrondNetwork/elrond-go/data/block"
	"github.com/ElrondNetwork/elrond-go/dataRetriever"
	"github.com/ElrondNetwork/elrond-go/epochStart/metachain"
	"github.com/ElrondNetwork/elrond-go/epochStart/mock"
	"github.com/ElrondNetwork/elrond-go/storage"
	"github.com/ElrondNetwork/elrond-go/testscommon"
	"verif/engine/mc"
)

const (
	sigEpochNotPlusOne  = "C34:epoch-not-increased-by-exactly-one-at-epoch-start"
	sigEpochChanged     = "C34:epoch-changed-without-epoch-start"
	sigBeforeMinPast    = "C34:epoch-starts-before-minRoundsBetweenEpochs:forced-round-earlier-than-current-epoch-start"
	sigBeforeMinPending = "C34:epoch-starts-before-minRoundsBetweenEpochs:forced-while-epoch-start-block-pending"
	sigBeforeMinOther   = "C34:epoch-starts-before-minRoundsBetweenEpochs"
	sigUnforcedEarly    = "C34:unforced-epoch-start-before-roundsPerEpoch-elapsed"
	sigUnforcedMissed   = "C34:unforced-epoch-start-missed-at-first-round-after-roundsPerEpoch"
	sigFlagCleared      = "C34:IsEpochStart-cleared-by-Update-or-ForceEpochStart"
	sigCtor             = "C34:constructor-rejects-valid-settings"
)

// trig is the part of the (unexported) *metachain.trigger the harness drives and observes.
type trig interface {
	Update(round uint64, nonce uint64)
	ForceEpochStart(round uint64)
	SetProcessed(header data.HeaderHandler, body data.BodyHandler)
	Epoch() uint32
	IsEpochStart() bool
	EpochStartRound() uint64
	VerifC34State() metachain.VerifC34State
}

// kinds of the last ForceEpochStart request since the previous flip
const (
	fNone    = iota
	fNormal  // requested round >= EpochStartRound() and no epoch start pending
	fPending // requested while IsEpochStart() (start-of-epoch block not yet committed)
	fPast    // requested round < EpochStartRound() at request time
)

var fNames = []string{"none", "normal", "pending", "past"}

type opKind int

const (
	kUpdate opKind = iota
	kForce
	kProcessed
)

type op struct {
	kind  opKind
	delta uint64 // kUpdate
	nonce uint64 // kUpdate
	round uint64 // kForce
}

type system struct {
	idx     int
	rpe     int64
	min     int64
	horizon uint64
	menu    []string
	ops     []op
}

func (y *system) describe() string {
	return fmt.Sprintf("roundsPerEpoch=%d minRoundsBetweenEpochs=%d", y.rpe, y.min)
}

type state struct {
	y      *system
	t      trig
	round  uint64 // round of the last Update (0 initially)
	forced int    // kind of the last ForceEpochStart since the previous flip
	// description of the last step (non-triviality / outcome)
	lastFlip   bool
	lastForced int
	lastGap    int64
	lastKind   opKind
}

func newSystem(idx int, rpe, min int64, horizon uint64) *system {
	y := &system{idx: idx, rpe: rpe, min: min, horizon: horizon}
	for _, d := range []uint64{1, 2, 3, 0} {
		for _, n := range []uint64{1, 100} {
			y.ops = append(y.ops, op{kind: kUpdate, delta: d, nonce: n})
			y.menu = append(y.menu, fmt.Sprintf("Update(round+%d,nonce=%d)", d, n))
		}
	}
	for r := uint64(0); r <= horizon; r++ {
		y.ops = append(y.ops, op{kind: kForce, round: r})
		y.menu = append(y.menu, fmt.Sprintf("ForceEpochStart(%d)", r))
	}
	for _, r := range []uint64{1 << 63, math.MaxUint64 - 1, math.MaxUint64} {
		y.ops = append(y.ops, op{kind: kForce, round: r})
		y.menu = append(y.menu, fmt.Sprintf("ForceEpochStart(%d)", r))
	}
	y.ops = append(y.ops, op{kind: kProcessed})
	y.menu = append(y.menu, "SetProcessed(start-of-epoch block at current round)")
	return y
}

func (y *system) init() *state {
	args := &metachain.ArgsNewMetaEpochStartTrigger{
		Settings: &config.EpochStartConfig{
			MinRoundsBetweenEpochs: y.min,
			RoundsPerEpoch:         y.rpe,
		},
		Epoch:              0,
		EpochStartRound:    0,
		EpochStartNotifier: &mock.EpochStartNotifierStub{},
		Marshalizer:        &mock.MarshalizerMock{},
		Hasher:             &mock.HasherMock{},
		AppStatusHandler:   &mock.AppStatusHandlerStub{},
		Storage: &mock.ChainStorerStub{
			// write-only for the driven operations (saveState, epoch-start block copies):
			// a storer that accepts and forgets every Put
			GetStorerCalled: func(unitType dataRetriever.UnitType) storage.Storer {
				return &testscommon.StorerStub{}
			},
		},
	}
	t, err := metachain.NewEpochStartTrigger(args)
	if err != nil {
		panic("constructor: " + err.Error())
	}
	return &state{y: y, t: t}
}

func (s *state) enabled(o int) bool {
	p := s.y.ops[o]
	switch p.kind {
	case kUpdate:
		return s.round+p.delta <= s.y.horizon
	case kProcessed:
		return s.t.IsEpochStart()
	}
	return true
}

func (s *state) do(o int) (sig, detail string) {
	y := s.y
	p := y.ops[o]
	e0, f0, start0 := s.t.Epoch(), s.t.IsEpochStart(), s.t.EpochStartRound()
	bad := func(sg, f string, a ...interface{}) (string, string) {
		return sg, y.describe() + ": " + y.menu[o] + ": " + fmt.Sprintf(f, a...)
	}
	s.lastFlip, s.lastKind, s.lastGap, s.lastForced = false, p.kind, 0, s.forced
	switch p.kind {
	case kUpdate:
		r := s.round + p.delta
		s.t.Update(r, p.nonce)
		s.round = r
		e1, f1 := s.t.Epoch(), s.t.IsEpochStart()
		if f0 && !f1 {
			return bad(sigFlagCleared, "IsEpochStart() went from true to false")
		}
		flip := !f0 && f1
		elapsed := int64(r) - int64(start0) // rounds are <= horizon: no overflow
		if flip {
			forced := s.forced
			s.forced = fNone
			s.lastFlip, s.lastGap = true, elapsed
			if e1 != e0+1 {
				return bad(sigEpochNotPlusOne, "epoch start at round %d: Epoch() went from %d to %d", r, e0, e1)
			}
			if elapsed < y.min {
				sg := sigBeforeMinOther
				switch forced {
				case fPast:
					sg = sigBeforeMinPast
				case fPending:
					sg = sigBeforeMinPending
				}
				return bad(sg, "epoch %d starts at round %d, only %d round(s) after the start round %d of epoch %d (EpochStartRound() before the call); minimum is %d; last force request kind: %s",
					e1, r, elapsed, start0, e0, y.min, fNames[forced])
			}
			if forced == fNone && elapsed <= y.rpe {
				return bad(sigUnforcedEarly, "no ForceEpochStart since the previous start, yet epoch %d starts at round %d = start round %d + %d <= roundsPerEpoch %d",
					e1, r, start0, elapsed, y.rpe)
			}
			return "", ""
		}
		if e1 != e0 {
			return bad(sigEpochChanged, "Epoch() went from %d to %d while IsEpochStart() stayed %v", e0, e1, f1)
		}
		if !f0 && s.forced == fNone && p.nonce >= metachain.VerifC34MinimumNonceToStartEpoch && elapsed > y.rpe {
			return bad(sigUnforcedMissed, "no ForceEpochStart since the previous start, round %d > start round %d + roundsPerEpoch %d, nonce %d, but no epoch start",
				r, start0, y.rpe, p.nonce)
		}
	case kForce:
		s.t.ForceEpochStart(p.round)
		switch {
		case p.round < start0:
			s.forced = fPast
		case f0:
			s.forced = fPending
		default:
			s.forced = fNormal
		}
		e1, f1 := s.t.Epoch(), s.t.IsEpochStart()
		if e1 != e0 {
			return bad(sigEpochChanged, "Epoch() went from %d to %d", e0, e1)
		}
		if f0 != f1 {
			return bad(sigFlagCleared, "IsEpochStart() went from %v to %v", f0, f1)
		}
	case kProcessed:
		// what the metachain block processor hands over after committing the start-of-epoch
		// block: round = the current round, epoch = the trigger's (new) epoch
		mb := &block.MetaBlock{
			Nonce: 100,
			Round: s.round,
			Epoch: e0,
			EpochStart: block.EpochStart{
				LastFinalizedHeaders: []block.EpochStartShardData{{ShardID: 0}},
				Economics:            block.Economics{PrevEpochStartRound: start0},
			},
		}
		s.t.SetProcessed(mb, &block.Body{})
		if e1 := s.t.Epoch(); e1 != e0 {
			return bad(sigEpochChanged, "Epoch() went from %d to %d", e0, e1)
		}
	}
	return "", ""
}

func (s *state) key() string {
	v := s.t.VerifC34State()
	b := make([]byte, 0, 64)
	// The epoch itself is left out: no operation's effect depends on its value (Update adds
	// one, SetProcessed is fed Epoch()), and the epoch clauses are judged per step.
	for _, x := range []uint64{v.CurrentRound, v.CurrEpochStartRound, v.NextEpochStartRound, s.round, uint64(s.forced)} {
		b = strconv.AppendUint(b, x, 10)
		b = append(b, ' ')
	}
	if v.IsEpochStart {
		b = append(b, 'S')
	}
	// prevEpochStartRound and epochFinalityAttestingRound are only stored / reported, they do
	// not influence Update, ForceEpochStart or SetProcessed: not part of the key.
	return string(b)
}

func (s *state) nontrivial() string {
	// a forced (early) epoch start: flip at a round not beyond start + roundsPerEpoch
	if s.lastFlip && s.lastForced != fNone && s.lastGap <= s.y.rpe {
		return fmt.Sprintf("%d|%s|gap%d", s.y.idx, fNames[s.lastForced], s.lastGap)
	}
	return ""
}

func (s *state) outcome() string {
	if s.lastKind != kUpdate {
		return ""
	}
	return fmt.Sprintf("flip=%v forced=%s gap=%d", s.lastFlip, fNames[s.lastForced], s.lastGap)
}

func main() {
	_ = logger.SetLogLevel("*:NONE")
	mc.Main("C34", "model_checking", func(c *mc.Ctx) {
		horizon := uint64(c.Pick(14, 26))
		rpes := []int64{3, 4, 6}
		mins := []int64{2, 3, 1} // order only matters for which witness is printed first
		if !c.Quick() {
			rpes = []int64{3, 4, 6, 9}
			mins = []int64{2, 3, 5, 1}
		}
		c.Rule = fmt.Sprintf("explicit-state BFS with state matching to fixpoint, one search per setting roundsPerEpoch %v x minRoundsBetweenEpochs %v (min <= roundsPerEpoch, as the constructor demands), trigger created at epoch 0 / round 0: all sequences of "+
			"Update(round+d, nonce) d in {0,1,2,3} nonce in {1,100} while round <= %d, ForceEpochStart(r) for every r in 0..%d and r in {2^63, 2^64-2, 2^64-1} (past, present, future, rejected), "+
			"SetProcessed(start-of-epoch meta block at the current round, epoch = Epoch()) whenever IsEpochStart(); "+
			"non-trivial = an epoch start (false->true flip of IsEpochStart) caused by a force request, i.e. at most roundsPerEpoch rounds after the previous start (distinguished by setting, kind of the force request, gap)",
			rpes, mins, horizon, horizon)
		c.Assumptions = []string{
			"an epoch 'starts' at the Update call in which IsEpochStart() flips false->true; the start round is that call's round",
			"'the previous one' is EpochStartRound() read just before that call (after SetProcessed: the round of the previous start-of-epoch block, which is the flip round or a later round)",
			"'without forcing' = no ForceEpochStart call (accepted or rejected) since the previous flip; for forced epochs only the minimum-distance and epoch+1 clauses are judged",
			"Update with nonce < minimumNonceToStartEpoch (4) never starts an epoch (genesis edge case of the code); the 'starts at the first round after roundsPerEpoch' clause is judged on Update calls with nonce >= 4 only",
			"SetProcessed is called only while IsEpochStart() with a start-of-epoch block whose round is the current round and whose epoch is the trigger's epoch (what the metachain processor does); RevertStateToBlock / LoadState / SetCurrentEpochStartRound are not driven",
			"rounds are non-decreasing (d=0 repeats the round, as CreateNewHeader/ProcessBlock do)",
		}
		var systems []*system
		for _, m := range mins {
			for _, r := range rpes {
				if m > r {
					continue
				}
				systems = append(systems, newSystem(len(systems), r, m, horizon))
			}
		}
		if len(c.ReplayData) > 0 {
			replay(c, systems)
			return
		}
		allFix := true
		maxDepth := 0
		for _, y := range systems {
			y := y
			if perr := mc.Try(func() { y.init() }); perr != "" {
				c.Violation(sigCtor, y.describe()+": "+perr, nil)
				continue
			}
			st := mc.BFS(c, mc.Sys[*state]{
				Init:       y.init,
				Menu:       y.menu,
				Enabled:    func(s *state, o int) bool { return s.enabled(o) },
				Do:         func(s *state, o int) (string, string) { return s.do(o) },
				Check:      func(s *state) (string, string) { return "", "" },
				Key:        func(s *state) string { return s.key() },
				Nontrivial: func(s *state) string { return s.nontrivial() },
				Outcome:    func(s *state) string { return s.outcome() },
			}, 100000)
			if !st.Fixpoint {
				allFix = false
			}
			if st.Depth > maxDepth {
				maxDepth = st.Depth
			}
			c.Set("states "+y.describe(), st.States)
		}
		if allFix {
			c.Bound = fmt.Sprintf("fixpoint for all %d settings under round horizon %d: every reachable non-violating state expanded with every enabled operation (deepest new state at depth %d; violating states are reported and not expanded)", len(systems), horizon, maxDepth-1)
		} else {
			c.Bound = "fixpoint NOT reached for every setting (states that violate are not expanded)"
			if c.NumViolations() == 0 {
				c.Cap("search stopped before fixpoint")
			}
		}
	})
}

func replay(c *mc.Ctx, systems []*system) {
	var names []string
	if err := json.Unmarshal(c.ReplayData, &names); err != nil {
		c.Fatal("replay data is not a list of operation names: %v", err)
	}
	for _, y := range systems {
		var ops []int
		for _, n := range names {
			for i, m := range y.menu {
				if m == n {
					ops = append(ops, i)
				}
			}
		}
		if len(ops) != len(names) {
			continue
		}
		c.Eval(1)
		perr := mc.Try(func() {
			s := y.init()
			for _, o := range ops {
				if !s.enabled(o) {
					return
				}
				if sig, det := s.do(o); sig != "" {
					c.Violation(sig, map[string]interface{}{"history": names, "what": det}, names)
					return
				}
			}
		})
		if perr != "" {
			c.Violation("panic", map[string]interface{}{"history": names, "what": strings.TrimSpace(perr)}, names)
		}
	}
}
