// C29 — headers pool indexes stay consistent and are race-free.
// (a) sequential: explicit-state BFS over the real headersCache.NewHeadersPool (time shimmed
//     to a logical clock so LRU eviction is deterministic) with an operation menu of adds
//     (6 hashes over shards {0,1,meta} x nonces {1,2,3}, one hash re-used with a different
//     header), removals by hash and by (nonce,shard), lookups (they change LRU order),
//     Nonces (incl. a never-seen shard) and Clear; 4 configurations. Oracle in every state,
//     through the public API: found-by-hash <=> listed under its (shard, nonce);
//     GetNumHeaders(s) == number listed; Len == total; Nonces(s) == nonces with >=1 header;
//     plus step oracles (a fresh add is found, a removed hash is not).
// (b) concurrent: "sync" shimmed; every multiset of 2 (quick) / 3 (thorough) operations from
//     a 10-operation menu runs as real goroutines in race mode on a pool prepared in 3 ways;
//     all schedules up to the preemption bound run in a -race build, the race detector
//     judges each; the sequential invariant is checked at the end of each schedule.
package main

import (
	"fmt"
	"runtime"
	"sort"
	"strings"

	"github.com/ElrondNetwork/elrond-go/config"
	"github.com/ElrondNetwork/elrond-go/core"
	"github.com/ElrondNetwork/elrond-go/data"
	"github.com/ElrondNetwork/elrond-go/data/block"
	"github.com/ElrondNetwork/elrond-go/dataRetriever/dataPool/headersCache"
	"verif/engine/mc"
	"verif/engine/racelog"
	"verif/engine/shim/vtime"
	"verif/engine/vsched"
)

type hdr struct {
	hash  string
	shard uint32
	nonce uint64
}

var meta = core.MetachainShardId

var hdrs = []hdr{
	{"h0", 0, 1}, {"h1", 0, 1}, {"h2", 0, 2}, {"h3", 1, 1}, {"h4", meta, 1}, {"h5", 0, 3},
	{"h0", 1, 2}, // same hash as hdrs[0], different header
}
var shards = []uint32{0, 1, meta, 5, 7}
var nonces = []uint64{1, 2, 3}

func mkHeader(h hdr) data.HeaderHandler {
	if h.shard == meta {
		return &block.MetaBlock{Nonce: h.nonce}
	}
	return &block.Header{ShardID: h.shard, Nonce: h.nonce}
}

type op struct {
	name string
	do   func(s *inst) (sig, detail string)
}

type inst struct {
	pool *headersCache.VerifPool
	key  string
}

func newPool(max, rem int) *headersCache.VerifPool {
	p, err := headersCache.NewHeadersPool(config.HeadersPoolConfig{MaxHeadersPerShard: max, NumElementsToRemoveOnEviction: rem})
	if err != nil {
		panic(err)
	}
	return p
}

func menu() []op {
	var m []op
	for i, h := range hdrs {
		h := h
		m = append(m, op{fmt.Sprintf("Add(%s@s%d,n%d)#%d", h.hash, h.shard, h.nonce, i), func(s *inst) (string, string) {
			_, errBefore := s.pool.GetHeaderByHashNoTouch([]byte(h.hash))
			s.pool.AddHeader([]byte(h.hash), mkHeader(h))
			got, err := s.pool.GetHeaderByHashNoTouch([]byte(h.hash))
			if err != nil {
				return "added-header-not-found", h.hash
			}
			if errBefore != nil && (got.GetShardID() != h.shard || got.GetNonce() != h.nonce) {
				return "added-header-wrong", h.hash
			}
			return "", ""
		}})
	}
	for _, h := range hdrs[:6] {
		h := h
		m = append(m, op{"RemoveByHash(" + h.hash + ")", func(s *inst) (string, string) {
			s.pool.RemoveHeaderByHash([]byte(h.hash))
			if _, err := s.pool.GetHeaderByHashNoTouch([]byte(h.hash)); err == nil {
				return "removed-header-still-found", h.hash
			}
			return "", ""
		}})
		m = append(m, op{"GetByHash(" + h.hash + ")", func(s *inst) (string, string) {
			s.pool.GetHeaderByHash([]byte(h.hash))
			return "", ""
		}})
	}
	for _, sn := range [][2]uint64{{1, 0}, {2, 0}, {1, 1}, {1, uint64(meta)}} {
		sn := sn
		m = append(m, op{fmt.Sprintf("RemoveByNonce(n%d,s%d)", sn[0], sn[1]), func(s *inst) (string, string) {
			s.pool.RemoveHeaderByNonceAndShardId(sn[0], uint32(sn[1]))
			if _, _, err := s.pool.GetHeadersByNonceAndShardId(sn[0], uint32(sn[1])); err == nil {
				return "removed-nonce-still-listed", fmt.Sprint(sn)
			}
			return "", ""
		}})
		m = append(m, op{fmt.Sprintf("GetByNonce(n%d,s%d)", sn[0], sn[1]), func(s *inst) (string, string) {
			s.pool.GetHeadersByNonceAndShardId(sn[0], uint32(sn[1]))
			return "", ""
		}})
	}
	m = append(m, op{"Nonces(s0)", func(s *inst) (string, string) { s.pool.Nonces(0); return "", "" }})
	m = append(m, op{"Nonces(s7-unseen)", func(s *inst) (string, string) { s.pool.Nonces(7); return "", "" }})
	m = append(m, op{"Clear", func(s *inst) (string, string) { s.pool.Clear(); return "", "" }})
	return m
}

// invariant checks the property's consistency clauses through the public API. It is run
// on a state that is not used afterwards (lookups change LRU timestamps).
func invariant(p *headersCache.VerifPool) (string, string) {
	listed := map[string][2]uint64{} // hash -> (shard, nonce) as listed
	total := 0
	for _, s := range shards {
		cnt := 0
		withHdr := []uint64{}
		for _, n := range nonces {
			hs, hashes, err := p.GetHeadersByNonceAndShardId(n, s)
			if err != nil {
				continue
			}
			if len(hs) != len(hashes) || len(hs) == 0 {
				return "nonce-index-malformed", fmt.Sprintf("s%d n%d: %d headers %d hashes", s, n, len(hs), len(hashes))
			}
			withHdr = append(withHdr, n)
			for i, h := range hashes {
				if _, dup := listed[string(h)]; dup {
					return "hash-listed-twice", string(h)
				}
				listed[string(h)] = [2]uint64{uint64(s), n}
				if hs[i].GetShardID() != s || hs[i].GetNonce() != n {
					return "header-listed-under-wrong-shard-or-nonce", fmt.Sprintf("%s under s%d n%d is s%d n%d", h, s, n, hs[i].GetShardID(), hs[i].GetNonce())
				}
				cnt++
			}
		}
		if got := p.GetNumHeaders(s); got != cnt {
			return "per-shard-count-mismatch", fmt.Sprintf("shard %d: GetNumHeaders=%d listed=%d", s, got, cnt)
		}
		got := p.Nonces(s)
		sort.Slice(got, func(i, j int) bool { return got[i] < got[j] })
		if fmt.Sprint(got) != fmt.Sprint(withHdr) && !(len(got) == 0 && len(withHdr) == 0) {
			return "nonces-mismatch", fmt.Sprintf("shard %d: Nonces=%v, nonces with headers=%v", s, got, withHdr)
		}
		total += cnt
	}
	if p.Len() != total {
		return "len-mismatch", fmt.Sprintf("Len=%d listed=%d", p.Len(), total)
	}
	seen := map[string]bool{}
	for _, h := range hdrs {
		if seen[h.hash] {
			continue
		}
		seen[h.hash] = true
		got, err := p.GetHeaderByHash([]byte(h.hash))
		l, isListed := listed[h.hash]
		if (err == nil) != isListed {
			return "hash-index-and-nonce-index-disagree", fmt.Sprintf("%s: byHash found=%v, listed=%v", h.hash, err == nil, isListed)
		}
		if err == nil && (uint64(got.GetShardID()) != l[0] || got.GetNonce() != l[1]) {
			return "hash-index-and-nonce-index-disagree", fmt.Sprintf("%s: byHash s%d n%d, listed %v", h.hash, got.GetShardID(), got.GetNonce(), l)
		}
	}
	return "", ""
}

func main() {
	racelog.Init()
	mc.Main("C29", "model_checking", func(c *mc.Ctx) {
		defer racelog.Cleanup()
		vtime.SetLogical(true)
		c.Rule = "(a) BFS over the operation menu (adds incl. duplicate hash, removals, lookups, Nonces incl. unseen shard, Clear) x 4 configurations with state = canonical dump of the three indexes incl. LRU order; (b) every multiset of 2/3 single operations as concurrent real goroutines in race mode x 3 prepared pools, all schedules up to the preemption bound, judged by the race detector; non-trivial = (a) states reached through an eviction or a removal, (b) schedules with >=1 preemption"
		c.Assumptions = []string{"time.Now in the pool is a logical strictly increasing clock (no equal timestamps; with equal wall-clock timestamps LRU tie-breaking follows Go map order, which the property does not constrain)",
			"no added-data handlers are registered (they are fired with `go` and are outside the pool's indexes)",
			"the Go race detector is exact for a given synchronisation order"}
		m := menu()
		names := make([]string, len(m))
		for i := range m {
			names[i] = m[i].name
		}
		depth := c.Pick(5, 7)
		for _, cfg := range [][2]int{{2, 1}, {2, 2}, {3, 1}, {3, 2}} {
			cfg := cfg
			st := mc.BFS(c, mc.Sys[*inst]{
				Init: func() *inst { p := newPool(cfg[0], cfg[1]); return &inst{pool: p, key: p.VerifKey()} },
				Menu: names,
				Do: func(s *inst, op int) (string, string) {
					before := s.key
					sig, d := m[op].do(s)
					s.key = s.pool.VerifKey()
					_ = before
					return sig, d
				},
				Check: func(s *inst) (string, string) { return invariant(s.pool) },
				Key:   func(s *inst) string { return fmt.Sprint(cfg) + s.key },
				Nontrivial: func(s *inst) string {
					// the state holds >=2 headers in one shard (collisions on nonce or eviction pressure)
					if strings.Count(s.key, ":") >= 2 {
						return fmt.Sprint(cfg) + s.key
					}
					return ""
				},
				Outcome: func(s *inst) string { return fmt.Sprint(strings.Count(s.key, "=")) },
			}, depth)
			c.Count(fmt.Sprintf("bfs_states[max=%d,rem=%d]", cfg[0], cfg[1]), st.States)
		}
		concurrent(c)
		c.Bound = fmt.Sprintf("BFS depth %d per configuration; concurrent: %d threads, preemption bound %d", depth, c.Pick(2, 3), 2)
	})
}

type cop struct {
	name string
	do   func(p *headersCache.VerifPool)
}

func cmenu() []cop {
	return []cop{
		{"Add(hx@s0,n2)", func(p *headersCache.VerifPool) { p.AddHeader([]byte("hx"), mkHeader(hdr{"hx", 0, 2})) }},
		{"Add(hy@s5-unseen,n1)", func(p *headersCache.VerifPool) { p.AddHeader([]byte("hy"), mkHeader(hdr{"hy", 5, 1})) }},
		{"RemoveByHash(h0)", func(p *headersCache.VerifPool) { p.RemoveHeaderByHash([]byte("h0")) }},
		{"RemoveByNonce(n1,s0)", func(p *headersCache.VerifPool) { p.RemoveHeaderByNonceAndShardId(1, 0) }},
		{"GetByHash(h0)", func(p *headersCache.VerifPool) { p.GetHeaderByHash([]byte("h0")) }},
		{"GetByNonce(n1,s0)", func(p *headersCache.VerifPool) { p.GetHeadersByNonceAndShardId(1, 0) }},
		{"Nonces(s0)", func(p *headersCache.VerifPool) { p.Nonces(0) }},
		{"Nonces(s7-unseen)", func(p *headersCache.VerifPool) { p.Nonces(7) }},
		{"GetNumHeaders(s0)+Len", func(p *headersCache.VerifPool) { p.GetNumHeaders(0); p.Len(); p.MaxSize() }},
		{"Clear", func(p *headersCache.VerifPool) { p.Clear() }},
	}
}

func prepared(kind int) *headersCache.VerifPool {
	p := newPool(2, 1)
	switch kind {
	case 1: // one shard populated
		p.AddHeader([]byte("h0"), mkHeader(hdrs[0]))
	case 2: // at eviction threshold
		p.AddHeader([]byte("h0"), mkHeader(hdrs[0]))
		p.AddHeader([]byte("h2"), mkHeader(hdrs[2]))
	}
	return p
}

func concurrent(c *mc.Ctx) {
	runtime.GOMAXPROCS(4)
	n := c.Pick(2, 3)
	cm := cmenu()
	var combos [][]int
	var rec func(cur []int, from int)
	rec = func(cur []int, from int) {
		if len(cur) == n {
			combos = append(combos, append([]int{}, cur...))
			return
		}
		for i := from; i < len(cm); i++ {
			rec(append(cur, i), i)
		}
	}
	rec(nil, 0)
	total := int64(0)
	for kind := 0; kind < 3; kind++ {
		for _, combo := range combos {
			kind, combo := kind, combo
			st := mc.Explore(c, 2, 1, func(ch *mc.Chooser) {
				p := prepared(kind)
				bodies := make([]func(), len(combo))
				names := []string{}
				for i, oi := range combo {
					o := cm[oi]
					names = append(names, o.name)
					bodies[i] = func() { o.do(p) }
				}
				s := vsched.Run(ch, vsched.Options{Race: true, Horizon: 300}, bodies...)
				desc := func() map[string]interface{} {
					return map[string]interface{}{"prepared": kind, "threads": names, "schedule": ch.Choices(), "labels": ch.Labels()}
				}
				for _, r := range racelog.New() {
					d := desc()
					d["race_report"] = r.Text
					c.ViolationR(r.Signature, len(combo)*10+ch.Deviations(), d, ch.Choices())
				}
				if s.Deadlock {
					c.Violation("deadlock", desc(), ch.Choices())
				}
				if s.PanicValue != "" {
					d := desc()
					d["panic"] = s.PanicValue
					c.Violation("panic-in-concurrent-run", d, ch.Choices())
				}
				if s.HorizonHit {
					c.Cap("scheduler horizon")
				}
				if sig, det := invariant(p); sig != "" {
					d := desc()
					d["what"] = det
					c.Violation("after-concurrent-run:"+sig, d, ch.Choices())
				}
				if s.Preemptions > 0 || len(ch.Choices()) > 0 {
					c.Nontrivial(fmt.Sprint("conc", kind, combo, ch.Choices()))
				}
			})
			total += st.Executions
		}
	}
	c.Count("concurrent_schedules", total)
	c.Set("concurrent_scenarios", len(combos)*3)
}
