package main

// C04 — Merkle proofs are sound and complete. Exhaustive enumeration (no sequence search):
// all small tries x trie variants x probe keys x proofs (own, of other keys, altered).
//
// Oracle (what the statement says, no more):
//   completeness: k present  => GetProof(k) succeeds and VerifyProof(k, GetProof(k)) is true;
//   soundness:    VerifyProof(k, anything) is true => k is present in this trie;
//   robustness:   GetProof / VerifyProof never panic.
// A present key with a proof of another key or an altered proof may be accepted or not
// (nothing is demanded). GetProof for an absent key may fail or not (if it returns a proof
// it is used as one more proof source).

import (
	"bytes"
	"encoding/hex"
	"encoding/json"
	"fmt"
	"runtime"
	"sort"
	"strings"
	"sync/atomic"
	"time"

	"github.com/ElrondNetwork/elrond-go/data"
	"github.com/ElrondNetwork/elrond-go/data/trie"
	"verif/engine/mc"
)

type variant struct {
	name     string
	level    uint
	commit   bool
	recreate bool
	altered  bool // also run the altered-proof menu on this variant
}

var variants = []variant{
	{"uncommitted/level5", 5, false, false, true},
	{"committed/level1", 1, true, false, false},
	{"committed/level5", 5, true, false, false},
	{"recreated-from-root/level1", 1, true, true, true}, // what nodeFacade.VerifyProof does: GetTrie(root) then VerifyProof
}

type source struct {
	key   string // hex of the key the proof was generated for
	proof [][]byte
}

type alt struct {
	name  string
	proof [][]byte
}

func buildVariant(keys []string, v variant) (data.Trie, error) {
	tr := newTrie(v.level)
	for _, k := range keys {
		if err := tr.Update(unhex(k), []byte("v")); err != nil {
			return nil, err
		}
	}
	if v.commit {
		if err := tr.Commit(); err != nil {
			return nil, err
		}
	}
	if v.recreate {
		h, err := tr.RootHash()
		if err != nil {
			return nil, err
		}
		return tr.Recreate(h)
	}
	return tr, nil
}

// catch runs fn and reports a panic as (message, innermost data/trie function).
func catch(fn func()) (msg, where string) {
	defer func() {
		if r := recover(); r != nil {
			msg = fmt.Sprint(r)
			where = "?"
			pcs := make([]uintptr, 48)
			n := runtime.Callers(2, pcs)
			frames := runtime.CallersFrames(pcs[:n])
			for {
				f, more := frames.Next()
				if i := strings.LastIndex(f.Function, "/data/trie."); i >= 0 {
					where = f.Function[i+len("/data/trie."):]
					break
				}
				if !more {
					break
				}
			}
		}
	}()
	fn()
	return "", ""
}

func hexes(p [][]byte) []string {
	r := make([]string, len(p))
	for i, b := range p {
		if b == nil {
			r[i] = "<nil>"
		} else {
			r[i] = hex.EncodeToString(b)
		}
	}
	return r
}

// probes = the whole key alphabet + absent neighbours of every present key: one nibble
// changed at every nibble position (covers every extension span and every leaf suffix of
// every trie shape), shortened by one byte at either end, extended by one byte at either end.
func probesFor(present []string) []string {
	seen := map[string]bool{}
	var out []string
	add := func(k string) {
		if !seen[k] {
			seen[k] = true
			out = append(out, k)
		}
	}
	for _, k := range keysAll {
		add(k)
	}
	for _, k := range present {
		b := unhex(k)
		for i := range b {
			for _, m := range []byte{0x01, 0x10} {
				c := append([]byte{}, b...)
				c[i] ^= m
				add(hex.EncodeToString(c))
			}
		}
		if len(b) > 0 {
			add(hex.EncodeToString(b[1:]))
			add(hex.EncodeToString(b[:len(b)-1]))
		}
		for _, x := range []byte{0x00, 0xaa} {
			add(hex.EncodeToString(append([]byte{x}, b...)))
			add(hex.EncodeToString(append(append([]byte{}, b...), x)))
		}
	}
	return out
}

func cloneProof(p [][]byte) [][]byte {
	r := make([][]byte, len(p))
	for i := range p {
		if p[i] != nil {
			r[i] = append([]byte{}, p[i]...)
		}
	}
	return r
}

// alterations is the finite menu of proof-byte mutations applied to every node of a proof.
func alterations(p [][]byte, foreign [][]byte) []alt {
	var out []alt
	out = append(out, alt{"nil-proof", nil}, alt{"empty-proof", [][]byte{}})
	out = append(out, alt{"append-nil-node", append(cloneProof(p), nil)})
	out = append(out, alt{"append-garbage-node", append(cloneProof(p), []byte{0x00})})
	for i := range p {
		n := p[i]
		mk := func(name string, f func(q [][]byte) [][]byte) {
			out = append(out, alt{fmt.Sprintf("%s@%d", name, i), f(cloneProof(p))})
		}
		if len(n) > 0 {
			mk("truncate-last-byte", func(q [][]byte) [][]byte { q[i] = q[i][:len(q[i])-1]; return q })
			for t := byte(0); t < 4; t++ {
				if t != n[len(n)-1] {
					t := t
					mk(fmt.Sprintf("type-byte=%d", t), func(q [][]byte) [][]byte { q[i][len(q[i])-1] = t; return q })
				}
			}
			mk("flip-first-byte", func(q [][]byte) [][]byte { q[i][0] ^= 1; return q })
		}
		mk("drop-node", func(q [][]byte) [][]byte { return append(q[:i], q[i+1:]...) })
		mk("duplicate-node", func(q [][]byte) [][]byte {
			r := append([][]byte{}, q[:i+1]...)
			return append(r, q[i:]...)
		})
		if i+1 < len(p) {
			mk("swap-with-next", func(q [][]byte) [][]byte { q[i], q[i+1] = q[i+1], q[i]; return q })
		}
		mk("empty-node", func(q [][]byte) [][]byte { q[i] = []byte{}; return q })
		mk("nil-node", func(q [][]byte) [][]byte { q[i] = nil; return q })
		for j := range foreign {
			j := j
			mk(fmt.Sprintf("splice-foreign-node%d", j), func(q [][]byte) [][]byte { q[i] = append([]byte{}, foreign[j]...); return q })
		}
	}
	return out
}

// divergence classifies (for the signature only) in which node kind of proof(k2) the path of
// probe k leaves the path of k2.
func divergence(k, k2 string, proof [][]byte) string {
	a, b := trie.VerifTrieKeyToHex(unhex(k)), trie.VerifTrieKeyToHex(unhex(k2))
	pos := 0
	for _, n := range proof {
		kind, span, err := trie.VerifTrieNodeSpan(n, marsh, hasher)
		if err != nil {
			return "undecodable-node"
		}
		if pos+span > len(a) {
			return "key-ends-inside-" + kind
		}
		if pos+span > len(b) || !bytes.Equal(a[pos:pos+span], b[pos:pos+span]) {
			return "diverges-inside-" + kind
		}
		pos += span
	}
	return "no-divergence"
}

type proofRun struct {
	c       *mc.Ctx
	foreign [][]byte
}

// local accumulates the counters of one trie (flushed once: the shared context is mutex protected).
type local struct {
	evals    int64
	outcomes map[string]struct{}
	nontriv  map[string]struct{}
}

func (l *local) outcome(s string) { l.outcomes[s] = struct{}{} }

func (l *local) flush(c *mc.Ctx) {
	c.Eval(l.evals)
	ks := make([]string, 0, len(l.outcomes))
	for k := range l.outcomes {
		ks = append(ks, k)
	}
	sort.Strings(ks)
	for _, k := range ks {
		c.Outcome(k)
	}
	for k := range l.nontriv {
		c.Nontrivial(k)
	}
}

func originClass(how string) string {
	if i := strings.IndexAny(how, "@:"); i >= 0 {
		how = how[:i]
	}
	return how
}

// judge applies the oracle to one VerifyProof call.
func (r *proofRun) judge(l *local, rank int, keys []string, v variant, present map[string]bool, tr data.Trie, k string, src *source, how string, p [][]byte) {
	var ok bool
	var err error
	kb := unhex(k)
	pmsg, pwhere := catch(func() { ok, err = tr.VerifyProof(kb, p) })
	l.evals++
	det := func(extra string) map[string]interface{} {
		d := map[string]interface{}{"trie_keys": keys, "value": "v", "variant": v.name, "probe_key": k, "probe_present": present[k], "proof": hexes(p), "proof_origin": how, "observed": extra}
		if src != nil {
			d["proof_generated_for"] = src.key
		}
		return d
	}
	rep := map[string]interface{}{"keys": keys, "variant": v.name, "probe": k, "proof": hexes(p)}
	switch {
	case pmsg != "":
		l.outcome("verify-panic@" + pwhere)
		r.c.ViolationR("VerifyProof:panic@"+pwhere, rank, det("panic: "+pmsg), rep)
	case ok && !present[k]:
		l.outcome("accepted-absent")
		cls := "altered-proof"
		if how == "unaltered" && src != nil {
			cls = divergence(k, src.key, p)
		} else if how == "foreign-trie-proof" {
			cls = "foreign-proof"
		}
		r.c.ViolationR("VerifyProof:accepts-absent-key:"+cls, rank, det("VerifyProof returned true"), rep)
	case !ok && how == "unaltered" && src != nil && src.key == k && present[k]:
		l.outcome("rejected-own-proof")
		r.c.ViolationR("VerifyProof:rejects-own-proof-of-present-key", rank, det(fmt.Sprintf("VerifyProof returned false, %v", err)), rep)
	case ok:
		l.outcome("accepted-present/" + originClass(how))
	case err != nil:
		l.outcome("rejected-with-error:" + err.Error())
	default:
		l.outcome("rejected/" + originClass(how))
	}
}

func (r *proofRun) oneTrie(idx int, keys []string) {
	c := r.c
	l := &local{outcomes: map[string]struct{}{}, nontriv: map[string]struct{}{}}
	defer l.flush(c)
	present := map[string]bool{}
	for _, k := range keys {
		present[k] = true
	}
	probes := probesFor(keys)
	for vi, v := range variants {
		rank := idx*10 + vi
		tr, err := buildVariant(keys, v)
		if err != nil || tr == nil || tr.IsInterfaceNil() {
			c.ViolationR("setup:cannot-build-trie", rank, map[string]interface{}{"trie_keys": keys, "variant": v.name, "error": fmt.Sprint(err)}, nil)
			continue
		}
		// proof sources
		var sources []source
		for _, k := range probes {
			var p [][]byte
			var gerr error
			pmsg, pwhere := catch(func() { p, gerr = tr.GetProof(unhex(k)) })
			l.evals++
			switch {
			case pmsg != "":
				c.ViolationR("GetProof:panic@"+pwhere, rank, map[string]interface{}{"trie_keys": keys, "variant": v.name, "key": k, "panic": pmsg}, nil)
			case gerr != nil && present[k]:
				c.ViolationR("GetProof:fails-for-present-key", rank, map[string]interface{}{"trie_keys": keys, "variant": v.name, "key": k, "error": gerr.Error()}, nil)
			case gerr == nil:
				sources = append(sources, source{k, p})
				if !present[k] {
					c.Count("GetProof_succeeded_for_absent_key", 1)
				}
			default:
				l.outcome("GetProof-error:" + gerr.Error())
			}
		}
		// every probe against every unaltered proof of this trie, and against a foreign proof
		for _, k := range probes {
			for si := range sources {
				s := &sources[si]
				r.judge(l, rank, keys, v, present, tr, k, s, "unaltered", s.proof)
				if !present[k] && len(keys) > 0 {
					a, b := trie.VerifTrieKeyToHex(unhex(k)), trie.VerifTrieKeyToHex(unhex(s.key))
					if a[0] == b[0] {
						l.nontriv[fmt.Sprint(keys, "|", k, "|", s.key)] = struct{}{}
					}
				}
			}
			r.judge(l, rank, keys, v, present, tr, k, nil, "foreign-trie-proof", r.foreign)
			r.judge(l, rank, keys, v, present, tr, k, nil, "nil-proof", nil)
			r.judge(l, rank, keys, v, present, tr, k, nil, "nil-node-only", [][]byte{nil})
		}
		if !v.altered || (c.Quick() && v.recreate) {
			continue
		}
		// altered proofs
		for si := range sources {
			s := &sources[si]
			for _, a := range alterations(s.proof, r.foreign) {
				for _, k := range probes {
					r.judge(l, rank, keys, v, present, tr, k, s, a.name, a.proof)
				}
			}
		}
		// recombination of authentic nodes: prefix of one proof + suffix of another (or the same)
		for ai := range sources {
			for bi := range sources {
				pa, pb := sources[ai].proof, sources[bi].proof
				for i := 0; i <= len(pa); i++ {
					for j := 0; j <= len(pb); j++ {
						if (i == len(pa) && j == len(pb)) || (i == 0 && j == 0) {
							continue
						}
						if ai == bi && i == j {
							continue
						}
						q := append(append([][]byte{}, pa[:i]...), pb[j:]...)
						how := fmt.Sprintf("recombined:proof(%s)[:%d]+proof(%s)[%d:]", sources[ai].key, i, sources[bi].key, j)
						for _, k := range probes {
							r.judge(l, rank, keys, v, present, tr, k, &sources[ai], how, q)
						}
					}
				}
			}
		}
	}
	if c.WantSample() && len(keys) >= 3 {
		c.Sample(map[string]interface{}{"trie_keys": keys, "probes": len(probes)})
	}
}

func runProofs(c *mc.Ctx) {
	maxSize := envInt("VERIF_TRIE_SUBSET", c.Pick(4, 5))
	r := &proofRun{c: c}
	// foreign trie: branch root, extension, inner branch, leaves
	ft, err := buildVariant([]string{"00", "aa", "01aa", "02aa"}, variant{level: 5})
	if err != nil {
		c.Fatal("foreign trie: %v", err)
	}
	_ = ft.Update(unhex("00"), []byte("z"))
	_ = ft.Update(unhex("01aa"), []byte("z"))
	r.foreign, err = ft.GetProof(unhex("01aa"))
	if err != nil || len(r.foreign) != 4 {
		c.Fatal("foreign proof: %v (%d nodes)", err, len(r.foreign))
	}

	// all subsets of the alphabet with <= maxSize keys, smallest first
	var subsets [][]string
	for size := 0; size <= maxSize; size++ {
		var rec func(start int, cur []string)
		rec = func(start int, cur []string) {
			if len(cur) == size {
				subsets = append(subsets, append([]string{}, cur...))
				return
			}
			for i := start; i < len(keysAll); i++ {
				rec(i+1, append(cur, keysAll[i]))
			}
		}
		rec(0, nil)
	}
	vn := []string{}
	for _, v := range variants {
		vn = append(vn, v.name)
	}
	c.Rule = fmt.Sprintf("all %d tries = subsets of <=%d keys of %q (value \"v\" each, so equal leaves are shared between paths) x variants %v; "+
		"probe keys = the whole alphabet + for every present key: one nibble changed at each nibble position, one byte dropped / added at either end; "+
		"GetProof for every probe; VerifyProof(probe, proof) for every ordered pair (probe, proof of any key of the same trie), a proof of a foreign trie, nil proof, [nil]; "+
		"on the uncommitted variant (thorough tier: also on the recreated-from-root variant) additionally every alteration of every proof (per node: truncate, each other type byte, flip first byte, drop, duplicate, swap with next, empty, nil, splice each of 4 foreign nodes; append nil/garbage node; nil/empty proof) "+
		"and every recombination prefix(proof a)+suffix(proof b) of authentic nodes, each against every probe. "+
		"Non-trivial = (trie, absent probe, proof of a present key) whose paths share at least the first nibble", len(subsets), maxSize, keysAll, vn)
	c.Bound = fmt.Sprintf("tries with <= %d keys (%d tries)", maxSize, len(subsets))
	c.Assumptions = append(c.Assumptions,
		"oracle: accepted => key present; own proof of a present key accepted; no panic. Nothing is demanded for a present key with someone else's or an altered proof",
		"API route node.VerifyProof = GetTrie(rootHash) + trie.VerifyProof; covered by the recreated-from-root variant (hex/bech32 decoding of the request is not exercised)",
		"proof bytes are taken from the stated alteration menu, not from all byte strings; hasher blake2b-256 is assumed collision free within the enumerated nodes")

	if len(c.ReplayData) > 0 {
		r.replay()
		return
	}
	if d := time.Now().Add(time.Duration(c.Pick(85, 13*60)) * time.Second); d.Before(c.Deadline) {
		c.Deadline = d // wall-clock budget; only stops the enumeration (reported as a cap)
	}
	var done int64
	mc.Par(len(subsets), func(i int) {
		if c.Expired() {
			c.Cap("deadline during trie enumeration")
			return
		}
		r.oneTrie(i, subsets[i])
		atomic.AddInt64(&done, 1)
	})
	c.Set("tries", len(subsets))
	c.Set("tries_completed", done)
}

func (r *proofRun) replay() {
	var rep struct {
		Keys    []string
		Variant string
		Probe   string
		Proof   []string
	}
	if err := json.Unmarshal(r.c.ReplayData, &rep); err != nil {
		r.c.Fatal("bad replay data: %v", err)
	}
	present := map[string]bool{}
	for _, k := range rep.Keys {
		present[k] = true
	}
	var p [][]byte
	for _, h := range rep.Proof {
		if h == "<nil>" {
			p = append(p, nil)
		} else {
			p = append(p, unhex(h))
		}
	}
	l := &local{outcomes: map[string]struct{}{}, nontriv: map[string]struct{}{}}
	defer l.flush(r.c)
	for _, v := range variants {
		if v.name != rep.Variant {
			continue
		}
		tr, err := buildVariant(rep.Keys, v)
		if err != nil {
			r.c.Fatal("replay: cannot build trie: %v", err)
		}
		r.judge(l, 0, rep.Keys, v, present, tr, rep.Probe, nil, "replayed", p)
	}
}
