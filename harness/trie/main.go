// Harness `trie` — state trie properties C01..C04 on the real data/trie code.
//
//	C01 trie behaves as a key-value map            (explicit-state BFS, model_checking)
//	C02 root hash depends only on contents         (same search, other oracle)
//	C03 committed state recoverable from its root  (same search, other oracle)
//	C04 Merkle proofs sound and complete           (exhaustive input enumeration, exploration)
//
// Seam: trie.NewTrie over trie.NewTrieStorageManagerWithoutPruning(memorydb) with the real
// GogoProtoMarshalizer and the real blake2b hasher. An overlay export file
// (ovl/export/data/trie/trie.go) gives the structural fingerprint of the in-memory tree.
package main

import (
	"encoding/hex"
	"os"
	"runtime/debug"
	"runtime/pprof"
	"sort"
	"strings"

	logger "github.com/ElrondNetwork/elrond-go-logger"
	"github.com/ElrondNetwork/elrond-go/data"
	"github.com/ElrondNetwork/elrond-go/data/trie"
	"github.com/ElrondNetwork/elrond-go/hashing/blake2b"
	"github.com/ElrondNetwork/elrond-go/marshal"
	"github.com/ElrondNetwork/elrond-go/storage/memorydb"
	"verif/engine/mc"
)

// Key alphabet (DESIGN 3.1). keyBytesToHex reverses the nibbles and appends terminator 16,
// so suffixes of the byte strings are prefixes of the trie paths.
//
//	""      -> T            00   -> 0 0 T        01   -> 1 0 T      10 -> 0 1 T   11 -> 1 1 T
//	0100    -> 0 0 1 0 T    0001 -> 1 0 0 0 T    1100 -> 0 0 1 1 T
//	aa      -> a a T        01aa -> a a 1 0 T    02aa -> a a 2 0 T  01aaaa -> a a a a 1 0 T
var keysQuick = []string{"", "00", "01", "0100", "1100", "aa", "01aa", "02aa"}

// keysNested: an extension over a branch whose two children are a leaf and another extension
// (a a -> branch{1: leaf, 2: ext(2 2) -> branch{3: leaf, 4: leaf}}); deleting the leaf on a
// collapsed / recreated trie merges two extensions (added after the independent seed C01-1).
//
//	01aa -> a a 1 0 T    3222aa -> a a 2 2 2 3 T    4222aa -> a a 2 2 2 4 T
var keysNested = []string{"01aa", "3222aa", "4222aa", "aa"}
var keysAll = []string{"", "00", "01", "10", "11", "0100", "0001", "1100", "aa", "01aa", "02aa", "01aaaa"}

var (
	marsh  = &marshal.GogoProtoMarshalizer{}
	hasher = blake2b.NewBlake2b()
)

func unhex(s string) []byte {
	b, err := hex.DecodeString(s)
	if err != nil {
		panic(err)
	}
	return b
}

// newTrie builds a fresh real trie over a fresh in-memory DB.
func newTrie(level uint) data.Trie {
	tsm, err := trie.NewTrieStorageManagerWithoutPruning(memorydb.New())
	if err != nil {
		panic(err)
	}
	tr, err := trie.NewTrie(tsm, marsh, hasher, level)
	if err != nil {
		panic(err)
	}
	return tr
}

// contentsKey is the canonical text of a reference map (hex key = hex value, sorted).
func contentsKey(m map[string]string) string {
	ks := make([]string, 0, len(m))
	for k := range m {
		ks = append(ks, k)
	}
	sort.Strings(ks)
	var sb strings.Builder
	for _, k := range ks {
		sb.WriteString(k)
		sb.WriteByte('=')
		sb.WriteString(hex.EncodeToString([]byte(m[k])))
		sb.WriteByte(',')
	}
	return sb.String()
}

func copyMap(m map[string]string) map[string]string {
	r := make(map[string]string, len(m))
	for k, v := range m {
		r[k] = v
	}
	return r
}

func main() {
	if err := logger.SetLogLevel("*:NONE"); err != nil {
		panic(err)
	}
	debug.SetGCPercent(400)
	mc.Main("C01", "model_checking", func(c *mc.Ctx) {
		if f := os.Getenv("VERIF_PPROF"); f != "" { // development aid only
			if w, err := os.Create(f); err == nil {
				_ = pprof.StartCPUProfile(w)
				defer pprof.StopCPUProfile()
			}
		}
		switch c.Prop {
		case "C01", "C02", "C03":
			c.Level = "model_checking"
			runSeq(c)
		case "C04":
			c.Level = "exploration"
			runProofs(c)
		default:
			c.Fatal("harness trie serves C01..C04, not %s", c.Prop)
		}
	})
}
