package main

// C01 / C02 / C03 — one explicit-state breadth-first search over operation sequences on the
// real trie, three oracles (selected by c.Prop).
//
// State handling. Every observation the oracles need (Get resolves collapsed nodes,
// RootHash caches hashes, Recreate/GetAllLeavesOnChannel read the DB) can change the
// in-memory structure, so the canonical state key is computed and stored at the END OF Do,
// before Check observes anything. The engine builds successors by replaying Do only (never
// Check), hence the explored states are exactly the results of operation sequences; Check
// works on an instance that is thrown away afterwards. The state-changing observations are
// additionally part of the operation menu (Get(k), RootHash), so their effect on later
// operations is explored too.

import (
	"bytes"
	"encoding/hex"
	"encoding/json"
	"fmt"
	"os"
	"sort"
	"strconv"
	"strings"
	"sync"
	"time"

	"github.com/ElrondNetwork/elrond-go/data"
	"github.com/ElrondNetwork/elrond-go/data/trie"
	"verif/engine/mc"
)

type opKind int

const (
	opUpdate opKind = iota
	opUpdateEmpty
	opDelete
	opGet
	opCommit
	opRootHash
	opRecreate
	opRecreateEmpty
)

type op struct {
	kind opKind
	key  string // hex
	val  string
	idx  int
	name string
}

type rootRec struct {
	ckey     string
	hash     []byte
	contents map[string]string
}

// inst = real trie + reference map + bookkeeping of one explored history.
type inst struct {
	level uint
	tr    data.Trie
	ref   map[string]string // hex key -> value
	roots []rootRec         // committed roots, sorted by contents key (no pruning: all stay recreatable)
	last  string            // contents key of the latest commit
	ck    string            // contentsKey(ref), maintained incrementally
	rk    string            // joined contents keys of roots
	fp    string            // structural fingerprint after the last Do
	key   string            // canonical state key after the last Do
	nt    string            // non-trivial marker of the last Do
	via   bool              // current trie object came out of Recreate
	old   bool              // ... of a root that was not the latest commit / not the contents held at that time
}

type seqRun struct {
	c     *mc.Ctx
	keys  []string
	menu  []op
	names []string
	canon sync.Map // contents key -> canonical root hash
	mu    sync.Mutex
	shape map[string]string // contents key -> first fingerprint seen (C02 non-trivial rule)
}

var longVal = strings.Repeat("L", 40)

func envInt(name string, def int) int {
	if v, err := strconv.Atoi(os.Getenv(name)); err == nil {
		return v
	}
	return def
}

// phase = one BFS configuration (alphabet + depth); every phase is run for every level setting.
type phase struct {
	keys  []string
	vals  []string
	depth int
}

var valNames = map[string]string{"v": "v", "w": "w", longVal: "L40"}

func (r *seqRun) buildMenu(keys, vals []string, maxRoots int) {
	r.keys, r.menu, r.names = keys, nil, nil
	for _, k := range keys {
		for _, v := range vals {
			r.menu = append(r.menu, op{kind: opUpdate, key: k, val: v, name: fmt.Sprintf("Update(%q,%s)", k, valNames[v])})
		}
		r.menu = append(r.menu, op{kind: opUpdateEmpty, key: k, name: fmt.Sprintf("Update(%q,\"\")", k)})
		r.menu = append(r.menu, op{kind: opDelete, key: k, name: fmt.Sprintf("Delete(%q)", k)})
	}
	for _, k := range keys {
		r.menu = append(r.menu, op{kind: opGet, key: k, name: fmt.Sprintf("Get(%q)", k)})
	}
	r.menu = append(r.menu, op{kind: opCommit, name: "Commit"}, op{kind: opRootHash, name: "RootHash"},
		op{kind: opRecreateEmpty, name: "SwitchTo(Recreate(EmptyTrieHash))"})
	for i := 0; i < maxRoots; i++ {
		r.menu = append(r.menu, op{kind: opRecreate, idx: i, name: fmt.Sprintf("SwitchTo(Recreate(root#%d))", i)})
	}
	if len(r.menu) > 255 {
		r.c.Fatal("menu too large")
	}
	for _, o := range r.menu {
		r.names = append(r.names, o.name)
	}
}

func runSeq(c *mc.Ctx) {
	r := &seqRun{c: c, shape: map[string]string{}}
	levels := []uint{1, 2, 3, 5}
	var phases []phase
	if c.Quick() {
		phases = []phase{{keysQuick, []string{"v", "w"}, envInt("VERIF_TRIE_DEPTH", 5)},
			{keysNested, []string{"v"}, envInt("VERIF_TRIE_DEPTH_N", 6)}}
	} else {
		phases = []phase{
			{keysAll, []string{"v", longVal}, envInt("VERIF_TRIE_DEPTH_A", 5)},
			{keysQuick, []string{"v", "w"}, envInt("VERIF_TRIE_DEPTH_B", 6)},
			{keysNested, []string{"v", "w"}, envInt("VERIF_TRIE_DEPTH_N", 7)},
		}
	}
	// Internal wall-clock budget (only stops exploration, never decides anything): the quick
	// tier must stay near 90 s and the thorough tier within 15 min even on a loaded machine.
	// Every (phase, level) search gets an equal share of what is left, so a cap never starves
	// a whole configuration; what was completed is reported per configuration.
	budget := time.Duration(envInt("VERIF_TRIE_BUDGET_S", c.Pick(85, 13*60))) * time.Second
	end := time.Now().Add(budget)
	if c.Deadline.Before(end) {
		end = c.Deadline
	}
	remaining := len(phases) * len(levels)
	var pd []string
	for i, p := range phases {
		pd = append(pd, fmt.Sprintf("phase %d: <=%d operations over keys %q, values %v", i+1, p.depth, p.keys, func() []string {
			n := []string{}
			for _, v := range p.vals {
				n = append(n, valNames[v])
			}
			return n
		}()))
	}
	common := fmt.Sprintf("all operation sequences from the empty trie, for each maxTrieLevelInMemory in %v (%s; L40 = 40-byte value): "+
		"Update(k,v), Update(k,\"\"), Delete(k), Get(k) (offered only while some node is collapsed; otherwise it cannot change anything), Commit, RootHash, "+
		"SwitchTo(Recreate(r)) for every root r committed so far (roots indexed in sorted contents order) and for EmptyTrieHash; "+
		"explicit-state BFS, state = (level, reference map, structural fingerprint of the in-memory nodes, set of committed roots", levels, strings.Join(pd, "; "))
	switch c.Prop {
	case "C01":
		c.Rule = common + "). Oracle on every state: Get(k)==reference for every k of the alphabet; when the root is clean, GetAllLeavesOnChannel(root) == reference (each key once, original keys). " +
			"Non-trivial = transition that changed the number of branch/extension nodes (reduceNode, insertInNewBn) or a Commit that collapsed nodes at the level limit (read from the fingerprint delta)"
	case "C02":
		c.Rule = common + "). Oracle on every state of every level setting: RootHash() == root hash of a canonical trie (sorted inserts, no delete, no commit, level 5) with the same contents, EmptyTrieHash for empty contents. " +
			"Non-trivial = contents reached with >=2 different structural fingerprints"
	case "C03":
		c.Rule = common + ", reached-through-Recreate flag). Oracle on every state: every root committed so far recreates without error, with RootHash()==root, Get(k) for all k and leaf enumeration equal to the snapshot of that commit; " +
			"Recreate(nil)/Recreate(EmptyTrieHash) give the empty trie; after SwitchTo(Recreate(r)) every continuation is compared with the reference map and the canonical hash. " +
			"Non-trivial = SwitchTo(Recreate(r)) transition that went back in history (r was not the latest commit, or the trie held other contents at that moment); every continuation of the resulting state within the depth bound is explored"
	}
	c.Assumptions = append(c.Assumptions,
		"storage = trieStorageManagerWithoutPruning over memorydb (no pruning, no I/O errors): every committed root must stay recreatable; any error returned by an operation is a violation",
		"state key computed before observations; oldHashes/oldRoot (pruning bookkeeping) are not part of the state key because no offered operation reads them",
		"values are never mutated by the harness after being passed in (buffer aliasing is outside these statements)",
		"hasher blake2b-256, marshalizer GogoProto (production settings); keys/values outside the alphabet and histories longer than the depth bound are not covered")

	if len(c.ReplayData) > 0 {
		r.buildMenu(keysAll, []string{"v", "w", longVal}, 8)
		r.replay(levels)
		return
	}
	var bounds []string
	for pi, p := range phases {
		r.buildMenu(p.keys, p.vals, p.depth-1)
		var states, trans int64
		var per []string
		for _, lv := range levels {
			lv := lv
			c.Deadline = time.Now().Add(time.Until(end) / time.Duration(remaining))
			remaining--
			st := mc.BFS(c, mc.Sys[*inst]{
				Init:       func() *inst { return r.newInst(lv) },
				Menu:       r.names,
				Enabled:    r.enabled,
				Do:         r.do,
				Check:      r.check,
				Key:        func(s *inst) string { return s.key },
				Nontrivial: func(s *inst) string { return s.nt },
				Outcome:    func(s *inst) string { return "contents:" + s.ck },
			}, p.depth)
			c.Count(fmt.Sprintf("phase%d_states_level%d", pi+1, lv), st.States)
			c.Count(fmt.Sprintf("phase%d_transitions_level%d", pi+1, lv), st.Transitions)
			states += st.States
			trans += st.Transitions
			done := st.Depth
			if c.Expired() && !st.Fixpoint && done > 0 {
				done-- // the last depth was cut by the deadline
			}
			per = append(per, fmt.Sprintf("level %d: all histories of <=%d operations%s", lv, done, map[bool]string{true: " (frontier empty)", false: ""}[st.Fixpoint]))
		}
		c.Set(fmt.Sprintf("phase%d_menu_size", pi+1), len(r.menu))
		bounds = append(bounds, fmt.Sprintf("phase %d (%d keys, %d values, target depth %d): %s (%d states, %d transitions)",
			pi+1, len(p.keys), len(p.vals), p.depth, strings.Join(per, ", "), states, trans))
	}
	c.Bound = strings.Join(bounds, "; ")
}

func (r *seqRun) newInst(level uint) *inst {
	s := &inst{level: level, tr: newTrie(level), ref: map[string]string{}}
	s.ck = contentsKey(s.ref)
	s.fp = trie.VerifTrieFingerprint(s.tr)
	r.setKey(s)
	return s
}

func (r *seqRun) setKey(s *inst) {
	via := ""
	if r.c.Prop == "C03" && s.via {
		via = "|via"
	}
	s.key = "L" + strconv.Itoa(int(s.level)) + "|" + s.ck + "|" + s.fp + "|R:" + s.rk + via
}

func (r *seqRun) enabled(s *inst, i int) bool {
	o := r.menu[i]
	switch o.kind {
	case opGet:
		// Get only reads, except that it resolves collapsed nodes on its path.
		return strings.Contains(s.fp, "~")
	case opRecreate:
		return o.idx < len(s.roots)
	}
	return true
}

func detail(s *inst, what string, a ...interface{}) string {
	return fmt.Sprintf("level=%d: %s; reference={%s}", s.level, fmt.Sprintf(what, a...), contentsKey(s.ref))
}

func (r *seqRun) want(p string) bool { return r.c.Prop == p }

// do applies one operation to the real trie and to the reference.
func (r *seqRun) do(s *inst, i int) (string, string) {
	o := r.menu[i]
	before := s.fp
	heldBefore := s.ck
	s.nt = ""
	mutated := false
	switch o.kind {
	case opUpdate, opUpdateEmpty:
		if err := s.tr.Update(unhex(o.key), []byte(o.val)); err != nil {
			return "op-error:Update", detail(s, "%s returned %v", o.name, err)
		}
		old, had := s.ref[o.key]
		if o.val == "" {
			delete(s.ref, o.key)
			mutated = had
		} else {
			s.ref[o.key] = o.val
			mutated = !had || old != o.val
		}
	case opDelete:
		if err := s.tr.Delete(unhex(o.key)); err != nil {
			return "op-error:Delete", detail(s, "%s returned %v", o.name, err)
		}
		_, mutated = s.ref[o.key]
		delete(s.ref, o.key)
	case opGet:
		v, err := s.tr.Get(unhex(o.key))
		if err != nil {
			return "op-error:Get", detail(s, "%s returned %v", o.name, err)
		}
		if r.want("C01") || (r.want("C03") && s.via) {
			if string(v) != s.ref[o.key] {
				return "Get:wrong-value", detail(s, "%s = %q, want %q", o.name, v, s.ref[o.key])
			}
		}
	case opRootHash:
		h, err := s.tr.RootHash()
		if err != nil {
			return "op-error:RootHash", detail(s, "RootHash returned %v", err)
		}
		if r.want("C02") || (r.want("C03") && s.via) {
			if sg, d := r.cmpHash(s, h); sg != "" {
				return sg, d
			}
		}
	case opCommit:
		if err := s.tr.Commit(); err != nil {
			return "op-error:Commit", detail(s, "Commit returned %v", err)
		}
		h, err := s.tr.RootHash()
		if err != nil {
			return "op-error:RootHash", detail(s, "RootHash after Commit returned %v", err)
		}
		ck := s.ck
		if len(s.ref) > 0 { // the empty trie has no stored root; Recreate(EmptyTrieHash) is a separate operation
			pos := sort.Search(len(s.roots), func(j int) bool { return s.roots[j].ckey >= ck })
			if pos < len(s.roots) && s.roots[pos].ckey == ck {
				if !bytes.Equal(s.roots[pos].hash, h) && (r.want("C02") || r.want("C03")) {
					return "RootHash:same-contents-two-committed-roots", detail(s, "Commit gave root %x, an earlier commit of the same contents gave %x", h, s.roots[pos].hash)
				}
			} else {
				s.roots = append(s.roots, rootRec{})
				copy(s.roots[pos+1:], s.roots[pos:])
				s.roots[pos] = rootRec{ckey: ck, hash: append([]byte{}, h...), contents: copyMap(s.ref)}
				s.rk = ""
				for _, rt := range s.roots {
					s.rk += rt.ckey + ";"
				}
			}
			s.last = ck
		}
	case opRecreate:
		rt := s.roots[o.idx]
		nt, err := s.tr.Recreate(rt.hash)
		if err != nil || nt == nil || nt.IsInterfaceNil() {
			return "Recreate:error-for-committed-root", detail(s, "Recreate(%x) (contents %s) returned %v", rt.hash, rt.ckey, err)
		}
		s.old = rt.ckey != s.last || rt.ckey != s.ck // went back in history
		s.tr = nt
		s.ref = copyMap(rt.contents)
		s.ck = rt.ckey
		s.via = true
	case opRecreateEmpty:
		nt, err := s.tr.Recreate(trie.EmptyTrieHash)
		if err != nil || nt == nil || nt.IsInterfaceNil() {
			return "Recreate:error-for-empty-root", detail(s, "Recreate(EmptyTrieHash) returned %v", err)
		}
		s.tr = nt
		s.ref = map[string]string{}
		s.ck = ""
		s.via = true
		s.old = false
	}
	if mutated {
		s.ck = contentsKey(s.ref)
	}
	s.fp = trie.VerifTrieFingerprint(s.tr)
	r.setKey(s)

	// non-trivial markers
	switch r.c.Prop {
	case "C01":
		db := strings.Count(s.fp, "B") - strings.Count(before, "B")
		de := strings.Count(s.fp, "E") - strings.Count(before, "E")
		switch {
		case o.kind == opCommit && strings.Count(s.fp, "~") > strings.Count(before, "~"):
			s.nt = "collapse|" + before
		case (o.kind == opDelete || o.kind == opUpdateEmpty) && db < 0:
			s.nt = "reduce|" + before + "|" + o.key
		case o.kind == opUpdate && (db > 0 || de != 0):
			s.nt = "newbranch|" + before + "|" + o.key
		}
	case "C02":
		if len(s.ref) > 0 {
			ck := s.ck
			r.mu.Lock()
			first, ok := r.shape[ck]
			if !ok {
				r.shape[ck] = s.fp
			}
			r.mu.Unlock()
			if ok && first != s.fp {
				s.nt = ck
			}
		}
	case "C03":
		if o.kind == opRecreate && s.old {
			s.nt = "back-to|" + s.ck + "|from|" + heldBefore + "|roots|" + s.rk
		}
	}
	return "", ""
}

// canonicalHash = root hash of a fresh trie holding exactly m (sorted inserts, nothing else).
func (r *seqRun) canonicalHash(m map[string]string) ([]byte, error) {
	if len(m) == 0 {
		return trie.EmptyTrieHash, nil
	}
	ck := contentsKey(m)
	if v, ok := r.canon.Load(ck); ok {
		return v.([]byte), nil
	}
	ks := make([]string, 0, len(m))
	for k := range m {
		ks = append(ks, k)
	}
	sort.Strings(ks)
	tr := newTrie(5)
	for _, k := range ks {
		if err := tr.Update(unhex(k), []byte(m[k])); err != nil {
			return nil, err
		}
	}
	h, err := tr.RootHash()
	if err != nil {
		return nil, err
	}
	r.canon.Store(ck, h)
	return h, nil
}

func (r *seqRun) cmpHash(s *inst, h []byte) (string, string) {
	want, err := r.canonicalHash(s.ref)
	if err != nil {
		return "op-error:canonical-trie", detail(s, "building the canonical trie failed: %v", err)
	}
	if bytes.Equal(h, want) {
		return "", ""
	}
	if len(s.ref) == 0 {
		return "RootHash:empty-trie-not-EmptyTrieHash", detail(s, "RootHash()=%x for empty contents (fingerprint %s)", h, s.fp)
	}
	return "RootHash:differs-for-same-contents", detail(s, "RootHash()=%x, canonical trie with the same contents has %x (fingerprint %s)", h, want, s.fp)
}

// leaves drains GetAllLeavesOnChannel(root) and compares with want.
func leavesDiff(tr data.Trie, root []byte, want map[string]string) string {
	ch, err := tr.GetAllLeavesOnChannel(root)
	if err != nil {
		return fmt.Sprintf("GetAllLeavesOnChannel returned %v", err)
	}
	got := map[string]string{}
	bad := ""
	for kv := range ch {
		k := hex.EncodeToString(kv.Key())
		if _, dup := got[k]; dup && bad == "" {
			bad = fmt.Sprintf("key %q enumerated twice", k)
		}
		got[k] = string(kv.Value())
	}
	if bad != "" {
		return bad
	}
	if contentsKey(got) != contentsKey(want) {
		return fmt.Sprintf("enumerated %s", contentsKey(got))
	}
	return ""
}

func (r *seqRun) getsDiff(tr data.Trie, want map[string]string) (sig, d string) {
	for _, k := range r.keys {
		v, err := tr.Get(unhex(k))
		if err != nil {
			return "op-error:Get", fmt.Sprintf("Get(%q) returned %v", k, err)
		}
		if string(v) != want[k] {
			return "Get:wrong-value", fmt.Sprintf("Get(%q) = %q, want %q", k, v, want[k])
		}
	}
	return "", ""
}

// check observes the state reached by the last Do (the instance is discarded afterwards).
func (r *seqRun) check(s *inst) (string, string) {
	c01 := r.want("C01") || (r.want("C03") && s.via)
	c02 := r.want("C02") || (r.want("C03") && s.via)
	if c02 {
		h, err := s.tr.RootHash()
		if err != nil {
			return "op-error:RootHash", detail(s, "RootHash returned %v", err)
		}
		if sg, d := r.cmpHash(s, h); sg != "" {
			return sg, d
		}
	}
	if c01 {
		if sg, d := r.getsDiff(s.tr, s.ref); sg != "" {
			return sg, detail(s, "%s (fingerprint %s)", d, s.fp)
		}
		if len(s.fp) > 2 && s.fp[1] == 'c' { // root clean => its hash is a committed root
			h, err := s.tr.RootHash()
			if err != nil {
				return "op-error:RootHash", detail(s, "RootHash returned %v", err)
			}
			if d := leavesDiff(s.tr, h, s.ref); d != "" {
				return "GetAllLeavesOnChannel:wrong-leaves", detail(s, "leaves of committed root %x: %s", h, d)
			}
		}
	}
	if r.want("C03") {
		for _, rt := range s.roots {
			nt, err := s.tr.Recreate(rt.hash)
			if err != nil || nt == nil || nt.IsInterfaceNil() {
				return "Recreate:error-for-committed-root", detail(s, "Recreate(%x) (contents %s) returned %v", rt.hash, rt.ckey, err)
			}
			h, err := nt.RootHash()
			if err != nil || !bytes.Equal(h, rt.hash) {
				return "Recreate:root-hash-differs", detail(s, "Recreate(%x).RootHash() = %x, %v", rt.hash, h, err)
			}
			if d := leavesDiff(nt, rt.hash, rt.contents); d != "" {
				return "Recreate:leaves-differ-from-commit", detail(s, "root %x committed with %s: %s", rt.hash, rt.ckey, d)
			}
			if sg, d := r.getsDiff(nt, rt.contents); sg != "" {
				return "Recreate:contents-differ-from-commit", detail(s, "root %x committed with %s: %s (%s)", rt.hash, rt.ckey, d, sg)
			}
		}
		for _, e := range [][]byte{nil, trie.EmptyTrieHash} {
			nt, err := s.tr.Recreate(e)
			if err != nil || nt == nil || nt.IsInterfaceNil() {
				return "Recreate:error-for-empty-root", detail(s, "Recreate(%x) returned %v", e, err)
			}
			h, err := nt.RootHash()
			if err != nil || !bytes.Equal(h, trie.EmptyTrieHash) {
				return "Recreate:empty-root-not-empty", detail(s, "Recreate(%x).RootHash() = %x, %v", e, h, err)
			}
			if sg, d := r.getsDiff(nt, map[string]string{}); sg != "" {
				return "Recreate:empty-root-not-empty", detail(s, "Recreate(%x): %s", e, d)
			}
		}
	}
	return "", ""
}

// replay re-runs one recorded history (operation names) under every level setting.
func (r *seqRun) replay(levels []uint) {
	var hist []string
	if err := json.Unmarshal(r.c.ReplayData, &hist); err != nil {
		r.c.Fatal("bad replay data: %v", err)
	}
	for _, lv := range levels {
		s := r.newInst(lv)
		p := mc.Try(func() {
			for n, name := range hist {
				i := -1
				for j := range r.names {
					if r.names[j] == name {
						i = j
					}
				}
				if i < 0 {
					r.c.Fatal("unknown operation %q in replay", name)
				}
				if !r.enabled(s, i) {
					return
				}
				sg, d := r.do(s, i)
				if sg == "" && n == len(hist)-1 {
					sg, d = r.check(s)
				}
				if sg != "" {
					r.c.Violation(sg, map[string]interface{}{"history": hist[:n+1], "what": d}, hist)
					return
				}
			}
		})
		if p != "" {
			r.c.Violation("panic", map[string]interface{}{"history": hist, "what": p, "level": lv}, hist)
		}
		r.c.Eval(1)
	}
}
