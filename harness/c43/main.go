// C43 — goroutine throttler bounds concurrent work.
// Real NumGoRoutinesThrottler with "sync/atomic" shimmed (every atomic operation is a
// scheduling point); 2-3 real goroutines under the cooperative scheduler; ALL schedules
// (unbounded preemptions) are enumerated by mc.Explore. Two drivers:
//
//	proto:    the call-site protocol  if CanProcess() { StartProcessing(); work; EndProcessing() }
//	resolver: the real resolvers.TrieNodeResolver.ProcessReceivedMessage (canProcessMessage,
//	          StartProcessing, defer EndProcessing) with stub sender/antiflood/trie getter;
//	          "work" is the stub trie getter.
//
// Oracles per execution, from the event log of an observing wrapper around the throttler:
//
//	(i)  counter integrity: counter == #Start-#End after every event and 0 at the end
//	(ii) admission locally correct: CanProcess()==true only when #Start-#End < max
//	(iii) the property: running tasks (#Start-#End) <= max at every point.
//
// An overshoot (iii) is classified: "explained by overlapping check/start windows" when
// another thread's StartProcessing falls between the offender's CanProcess and its
// StartProcessing (the check-then-act design of the API); anything else is unexplained.
package main

import (
	"fmt"
	"strings"

	"github.com/ElrondNetwork/elrond-go/core"
	"github.com/ElrondNetwork/elrond-go/core/throttler"
	"github.com/ElrondNetwork/elrond-go/dataRetriever"
	"github.com/ElrondNetwork/elrond-go/dataRetriever/mock"
	"github.com/ElrondNetwork/elrond-go/dataRetriever/resolvers"
	"github.com/ElrondNetwork/elrond-go/marshal"
	"github.com/ElrondNetwork/elrond-go/process/interceptors"
	"verif/engine/mc"
	"verif/engine/vsched"
)

type event struct {
	Thread int
	Kind   string // can+, can-, start, end
	After  int    // #Start-#End after the event
	Ctr    int32  // real counter after the event
}

type obs struct {
	th  *throttler.NumGoRoutinesThrottler
	log []event
	cur func() int
	run int
}

func (o *obs) CanProcess() bool {
	r := o.th.CanProcess()
	k := "can-"
	if r {
		k = "can+"
	}
	o.log = append(o.log, event{o.cur(), k, o.run, o.th.VerifCounter()})
	return r
}
func (o *obs) StartProcessing() {
	o.th.StartProcessing()
	o.run++
	o.log = append(o.log, event{o.cur(), "start", o.run, o.th.VerifCounter()})
}
func (o *obs) EndProcessing() {
	o.th.EndProcessing()
	o.run--
	o.log = append(o.log, event{o.cur(), "end", o.run, o.th.VerifCounter()})
}
func (o *obs) IsInterfaceNil() bool { return o == nil }

type trieGetter struct{ work func() }

func (t *trieGetter) GetSerializedNodes([]byte, uint64) ([][]byte, uint64, error) {
	t.work()
	return nil, 0, nil
}
func (t *trieGetter) GetSerializedNode([]byte) ([]byte, error) { t.work(); return []byte("node"), nil }
func (t *trieGetter) IsInterfaceNil() bool                     { return t == nil }

type scenario struct {
	Driver  string
	Threads int
	Rounds  int
	Max     int32
	BadMsg  bool   // resolver driver: thread 0's first message does not unmarshal (error path after Start)
	Kinds   string // interceptor driver: message kind per thread (see interceptor.go)
}

func main() {
	mc.Main("C43", "exploration", func(c *mc.Ctx) {
		c.Rule = "all schedules (scheduling point before every atomic operation of the real throttler, unbounded preemptions) of T threads x R rounds of the call-site protocol and of the real TrieNodeResolver.ProcessReceivedMessage; non-trivial = executions in which two threads' [CanProcess..EndProcessing] spans overlap in time"
		c.Assumptions = []string{"scheduling points at the throttler's atomic operations only (the code between them touches no shared state; a separate free-running -race pass is not needed because the throttler has no non-atomic shared state)",
			"known finding: the CanProcess/StartProcessing API is check-then-act; overshoots explained by overlapping windows are reported as KNOWN-FINDING, every other failure is a VIOLATION"}
		c.StopOnViolation = true
		var scs []scenario
		for _, d := range []string{"proto", "resolver"} {
			for _, max := range []int32{1, 2} {
				scs = append(scs, scenario{Driver: d, Threads: 2, Rounds: 1, Max: max, BadMsg: false}, scenario{Driver: d, Threads: 2, Rounds: 2, Max: max, BadMsg: false})
				if !c.Quick() || d == "proto" {
					scs = append(scs, scenario{Driver: d, Threads: 3, Rounds: 1, Max: max, BadMsg: false})
				}
				if !c.Quick() {
					scs = append(scs, scenario{Driver: d, Threads: 3, Rounds: 2, Max: max, BadMsg: false})
				}
			}
			if d == "resolver" {
				scs = append(scs, scenario{Driver: d, Threads: 2, Rounds: 2, Max: 1, BadMsg: true}, scenario{Driver: d, Threads: 3, Rounds: 1, Max: 2, BadMsg: true})
			}
		}
		// interceptor driver: every multiset of 2 (quick) / also 3 (thorough) message kinds
		for _, max := range []int32{1, 2} {
			for i := range msgKinds {
				for j := i; j < len(msgKinds); j++ {
					scs = append(scs, scenario{Driver: "interceptor", Threads: 2, Rounds: 1, Max: max, Kinds: string([]byte{msgKinds[i], msgKinds[j]})})
					if !c.Quick() && max == 2 {
						for k := j; k < len(msgKinds); k++ {
							scs = append(scs, scenario{Driver: "interceptor", Threads: 3, Rounds: 1, Max: max, Kinds: string([]byte{msgKinds[i], msgKinds[j], msgKinds[k]})})
						}
					}
				}
			}
		}
		// multi-data interceptor driver: every unordered pair of message kinds
		for _, max := range []int32{1, 2} {
			for i := range multiMsgs {
				for j := i; j < len(multiMsgs); j++ {
					scs = append(scs, scenario{Driver: "multi", Threads: 2, Rounds: 1, Max: max, Kinds: multiMsgs[i] + "|" + multiMsgs[j]})
				}
			}
		}
		total := int64(0)
		for _, sc := range scs {
			sc := sc
			st := mc.Explore(c, -1, 1, func(ch *mc.Chooser) { runOne(c, sc, ch) })
			total += st.Executions
			if sc.Driver == "interceptor" || sc.Driver == "multi" {
				c.Count(fmt.Sprintf("schedules[%s T=%d max=%d]", sc.Driver, sc.Threads, sc.Max), st.Executions)
			} else {
				c.Count(fmt.Sprintf("schedules[%s T=%d R=%d max=%d bad=%v]", sc.Driver, sc.Threads, sc.Rounds, sc.Max, sc.BadMsg), st.Executions)
			}
		}
		c.Bound = "unbounded preemptions; all schedules of every scenario"
		c.Set("scenarios", len(scs))
	})
}

func runOne(c *mc.Ctx, sc scenario, ch *mc.Chooser) {
	th, _ := throttler.NewNumGoRoutinesThrottler(sc.Max)
	o := &obs{th: th}
	o.cur = func() int { return vsched.Active().Running() }
	bodies := make([]func(), sc.Threads)
	work := func() { vsched.Yield("work") }
	var res *resolvers.TrieNodeResolver
	m := &marshal.GogoProtoMarshalizer{}
	var good, bad []byte
	if sc.Driver == "resolver" {
		var err error
		res, err = resolvers.NewTrieNodeResolver(resolvers.ArgTrieNodeResolver{
			SenderResolver:   &mock.TopicResolverSenderStub{},
			TrieDataGetter:   &trieGetter{work: work},
			Marshalizer:      m,
			AntifloodHandler: &mock.P2PAntifloodHandlerStub{},
			Throttler:        o,
		})
		if err != nil {
			c.Fatal("resolver: %v", err)
		}
		good, _ = m.Marshal(&dataRetriever.RequestData{Type: dataRetriever.HashType, Value: []byte("h")})
		bad = []byte{0xff, 0xff, 0xff}
	}
	var icp *interceptors.SingleDataInterceptor
	if sc.Driver == "interceptor" {
		var err error
		icp, err = newInterceptor(o, work)
		if err != nil {
			c.Fatal("interceptor: %v", err)
		}
	}
	var mcp *interceptors.MultiDataInterceptor
	var mkinds []string
	if sc.Driver == "multi" {
		var err error
		mcp, err = newMultiInterceptor(o, work)
		if err != nil {
			c.Fatal("multi interceptor: %v", err)
		}
		mkinds = strings.Split(sc.Kinds, "|")
	}
	for i := range bodies {
		i := i
		bodies[i] = func() {
			for r := 0; r < sc.Rounds; r++ {
				if sc.Driver == "multi" {
					_ = mcp.ProcessReceivedMessage(multiMsg(mkinds[i]), "connected")
					continue
				}
				if sc.Driver == "interceptor" {
					_ = icp.ProcessReceivedMessage(interceptorMsg(sc.Kinds[i]), "connected")
					continue
				}
				if sc.Driver == "proto" {
					if o.CanProcess() {
						o.StartProcessing()
						work()
						o.EndProcessing()
					}
				} else {
					data := good
					if sc.BadMsg && i == 0 && r == 0 {
						data = bad
					}
					_ = res.ProcessReceivedMessage(&mock.P2PMessageMock{DataField: data}, core.PeerID("p"))
				}
			}
		}
	}
	s := vsched.Run(ch, vsched.Options{Horizon: 2000}, bodies...)
	c.Outcome(fmt.Sprint(outcomeOf(o.log)))
	if s.Deadlock {
		c.Violation("deadlock", map[string]interface{}{"scenario": sc, "choices": ch.Choices()}, ch.Choices())
	}
	if s.HorizonHit {
		c.Cap("scheduler horizon")
	}
	if s.PanicValue != "" {
		c.Violation("panic", map[string]interface{}{"scenario": sc, "panic": s.PanicValue}, ch.Choices())
	}
	judge(c, sc, o, ch)
}

func outcomeOf(log []event) string {
	max := 0
	adm := 0
	for _, e := range log {
		if e.After > max {
			max = e.After
		}
		if e.Kind == "start" {
			adm++
		}
	}
	return fmt.Sprintf("peak=%d admitted=%d", max, adm)
}

func judge(c *mc.Ctx, sc scenario, o *obs, ch *mc.Chooser) {
	detail := func(what string) map[string]interface{} {
		return map[string]interface{}{"scenario": sc, "what": what, "events": o.log, "choices": ch.Choices()}
	}
	overlap := false
	for _, e := range o.log {
		if e.Kind == "start" && e.After >= 2 {
			overlap = true
		}
	}
	if overlap {
		c.Nontrivial(fmt.Sprint(sc, ch.Choices()))
		if c.WantSample() {
			c.Sample(map[string]interface{}{"scenario": sc, "schedule": ch.Labels(), "events": len(o.log)})
		}
	}
	lastCan := map[int]int{} // thread -> index of its last can+ event
	for i, e := range o.log {
		if e.After < 0 {
			c.Violation("end-processing-without-matching-start", detail(fmt.Sprintf("event %d: %d tasks between Start and End", i, e.After)), ch.Choices())
			return
		}
		if int32(e.After) != e.Ctr {
			c.Violation("counter-integrity", detail(fmt.Sprintf("event %d: counter %d but %d tasks between Start and End", i, e.Ctr, e.After)), ch.Choices())
			return
		}
		switch e.Kind {
		case "can+":
			if int32(e.After) >= sc.Max {
				c.Violation("admission-with-full-counter", detail(fmt.Sprintf("event %d: CanProcess true with %d running, max %d", i, e.After, sc.Max)), ch.Choices())
				return
			}
			lastCan[e.Thread] = i
		case "start":
			if int32(e.After) > sc.Max {
				// explained iff another thread's start lies inside this thread's window
				explained := false
				if ci, ok := lastCan[e.Thread]; ok {
					for j := ci + 1; j < i; j++ {
						if o.log[j].Kind == "start" && o.log[j].Thread != e.Thread {
							explained = true
						}
					}
				}
				if explained {
					c.ViolationR("overshoot-explained-by-overlapping-check-start-windows", len(o.log)*100+ch.Deviations(), detail(fmt.Sprintf("event %d: %d running, max %d", i, e.After, sc.Max)), ch.Choices())
				} else {
					c.Violation("overshoot-unexplained", detail(fmt.Sprintf("event %d: %d running, max %d", i, e.After, sc.Max)), ch.Choices())
				}
				return
			}
		}
	}
	if len(o.log) > 0 && o.log[len(o.log)-1].Ctr != 0 {
		c.Violation("counter-not-zero-at-quiescence", detail("counter != 0 after all tasks ended"), ch.Choices())
	}
	if o.th.VerifCounter() != 0 {
		c.Violation("counter-not-zero-at-quiescence", detail("counter != 0 after all tasks ended"), ch.Choices())
	}
}
