package main

// Third driver of C43: the real interceptors.SingleDataInterceptor.ProcessReceivedMessage —
// preProcessMesage (CanProcess / StartProcessing), every early-exit path with its
// EndProcessing, and the worker goroutine (made a scheduled thread by the gostmt rewrite of
// profile c43) that ends with EndProcessing. Message kinds select the path.

import (
	"errors"
	"fmt"

	"github.com/ElrondNetwork/elrond-go/core"
	"github.com/ElrondNetwork/elrond-go/data/batch"
	"github.com/ElrondNetwork/elrond-go/marshal"
	"github.com/ElrondNetwork/elrond-go/process"
	"github.com/ElrondNetwork/elrond-go/process/interceptors"
	"github.com/ElrondNetwork/elrond-go/process/mock"
	"github.com/ElrondNetwork/elrond-go/testscommon"
	"github.com/ElrondNetwork/elrond-go/testscommon/p2pmocks"
)

// message kinds: k ok, c create fails, v invalid, w wrong version, e originator not
// eligible, o other shard, x processor.Validate fails, s processor.Save fails
var msgKinds = []byte("kcvweoxs")

type procStub struct{ work func() }

func (p *procStub) Validate(d process.InterceptedData, _ core.PeerID) error {
	if string(d.Hash()) == "x" {
		return errors.New("validate failed")
	}
	return nil
}
func (p *procStub) Save(d process.InterceptedData, _ core.PeerID, _ string) error {
	p.work()
	if string(d.Hash()) == "s" {
		return errors.New("save failed")
	}
	return nil
}
func (p *procStub) RegisterHandler(func(topic string, hash []byte, data interface{})) {}
func (p *procStub) IsInterfaceNil() bool                                              { return p == nil }

func stubFactory() process.InterceptedDataFactory {
	return &mock.InterceptedDataFactoryStub{CreateCalled: func(buff []byte) (process.InterceptedData, error) {
		k := buff[0]
		if k == 'c' {
			return nil, errors.New("cannot create")
		}
		return &testscommon.InterceptedDataStub{
			CheckValidityCalled: func() error {
				switch k {
				case 'v':
					return errors.New("invalid")
				case 'w':
					return process.ErrInvalidTransactionVersion
				}
				return nil
			},
			IsForCurrentShardCalled: func() bool { return k != 'o' },
			HashCalled:              func() []byte { return []byte{k} },
		}, nil
	}}
}

func newInterceptor(o *obs, work func()) (*interceptors.SingleDataInterceptor, error) {
	return interceptors.NewSingleDataInterceptor(interceptors.ArgSingleDataInterceptor{
		Topic:       "topic",
		DataFactory: stubFactory(),
		Processor:   &procStub{work: work},
		Throttler:   o,
		AntifloodHandler: &mock.P2PAntifloodHandlerStub{
			IsOriginatorEligibleForTopicCalled: func(pid core.PeerID, topic string) error {
				if pid == "e" {
					return errors.New("not eligible")
				}
				return nil
			},
		},
		WhiteListRequest:     &testscommon.WhiteListHandlerStub{},
		PreferredPeersHolder: &p2pmocks.PeersHolderStub{},
		CurrentPeerId:        "self",
	})
}

// multi-data interceptor: a message is a batch of items; message kinds: "u" unmarshalable,
// "z" empty batch, otherwise one item per character (item kinds as above)
var multiMsgs = []string{"u", "z", "k", "c", "v", "w", "e", "o", "x", "s", "kk", "kw", "wk", "kc"}

func newMultiInterceptor(o *obs, work func()) (*interceptors.MultiDataInterceptor, error) {
	return interceptors.NewMultiDataInterceptor(interceptors.ArgMultiDataInterceptor{
		Topic:       "topic",
		Marshalizer: &marshal.GogoProtoMarshalizer{},
		DataFactory: stubFactory(),
		Processor:   &procStub{work: work},
		Throttler:   o,
		AntifloodHandler: &mock.P2PAntifloodHandlerStub{
			IsOriginatorEligibleForTopicCalled: func(pid core.PeerID, topic string) error {
				if pid == "e" {
					return errors.New("not eligible")
				}
				return nil
			},
		},
		WhiteListRequest:     &testscommon.WhiteListHandlerStub{},
		PreferredPeersHolder: &p2pmocks.PeersHolderStub{},
		CurrentPeerId:        "self",
	})
}

func multiMsg(kind string) *mock.P2PMessageMock {
	var data []byte
	switch kind {
	case "u":
		data = []byte{0xff, 0xff, 0xff}
	case "z":
		data, _ = (&marshal.GogoProtoMarshalizer{}).Marshal(&batch.Batch{})
	default:
		b := &batch.Batch{}
		for i := 0; i < len(kind); i++ {
			b.Data = append(b.Data, []byte{kind[i]})
		}
		data, _ = (&marshal.GogoProtoMarshalizer{}).Marshal(b)
	}
	return &mock.P2PMessageMock{DataField: data, PeerField: core.PeerID(kind[:1]), FromField: []byte("from"), SignatureField: []byte("sig"), SeqNoField: []byte{1}}
}

func interceptorMsg(kind byte) *mock.P2PMessageMock {
	return &mock.P2PMessageMock{DataField: []byte{kind}, PeerField: core.PeerID(string([]byte{kind})), FromField: []byte("from"), SignatureField: []byte("sig"), SeqNoField: []byte{1}}
}

func kindsName(ks []byte) string { return fmt.Sprintf("%q", string(ks)) }
