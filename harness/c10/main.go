// C10 — state snapshots and checkpoints are complete, also concurrently with commits and pruning.
//
// Real AccountsDB + trie + trieStorageManager (in-memory DBs) + storagePruningManager +
// evictionWaitingList. Through the overlay profile c10 the goroutines the code spawns
// (AccountsDB.SnapshotState / SetStateCheckpoint workers, trieStorageManager's
// storageProcessLoop) become scheduled threads of vsched, their blocking channel receives
// become visible waits, the storage manager's mutex operations and every operation on the
// MAIN trie database are scheduling points. The block-processing thread runs: build state,
// snapshot/checkpoint of root n, then two more blocks each followed by finalisation (the real
// updateStateStorage pruning calls) — so commits and prunes race with the snapshot traversal.
// ALL schedules up to the preemption bound are executed (mc.Explore). Oracle when everything
// has finished: a storage manager over ONLY the newest snapshot database recreates the
// snapshotted root: every node of the main trie and of the account data trie is present and
// the contents equal the reference state of that block; pruning is unblocked again; the
// current root is still completely readable from the main database; no deadlock.
package main

import (
	"bytes"
	"encoding/json"
	"fmt"
	"math/big"
	"os"
	"strings"
	"time"

	logger "github.com/ElrondNetwork/elrond-go-logger"
	"github.com/ElrondNetwork/elrond-go/config"
	"github.com/ElrondNetwork/elrond-go/data"
	"github.com/ElrondNetwork/elrond-go/data/state"
	"github.com/ElrondNetwork/elrond-go/data/state/factory"
	"github.com/ElrondNetwork/elrond-go/data/state/storagePruningManager"
	"github.com/ElrondNetwork/elrond-go/data/state/storagePruningManager/disabled"
	"github.com/ElrondNetwork/elrond-go/data/state/storagePruningManager/evictionWaitingList"
	"github.com/ElrondNetwork/elrond-go/data/trie"
	"github.com/ElrondNetwork/elrond-go/data/trie/hashesHolder"
	"github.com/ElrondNetwork/elrond-go/hashing/blake2b"
	"github.com/ElrondNetwork/elrond-go/marshal"
	"github.com/ElrondNetwork/elrond-go/storage/memorydb"
	"verif/engine/mc"
	"verif/engine/vsched"
)

var (
	hasher      = blake2b.NewBlake2b()
	marshalizer = &marshal.GogoProtoMarshalizer{}
	addrA       = append(bytes.Repeat([]byte{1}, 30), 0xA0, 0x11)
	addrD       = append(bytes.Repeat([]byte{1}, 31), 0x21)
	addrS       = append(append(make([]byte, 8), 5, 0), bytes.Repeat([]byte{0x5C}, 22)...)
	addrT       = append(append(make([]byte, 8), 5, 0), bytes.Repeat([]byte{0x6D}, 22)...)
)

// mainDB is the main trie database: every operation is a scheduling point.
type mainDB struct {
	in      *memorydb.DB
	removes int
	gets    int
}

func (d *mainDB) Put(k, v []byte) error { vsched.Yield("db.Put"); return d.in.Put(k, v) }
func (d *mainDB) Get(k []byte) ([]byte, error) {
	vsched.Yield("db.Get")
	d.gets++
	return d.in.Get(k)
}
func (d *mainDB) Remove(k []byte) error {
	vsched.Yield("db.Remove")
	d.removes++
	return d.in.Remove(k)
}
func (d *mainDB) Close() error         { return d.in.Close() }
func (d *mainDB) IsInterfaceNil() bool { return d == nil }

type ref struct {
	balA  int64
	nonce uint64
	store map[string]map[string]string // account -> key -> value
}

func (r ref) clone() ref {
	n := ref{balA: r.balA, nonce: r.nonce, store: map[string]map[string]string{}}
	for a, m := range r.store {
		n.store[a] = map[string]string{}
		for k, v := range m {
			n.store[a][k] = v
		}
	}
	return n
}

type world struct {
	db     *mainDB
	tsm    data.StorageManager
	adb    *state.AccountsDB
	roots  [][]byte
	refs   []ref
	failed string
}

func must(err error) {
	if err != nil {
		panic(err)
	}
}

func (w *world) build() {
	w.db = &mainDB{in: memorydb.New()}
	cfg := config.TrieStorageManagerConfig{PruningBufferLen: 1000, SnapshotsBufferLen: 10, MaxSnapshots: 2}
	tsm, err := trie.NewTrieStorageManager(trie.NewTrieStorageManagerArgs{
		DB: w.db, Marshalizer: marshalizer, Hasher: hasher,
		SnapshotDbConfig:       config.DBConfig{Type: "MemoryDB"},
		GeneralConfig:          cfg,
		CheckpointHashesHolder: hashesHolder.NewCheckpointHashesHolder(10000000, uint64(hasher.Size())),
	})
	must(err)
	w.tsm = tsm
	tr, err := trie.NewTrie(tsm, marshalizer, hasher, 5)
	must(err)
	ewl, err := evictionWaitingList.NewEvictionWaitingList(100, memorydb.New(), marshalizer)
	must(err)
	spm, err := storagePruningManager.NewStoragePruningManager(ewl, cfg.PruningBufferLen)
	must(err)
	w.adb, err = state.NewAccountsDB(tr, hasher, marshalizer, factory.NewAccountCreator(), spm)
	must(err)
	w.refs = []ref{{store: map[string]map[string]string{}}}
	w.roots = [][]byte{nil}
}

type write struct{ acc, key, val string }

var accAddr = map[string][]byte{"S": addrS, "T": addrT}

// block applies the writes (plus the driver nonce bump and a transfer to A) and commits.
func (w *world) block(ws ...write) {
	r := w.refs[len(w.refs)-1].clone()
	d, err := w.adb.LoadAccount(addrD)
	must(err)
	d.(state.UserAccountHandler).IncreaseNonce(1)
	must(w.adb.SaveAccount(d))
	r.nonce++
	a, err := w.adb.LoadAccount(addrA)
	must(err)
	must(a.(state.UserAccountHandler).AddToBalance(big.NewInt(1)))
	must(w.adb.SaveAccount(a))
	r.balA++
	for _, x := range ws {
		s, err := w.adb.LoadAccount(accAddr[x.acc])
		must(err)
		ua := s.(state.UserAccountHandler)
		must(ua.DataTrieTracker().SaveKeyValue([]byte(x.key), []byte(x.val)))
		must(w.adb.SaveAccount(ua))
		if r.store[x.acc] == nil {
			r.store[x.acc] = map[string]string{}
		}
		r.store[x.acc][x.key] = x.val
	}
	root, err := w.adb.Commit()
	must(err)
	w.roots = append(w.roots, append([]byte{}, root...))
	w.refs = append(w.refs, r)
}

// finalize is what baseProcessor.updateStateStorage does when block i became final with an
// empty pruning queue: the previous root's obsolete nodes are released.
func (w *world) finalize(i int) {
	if bytes.Equal(w.roots[i-1], w.roots[i]) {
		return
	}
	w.adb.CancelPrune(w.roots[i-1], data.NewRoot)
	w.adb.PruneTrie(w.roots[i-1], data.OldRoot)
}

// readAll recreates root over db alone and compares everything with r.
func readAll(db data.DBWriteCacher, root []byte, r ref) string {
	sm, err := trie.NewTrieStorageManagerWithoutPruning(db)
	must(err)
	base, err := trie.NewTrie(sm, marshalizer, hasher, 5)
	must(err)
	tr, err := base.Recreate(root)
	if err != nil {
		return "root-not-recreatable: " + err.Error()
	}
	if _, err = tr.GetAllHashes(); err != nil {
		return "main-trie-node-missing: " + err.Error()
	}
	view, err := state.NewAccountsDB(tr, hasher, marshalizer, factory.NewAccountCreator(), disabled.NewDisabledStoragePruningManager())
	must(err)
	all, err := view.RecreateAllTries(root)
	if err != nil {
		return "data-trie-root-missing: " + err.Error()
	}
	for rt, t := range all {
		if rt == string(root) {
			continue
		}
		if _, err = t.GetAllHashes(); err != nil {
			return "data-trie-node-missing: " + err.Error()
		}
	}
	var diffs []string
	a, err := view.GetExistingAccount(addrA)
	if err != nil {
		return "account-unreadable: A: " + err.Error()
	}
	if a.(state.UserAccountHandler).GetBalance().Int64() != r.balA {
		diffs = append(diffs, "A.balance")
	}
	d, err := view.GetExistingAccount(addrD)
	if err != nil {
		return "account-unreadable: D: " + err.Error()
	}
	if d.GetNonce() != r.nonce {
		diffs = append(diffs, "D.nonce")
	}
	for name, ad := range accAddr {
		want := r.store[name]
		s, err := view.GetExistingAccount(ad)
		if err != nil {
			if len(want) > 0 {
				return "account-unreadable: " + name + ": " + err.Error()
			}
			continue
		}
		for _, k := range []string{"k1", "k2", "zk1"} {
			v, err := s.(state.UserAccountHandler).DataTrieTracker().RetrieveValue([]byte(k))
			if err != nil && err != state.ErrNilTrie {
				return "storage-unreadable: " + name + "." + k + ": " + err.Error()
			}
			if string(v) != want[k] {
				diffs = append(diffs, fmt.Sprintf("%s.%s=%q want %q", name, k, v, want[k]))
			}
		}
	}
	if len(diffs) > 0 {
		return "content-differs: " + strings.Join(diffs, ",")
	}
	return ""
}

// mainTrieComplete reports whether every node of the main trie of root is in db.
func mainTrieComplete(db data.DBWriteCacher, root []byte) bool {
	sm, err := trie.NewTrieStorageManagerWithoutPruning(db)
	must(err)
	base, err := trie.NewTrie(sm, marshalizer, hasher, 5)
	must(err)
	tr, err := base.Recreate(root)
	if err != nil {
		return false
	}
	_, err = tr.GetAllHashes()
	return err == nil
}

type scenario struct {
	Name string
	// run is the block-processing thread after the common prefix; it returns the indices of
	// the roots that were snapshotted / checkpointed.
	run  func(w *world) []int
	kind string // how the judged root was taken: snapshot | checkpoint
}

func scenarios() []scenario {
	prefix := func(w *world) {
		w.build()
		// "k1" is a byte-suffix of "zk1": the k1 leaf hangs in the terminator slot (16) of a
		// branch of S's data trie (added after the independent seed C10-2)
		w.block(write{"S", "k1", "x"}, write{"S", "k2", "x"}, write{"S", "zk1", "x"}, write{"T", "k1", "x"}) // root 1
		w.block(write{"S", "k1", "yy"})                                                                      // root 2
		w.finalize(2)
	}
	tail := func(w *world, from int) {
		w.block(write{"S", "k1", "x"}, write{"T", "k1", "yy"}) // root from
		w.finalize(from)
		w.block(write{"S", "k2", "yy"}) // root from+1
		w.finalize(from + 1)
	}
	return []scenario{
		{"snapshot(root2) || 2 blocks+prunes", func(w *world) []int {
			prefix(w)
			w.adb.SnapshotState(w.roots[2])
			tail(w, 3)
			return []int{2}
		}, "snapshot"},
		{"checkpoint(root2) || 2 blocks+prunes", func(w *world) []int {
			prefix(w)
			w.adb.SetStateCheckpoint(w.roots[2])
			tail(w, 3)
			return []int{2}
		}, "checkpoint"},
		{"snapshot(root2), block, checkpoint(root3) || block+prunes", func(w *world) []int {
			prefix(w)
			w.adb.SnapshotState(w.roots[2])
			w.block(write{"S", "k1", "x"}, write{"T", "k1", "yy"}) // root 3
			w.adb.SetStateCheckpoint(w.roots[3])
			w.finalize(3)
			w.block(write{"S", "k2", "yy"}) // root 4
			w.finalize(4)
			return []int{3}
		}, "checkpoint"},
		// thorough-tier scenarios
		{"checkpoint(root2), block, snapshot(root3) || block+prunes", func(w *world) []int {
			prefix(w)
			w.adb.SetStateCheckpoint(w.roots[2])
			w.block(write{"S", "k1", "x"}, write{"T", "k1", "yy"}) // root 3
			w.adb.SnapshotState(w.roots[3])
			w.finalize(3)
			w.block(write{"S", "k2", "yy"}) // root 4
			w.finalize(4)
			return []int{3}
		}, "snapshot"},
		{"snapshot(root2) || block, rollback (prune new root), block+prune", func(w *world) []int {
			prefix(w)
			w.adb.SnapshotState(w.roots[2])
			w.block(write{"S", "k1", "x"}) // root 3, then rolled back
			must(w.adb.RecreateTrie(w.roots[2]))
			w.adb.CancelPrune(w.roots[2], data.OldRoot)
			w.adb.PruneTrie(w.roots[3], data.NewRoot)
			w.roots, w.refs = w.roots[:3], w.refs[:3]
			w.block(write{"S", "k2", "yy"}, write{"T", "k1", "yy"}) // new root 3
			w.finalize(3)
			return []int{2}
		}, "snapshot"},
	}
}

func main() {
	logger.SetLogLevel("*:NONE")
	mc.Main("C10", "exploration", func(c *mc.Ctx) {
		bound := 1
		c.StopOnViolation = true
		c.Rule = fmt.Sprintf("3 scenarios in the quick tier (snapshot; checkpoint; snapshot then checkpoint of a later root) and 2 more in the thorough tier (checkpoint then snapshot; snapshot racing with a rollback) in which the block-processing thread commits 2 further blocks and prunes after each while the snapshot worker, the storage manager's process loop and the data-trie snapshot requests run as scheduled threads; scheduling points = every main-DB operation, the storage manager's mutex operations, thread start and visible channel waits; all schedules with <= %d preemptions; non-trivial = schedules in which a DB Remove (prune) ran or a prune request arrived while the snapshot threads were still running", bound)
		c.Bound = fmt.Sprintf("preemption bound %d (every scenario), horizon 20000 points", bound)
		c.Assumptions = []string{"channel buffers (leaves channel 100, snapshot request queue 10) never fill in these scenarios, so sends never block",
			"the goroutines and blocking receives of accountsDB.go / trieStorageManager.go are made visible to the scheduler by exact-text overlay substitutions (ovl/subst/c10_*.txt); the build is refused if a pattern no longer matches",
			"production buffer sizes; snapshot databases are in-memory and not scheduling points (they are private to the snapshot threads)",
			"map iteration inside data/state, data/trie and the pruning packages is pinned to sorted key order by the map-range rewrite (Go's random order would make executions non-replayable); other map orders are not explored here"}
		if len(c.ReplayData) > 0 {
			var rp struct {
				Scenario int
				Choices  []int
			}
			if err := json.Unmarshal(c.ReplayData, &rp); err != nil {
				c.Fatal("bad replay data: %v", err)
			}
			logger.SetLogLevel("*:DEBUG")
			sc := scenarios()[rp.Scenario]
			ch := mc.Replay(rp.Choices, func(ch *mc.Chooser) { trace = true; runOne(c, rp.Scenario, sc, ch) })
			_ = ch
			c.Nontrivial("replay-a")
			c.Nontrivial("replay-b")
			return
		}
		for si, sc := range scenarios() {
			sc := sc
			if c.Quick() && si >= 3 {
				continue
			}
			st := mc.Explore(c, bound, 1, func(ch *mc.Chooser) { runOne(c, si, sc, ch) })
			c.Count("schedules["+sc.Name+"]", st.Executions)
			c.Count("max_points["+sc.Name+"]", int64(st.MaxPoints))
		}
		if !c.Quick() && c.NumViolations() == 0 {
			// deeper: preemption bound 2, scenario by scenario, each time-boxed (whatever fits in
			// the budget is explored depth-first and a cap is reported; bound 1 above stays the
			// bound completed for every scenario)
			done2 := []string{}
			for si, sc := range scenarios() {
				if only := os.Getenv("VERIF_C10_BOUND2"); only != "" && !strings.Contains(only, fmt.Sprint(si)) {
					continue
				}
				si, sc := si, sc
				saved := c.Deadline
				c.Deadline = time.Now().Add(4 * time.Minute)
				c.TolerateDivergence = true // deeper schedules reach nondeterminism the rewrites do not pin
				st := mc.Explore(c, 2, 1, func(ch *mc.Chooser) { runOne(c, si, sc, ch) })
				c.TolerateDivergence = false
				if !st.Capped && !st.Diverged {
					done2 = append(done2, fmt.Sprint(si+1))
				}
				c.Deadline = saved
				c.Count("schedules_bound2["+sc.Name+"]", st.Executions)
				if c.NumViolations() > 0 {
					break
				}
			}
			c.Bound += fmt.Sprintf("; preemption bound 2 completed for scenarios %v (4-minute box each)", done2)
		}
	})
}

var trace bool

func runOne(c *mc.Ctx, si int, sc scenario, ch *mc.Chooser) {
	w := &world{}
	var snapRoots []int
	var removesAtEnd0 int
	s := vsched.Run(ch, vsched.Options{Horizon: 20000, KeepTrace: trace}, func() {
		snapRoots = sc.run(w)
		removesAtEnd0 = w.db.removes
	})
	desc := func(what string) map[string]interface{} {
		return map[string]interface{}{"scenario": sc.Name, "what": what, "preemptions": s.Preemptions, "schedule": ch.Choices()}
	}
	if trace {
		for i, t := range s.Trace {
			fmt.Fprintf(os.Stderr, "%4d %s\n", i, t)
		}
	}
	if s.PanicValue != "" {
		c.ViolationR("panic", ch.Deviations(), desc(s.PanicValue), map[string]interface{}{"scenario": si, "choices": ch.Choices()})
		return
	}
	if s.Deadlock {
		c.ViolationR("deadlock", ch.Deviations(), desc("no enabled thread while a regular thread has not finished"), map[string]interface{}{"scenario": si, "choices": ch.Choices()})
		return
	}
	if s.HorizonHit {
		c.Cap("scheduler horizon")
		return
	}
	// the scheduler is inactive now: everything below runs free
	if n := trie.VerifC10PruningBlockingOps(w.tsm); n != 0 {
		c.ViolationR("pruning-left-blocked-after-snapshot-finished", ch.Deviations(), desc(fmt.Sprintf("pruningBlockingOps=%d", n)), map[string]interface{}{"scenario": si, "choices": ch.Choices()})
	}
	dbs := trie.VerifC10SnapshotDBs(w.tsm)
	if len(dbs) == 0 {
		c.ViolationR("no-snapshot-db-created", ch.Deviations(), desc(""), map[string]interface{}{"scenario": si, "choices": ch.Choices()})
		return
	}
	// "the snapshot" of a root is the snapshot database it was written to: some single snapshot
	// database must recreate the root completely (a checkpoint goes to the database that is the
	// newest one when it is processed, which need not be the newest one at the end)
	kinds := map[int]string{}
	for _, ri := range snapRoots {
		kinds[ri] = sc.kind
	}
	for _, ri := range snapRoots {
		var msgs []string
		ok := false
		for di := len(dbs) - 1; di >= 0; di-- {
			msg := readAll(dbs[di], w.roots[ri], w.refs[ri])
			if msg == "" {
				ok = true
				break
			}
			msgs = append(msgs, fmt.Sprintf("db#%d: %s", di, msg))
		}
		if !ok {
			cls := msgs[0][strings.Index(msgs[0], ": ")+2:]
			if i := strings.Index(cls, ":"); i > 0 {
				cls = cls[:i]
			}
			sig := "snapshot-incomplete:" + cls
			// known race: a checkpoint whose main trie went to snapshot db i while a snapshot
			// with a NEW db was processed before the checkpoint's data-trie entries: they are
			// then written to (or expected in) the newer db. Explained iff the root was
			// checkpointed (not snapshotted) and its main trie is complete in an older db.
			if kinds[ri] == "checkpoint" {
				for di := 0; di < len(dbs)-1; di++ {
					if mainTrieComplete(dbs[di], w.roots[ri]) {
						sig = "checkpoint-incomplete:newer-snapshot-db-created-between-its-main-trie-and-its-data-tries"
					}
				}
			}
			c.ViolationR(sig, ch.Deviations(), desc(fmt.Sprintf("root %d is not recreatable from any single snapshot db (%d dbs): %s", ri, len(dbs), strings.Join(msgs, " | "))), map[string]interface{}{"scenario": si, "choices": ch.Choices()})
		}
	}
	cur := len(w.roots) - 1
	if msg := readAll(w.db.in, w.roots[cur], w.refs[cur]); msg != "" {
		cls := msg
		if i := strings.Index(msg, ":"); i > 0 {
			cls = msg[:i]
		}
		c.ViolationR("current-root-unreadable-from-main-db:"+cls, ch.Deviations(), desc(msg), map[string]interface{}{"scenario": si, "choices": ch.Choices()})
	}
	c.Outcome(fmt.Sprintf("%d removes=%d snaps=%d", si, w.db.removes, len(dbs)))
	if s.Preemptions > 0 && w.db.removes > 0 {
		c.Nontrivial(fmt.Sprint(si, map[string]interface{}{"scenario": si, "choices": ch.Choices()}))
		if c.WantSample() {
			c.Sample(map[string]interface{}{"scenario": sc.Name, "schedule_len": len(map[string]interface{}{"scenario": si, "choices": ch.Choices()}), "preemptions": s.Preemptions, "db_removes": w.db.removes, "removes_when_main_thread_ended": removesAtEnd0})
		}
	}
	_ = w.adb.Close()
	_ = w.tsm.Close()
}
