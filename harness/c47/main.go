// C47 — an accepted genesis configuration accounts for the whole supply.
//
// Seam: the real genesis/parsing.NewAccountsParser reading JSON files that the harness writes
// under /verif/.cache/tmp-c47-<pid>/ (removed at the end), the real bech32 address converter
// (length 32) and the real ed25519 transaction key generator, as wired in node/nodeRunner.go.
//
// Enumerated: all lists of 1 and 2 entries over an entry menu (address text x balance x staked
// x delegation form x declared supply = sum-1 / sum / sum+1), lists of 3 with reduced menus,
// each with configured entire supply = (sum of declared supplies) -1 / +0 / +1.
//
// Oracle (exactly the statement, one direction): if NewAccountsParser returns no error then
//
//	(1) every entry's declared supply == balance + staked + delegated value,
//	(2) the declared supplies add up to the configured entire supply,
//	(3) no entry's address is a smart-contract address,
//	(4) no two entries denote the same address: the harness knows which 32 bytes each address
//	    text of its menu denotes (lower-case / upper-case bech32 forms of the same bytes are
//	    the same address).
//
// An accepted file with an entry whose address text denotes no address at all makes (3)/(4)
// meaningless and is reported under its own signature. Rejections are never judged (the
// statement is "accepted only if"); a panic of the parser is counted, not judged.
package main

import (
	"bytes"
	"encoding/json"
	"errors"
	"fmt"
	"math/big"
	"os"
	"path/filepath"
	"strings"

	"github.com/ElrondNetwork/elrond-go/core"
	"github.com/ElrondNetwork/elrond-go/core/pubkeyConverter"
	"github.com/ElrondNetwork/elrond-go/crypto"
	"github.com/ElrondNetwork/elrond-go/crypto/signing"
	"github.com/ElrondNetwork/elrond-go/crypto/signing/ed25519"
	"github.com/ElrondNetwork/elrond-go/genesis"
	"github.com/ElrondNetwork/elrond-go/genesis/parsing"
	"verif/engine/mc"
)

// ---- menus -----------------------------------------------------------------------------

type addrForm struct {
	Name  string
	Text  string
	Bytes []byte // nil: the text denotes no address
}

var addrs []addrForm      // entry address menu
var delegAddrs []addrForm // delegation address menu: none / d1 / malformed

// entry is one genesis entry as written to the file (all numbers as decimal strings).
type entry struct {
	A   int    `json:"a"`   // index in addrs
	Bal string `json:"bal"` // balance
	Stk string `json:"stk"` // staking value
	DV  string `json:"dv"`  // delegation value
	DA  int    `json:"da"`  // index in delegAddrs; -1: the "delegation" object is omitted
	Sup string `json:"sup"` // declared supply
}

type fileCase struct {
	Entries []entry `json:"entries"`
	Total   string  `json:"total"` // configured entire supply
}

func (e entry) jsonText() string {
	d := ""
	if e.DA >= 0 {
		d = fmt.Sprintf(`,"delegation":{"address":%q,"value":%q}`, delegAddrs[e.DA].Text, e.DV)
	}
	return fmt.Sprintf(`{"address":%q,"supply":%q,"balance":%q,"stakingvalue":%q%s}`, addrs[e.A].Text, e.Sup, e.Bal, e.Stk, d)
}

func (e entry) short() string {
	d := "-"
	if e.DA >= 0 {
		d = e.DV + "@" + delegAddrs[e.DA].Name
	}
	return fmt.Sprintf("%s{sup %s = bal %s + stk %s + dlg %s}", addrs[e.A].Name, e.Sup, e.Bal, e.Stk, d)
}

func bi(s string) *big.Int {
	v, ok := new(big.Int).SetString(s, 10)
	if !ok {
		panic("bad number " + s)
	}
	return v
}

func (e entry) sum() *big.Int {
	s := new(big.Int).Add(bi(e.Bal), bi(e.Stk))
	if e.DA >= 0 {
		s.Add(s, bi(e.DV))
	}
	return s
}

type delegForm struct {
	dv string
	da int
}

// buildEntries makes the product menu; the declared supply is sum+delta.
func buildEntries(addrIdx []int, bals, stks []string, dels []delegForm, deltas []int64) []entry {
	var r []entry
	for _, a := range addrIdx {
		for _, b := range bals {
			for _, s := range stks {
				for _, d := range dels {
					for _, dl := range deltas {
						e := entry{A: a, Bal: b, Stk: s, DV: d.dv, DA: d.da}
						e.Sup = new(big.Int).Add(e.sum(), big.NewInt(dl)).String()
						r = append(r, e)
					}
				}
			}
		}
	}
	return r
}

// ---- run one file ----------------------------------------------------------------------

var errClasses = []error{
	genesis.ErrInvalidEntireSupply, genesis.ErrEntireSupplyMismatch, genesis.ErrEmptyAddress, genesis.ErrInvalidAddress,
	genesis.ErrInvalidPubKey, genesis.ErrEmptyDelegationAddress, genesis.ErrInvalidDelegationAddress, genesis.ErrInvalidSupply,
	genesis.ErrInvalidBalance, genesis.ErrInvalidStakingBalance, genesis.ErrInvalidDelegationValue, genesis.ErrSupplyMismatch,
	genesis.ErrDuplicateAddress, genesis.ErrAddressIsSmartContract,
}

type env struct {
	c     *mc.Ctx
	conv  core.PubkeyConverter
	kg    crypto.KeyGenerator
	files chan *genFile
}

// genFile is one scratch genesis file, rewritten in place for every case. It is never
// truncated (truncating a file costs ~5 ms on this file system): a shorter document is padded
// with trailing spaces up to the longest one written so far, which keeps it a valid JSON file.
type genFile struct {
	path string
	f    *os.File
	max  int
}

func (g *genFile) write(text string) error {
	b := []byte(text)
	if len(b) < g.max {
		b = append(b, bytes.Repeat([]byte{' '}, g.max-len(b))...)
	}
	g.max = len(b)
	_, err := g.f.WriteAt(b, 0)
	return err
}

func (ev *env) run(fc fileCase, rank int) {
	c := ev.c
	c.Eval(1)
	parts := make([]string, len(fc.Entries))
	for i, e := range fc.Entries {
		parts[i] = e.jsonText()
	}
	text := "[" + strings.Join(parts, ",") + "]"
	gf := <-ev.files
	defer func() { ev.files <- gf }()
	if err := gf.write(text); err != nil {
		c.Fatal("cannot write %s: %v", gf.path, err)
	}
	path := gf.path
	var err error
	p := mc.Try(func() { _, err = parsing.NewAccountsParser(path, bi(fc.Total), ev.conv, ev.kg) })
	if p != "" {
		c.Count("parser_panics", 1)
		c.Outcome("panic")
		return
	}
	if err != nil {
		cls := "other-error"
		for _, e := range errClasses {
			if errors.Is(err, e) {
				cls = e.Error()
			}
		}
		c.Count("rejected", 1)
		c.Outcome(fmt.Sprintf("rejected/%d/%s", len(fc.Entries), cls))
		return
	}
	// accepted
	c.Count("accepted", 1)
	c.Outcome(fmt.Sprintf("accepted/%d", len(fc.Entries)))
	short := make([]string, len(fc.Entries))
	for i, e := range fc.Entries {
		short[i] = e.short()
	}
	det := func(extra string) map[string]interface{} {
		return map[string]interface{}{"entries": short, "entire_supply": fc.Total, "file": text, "what": extra}
	}
	total := new(big.Int)
	for i, e := range fc.Entries {
		if bi(e.Sup).Cmp(e.sum()) != 0 {
			c.ViolationR("accepted:entry-supply-differs-from-balance+staked+delegated", rank, det(fmt.Sprintf("entry %d", i)), fc)
		}
		total.Add(total, bi(e.Sup))
		a := addrs[e.A]
		if a.Bytes == nil {
			c.ViolationR("accepted:entry-address-denotes-no-address", rank, det(fmt.Sprintf("entry %d address %q", i, a.Text)), fc)
			continue
		}
		if core.IsSmartContractAddress(a.Bytes) {
			c.ViolationR("accepted:entry-is-a-smart-contract-address", rank, det(fmt.Sprintf("entry %d", i)), fc)
		}
		for j := 0; j < i; j++ {
			b := addrs[fc.Entries[j].A]
			if b.Bytes != nil && bytes.Equal(a.Bytes, b.Bytes) {
				sig := "accepted:same-address-twice:texts-differ-in-letter-case"
				if a.Text == b.Text {
					sig = "accepted:same-address-twice:identical-text"
				}
				c.ViolationR(sig, rank, det(fmt.Sprintf("entries %d and %d denote %x", j, i, a.Bytes)), fc)
			}
		}
	}
	if total.Cmp(bi(fc.Total)) != 0 {
		c.ViolationR("accepted:supplies-do-not-add-up-to-entire-supply", rank, det("sum of supplies "+total.String()), fc)
	}
	if len(fc.Entries) >= 2 {
		c.Nontrivial(text + "|" + fc.Total)
		if c.WantSample() {
			c.Sample(map[string]interface{}{"entries": short, "entire_supply": fc.Total})
		}
	}
}

func main() {
	mc.Main("C47", "exploration", func(c *mc.Ctx) {
		conv, err := pubkeyConverter.NewBech32PubkeyConverter(32)
		if err != nil {
			c.Fatal("converter: %v", err)
		}
		kg := signing.NewKeyGenerator(ed25519.NewEd25519())

		// ---- address menu ----
		mk := func(first byte, fill byte) []byte {
			b := bytes.Repeat([]byte{fill}, 32)
			b[0] = first
			return b
		}
		a1, a2 := mk(0x11, 0xa1), mk(0x22, 0xb2)
		sc := append(make([]byte, 8), append([]byte{0x05, 0x00}, bytes.Repeat([]byte{0xc3}, 22)...)...)
		zero := make([]byte, 32)
		d1 := append(make([]byte, 8), append([]byte{0x05, 0x00}, bytes.Repeat([]byte{0xd4}, 22)...)...)
		t1, t2, tsc := conv.Encode(a1), conv.Encode(a2), conv.Encode(sc)
		bad := t1[:len(t1)-1] + map[bool]string{true: "q", false: "p"}[t1[len(t1)-1] != 'q'] // broken checksum
		mixed := strings.ToUpper(t1[:4]) + t1[4:]
		addrs = []addrForm{
			{"a1", t1, a1}, {"a2", t2, a2}, {"A1(upper-case a1)", strings.ToUpper(t1), a1},
			{"sc", tsc, sc}, {"bad-checksum", bad, nil}, {"empty", "", nil},
			// thorough only:
			{"A2(upper-case a2)", strings.ToUpper(t2), a2}, {"SC(upper-case sc)", strings.ToUpper(tsc), sc},
			{"zero-address", conv.Encode(zero), zero}, {"mixed-case a1", mixed, nil},
		}
		delegAddrs = []addrForm{{"none", "", nil}, {"d1", conv.Encode(d1), d1}, {"bad", bad, nil}}
		// self-check of the menu against the real converter (a wrong menu would make the oracle wrong)
		for _, a := range append(append([]addrForm{}, addrs...), delegAddrs...) {
			got, derr := conv.Decode(a.Text)
			if (a.Bytes == nil) != (derr != nil) || (derr == nil && !bytes.Equal(got, a.Bytes)) {
				c.Fatal("address menu inconsistent with the bech32 converter: %s %q -> %x, %v", a.Name, a.Text, got, derr)
			}
		}

		dir := filepath.Join(mc.Root, ".cache", fmt.Sprintf("tmp-c47-%d", os.Getpid()))
		if err := os.MkdirAll(dir, 0o755); err != nil {
			c.Fatal("mkdir: %v", err)
		}
		defer os.RemoveAll(dir)
		ev := &env{c: c, conv: conv, kg: kg, files: make(chan *genFile, mc.Workers()+1)}
		for i := 0; i < mc.Workers()+1; i++ {
			p := filepath.Join(dir, fmt.Sprintf("genesis-%d.json", i))
			f, ferr := os.OpenFile(p, os.O_RDWR|os.O_CREATE|os.O_TRUNC, 0o644)
			if ferr != nil {
				os.RemoveAll(dir)
				c.Fatal("cannot create %s: %v", p, ferr)
			}
			defer f.Close()
			ev.files <- &genFile{path: p, f: f}
		}

		if len(c.ReplayData) > 0 {
			var fc fileCase
			if err := json.Unmarshal(c.ReplayData, &fc); err != nil {
				c.Fatal("bad replay data: %v", err)
			}
			ev.run(fc, 0)
			return
		}

		// ---- entry menus ----
		// one: menu for 1-entry files; full: menu for both entries of 2-entry files;
		// mid/third: menus for the first two / the last entry of 3-entry files.
		big70 := new(big.Int).Lsh(big.NewInt(1), 70).String()
		var one, full, mid, third []entry
		dels := []delegForm{{"0", 0}, {"1", 1}, {"1", 0}, {"1", 2}}
		if c.Quick() {
			full = buildEntries([]int{0, 1, 2, 3, 4, 5}, []string{"1", "0", "2"}, []string{"0", "1"}, dels, []int64{0, 1})
			one = buildEntries([]int{0, 1, 2, 3, 4, 5}, []string{"1", "0", "2"}, []string{"0", "1"}, dels, []int64{-1, 0, 1})
			mid = buildEntries([]int{0, 1, 2, 3, 4, 5}, []string{"1", "0"}, []string{"0"}, []delegForm{{"0", 0}, {"1", 1}}, []int64{0, 1})
		} else {
			all := []int{0, 1, 2, 3, 4, 5, 6, 7, 8, 9}
			full = buildEntries(all[:9], []string{"1", "0", "2"}, []string{"0", "1"}, append(dels, delegForm{"0", -1}), []int64{-1, 0, 1})
			one = buildEntries(all, []string{"1", "0", "2", big70}, []string{"0", "1", "-1"}, append(dels, delegForm{"0", 1}, delegForm{"0", -1}), []int64{-1, 0, 1})
			mid = buildEntries([]int{0, 1, 2, 3, 4, 5}, []string{"1", "0"}, []string{"0", "1"}, []delegForm{{"0", 0}, {"1", 1}}, []int64{0, 1})
		}
		third = buildEntries([]int{0, 1, 2, 3}, []string{"1", "0"}, []string{"0"}, []delegForm{{"0", 0}, {"1", 1}}, []int64{0})
		nO, nF, nM, nT := len(one), len(full), len(mid), len(third)
		n1, n2, n3 := nO, nF*nF, nM*nM*nT
		extraA, extraV := "", ""
		if !c.Quick() {
			extraA = ", upper-case a2, upper-case sc, zero address, mixed-case a1"
			extraV = "; delegation object omitted; 1-entry files also balance 2^70, staked -1, delegation 0@d1"
		}
		c.Rule = fmt.Sprintf("genesis files: all 1-entry files over a %d-entry menu, all 2-entry files over a %d-entry menu (address text in {a1, a2, upper-case a1, sc, bad checksum, empty%s} x balance {0,1,2} x staked {0,1} x delegation {none, 1@d1, 1@empty address, 1@malformed address} x declared supply = sum%s%s), all 3-entry files (first two entries from a %d-entry menu, third from a %d-entry menu); every file with configured entire supply = sum of declared supplies +0/+1%s (non-positive configured values other than the sum itself skipped); real NewAccountsParser + bech32(32) converter + ed25519 key generator; non-trivial = accepted file with >= 2 entries",
			nO, nF, extraA, map[bool]string{true: "/sum+1 (1-entry files also sum-1)", false: "-1/sum/sum+1"}[c.Quick()], extraV, nM, nT, map[bool]string{true: " (1-entry files also -1)", false: "/-1"}[c.Quick()])
		c.Bound = fmt.Sprintf("1-entry files %d, 2-entry files %d, 3-entry files %d, each x <=%d configured totals", n1, n2, n3, c.Pick(2, 3))
		c.Assumptions = []string{
			"one direction only, as stated: accepted => (1) supply == balance+staked+delegated per entry, (2) supplies sum to the configured entire supply, (3) no smart-contract address, (4) no two entries with the same decoded address; rejections and parser panics are counted, not judged",
			"'same address in any textual form' = texts that the bech32 converter decodes to equal bytes (lower-case and upper-case spellings); the menu's text->bytes table is cross-checked against the real converter at start",
			"the value of an omitted delegation object is taken as 0",
		}
		c.Set("menu_sizes", map[string]int{"one": nO, "full": nF, "mid": nM, "third": nT})

		// configured entire supply: sum of the declared supplies, sum+1 and (thorough, and 1-entry files) sum-1
		runAll := func(es []entry, rank int) {
			s := new(big.Int)
			for _, e := range es {
				s.Add(s, bi(e.Sup))
			}
			ts := []string{s.String(), new(big.Int).Add(s, big.NewInt(1)).String()}
			if !c.Quick() || len(es) == 1 {
				ts = append(ts, new(big.Int).Sub(s, big.NewInt(1)).String())
			}
			for k, t := range ts {
				if bi(t).Sign() <= 0 && k != 0 {
					// an entire supply <= 0 is refused before the file is read: one such case per file is enough
					continue
				}
				ev.run(fileCase{Entries: es, Total: t}, rank*3+k)
			}
		}
		mc.Par(n1+n2+n3, func(i int) {
			if c.Expired() {
				c.Cap("deadline")
				return
			}
			switch {
			case i < n1:
				runAll([]entry{one[i]}, i)
			case i < n1+n2:
				k := i - n1
				runAll([]entry{full[k/nF], full[k%nF]}, i)
			default:
				k := i - n1 - n2
				runAll([]entry{mid[k/(nM*nT)], mid[(k/nT)%nM], third[k%nT]}, i)
			}
		})
	})
}
