// C22 — the estimated gas limit is affordable.
//
// Full product fee configuration x flag settings x (gas price, data, value, balance) on the
// real economicsData.ComputeGasLimitBasedOnBalance; for every successful estimate the fee of
// the same transaction with GasLimit = estimate (ComputeTxFee, the fee the node itself uses
// in transactionCostEstimator and in checkTxValues' first balance test) must not exceed
// balance - value. On an error nothing is demanded.
package main

import (
	"flag"
	"fmt"
	"math/big"
	"sort"
	"sync"

	logger "github.com/ElrondNetwork/elrond-go-logger"
	"github.com/ElrondNetwork/elrond-go/data/transaction"
	"verif/engine/mc"
)

var withBigPrices = flag.Bool("bigprices", true, "also enumerate gas prices above 2^53")

func repeat(b byte, n int) []byte {
	out := make([]byte, n)
	for i := range out {
		out[i] = b
	}
	return out
}

func bigU(v uint64) *big.Int { return new(big.Int).SetUint64(v) }

func bi(s string) *big.Int {
	v, ok := new(big.Int).SetString(s, 10)
	if !ok {
		panic(s)
	}
	return v
}

func uniqU(v []uint64) []uint64 {
	sort.Slice(v, func(i, j int) bool { return v[i] < v[j] })
	out := v[:0]
	for i, x := range v {
		if i == 0 || x != v[i-1] {
			out = append(out, x)
		}
	}
	return out
}

type found struct {
	rank   [2]int64
	detail map[string]interface{}
	count  int64
}

// collector keeps per signature the earliest witness in enumeration order (deterministic,
// simplest first) whatever the goroutine interleaving.
type collector struct {
	mu sync.Mutex
	m  map[string]*found
}

func (k *collector) add(sig string, rank [2]int64, detail map[string]interface{}) {
	k.mu.Lock()
	defer k.mu.Unlock()
	f := k.m[sig]
	if f == nil {
		k.m[sig] = &found{rank, detail, 1}
		return
	}
	f.count++
	if rank[0] < f.rank[0] || (rank[0] == f.rank[0] && rank[1] < f.rank[1]) {
		f.rank, f.detail = rank, detail
	}
}

func (k *collector) flush(c *mc.Ctx) {
	sigs := []string{}
	for s := range k.m {
		sigs = append(sigs, s)
	}
	sort.Strings(sigs)
	for _, s := range sigs {
		f := k.m[s]
		f.detail["violating_cases_in_this_run"] = f.count
		c.Violation(s, f.detail, nil)
	}
}

type work struct {
	cfg   feeCfg
	price uint64
}

func main() {
	// ComputeTxFee logs a warning for gas limits below the move-balance gas (wrapped estimates)
	_ = logger.SetLogLevel("*:NONE")
	mc.Main("C22", "exploration", func(c *mc.Ctx) {
		minPrices := []uint64{1, 1000, 1000000000}
		modifiers := []float64{0.01, 0.5, 0.999, 1}
		minLimits := []uint64{1, 50000}
		perByte := []uint64{1, 1500}
		if !c.Quick() {
			modifiers = []float64{0.01, 0.1, 0.3, 0.5, 0.999, 0.9999999999999999, 1}
			minLimits = []uint64{1, 7, 50000, 100000}
			perByte = []uint64{1, 3, 1500}
		}
		dataLens := []int{0, 1, 2, 100}
		values := []*big.Int{big.NewInt(0), big.NewInt(1), bi("1000000000000000000")}
		priceMul := []uint64{1, 2}
		if !c.Quick() {
			dataLens = []int{0, 1, 2, 3, 100, 1000}
			values = append(values, big.NewInt(7), bi("1000000000000000001"), bi(genesisSupply))
			priceMul = []uint64{1, 2, 5, 1000, 1000000}
		}

		var works []work
		nCfg := 0
		for _, mp := range minPrices {
			for _, mo := range modifiers {
				for _, ml := range minLimits {
					for _, pb := range perByte {
						for fl := 0; fl < 4; fl++ {
							f := feeCfg{mp, mo, ml, pb, 1500000000, fl&1 != 0, fl&2 != 0, 1}
							nCfg++
							prices := []uint64{mp + 1, 3*mp + 1, 1 << 63}
							for _, k := range priceMul {
								prices = append(prices, k*mp)
							}
							if *withBigPrices {
								prices = append(prices, 1<<53+1, 1<<53+3, 1<<64-1)
							}
							for _, p := range uniqU(prices) {
								works = append(works, work{f, p})
							}
						}
					}
				}
			}
		}
		sort.SliceStable(works, func(i, j int) bool { return works[i].price < works[j].price })
		c.Set("fee_configurations", nCfg)
		c.Rule = fmt.Sprintf("full product: minGasPrice%v x modifier%v x minGasLimit%v x gasPerDataByte%v x 4 flag settings; tx: gasPrice{min,min+1,2min,3min+1,2^63%s; thorough also 5min,1000min,10^6min} x data length%v x value{0,1,10^18; thorough also 7,10^18+1,genesis supply}; balance = value + {-1,0,1,moveFee-1,moveFee,moveFee+1,moveFee+procPrice-1,moveFee+procPrice,moveFee+procPrice+1,moveFee+7*procPrice+3,moveFee+price-1,moveFee+price,2*moveFee+1} and absolute {0,10^30,2^64*price+5,2^200}. Non-trivial: a successful estimate strictly above the move-balance gas with the modifier flag on and modifier < 1 (the two-price branch decides). Phase B (estimator.go): the real transactionCostEstimator.ComputeTransactionGasLimit for a request without gas limit, same configurations/prices/data/values, balances {0,1,value,value+1,value+moveFee-1..+1,feeMax/2,value+feeMax/2,feeMax-1..+1,feeMax+value-1..+1,2(feeMax+value),2^200} with feeMax = fee at the block maximum: the gas limit handed to the simulator must be affordable.",
			minPrices, modifiers, minLimits, perByte, map[bool]string{true: ",2^53+1,2^53+3,2^64-1", false: ""}[*withBigPrices], dataLens)
		c.Bound = "complete product of the stated alphabets"
		c.Assumptions = []string{
			"'fee' is FeeHandler.ComputeTxFee of the transaction with GasLimit set to the estimate (the observation point of the property record); where the penalize flag is off the processors additionally reserve gasLimit*gasPrice — the number of estimates that this larger reservation would not fit is reported as information (info_estimate_not_covering_gasLimit*gasPrice_with_penalize_flag_off)",
			"configurations/transactions whose processing gas price uint64(gasPrice*modifier) is 0 are not judged (division by zero inside the estimate); counted in skipped_processing_price_zero",
			"gas limits are uint64: estimates above 2^64-1 wrap inside the function; only affordability of the returned number is demanded, not maximality",
		}
		col := &collector{m: map[string]*found{}}
		defer col.flush(c)

		mc.Par(len(works), func(wi int) {
			w := works[wi]
			ed, err := newEconomics(w.cfg)
			if err != nil {
				c.Fatal("cannot build economics for %v: %v", w.cfg, err)
			}
			var nEval, nErr, nSkip, nInfo, nLow int64
			outs := map[string]struct{}{}
			defer func() {
				c.Eval(nEval)
				c.Count("estimate_returned_error", nErr)
				c.Count("skipped_processing_price_zero", nSkip)
				c.Count("info_estimate_not_covering_gasLimit*gasPrice_with_penalize_flag_off", nInfo)
				c.Count("info_estimate_below_move_balance_gas(uint64 wrap of a huge balance)", nLow)
				for k := range outs {
					c.Outcome(k)
				}
			}()
			for _, dl := range dataLens {
				for _, val := range values {
					tx := &transaction.Transaction{GasPrice: w.price, Data: repeat('x', dl), Value: val, RcvAddr: repeat(0x22, 32), SndAddr: repeat(0x33, 32)}
					procPrice := ed.GasPriceForProcessing(tx)
					if procPrice == 0 {
						nSkip++
						continue
					}
					moveGas := ed.ComputeGasLimit(tx)
					moveFee := ed.ComputeMoveBalanceFee(tx)
					rel := []*big.Int{big.NewInt(-1), big.NewInt(0), big.NewInt(1),
						new(big.Int).Sub(moveFee, big.NewInt(1)), moveFee, new(big.Int).Add(moveFee, big.NewInt(1)),
						new(big.Int).Add(moveFee, bigU(procPrice-1)), new(big.Int).Add(moveFee, bigU(procPrice)), new(big.Int).Add(moveFee, bigU(procPrice+1)),
						new(big.Int).Add(moveFee, new(big.Int).Add(new(big.Int).Mul(bigU(procPrice), big.NewInt(7)), big.NewInt(3))),
						new(big.Int).Add(moveFee, bigU(w.price-1)), new(big.Int).Add(moveFee, bigU(w.price)),
						new(big.Int).Add(new(big.Int).Lsh(moveFee, 1), big.NewInt(1))}
					balances := []*big.Int{}
					for _, r := range rel {
						balances = append(balances, new(big.Int).Add(val, r))
					}
					balances = append(balances, big.NewInt(0), bi("1000000000000000000000000000000"),
						new(big.Int).Add(new(big.Int).Mul(new(big.Int).Lsh(big.NewInt(1), 64), bigU(w.price)), big.NewInt(5)),
						new(big.Int).Lsh(big.NewInt(1), 200))
					seen := map[string]bool{}
					for _, bal := range balances {
						if bal.Sign() < 0 || seen[bal.String()] {
							continue
						}
						seen[bal.String()] = true
						nEval++
						var est uint64
						var eerr error
						witness := func(extra map[string]interface{}) map[string]interface{} {
							m := map[string]interface{}{"config": w.cfg.String(), "gasPrice": w.price, "dataLen": dl, "value": val.String(), "balance": bal.String(),
								"moveBalanceGas": moveGas, "moveBalanceFee": moveFee.String(), "processingGasPrice": procPrice}
							for k, v := range extra {
								m[k] = v
							}
							return m
						}
						valBefore := new(big.Int).Set(val)
						balArg := new(big.Int).Set(bal)
						if p := mc.Try(func() { est, eerr = ed.ComputeGasLimitBasedOnBalance(tx, balArg) }); p != "" {
							col.add("ComputeGasLimitBasedOnBalance:panic", [2]int64{int64(wi), nEval}, witness(map[string]interface{}{"panic": p}))
							continue
						}
						if val.Cmp(valBefore) != 0 || balArg.Cmp(bal) != 0 {
							col.add("ComputeGasLimitBasedOnBalance:modifies-its-arguments", [2]int64{int64(wi), nEval}, witness(nil))
						}
						if eerr != nil {
							nErr++
							outs["error"] = struct{}{}
							continue
						}
						tx2 := *tx
						tx2.GasLimit = est
						fee := ed.ComputeTxFee(&tx2)
						avail := new(big.Int).Sub(bal, val)
						if fee.Cmp(avail) > 0 {
							col.add("estimate-not-affordable:fee-above-balance-minus-value", [2]int64{int64(wi), nEval},
								witness(map[string]interface{}{"estimatedGasLimit": est, "feeWithEstimate": fee.String(), "balanceMinusValue": avail.String()}))
						}
						if !w.cfg.PenalizeOn && new(big.Int).Mul(bigU(est), bigU(w.price)).Cmp(avail) > 0 {
							nInfo++
						}
						if est < moveGas {
							nLow++
						}
						if est > moveGas && w.cfg.ModifierOn && w.cfg.Modifier < 1 {
							c.Nontrivial(fmt.Sprint(wi, dl, val, bal))
							if c.WantSample() && wi%41 == 7 {
								c.Sample(witness(map[string]interface{}{"estimatedGasLimit": est, "feeWithEstimate": fee.String(), "balanceMinusValue": avail.String()}))
							}
						}
						outs[fmt.Sprint("ok", est > moveGas, est == moveGas, fee.Cmp(avail), w.cfg.PenalizeOn, w.cfg.ModifierOn)] = struct{}{}
					}
				}
			}
		})
		phaseEstimator(c, works, dataLens, values, col)
	})
}
