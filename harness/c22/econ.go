package main

// Construction of the real economicsData for one fee configuration (copy of the C21
// harness file; harness directories are self-contained).

import (
	"fmt"
	"strconv"

	"github.com/ElrondNetwork/elrond-go/config"
	"github.com/ElrondNetwork/elrond-go/process"
	"github.com/ElrondNetwork/elrond-go/process/economics"
	"github.com/ElrondNetwork/elrond-go/process/mock"
	"github.com/ElrondNetwork/elrond-go/process/smartContract"
	"github.com/ElrondNetwork/elrond-go/vm/systemSmartContracts/defaults"
)

const genesisSupply = "20000000000000000000000000" // 20M * 10^18, the main-net genesis supply

type feeCfg struct {
	MinGasPrice    uint64
	Modifier       float64
	MinGasLimit    uint64
	GasPerDataByte uint64
	MaxGasPerBlock uint64
	PenalizeOn     bool // flagPenalizedTooMuchGas
	ModifierOn     bool // flagGasPriceModifier
	BuiltInCost    uint64
}

func (f feeCfg) String() string {
	return fmt.Sprintf("minGasPrice=%d modifier=%g minGasLimit=%d gasPerDataByte=%d maxGasLimitPerBlock=%d penalizeFlag=%v modifierFlag=%v builtInCost=%d",
		f.MinGasPrice, f.Modifier, f.MinGasLimit, f.GasPerDataByte, f.MaxGasPerBlock, f.PenalizeOn, f.ModifierOn, f.BuiltInCost)
}

type feeHandler interface {
	process.FeeHandler
	EpochConfirmed(epoch uint32, timestamp uint64)
}

const currentEpoch = 5

func enableEpoch(on bool) uint32 {
	if on {
		return 0
	}
	return 10
}

// newEconomics builds the real object; the flags are set the way the node sets them: enable
// epochs in the arguments, then EpochConfirmed(currentEpoch).
func newEconomics(f feeCfg) (feeHandler, error) {
	bc, err := economics.NewBuiltInFunctionsCost(&economics.ArgsBuiltInFunctionCost{
		GasSchedule: mock.NewGasScheduleNotifierMock(defaults.FillGasMapInternal(map[string]map[string]uint64{}, f.BuiltInCost)),
		ArgsParser:  smartContract.NewArgumentParser(),
	})
	if err != nil {
		return nil, err
	}
	u := func(v uint64) string { return strconv.FormatUint(v, 10) }
	ed, err := economics.NewEconomicsData(economics.ArgsNewEconomicsData{
		BuiltInFunctionsCostHandler: bc,
		Economics: &config.EconomicsConfig{
			GlobalSettings: config.GlobalSettings{GenesisTotalSupply: genesisSupply, MinimumInflation: 0,
				YearSettings: []*config.YearSetting{{Year: 0, MaximumInflation: 0.01}}},
			RewardsSettings: config.RewardsSettings{RewardsConfigByEpoch: []config.EpochRewardSettings{{
				LeaderPercentage: 0.1, DeveloperPercentage: 0.1, ProtocolSustainabilityPercentage: 0.1,
				ProtocolSustainabilityAddress: "erd1932eft30w753xyvme8d49qejgkjc09n5e49w4mwdjtm0neld797su0dlxp",
				TopUpGradientPoint:            "300000000000000000000", TopUpFactor: 0.25, EpochEnable: 0}}},
			FeeSettings: config.FeeSettings{MaxGasLimitPerBlock: u(f.MaxGasPerBlock), MaxGasLimitPerMetaBlock: u(f.MaxGasPerBlock),
				MinGasPrice: u(f.MinGasPrice), MinGasLimit: u(f.MinGasLimit), GasPerDataByte: u(f.GasPerDataByte), GasPriceModifier: f.Modifier},
		},
		EpochNotifier:                  &mock.EpochNotifierStub{},
		PenalizedTooMuchGasEnableEpoch: enableEpoch(f.PenalizeOn),
		GasPriceModifierEnableEpoch:    enableEpoch(f.ModifierOn),
	})
	if err != nil {
		return nil, err
	}
	ed.EpochConfirmed(currentEpoch, 0)
	return ed, nil
}
