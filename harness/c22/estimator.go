package main

// Phase B — the real transactionCostEstimator (process/transaction). A cost request without a
// gas limit makes the estimator choose the gas limit of the simulated transaction itself
// ("the maximum the sender can afford", getTxGasLimit: the block maximum if its fee fits the
// balance, otherwise ComputeGasLimitBasedOnBalance). The estimator is driven through its
// public entry point ComputeTransactionGasLimit with the real economicsData as fee handler;
// the simulator is the environment and records the gas limit handed to it. For every request
// that reaches the simulator, the fee of the transaction with that gas limit (ComputeTxFee)
// must not exceed balance - value.

import (
	"fmt"
	"math/big"

	"github.com/ElrondNetwork/elrond-go/data/state"
	"github.com/ElrondNetwork/elrond-go/data/transaction"
	"github.com/ElrondNetwork/elrond-go/process/mock"
	txproc "github.com/ElrondNetwork/elrond-go/process/transaction"
	"github.com/ElrondNetwork/elrond-go/testscommon"
	vmcommon "github.com/ElrondNetwork/elrond-vm-common"
	"verif/engine/mc"
)

func phaseEstimator(c *mc.Ctx, works []work, dataLens []int, values []*big.Int, col *collector) {
	mc.Par(len(works), func(wi int) {
		w := works[wi]
		ed, err := newEconomics(w.cfg)
		if err != nil {
			c.Fatal("cannot build economics for %v: %v", w.cfg, err)
		}
		var balance *big.Int
		var seenLimit uint64
		var reached bool
		accounts := &testscommon.AccountsStub{LoadAccountCalled: func(a []byte) (vmcommon.AccountHandler, error) {
			acc, err := state.NewUserAccount(a)
			if err != nil {
				return nil, err
			}
			_ = acc.AddToBalance(balance)
			return acc, nil
		}}
		sim := &mock.TransactionSimulatorStub{ProcessTxCalled: func(tx *transaction.Transaction) (*transaction.SimulationResults, error) {
			seenLimit, reached = tx.GasLimit, true
			return &transaction.SimulationResults{}, nil
		}}
		est, err := txproc.NewTransactionCostEstimator(&testscommon.TxTypeHandlerMock{}, ed, sim, accounts, mock.NewOneShardCoordinatorMock())
		if err != nil {
			c.Fatal("cannot build the cost estimator: %v", err)
		}
		maxGas := ed.MaxGasLimitPerBlock(0) - 1
		var nEval, nErr, nSkip int64
		outs := map[string]struct{}{}
		defer func() {
			c.Eval(nEval)
			c.Count("estimator_request_rejected_before_simulation", nErr)
			c.Count("estimator_skipped_processing_price_zero", nSkip)
			for k := range outs {
				c.Outcome(k)
			}
		}()
		for _, dl := range dataLens {
			for _, val := range values {
				proto := transaction.Transaction{GasPrice: w.price, Data: repeat('x', dl), Value: val, RcvAddr: repeat(0x22, 32), SndAddr: repeat(0x33, 32)}
				if ed.GasPriceForProcessing(&proto) == 0 {
					nSkip++
					continue
				}
				moveFee := ed.ComputeMoveBalanceFee(&proto)
				atMax := proto
				atMax.GasLimit = maxGas
				feeMax := ed.ComputeTxFee(&atMax)
				add := func(a *big.Int, d int64) *big.Int { return new(big.Int).Add(a, big.NewInt(d)) }
				feeMaxVal := new(big.Int).Add(feeMax, val)
				half := new(big.Int).Rsh(feeMax, 1)
				cands := []*big.Int{big.NewInt(0), big.NewInt(1), add(val, 0), add(val, 1),
					new(big.Int).Add(val, add(moveFee, -1)), new(big.Int).Add(val, moveFee), new(big.Int).Add(val, add(moveFee, 1)),
					half, new(big.Int).Add(val, half),
					add(feeMax, -1), feeMax, add(feeMax, 1), add(feeMaxVal, -1), feeMaxVal, add(feeMaxVal, 1),
					new(big.Int).Lsh(feeMaxVal, 1), new(big.Int).Lsh(big.NewInt(1), 200)}
				seen := map[string]bool{}
				for _, bal := range cands {
					if bal.Sign() < 0 || seen[bal.String()] {
						continue
					}
					seen[bal.String()] = true
					nEval++
					balance, reached, seenLimit = bal, false, 0
					tx := proto
					tx.Value = new(big.Int).Set(val)
					witness := func(extra map[string]interface{}) map[string]interface{} {
						m := map[string]interface{}{"config": w.cfg.String(), "gasPrice": w.price, "dataLen": dl, "value": val.String(), "balance": bal.String(),
							"maxGasLimitPerBlock-1": maxGas, "feeAtMaxGas": feeMax.String(), "moveBalanceFee": moveFee.String()}
						for k, v := range extra {
							m[k] = v
						}
						return m
					}
					var rerr error
					if p := mc.Try(func() { _, rerr = est.ComputeTransactionGasLimit(&tx) }); p != "" {
						col.add("estimator:panic", [2]int64{int64(wi), nEval}, witness(map[string]interface{}{"panic": p}))
						continue
					}
					if rerr != nil || !reached {
						nErr++
						outs["estimator:rejected"] = struct{}{}
						continue
					}
					tx2 := proto
					tx2.GasLimit = seenLimit
					fee := ed.ComputeTxFee(&tx2)
					avail := new(big.Int).Sub(bal, val)
					kind := "computed-from-balance"
					if seenLimit == maxGas {
						kind = "block-maximum"
					}
					if fee.Cmp(avail) > 0 {
						sig := "estimator:gas-limit-for-simulation-not-affordable:" + kind
						switch {
						case bal.Sign() == 0:
							sig += ":zero-balance-sender"
						case seenLimit == maxGas && fee.Cmp(bal) <= 0:
							sig += ":fee-fits-balance-but-not-balance-minus-value"
						}
						col.add(sig, [2]int64{int64(wi), nEval}, witness(map[string]interface{}{"gasLimitHandedToSimulation": seenLimit, "feeWithIt": fee.String(), "balanceMinusValue": avail.String()}))
					}
					if kind == "computed-from-balance" && w.cfg.ModifierOn && w.cfg.Modifier < 1 {
						c.Nontrivial(fmt.Sprint("est", wi, dl, val, bal))
					}
					outs[fmt.Sprint("estimator:", kind, fee.Cmp(avail), w.cfg.ModifierOn)] = struct{}{}
				}
			}
		}
	})
}
