// C12 — validator reshuffling neither loses nor duplicates validators.
// C14 — reshuffling keeps every shard at its minimum size.
//
// Both are decided on the real sharding.NewHashValidatorsShuffler(...).UpdateNodeLists by
// exhaustive enumeration of a bounded input space (see space.go for the slices, seeds.go for
// the permutation-complete randomness alphabet, judge.go for the two oracles).
package main

import (
	"encoding/json"
	"fmt"
	"os"
	"runtime"
	"runtime/debug"
	"sort"
	"sync"

	"verif/engine/mc"
)

var ballast []byte

func main() {
	mc.Main("C12", "exploration", func(c *mc.Ctx) {
		initUniverse()
		// UpdateNodeLists allocates dozens of tiny maps/slices per call while the live heap is a
		// few MB: with the default pacer the collector would run continuously and the 16 workers
		// would fight over the allocator. A never-touched pointer-free ballast makes the pacer
		// collect once per ~100 MiB of garbage instead (small enough that pages are recycled:
		// first-touch page faults are very expensive in the sandbox VM).
		ballast = make([]byte, 96<<20)
		debug.SetGCPercent(100)
		switch c.Prop {
		case "C12", "C14":
		default:
			c.Fatal("this harness serves C12 and C14, not %s", c.Prop)
		}
		c.Level = "exploration"
		if len(c.ReplayData) > 0 {
			replay(c)
			return
		}
		slices := slicesFor(c.Prop, c.Quick())
		run(c, slices)
		runtime.KeepAlive(ballast)
	})
}

// agg is the run-wide aggregation of the per-task local results (merged under mu).
type agg struct {
	mu       sync.Mutex
	evals    int64
	counters map[string]int64
	nontriv  map[string]struct{}
	outcomes map[string]struct{}
	viol     map[string]*vrec
	samples  map[string]interface{}
}

// vrec keeps the smallest witness of one violation signature (deterministic total order).
type vrec struct {
	cost   int
	order  int64
	detail map[string]interface{}
	n      int64
}

func (a *agg) merge(l *local) {
	a.mu.Lock()
	defer a.mu.Unlock()
	a.evals += l.evals
	for k, v := range l.counters {
		a.counters[k] += v
	}
	for k := range l.nontriv {
		a.nontriv[k] = struct{}{}
	}
	for k := range l.outcomes {
		a.outcomes[k] = struct{}{}
	}
	for s, v := range l.viol {
		o, ok := a.viol[s]
		if !ok {
			a.viol[s] = v
			continue
		}
		n := o.n + v.n
		if v.cost < o.cost || (v.cost == o.cost && v.order < o.order) {
			a.viol[s] = v
		}
		a.viol[s].n = n
	}
	for k, v := range l.samples {
		if _, ok := a.samples[k]; !ok && len(a.samples) < 64 {
			a.samples[k] = v
		}
	}
}

func run(c *mc.Ctx, slices []slice) {
	a := &agg{counters: map[string]int64{}, nontriv: map[string]struct{}{}, outcomes: map[string]struct{}{},
		viol: map[string]*vrec{}, samples: map[string]interface{}{}}
	tasks := buildTasks(c, slices)
	alpha := buildAlphabets(c, tasks)
	expected := int64(0)
	for i := range tasks {
		expected += tasks[i].size(alpha)
	}
	c.Set("planned_evaluations", expected)
	if os.Getenv("VERIF_PLAN") != "" {
		by := map[string]int64{}
		nt := map[string]int64{}
		for i := range tasks {
			k := fmt.Sprintf("%s total=%02d %s", tasks[i].sl.name, tasks[i].cf.total(), *tasks[i].spec)
			if tasks[i].rule != nil {
				k += " " + tasks[i].rule.seeds.String()
			} else {
				k = tasks[i].sl.name + " under-populated"
			}
			by[k] += tasks[i].size(alpha)
			nt[k]++
		}
		ks := []string{}
		for k := range by {
			ks = append(ks, k)
		}
		sort.Strings(ks)
		for _, k := range ks {
			fmt.Fprintf(os.Stderr, "PLAN %-60s tasks=%7d evals=%d\n", k, nt[k], by[k])
		}
		fmt.Fprintf(os.Stderr, "PLAN total tasks=%d evals=%d\n", len(tasks), expected)
		os.Exit(0)
	}
	capped := false
	var capMu sync.Mutex
	mc.Par(len(tasks), func(i int) {
		if c.Expired() {
			capMu.Lock()
			capped = true
			capMu.Unlock()
			return
		}
		l := newLocal(c.Prop, int64(i))
		tasks[i].run(l, alpha)
		a.merge(l)
	})
	if capped {
		c.Cap("internal deadline reached before all tasks ran")
	}
	c.Eval(a.evals)
	if a.evals != expected && !capped {
		c.Fatal("enumeration ran %d cases, planned %d", a.evals, expected)
	}
	for k, v := range a.counters {
		c.Count(k, v)
	}
	for k := range a.nontriv {
		c.Nontrivial(k)
	}
	for k := range a.outcomes {
		c.Outcome(k)
	}
	sk := make([]string, 0, len(a.samples))
	for k := range a.samples {
		sk = append(sk, k)
	}
	sort.Strings(sk)
	for _, k := range sk {
		c.Sample(a.samples[k])
	}
	sigs := make([]string, 0, len(a.viol))
	for s := range a.viol {
		sigs = append(sigs, s)
	}
	sort.Strings(sigs)
	for _, s := range sigs {
		v := a.viol[s]
		v.detail["occurrences_in_this_run"] = v.n
		c.Violation(s, v.detail, v.detail["case"])
	}
	describe(c, slices, alpha)
}

// replay re-runs the single case stored in a violation artefact with the full oracle.
func replay(c *mc.Ctx) {
	var cs caseSpec
	if err := json.Unmarshal(c.ReplayData, &cs); err != nil {
		c.Fatal("bad replay data: %v", err)
	}
	l := newLocal(c.Prop, 0)
	if err := l.runSpec(&cs); err != nil {
		c.Fatal("replay: %v", err)
	}
	c.Eval(1)
	for s, v := range l.viol {
		c.Violation(s, v.detail, v.detail["case"])
	}
	c.Rule = "replay of one stored case"
	c.Bound = fmt.Sprintf("1 case, %d violation signature(s)", len(l.viol))
}
