package main

import (
	"fmt"
	"sort"
	"sync"

	"github.com/ElrondNetwork/elrond-go/sharding"
	"verif/engine/mc"
)

// Randomness alphabet. UpdateNodeLists consults the randomness only through shuffleList, i.e.
// through the order that sha256(pubKey||rand) induces on the keys it is given (remaining
// eligible validators per shard, new nodes, the union of shuffled-out validators). For a
// case whose hashed key set is H the alphabet is, searched deterministically among the
// candidates "r0".."r<poolSize-1>" with the REAL shuffleList (overlay export):
// a greedy cover (largest gain first, lowest index on ties) of every order of every
// sub-subset of H and of every order of H's first ref keys (seedRule; both clipped to |H|, so
// for |H| <= max(sub, ref) there is exactly one seed per total order of H: complete).
// seedRule{3,4} gives the design's "all 24 orders of a 4-element list".
const poolSize = 768

type alphabets struct {
	mu    sync.Mutex
	rank  [][nIDs]int8 // rank[cand][id] = position of id in shuffleList(all hashable ids, cand)
	cache map[string][]string
	meta  map[string]alphaMeta
}

type alphaMeta struct {
	r seedRule
	n int
}

func candidate(i int) string { return fmt.Sprintf("r%d", i) }

func buildAlphabets(c *mc.Ctx, tasks []task) *alphabets {
	al := &alphabets{cache: map[string][]string{}, meta: map[string]alphaMeta{}}
	var all []uint8
	for ch := 0; ch < 3; ch++ {
		for i := 0; i < slots; i++ {
			all = append(all, idOf(ch, 0, i))
		}
	}
	for i := 0; i < maxNew; i++ {
		all = append(all, uint8(idNew+i))
	}
	list := make([]sharding.Validator, len(all))
	for i, id := range all {
		list[i] = vals[id]
	}
	al.rank = make([][nIDs]int8, poolSize)
	mc.Par(poolSize, func(i int) {
		out := sharding.VerifC12ShuffleList(list, []byte(candidate(i)))
		for pos, v := range out {
			al.rank[i][idByKey[string(v.PubKey())]] = int8(pos)
		}
	})
	// distinct (hashed set, strength) pairs, computed in parallel, stored deterministically
	type job struct {
		h []uint8
		t seedRule
	}
	seen := map[string]bool{}
	var jobs []job
	for i := range tasks {
		h := hashed(tasks[i].cf, int(tasks[i].kn.nNew))
		k := alphaKey(h, tasks[i].seedRule())
		if !seen[k] {
			seen[k] = true
			jobs = append(jobs, job{h, tasks[i].seedRule()})
		}
	}
	res := make([][]string, len(jobs))
	errs := make([]string, len(jobs))
	mc.Par(len(jobs), func(i int) { res[i], errs[i] = al.search(jobs[i].h, jobs[i].t) })
	for i, j := range jobs {
		if errs[i] != "" {
			c.Fatal("seed search for %v: %s", j.h, errs[i])
		}
		al.cache[alphaKey(j.h, j.t)] = res[i]
		al.meta[alphaKey(j.h, j.t)] = alphaMeta{j.t, len(j.h)}
	}
	return al
}

func alphaKey(h []uint8, t seedRule) string { return fmt.Sprint(t.sub, t.ref, h) }

func (al *alphabets) get(h []uint8, t seedRule) []string {
	s, ok := al.cache[alphaKey(h, t)]
	if !ok {
		panic("alphabet not prepared for " + alphaKey(h, t))
	}
	return s
}

// code encodes the relative order of ids under candidate cand as pairwise-comparison bits.
func (al *alphabets) code(cand int, ids []uint8) uint32 {
	var c uint32
	bit := uint(0)
	r := &al.rank[cand]
	for i := 0; i < len(ids); i++ {
		for j := i + 1; j < len(ids); j++ {
			if r[ids[i]] < r[ids[j]] {
				c |= 1 << bit
			}
			bit++
		}
	}
	return c
}

func factorial(n int) int {
	f := 1
	for i := 2; i <= n; i++ {
		f *= i
	}
	return f
}

func subsets(h []uint8, t int) [][]uint8 {
	var out [][]uint8
	var rec func(start int, cur []uint8)
	rec = func(start int, cur []uint8) {
		if len(cur) == t {
			out = append(out, append([]uint8{}, cur...))
			return
		}
		for i := start; i < len(h); i++ {
			rec(i+1, append(cur, h[i]))
		}
	}
	rec(0, nil)
	return out
}

func (al *alphabets) search(h []uint8, t seedRule) ([]string, string) {
	if len(h) == 0 {
		return []string{candidate(0)}, ""
	}
	var groups [][]uint8
	sub, ref := t.sub, t.ref
	if sub > len(h) {
		sub = len(h)
	}
	if ref > len(h) {
		ref = len(h)
	}
	groups = subsets(h, sub)
	groups = append(groups, h[:ref])
	// goal: every group must show factorial(len(group)) distinct codes
	covered := make([]map[uint32]bool, len(groups))
	missing := 0
	for i, g := range groups {
		covered[i] = map[uint32]bool{}
		missing += factorial(len(g))
	}
	codes := make([][]uint32, poolSize) // codes[cand][group]
	for cand := 0; cand < poolSize; cand++ {
		codes[cand] = make([]uint32, len(groups))
		for gi, g := range groups {
			codes[cand][gi] = al.code(cand, g)
		}
	}
	var chosen []int
	for missing > 0 {
		best, bestGain := -1, 0
		for cand := 0; cand < poolSize; cand++ {
			gain := 0
			for gi := range groups {
				if !covered[gi][codes[cand][gi]] {
					gain++
				}
			}
			if gain > bestGain {
				best, bestGain = cand, gain
			}
		}
		if best < 0 {
			return nil, fmt.Sprintf("candidate pool of %d seeds does not realise every required order (%d missing)", poolSize, missing)
		}
		for gi := range groups {
			if !covered[gi][codes[best][gi]] {
				covered[gi][codes[best][gi]] = true
				missing--
			}
		}
		chosen = append(chosen, best)
	}
	sort.Ints(chosen)
	out := make([]string, len(chosen))
	for i, cnd := range chosen {
		out[i] = candidate(cnd)
	}
	return out, ""
}

func (al *alphabets) summary() map[string]interface{} {
	bySize := map[string][]int{}
	for k, s := range al.cache {
		m := al.meta[k]
		key := fmt.Sprintf("%s/hashed%02d", m.r, m.n)
		bySize[key] = append(bySize[key], len(s))
	}
	out := map[string]interface{}{"candidate_pool": poolSize}
	for k, v := range bySize {
		sort.Ints(v)
		out[k] = fmt.Sprintf("%d key sets, alphabet size %d..%d", len(v), v[0], v[len(v)-1])
	}
	return out
}
