package main

import (
	"fmt"
	"sort"

	"github.com/ElrondNetwork/elrond-go/config"
	"github.com/ElrondNetwork/elrond-go/sharding"
	"verif/engine/mc"
)

// caseSpec is one complete input in replayable, human-readable form.
type caseSpec struct {
	NbShards               int      `json:"nbShards"`
	Eligible               []int    `json:"eligibleSizes"` // per chain: shard 0[,1], meta
	Waiting                []int    `json:"waitingSizes"`
	NodesShard             int      `json:"nodesShard"`
	NodesMeta              int      `json:"nodesMeta"`
	NodesToShufflePerShard int      `json:"nodesToShufflePerShard"` // -1: no MaxNodesEnableConfig (default NodesShard)
	NewNodes               int      `json:"newNodes"`
	WaitingListFix         bool     `json:"waitingListFix"`
	BalanceWaitingLists    bool     `json:"balanceWaitingLists"`
	ShuffleBetweenShards   bool     `json:"shuffleBetweenShards"`
	EmptyListsAbsent       bool     `json:"emptyListsAbsentFromMaps"`
	Rand                   string   `json:"rand"`
	UnStakeLeaving         []string `json:"unStakeLeaving"`
	AdditionalLeaving      []string `json:"additionalLeaving"`
}

type shKey struct {
	minS, minM, cap int
	cross, fix, bal bool
}

type shEntry struct {
	sh    sharding.NodesShuffler
	epoch uint32
}

// local is the per-task state: shuffler instances, counters, smallest witnesses.
type local struct {
	prop     string
	taskNo   int64
	seq      int64
	evals    int64
	counters map[string]int64
	nontriv  map[string]struct{}
	outcomes map[string]struct{}
	viol     map[string]*vrec
	samples  map[string]interface{}
	shs      map[shKey]shEntry

	cf     *cfg
	kn     *knobs
	sh     sharding.NodesShuffler
	epoch  uint32
	seed   string
	seedB  []byte
	tag    string              // cfg + fix flag, prefix of non-trivial keys
	ntSet  map[uint32]struct{} // (honoured, refused) pairs seen in this task
	outSet map[uint64]struct{} // packed outcome sizes seen in this task
}

func newLocal(prop string, taskNo int64) *local {
	return &local{prop: prop, taskNo: taskNo, counters: map[string]int64{}, nontriv: map[string]struct{}{},
		outcomes: map[string]struct{}{}, viol: map[string]*vrec{}, samples: map[string]interface{}{},
		shs: map[shKey]shEntry{}}
}

// shuffler builds the real shuffler. The two feature flags are driven the way production
// drives them: through Epoch relative to the two enable epochs.
func (l *local) shuffler(cf *cfg, kn *knobs) (sharding.NodesShuffler, uint32) {
	k := shKey{cf.minS, cf.minM, int(kn.cap), kn.cross, kn.fix, kn.bal}
	if e, ok := l.shs[k]; ok {
		return e.sh, e.epoch
	}
	args := &sharding.NodesShufflerArgs{
		NodesShard: uint32(cf.minS), NodesMeta: uint32(cf.minM), Hysteresis: 0, Adaptivity: false,
		ShuffleBetweenShards: kn.cross,
	}
	// epoch 10 is the epoch of the call; a flag is on iff its enable epoch is <= 10
	epoch := uint32(10)
	args.BalanceWaitingListsEnableEpoch, args.WaitingListFixEnableEpoch = 11, 11
	if kn.bal {
		args.BalanceWaitingListsEnableEpoch = 10
	}
	if kn.fix {
		args.WaitingListFixEnableEpoch = 9
	}
	if kn.cap >= 0 {
		args.MaxNodesEnableConfig = []config.MaxNodesChangeConfig{{EpochEnable: 0, MaxNumNodes: 100, NodesToShufflePerShard: uint32(kn.cap)}}
	}
	sh, err := sharding.NewHashValidatorsShuffler(args)
	if err != nil {
		panic(err)
	}
	l.shs[k] = shEntry{sh, epoch}
	return sh, epoch
}

func (l *local) begin(cf *cfg, kn *knobs) {
	l.cf, l.kn = cf, kn
	l.sh, l.epoch = l.shuffler(cf, kn)
	l.tag = fmt.Sprintf("%s fix=%v", cf.String(), kn.fix)
	l.ntSet, l.outSet = map[uint32]struct{}{}, map[uint64]struct{}{}
}

// end converts the packed per-task sets into the string keys merged run-wide.
func (l *local) end() {
	for k := range l.ntSet {
		l.nontriv[fmt.Sprintf("%s h%d r%d", l.tag, k>>8, k&0xff)] = struct{}{}
	}
	for k := range l.outSet {
		l.outcomes[fmt.Sprintf("nb%d %x", l.cf.nb, k)] = struct{}{}
	}
}

func (l *local) setSeed(s string) { l.seed, l.seedB = s, []byte(s) }

func (l *local) runSpec(cs *caseSpec) error {
	cf := cfg{nb: cs.NbShards, minS: cs.NodesShard, minM: cs.NodesMeta, missing: cs.EmptyListsAbsent}
	if cf.nb != 1 && cf.nb != 2 {
		return fmt.Errorf("nbShards %d", cf.nb)
	}
	chains := cf.chains()
	if len(cs.Eligible) != len(chains) || len(cs.Waiting) != len(chains) {
		return fmt.Errorf("size vectors must have %d entries", len(chains))
	}
	for i, ch := range chains {
		cf.e[ch], cf.w[ch] = cs.Eligible[i], cs.Waiting[i]
		if cf.e[ch] > slots || cf.w[ch] > slots {
			return fmt.Errorf("list too long")
		}
	}
	kn := knobs{cap: int8(cs.NodesToShufflePerShard), nNew: int8(cs.NewNodes), fix: cs.WaitingListFix, bal: cs.BalanceWaitingLists, cross: cs.ShuffleBetweenShards}
	toIDs := func(ns []string) ([]uint8, error) {
		var out []uint8
		for _, n := range ns {
			id, ok := idByKey[n]
			if !ok {
				return nil, fmt.Errorf("unknown key %q", n)
			}
			out = append(out, id)
		}
		return out, nil
	}
	u, err := toIDs(cs.UnStakeLeaving)
	if err != nil {
		return err
	}
	a, err := toIDs(cs.AdditionalLeaving)
	if err != nil {
		return err
	}
	l.begin(&cf, &kn)
	l.setSeed(cs.Rand)
	l.eval(u, a)
	return nil
}

func (l *local) spec(u, a []uint8) *caseSpec {
	cs := &caseSpec{NbShards: l.cf.nb, NodesShard: l.cf.minS, NodesMeta: l.cf.minM, NodesToShufflePerShard: int(l.kn.cap),
		NewNodes: int(l.kn.nNew), WaitingListFix: l.kn.fix, BalanceWaitingLists: l.kn.bal, ShuffleBetweenShards: l.kn.cross,
		EmptyListsAbsent: l.cf.missing, Rand: l.seed, UnStakeLeaving: []string{}, AdditionalLeaving: []string{}}
	for _, ch := range l.cf.chains() {
		cs.Eligible = append(cs.Eligible, l.cf.e[ch])
		cs.Waiting = append(cs.Waiting, l.cf.w[ch])
	}
	for _, id := range u {
		cs.UnStakeLeaving = append(cs.UnStakeLeaving, names[id])
	}
	for _, id := range a {
		cs.AdditionalLeaving = append(cs.AdditionalLeaving, names[id])
	}
	return cs
}

func toVals(ids []uint8) []sharding.Validator {
	out := make([]sharding.Validator, len(ids))
	for i, id := range ids {
		out[i] = vals[id]
	}
	return out
}

func renderList(vs []sharding.Validator) []string {
	out := make([]string, len(vs))
	for i, v := range vs {
		out[i] = string(v.PubKey())
	}
	return out
}

func renderMap(m map[uint32][]sharding.Validator) map[string][]string {
	out := map[string][]string{}
	for sid, vs := range m {
		k := fmt.Sprint(sid)
		if sid == shardID(chMeta) {
			k = "meta"
		}
		out[k] = renderList(vs)
	}
	return out
}

func (l *local) violation(sig string, u, a []uint8, args *sharding.ArgsUpdateNodes, res *sharding.ResUpdateNodes, extra map[string]interface{}) {
	cost := l.cf.total() + int(l.kn.nNew) + len(u) + len(a) + l.cf.nb
	if l.cf.missing {
		cost++
	}
	if v, ok := l.viol[sig]; ok {
		v.n++
		if v.cost <= cost {
			return
		}
	}
	d := map[string]interface{}{"case": l.spec(u, a)}
	if args != nil {
		d["input"] = map[string]interface{}{"eligible": renderMap(args.Eligible), "waiting": renderMap(args.Waiting), "newNodes": renderList(args.NewNodes)}
	}
	if res != nil {
		d["result"] = map[string]interface{}{"eligible": renderMap(res.Eligible), "waiting": renderMap(res.Waiting),
			"leaving": renderList(res.Leaving), "stillRemaining": renderList(res.StillRemaining)}
	}
	for k, v := range extra {
		d[k] = v
	}
	n := int64(1)
	if v, ok := l.viol[sig]; ok {
		n = v.n
	}
	l.viol[sig] = &vrec{cost: cost, order: l.taskNo<<32 | l.seq, detail: d, n: n}
}

// eval runs one case on the real shuffler and judges it.
func (l *local) eval(u, a []uint8) {
	l.evals++
	l.seq++
	cf, kn := l.cf, l.kn
	args := sharding.ArgsUpdateNodes{
		Eligible: make(map[uint32][]sharding.Validator, 3), Waiting: make(map[uint32][]sharding.Validator, 3),
		NbShards: uint32(cf.nb), Epoch: l.epoch, Rand: l.seedB,
		UnStakeLeaving: toVals(u), AdditionalLeaving: toVals(a),
	}
	for _, ch := range cf.chains() {
		if cf.e[ch] > 0 || !cf.missing {
			el := make([]sharding.Validator, cf.e[ch])
			for i := range el {
				el[i] = vals[idOf(ch, 0, i)]
			}
			args.Eligible[shardID(ch)] = el
		}
		if cf.w[ch] > 0 || !cf.missing {
			wl := make([]sharding.Validator, cf.w[ch])
			for i := range wl {
				wl[i] = vals[idOf(ch, 1, i)]
			}
			args.Waiting[shardID(ch)] = wl
		}
	}
	args.NewNodes = make([]sharding.Validator, kn.nNew)
	for i := range args.NewNodes {
		args.NewNodes[i] = vals[idNew+i]
	}

	var res *sharding.ResUpdateNodes
	var err error
	if p := mc.Try(func() { res, err = l.sh.UpdateNodeLists(args) }); p != "" {
		l.violation("UpdateNodeLists:panic", u, a, &args, nil, map[string]interface{}{"panic": p})
		return
	}
	if err != nil {
		l.counters["error:"+err.Error()]++
		if cf.populated() {
			l.counters["errors_on_populated_configs"]++
			if l.prop == "C14" {
				l.violation("UpdateNodeLists:error-although-every-chain-had-its-minimum", u, a, &args, nil, map[string]interface{}{"error": err.Error()})
			}
		}
		return
	}
	if res == nil {
		l.violation("UpdateNodeLists:nil-result-without-error", u, a, &args, nil, nil)
		return
	}
	if !cf.populated() {
		l.counters["results_on_under_populated_configs"]++
	}

	// ---- bookkeeping shared by both oracles -------------------------------------------
	var inE, inW, isNew, req [nIDs]bool // old eligible / old waiting / new / requested
	var reqN [nIDs]int8
	for _, ch := range cf.chains() {
		for i := 0; i < cf.e[ch]; i++ {
			inE[idOf(ch, 0, i)] = true
		}
		for i := 0; i < cf.w[ch]; i++ {
			inW[idOf(ch, 1, i)] = true
		}
	}
	for i := 0; i < int(kn.nNew); i++ {
		isNew[idNew+i] = true
	}
	for _, id := range u {
		req[id] = true
		reqN[id]++
	}
	for _, id := range a {
		req[id] = true
		reqN[id]++
	}
	var listed, leaving, still [nIDs]int8 // occurrences in new lists / Leaving / StillRemaining
	foreign := ""
	count := func(m map[uint32][]sharding.Validator) {
		for _, vs := range m {
			for _, v := range vs {
				id, ok := idByKey[string(v.PubKey())]
				if !ok {
					foreign = string(v.PubKey())
					continue
				}
				listed[id]++
			}
		}
	}
	count(res.Eligible)
	count(res.Waiting)
	for _, v := range res.Leaving {
		if id, ok := idByKey[string(v.PubKey())]; ok {
			leaving[id]++
		} else {
			foreign = string(v.PubKey())
		}
	}
	for _, v := range res.StillRemaining {
		if id, ok := idByKey[string(v.PubKey())]; ok {
			still[id]++
		} else {
			foreign = string(v.PubKey())
		}
	}
	honoured, refused := 0, 0
	for id := 0; id < nIDs; id++ {
		if req[id] && (inE[id] || inW[id]) {
			if leaving[id] > 0 {
				honoured++
			} else {
				refused++
			}
		}
	}

	if l.prop == "C12" {
		l.judgeC12(u, a, &args, res, &inE, &inW, &isNew, &req, &reqN, &listed, &leaving, &still, foreign)
		if honoured > 0 && refused > 0 {
			l.ntSet[uint32(honoured)<<8|uint32(refused)] = struct{}{}
			l.sample("honoured+refused", u, a, res)
		}
		l.outSet[sizes(cf, res)] = struct{}{}
		return
	}

	// ---- C14 ---------------------------------------------------------------------------
	if !kn.fix {
		panic("C14 runs with the waiting list fix only")
	}
	if !cf.populated() {
		return // precondition of the statement does not hold; result not judged
	}
	for _, ch := range cf.chains() {
		if got := len(res.Eligible[shardID(ch)]); got < cf.min(ch) {
			l.violation("UpdateNodeLists:eligible-below-minimum", u, a, &args, res,
				map[string]interface{}{"chain": chLabel[ch], "eligibleAfter": got, "minimum": cf.min(ch)})
			break
		}
	}
	if refused > 0 {
		l.ntSet[uint32(honoured)<<8|uint32(refused)] = struct{}{}
		l.sample("refused", u, a, res)
	}
	l.outSet[sizes(cf, res)] = struct{}{}
}

// sizes packs the observable outcome shape: per chain new eligible / waiting sizes, |Leaving|,
// |StillRemaining| (5 bits each).
func sizes(cf *cfg, res *sharding.ResUpdateNodes) uint64 {
	var k uint64
	for _, ch := range cf.chains() {
		k = k<<5 | uint64(len(res.Eligible[shardID(ch)])&31)
		k = k<<5 | uint64(len(res.Waiting[shardID(ch)])&31)
	}
	k = k<<5 | uint64(len(res.Leaving)&31)
	k = k<<5 | uint64(len(res.StillRemaining)&31)
	return k
}

func (l *local) sample(kind string, u, a []uint8, res *sharding.ResUpdateNodes) {
	k := kind + "/" + fmt.Sprint(l.cf.total())
	if len(l.samples) >= 2 {
		return
	}
	if _, ok := l.samples[k]; ok {
		return
	}
	l.samples[k] = map[string]interface{}{"case": l.spec(u, a), "leaving": renderList(res.Leaving),
		"stillRemaining": renderList(res.StillRemaining), "eligible": renderMap(res.Eligible), "waiting": renderMap(res.Waiting)}
}

// judgeC12: (a) conservation, (b) Leaving ⊆ old eligible ∪ old waiting, (c) refused requests
// keep the validator listed. Classes are separated so that a key that was in no list and shows
// up in Leaving is never mixed up with a lost / duplicated validator.
func (l *local) judgeC12(u, a []uint8, args *sharding.ArgsUpdateNodes, res *sharding.ResUpdateNodes,
	inE, inW, isNew, req *[nIDs]bool, reqN *[nIDs]int8, listed, leaving, still *[nIDs]int8, foreign string) {
	if foreign != "" {
		l.violation("UpdateNodeLists:result-contains-key-outside-the-input", u, a, args, res, map[string]interface{}{"key": foreign})
	}
	for id := 0; id < nIDs; id++ {
		was := inE[id] || inW[id]
		name := names[id]
		// (b) Leaving only holds validators that were eligible or waiting
		effLeaving := leaving[id]
		if leaving[id] > 0 && !was {
			effLeaving = 0 // reported in its own class; not double-counted below
			switch {
			case isNew[id]:
				l.violation("UpdateNodeLists:leaving-contains-new-node-key", u, a, args, res, map[string]interface{}{"key": name})
			default:
				l.violation("UpdateNodeLists:leaving-contains-key-that-was-in-no-list", u, a, args, res, map[string]interface{}{"key": name})
			}
		}
		if leaving[id] > 0 && was && !req[id] {
			l.counters["leaving_unrequested"]++
		}
		// keys that are in no input list must not appear in the new lists
		if !was && !isNew[id] {
			if listed[id] > 0 {
				l.violation("UpdateNodeLists:new-lists-contain-key-that-was-in-no-list", u, a, args, res, map[string]interface{}{"key": name})
			}
			if still[id] > 0 {
				l.counters["still_remaining_reports_unknown_key"]++
			}
			continue
		}
		// (a) conservation over old eligible ∪ old waiting ∪ new
		origin := "new-node"
		if inE[id] {
			origin = "eligible"
		} else if inW[id] {
			origin = "waiting"
		}
		total := listed[id] + effLeaving
		switch {
		case total == 0:
			l.violation("UpdateNodeLists:validator-lost", u, a, args, res, map[string]interface{}{"key": name, "was": origin})
		case listed[id] >= 2:
			l.violation("UpdateNodeLists:validator-duplicated-in-new-lists", u, a, args, res, map[string]interface{}{"key": name, "was": origin})
		case listed[id] >= 1 && effLeaving >= 1:
			l.violation("UpdateNodeLists:validator-both-in-leaving-and-in-new-lists", u, a, args, res, map[string]interface{}{"key": name, "was": origin})
		case effLeaving >= 2:
			l.violation("UpdateNodeLists:validator-twice-in-leaving", u, a, args, res, map[string]interface{}{"key": name, "was": origin})
		}
		// (c) a request reported as still remaining leaves the validator in the lists
		if still[id] > 0 && was {
			if listed[id] == 0 {
				if leaving[id] > 0 && reqN[id] >= 2 {
					// the key was requested twice: one request honoured, the second reported as
					// remaining. The validator itself is accounted for exactly once.
					l.counters["duplicate_request_reported_leaving_and_still_remaining"]++
				} else {
					l.violation("UpdateNodeLists:still-remaining-validator-not-in-new-lists", u, a, args, res, map[string]interface{}{"key": name})
				}
			} else if leaving[id] == 0 {
				l.counters["still_remaining_and_listed"]++
			}
		}
		if still[id] > 0 && !req[id] {
			l.counters["still_remaining_unrequested"]++
		}
	}
}

func sortedKeys(m map[string]int64) []string {
	ks := make([]string, 0, len(m))
	for k := range m {
		ks = append(ks, k)
	}
	sort.Strings(ks)
	return ks
}
