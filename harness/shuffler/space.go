package main

import (
	"fmt"
	"sort"
	"strings"

	"github.com/ElrondNetwork/elrond-go/core"
	"github.com/ElrondNetwork/elrond-go/sharding"
	"verif/engine/mc"
)

// ---------------------------------------------------------------------------------------
// Key universe. Every validator is a real sharding.NewValidator whose public key is its
// name: E<chain>.<i> / W<chain>.<i> (eligible / waiting slot i of chain 0, 1 or m = meta),
// N<i> (newly registered), G<i> (ghost: a key that is in no list and is not new).
// ---------------------------------------------------------------------------------------

const (
	slots   = 4 // slots per (chain, kind)
	chMeta  = 2 // chain index of the metachain (chains 0,1 are shards 0,1)
	idNew   = 24
	maxNew  = 3
	idGhost = idNew + maxNew
	nGhost  = 2
	nIDs    = idGhost + nGhost
)

var (
	names   [nIDs]string
	vals    [nIDs]sharding.Validator
	idByKey map[string]uint8
	chLabel = [3]string{"0", "1", "m"}
)

func idOf(chain, kind, idx int) uint8 { return uint8(chain*8 + kind*slots + idx) }

func initUniverse() {
	idByKey = map[string]uint8{}
	for ch := 0; ch < 3; ch++ {
		for k, p := range []string{"E", "W"} {
			for i := 0; i < slots; i++ {
				names[idOf(ch, k, i)] = fmt.Sprintf("%s%s.%d", p, chLabel[ch], i)
			}
		}
	}
	for i := 0; i < maxNew; i++ {
		names[idNew+i] = fmt.Sprintf("N%d", i)
	}
	for i := 0; i < nGhost; i++ {
		names[idGhost+i] = fmt.Sprintf("G%d", i)
	}
	for id := 0; id < nIDs; id++ {
		pk := make([]byte, len(names[id])) // exact capacity: shuffleList appends to PubKey()
		copy(pk, names[id])
		v, err := sharding.NewValidator(pk, 1, uint32(id))
		if err != nil {
			panic(err)
		}
		vals[id] = v
		idByKey[names[id]] = uint8(id)
	}
}

func shardID(chain int) uint32 {
	if chain == chMeta {
		return core.MetachainShardId
	}
	return uint32(chain)
}

// cfg is the structural part of an input: shard count, list sizes and configured minimums.
type cfg struct {
	nb      int    // number of shards (1 or 2); chains = shards + meta
	e, w    [3]int // sizes per chain index (chain 1 unused when nb == 1)
	minS    int    // NodesShard
	minM    int    // NodesMeta
	missing bool   // lists of size 0 are absent from the input maps instead of present-and-empty
}

func (cf *cfg) chains() []int {
	if cf.nb == 1 {
		return []int{0, chMeta}
	}
	return []int{0, 1, chMeta}
}

func (cf *cfg) min(chain int) int {
	if chain == chMeta {
		return cf.minM
	}
	return cf.minS
}

func (cf *cfg) total() int {
	t := 0
	for _, ch := range cf.chains() {
		t += cf.e[ch] + cf.w[ch]
	}
	return t
}

// populated is C14's precondition (and the condition under which UpdateNodeLists is expected
// not to return ErrSmallShardEligibleListSize).
func (cf *cfg) populated() bool {
	for _, ch := range cf.chains() {
		if cf.e[ch]+cf.w[ch] < cf.min(ch) {
			return false
		}
	}
	return true
}

func (cf *cfg) hasEmpty() bool {
	for _, ch := range cf.chains() {
		if cf.e[ch] == 0 || cf.w[ch] == 0 {
			return true
		}
	}
	return false
}

func (cf *cfg) String() string {
	var b strings.Builder
	fmt.Fprintf(&b, "nb=%d", cf.nb)
	for _, ch := range cf.chains() {
		fmt.Fprintf(&b, " %s:%d+%d", chLabel[ch], cf.e[ch], cf.w[ch])
	}
	fmt.Fprintf(&b, " min=%d/%d", cf.minS, cf.minM)
	if cf.missing {
		b.WriteString(" missing")
	}
	return b.String()
}

// knobs is the non-structural configuration of one run.
type knobs struct {
	cap   int8 // NodesToShufflePerShard: -1 = no MaxNodesEnableConfig entry (default = NodesShard), else 0 or 1
	nNew  int8
	fix   bool // waiting-list fix flag (Epoch >= WaitingListFixEnableEpoch)
	bal   bool // balance-waiting-lists flag (Epoch >= BalanceWaitingListsEnableEpoch)
	cross bool // ShuffleBetweenShards: CrossShardValidatorDistributor, else IntraShardValidatorDistributor
}

func (k *knobs) String() string {
	return fmt.Sprintf("cap=%d new=%d fix=%v bal=%v cross=%v", k.cap, k.nNew, k.fix, k.bal, k.cross)
}

// hashed returns the ids that pass through shuffleList (eligible and new nodes).
func hashed(cf *cfg, nNew int) []uint8 {
	var h []uint8
	for _, ch := range cf.chains() {
		for i := 0; i < cf.e[ch]; i++ {
			h = append(h, idOf(ch, 0, i))
		}
	}
	for i := 0; i < nNew; i++ {
		h = append(h, uint8(idNew+i))
	}
	return h
}

// known returns the ids of all eligible and waiting validators in slot order.
func known(cf *cfg) []uint8 {
	var k []uint8
	for _, ch := range cf.chains() {
		for i := 0; i < cf.e[ch]; i++ {
			k = append(k, idOf(ch, 0, i))
		}
		for i := 0; i < cf.w[ch]; i++ {
			k = append(k, idOf(ch, 1, i))
		}
	}
	return k
}

// ---------------------------------------------------------------------------------------
// Leaving-request generators. All of them call yield(u, a) with id lists that must not be
// retained (buffers are reused).
// ---------------------------------------------------------------------------------------

// leaveSpec selects a generator.
//
//	ordered: every pair (UnStakeLeaving, AdditionalLeaving) of ordered lists over
//	         known ∪ new-node keys ∪ ghosts whose concatenation has <= distinct different keys,
//	         plus (dup) at most one key occurring twice (inside one list or across both).
//	         Ghosts are interchangeable (compared with bytes.Equal only, never hashed), so G1
//	         only occurs after G0.
//	assign3: every function known -> {stays, unstake-leaving, additional-leaving}; both lists
//	         in slot order.
//	counts:  for every (chain, eligible|waiting) class of size s every (u,a), u+a<=s: the first
//	         u slots are unstake-leaving, the next a slots additional-leaving.
//	bulk:    every chain independently: nobody leaves / all its validators unstake-leaving /
//	         all additional-leaving / eligible unstake + waiting additional / the reverse.
type leaveSpec struct {
	kind     string
	distinct int
	dup      bool
}

func (ls leaveSpec) String() string {
	switch ls.kind {
	case "ordered":
		return fmt.Sprintf("ordered<=%d,dup=%v", ls.distinct, ls.dup)
	}
	return ls.kind
}

func genLeaving(ls leaveSpec, cf *cfg, nNew int, yield func(u, a []uint8)) {
	switch ls.kind {
	case "ordered":
		uni := known(cf)
		for i := 0; i < nNew; i++ {
			uni = append(uni, uint8(idNew+i))
		}
		g0 := len(uni)
		uni = append(uni, idGhost, idGhost+1)
		seq := make([]uint8, 0, ls.distinct+1)
		used := make([]bool, len(uni))
		var rec func(distinct int, dupUsed bool)
		rec = func(distinct int, dupUsed bool) {
			for j := len(seq); j >= 0; j-- { // all-unstake split first
				yield(seq[:j], seq[j:])
			}
			for p := range uni {
				if !used[p] {
					if distinct == ls.distinct || (p == g0+1 && !used[g0]) {
						continue
					}
					used[p] = true
					seq = append(seq, uni[p])
					rec(distinct+1, dupUsed)
					seq = seq[:len(seq)-1]
					used[p] = false
				} else if ls.dup && !dupUsed {
					seq = append(seq, uni[p])
					rec(distinct, true)
					seq = seq[:len(seq)-1]
				}
			}
		}
		rec(0, false)
	case "assign3":
		kn := known(cf)
		n := 1
		for range kn {
			n *= 3
		}
		u := make([]uint8, 0, len(kn))
		a := make([]uint8, 0, len(kn))
		for x := 0; x < n; x++ {
			u, a = u[:0], a[:0]
			y := x
			for _, id := range kn {
				switch y % 3 {
				case 1:
					u = append(u, id)
				case 2:
					a = append(a, id)
				}
				y /= 3
			}
			yield(u, a)
		}
	case "counts":
		type class struct{ ids []uint8 }
		var cl []class
		for _, ch := range cf.chains() {
			for k, s := range []int{cf.e[ch], cf.w[ch]} {
				if s == 0 {
					continue
				}
				ids := make([]uint8, s)
				for i := range ids {
					ids[i] = idOf(ch, k, i)
				}
				cl = append(cl, class{ids})
			}
		}
		u := make([]uint8, 0, 16)
		a := make([]uint8, 0, 16)
		var rec func(i int)
		rec = func(i int) {
			if i == len(cl) {
				yield(u, a)
				return
			}
			s := len(cl[i].ids)
			for nu := 0; nu <= s; nu++ {
				for na := 0; nu+na <= s; na++ {
					lu, la := len(u), len(a)
					u = append(u, cl[i].ids[:nu]...)
					a = append(a, cl[i].ids[nu:nu+na]...)
					rec(i + 1)
					u, a = u[:lu], a[:la]
				}
			}
		}
		rec(0)
	case "bulk":
		chains := cf.chains()
		u := make([]uint8, 0, 16)
		a := make([]uint8, 0, 16)
		var rec func(i int)
		rec = func(i int) {
			if i == len(chains) {
				yield(u, a)
				return
			}
			ch := chains[i]
			var el, wl []uint8
			for j := 0; j < cf.e[ch]; j++ {
				el = append(el, idOf(ch, 0, j))
			}
			for j := 0; j < cf.w[ch]; j++ {
				wl = append(wl, idOf(ch, 1, j))
			}
			for mode := 0; mode < 5; mode++ {
				lu, la := len(u), len(a)
				switch mode {
				case 1:
					u = append(append(u, el...), wl...)
				case 2:
					a = append(append(a, el...), wl...)
				case 3:
					u = append(u, el...)
					a = append(a, wl...)
				case 4:
					u = append(u, wl...)
					a = append(a, el...)
				}
				rec(i + 1)
				u, a = u[:lu], a[:la]
			}
		}
		rec(0)
	default:
		panic("unknown leaving generator " + ls.kind)
	}
}

// ---------------------------------------------------------------------------------------
// Slices: each one is an exhaustively enumerated product
//   configs (shard count x list sizes x minimums [x empty-as-absent]) x knobs x seeds x leaving.
// Depth of the leaving generator and strength of the randomness alphabet are functions of the
// number of listed validators ("total"), because the product grows with it.
// ---------------------------------------------------------------------------------------

// seedRule: the alphabet of a case with hashed key set H realises every order of every
// sub-subset of H and every order of H's first ref keys (both clipped to |H|, so the alphabet
// is permutation-complete when |H| <= max(sub, ref)).
type seedRule struct{ sub, ref int }

func (r seedRule) String() string { return fmt.Sprintf("%d-subsets+first%d", r.sub, r.ref) }

type lenRule struct {
	maxTotal int // applies to configs with at most this many eligible+waiting validators
	spec     leaveSpec
	seeds    seedRule
}

type slice struct {
	name    string
	nbs     []int
	maxE    int
	maxW    int
	mins    []int
	caps    []int
	maxNew  int
	fixes   []bool
	missing bool      // additionally run every config that has an empty list with that list absent from the map
	rules   []lenRule // first rule whose maxTotal >= cfg.total() applies; none -> config not in slice
	under   leaveSpec // generator for under-populated configs (an error is expected there), 1 seed
}

type task struct {
	sl   *slice
	cf   *cfg
	kn   knobs
	rule *lenRule
	spec *leaveSpec
	n    int64
}

var underSeeds = seedRule{1, 1}

func (t *task) seedRule() seedRule {
	if t.rule == nil {
		return underSeeds
	}
	return t.rule.seeds
}

func (t *task) seedList(alpha *alphabets) []string {
	return alpha.get(hashed(t.cf, int(t.kn.nNew)), t.seedRule())
}

func (t *task) size(alpha *alphabets) int64 {
	return t.n * int64(len(t.seedList(alpha)))
}

func (t *task) run(l *local, alpha *alphabets) {
	seeds := t.seedList(alpha)
	l.begin(t.cf, &t.kn)
	for _, s := range seeds {
		l.setSeed(s)
		genLeaving(*t.spec, t.cf, int(t.kn.nNew), l.eval)
	}
	l.end()
}

func buildTasks(c *mc.Ctx, slices []slice) []task {
	var tasks []task
	for si := range slices {
		sl := &slices[si]
		var cfgs []cfg
		for _, nb := range sl.nbs {
			chains := (&cfg{nb: nb}).chains()
			var rec func(i int, cur cfg)
			rec = func(i int, cur cfg) {
				if i == len(chains) {
					for _, ms := range sl.mins {
						for _, mm := range sl.mins {
							cur.minS, cur.minM = ms, mm
							cfgs = append(cfgs, cur)
							if sl.missing && cur.hasEmpty() {
								m := cur
								m.missing = true
								cfgs = append(cfgs, m)
							}
						}
					}
					return
				}
				for e := 0; e <= sl.maxE; e++ {
					for w := 0; w <= sl.maxW; w++ {
						cur.e[chains[i]], cur.w[chains[i]] = e, w
						rec(i+1, cur)
					}
				}
			}
			rec(0, cfg{nb: nb})
		}
		for ci := range cfgs {
			cf := &cfgs[ci]
			var spec *leaveSpec
			var rule *lenRule
			if !cf.populated() {
				spec = &sl.under
			} else {
				for ri := range sl.rules {
					if cf.total() <= sl.rules[ri].maxTotal {
						rule = &sl.rules[ri]
						spec = &rule.spec
						break
					}
				}
				if spec == nil {
					continue
				}
			}
			for _, cp := range sl.caps {
				for nn := 0; nn <= sl.maxNew; nn++ {
					for _, fix := range sl.fixes {
						for _, bal := range []bool{false, true} {
							for _, cross := range []bool{false, true} {
								tasks = append(tasks, task{sl: sl, cf: cf, spec: spec, rule: rule,
									kn: knobs{cap: int8(cp), nNew: int8(nn), fix: fix, bal: bal, cross: cross}})
							}
						}
					}
				}
			}
		}
	}
	// The number of leaving inputs only depends on the generator and the list sizes: cache it.
	cnt := map[string]int64{}
	for i := range tasks {
		t := &tasks[i]
		k := fmt.Sprint(*t.spec, t.cf.nb, t.cf.e, t.cf.w, t.kn.nNew)
		if t.spec.kind == "ordered" {
			k = fmt.Sprint(*t.spec, t.cf.total(), t.kn.nNew)
		}
		n, ok := cnt[k]
		if !ok {
			genLeaving(*t.spec, t.cf, int(t.kn.nNew), func(u, a []uint8) { n++ })
			cnt[k] = n
		}
		t.n = n
	}
	// biggest first (load balance); size without the seed factor is good enough
	idx := make([]int, len(tasks))
	for i := range idx {
		idx[i] = i
	}
	sort.SliceStable(idx, func(i, j int) bool { return tasks[idx[i]].n > tasks[idx[j]].n })
	sorted := make([]task, len(tasks))
	for i, j := range idx {
		sorted[i] = tasks[j]
	}
	return sorted
}

func ord(distinct int, dup bool) leaveSpec {
	return leaveSpec{kind: "ordered", distinct: distinct, dup: dup}
}

var (
	assign3 = leaveSpec{kind: "assign3"}
	counts  = leaveSpec{kind: "counts"}
	bulk    = leaveSpec{kind: "bulk"}
)

func slicesFor(prop string, quick bool) []slice {
	both := []bool{false, true}
	on := []bool{true}
	caps := []int{-1, 0, 1}
	m3 := []int{1, 2, 3}
	nb12 := []int{1, 2}
	pair, triple, quad := seedRule{2, 2}, seedRule{3, 3}, seedRule{3, 4}
	_ = quad
	if prop == "C12" {
		if quick {
			return []slice{
				{name: "Q-wide", nbs: nb12, maxE: 2, maxW: 1, mins: m3, caps: caps, maxNew: 2, fixes: both, missing: true, under: ord(1, false),
					rules: []lenRule{{3, ord(2, true), triple}, {4, ord(2, true), pair}, {9, ord(1, true), pair}}},
			}
		}
		return []slice{
			{name: "T-wide", nbs: nb12, maxE: 3, maxW: 2, mins: m3, caps: caps, maxNew: 2, fixes: both, missing: false, under: ord(1, false),
				rules: []lenRule{{15, ord(1, true), pair}}},
			{name: "T-mid", nbs: nb12, maxE: 2, maxW: 1, mins: m3, caps: caps, maxNew: 2, fixes: both, missing: true, under: ord(1, false),
				rules: []lenRule{{3, ord(3, true), triple}, {4, ord(2, true), quad}, {9, ord(2, true), pair}}},
		}
	}
	// C14: waiting-list fix on.
	if quick {
		return []slice{
			{name: "Q-assign", nbs: nb12, maxE: 2, maxW: 2, mins: m3, caps: caps, maxNew: 1, fixes: on, missing: true, under: ord(1, false),
				rules: []lenRule{{5, assign3, pair}}},
		}
	}
	return []slice{
		{name: "T-assign", nbs: nb12, maxE: 3, maxW: 2, mins: m3, caps: caps, maxNew: 1, fixes: on, missing: true, under: ord(1, false),
			rules: []lenRule{{6, assign3, pair}, {8, counts, pair}, {15, bulk, pair}}},
		{name: "T-ordered", nbs: nb12, maxE: 2, maxW: 1, mins: m3, caps: caps, maxNew: 1, fixes: on, missing: false, under: ord(1, false),
			rules: []lenRule{{9, ord(2, true), pair}}},
	}
}

func describe(c *mc.Ctx, slices []slice, alpha *alphabets) {
	var parts []string
	for _, sl := range slices {
		var rs []string
		for _, r := range sl.rules {
			rs = append(rs, fmt.Sprintf("<=%d listed validators: leaving %s, randomness %s", r.maxTotal, r.spec, r.seeds))
		}
		parts = append(parts, fmt.Sprintf("[%s: shards %v (+meta) x eligible 0..%d x waiting 0..%d per chain x NodesShard,NodesMeta in %v x NodesToShufflePerShard %v (-1=default) x new nodes 0..%d x waitingListFix %v x balance {off,on} x {intra,cross}-shard distributor; empty lists also as absent map keys: %v; by size {%s}; configs with a chain below its minimum (error expected): %s, 1 seed]",
			sl.name, sl.nbs, sl.maxE, sl.maxW, sl.mins, sl.caps, sl.maxNew, sl.fixes, sl.missing, strings.Join(rs, "; "), sl.under))
	}
	gloss := "; leaving 'ordered<=k,dup' = every pair (UnStakeLeaving, AdditionalLeaving) of ordered lists over eligible ∪ waiting ∪ new-node keys ∪ 2 ghost keys with <=k distinct keys in total and (dup) at most one key occurring twice; 'assign3' = every map listed validator -> {stays, UnStakeLeaving, AdditionalLeaving} (up to all validators leaving); 'counts' = per (chain, list) every (u,a), u+a<=size: first u slots unstake-leaving, next a additional-leaving; 'bulk' = per chain one of {nobody, all unstake, all additional, eligible unstake + waiting additional, the reverse}; randomness 'k-subsets+firstN' = seeds found at start-up with the real shuffleList realising every order of every k-subset of the hashed keys and of the first N hashed keys"
	if c.Prop == "C12" {
		c.Rule = "every input of " + strings.Join(parts, " + ") + gloss +
			"; non-trivial = a run with >=1 honoured (validator in Leaving) and >=1 refused (requested, listed, still in a list) leaving request, keyed by (config, fix flag, #honoured, #refused)"
	} else {
		c.Rule = "every input of " + strings.Join(parts, " + ") + gloss +
			"; judged when eligible+waiting >= minimum on every chain; non-trivial = a run where >=1 leaving request of a listed validator was refused, keyed by (config, #honoured, #refused)"
	}
	c.Bound = "all slices completely enumerated"
	c.Assumptions = append(c.Assumptions,
		"input lists hold pairwise distinct validators (a validator is in at most one eligible/waiting list and new nodes are in none)",
		"Adaptivity=false, Hysteresis=0 (split/merge are not implemented in the repo and only copy the maps)",
		"randomness influences UpdateNodeLists only through the order sha256(pubKey||rand) induces on the keys passed to shuffleList (eligible and new validators); 'any randomness' is covered up to the stated strength, not for every total order of larger key sets",
		"the two ghost keys are interchangeable (never hashed, only compared for equality), so only lists where G1 follows G0 are run",
	)
	if c.Prop == "C12" {
		c.Assumptions = append(c.Assumptions,
			"a leaving request counts as honoured iff the validator's key is in ResUpdateNodes.Leaving; StillRemaining is judged only as 'a listed validator reported as still remaining, and not also reported leaving because its key was requested twice, is in a new list'",
			"a validator in Leaving that was never requested to leave is counted (leaving_unrequested), not judged: the statement does not forbid it",
		)
	} else {
		c.Assumptions = append(c.Assumptions,
			"minimum of a shard = NodesShard, of the metachain = NodesMeta (the values the shuffler was constructed with)",
			"an error returned although the precondition holds is reported as a violation of its own class (the reshuffle did not happen)")
	}
	c.Set("seed_alphabets", alpha.summary())
}
