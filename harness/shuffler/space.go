package main

import (
	"fmt"
	"sort"
	"strings"

	"github.com/ElrondNetwork/elrond-go/core"
	"github.com/ElrondNetwork/elrond-go/sharding"
	"verif/engine/mc"
)

// ---------------------------------------------------------------------------------------
// Key universe. Every validator is a real sharding.NewValidator whose public key is its
// name: E<chain>.<i> / W<chain>.<i> (eligible / waiting slot i of chain 0, 1 or m = meta),
// N<i> (newly registered), G<i> (ghost: a key that is in no list and is not new).
// ---------------------------------------------------------------------------------------

const (
	slots   = 4 // slots per (chain, kind)
	chMeta  = 2 // chain index of the metachain (chains 0,1 are shards 0,1)
	idNew   = 24
	maxNew  = 3
	idGhost = idNew + maxNew
	nGhost  = 2
	nIDs    = idGhost + nGhost
)

var (
	names   [nIDs]string
	vals    [nIDs]sharding.Validator
	idByKey map[string]uint8
	chLabel = [3]string{"0", "1", "m"}
)

func idOf(chain, kind, idx int) uint8 { return uint8(chain*8 + kind*slots + idx) }

func initUniverse() {
	idByKey = map[string]uint8{}
	for ch := 0; ch < 3; ch++ {
		for k, p := range []string{"E", "W"} {
			for i := 0; i < slots; i++ {
				names[idOf(ch, k, i)] = fmt.Sprintf("%s%s.%d", p, chLabel[ch], i)
			}
		}
	}
	for i := 0; i < maxNew; i++ {
		names[idNew+i] = fmt.Sprintf("N%d", i)
	}
	for i := 0; i < nGhost; i++ {
		names[idGhost+i] = fmt.Sprintf("G%d", i)
	}
	for id := 0; id < nIDs; id++ {
		pk := make([]byte, len(names[id])) // exact capacity: shuffleList appends to PubKey()
		copy(pk, names[id])
		v, err := sharding.NewValidator(pk, 1, uint32(id))
		if err != nil {
			panic(err)
		}
		vals[id] = v
		idByKey[names[id]] = uint8(id)
	}
}

func shardID(chain int) uint32 {
	if chain == chMeta {
		return core.MetachainShardId
	}
	return uint32(chain)
}

// cfg is the structural part of an input: shard count, list sizes and configured minimums.
type cfg struct {
	nb      int    // number of shards (1 or 2); chains = shards + meta
	e, w    [3]int // sizes per chain index (chain 1 unused when nb == 1)
	minS    int    // NodesShard
	minM    int    // NodesMeta
	missing bool   // lists of size 0 are absent from the input maps instead of present-and-empty
}

func (cf *cfg) chains() []int {
	if cf.nb == 1 {
		return []int{0, chMeta}
	}
	return []int{0, 1, chMeta}
}

func (cf *cfg) min(chain int) int {
	if chain == chMeta {
		return cf.minM
	}
	return cf.minS
}

func (cf *cfg) total() int {
	t := 0
	for _, ch := range cf.chains() {
		t += cf.e[ch] + cf.w[ch]
	}
	return t
}

// populated is C14's precondition (and the condition under which UpdateNodeLists is expected
// not to return ErrSmallShardEligibleListSize).
func (cf *cfg) populated() bool {
	for _, ch := range cf.chains() {
		if cf.e[ch]+cf.w[ch] < cf.min(ch) {
			return false
		}
	}
	return true
}

func (cf *cfg) hasEmpty() bool {
	for _, ch := range cf.chains() {
		if cf.e[ch] == 0 || cf.w[ch] == 0 {
			return true
		}
	}
	return false
}

func (cf *cfg) String() string {
	var b strings.Builder
	fmt.Fprintf(&b, "nb=%d", cf.nb)
	for _, ch := range cf.chains() {
		fmt.Fprintf(&b, " %s:%d+%d", chLabel[ch], cf.e[ch], cf.w[ch])
	}
	fmt.Fprintf(&b, " min=%d/%d", cf.minS, cf.minM)
	if cf.missing {
		b.WriteString(" missing")
	}
	return b.String()
}

// knobs is the non-structural configuration of one run.
type knobs struct {
	cap   int // NodesToShufflePerShard: -1 = no MaxNodesEnableConfig entry (default = NodesShard), else 0 or 1
	nNew  int
	fix   bool // waiting-list fix flag (Epoch >= WaitingListFixEnableEpoch)
	bal   bool // balance-waiting-lists flag (Epoch >= BalanceWaitingListsEnableEpoch)
	cross bool // ShuffleBetweenShards: CrossShardValidatorDistributor, else IntraShardValidatorDistributor
}

func (k *knobs) String() string {
	return fmt.Sprintf("cap=%d new=%d fix=%v bal=%v cross=%v", k.cap, k.nNew, k.fix, k.bal, k.cross)
}

// hashed returns the ids that pass through shuffleList (eligible and new nodes).
func hashed(cf *cfg, nNew int) []uint8 {
	var h []uint8
	for _, ch := range cf.chains() {
		for i := 0; i < cf.e[ch]; i++ {
			h = append(h, idOf(ch, 0, i))
		}
	}
	for i := 0; i < nNew; i++ {
		h = append(h, uint8(idNew+i))
	}
	return h
}

// known returns the ids of all eligible and waiting validators in slot order.
func known(cf *cfg) []uint8 {
	var k []uint8
	for _, ch := range cf.chains() {
		for i := 0; i < cf.e[ch]; i++ {
			k = append(k, idOf(ch, 0, i))
		}
		for i := 0; i < cf.w[ch]; i++ {
			k = append(k, idOf(ch, 1, i))
		}
	}
	return k
}

// ---------------------------------------------------------------------------------------
// Leaving-request generators. All of them call yield(u, a) with id lists that must not be
// retained (buffers are reused).
// ---------------------------------------------------------------------------------------

// leaveSpec selects a generator.
//
//	ordered: every pair (UnStakeLeaving, AdditionalLeaving) of ordered lists over
//	         known ∪ new-node keys ∪ ghosts whose concatenation has <= distinct different keys,
//	         plus (dup) at most one key occurring twice (inside one list or across both).
//	         Ghosts are interchangeable (compared with bytes.Equal only, never hashed), so G1
//	         only occurs after G0.
//	assign3: every function known -> {stays, unstake-leaving, additional-leaving}; both lists
//	         in slot order.
//	counts:  for every (chain, eligible|waiting) class of size s every (u,a), u+a<=s: the first
//	         u slots are unstake-leaving, the next a slots additional-leaving.
type leaveSpec struct {
	kind     string
	distinct int
	dup      bool
}

func (ls leaveSpec) String() string {
	switch ls.kind {
	case "ordered":
		return fmt.Sprintf("ordered<=%d,dup=%v", ls.distinct, ls.dup)
	}
	return ls.kind
}

func genLeaving(ls leaveSpec, cf *cfg, nNew int, yield func(u, a []uint8)) {
	switch ls.kind {
	case "ordered":
		uni := known(cf)
		for i := 0; i < nNew; i++ {
			uni = append(uni, uint8(idNew+i))
		}
		g0 := len(uni)
		uni = append(uni, idGhost, idGhost+1)
		seq := make([]uint8, 0, ls.distinct+1)
		used := make([]bool, len(uni))
		var rec func(distinct int, dupUsed bool)
		rec = func(distinct int, dupUsed bool) {
			for j := 0; j <= len(seq); j++ {
				yield(seq[:j], seq[j:])
				if len(seq) == 0 {
					break
				}
			}
			for p := range uni {
				if !used[p] {
					if distinct == ls.distinct || (p == g0+1 && !used[g0]) {
						continue
					}
					used[p] = true
					seq = append(seq, uni[p])
					rec(distinct+1, dupUsed)
					seq = seq[:len(seq)-1]
					used[p] = false
				} else if ls.dup && !dupUsed {
					seq = append(seq, uni[p])
					rec(distinct, true)
					seq = seq[:len(seq)-1]
				}
			}
		}
		rec(0, false)
	case "assign3":
		kn := known(cf)
		n := 1
		for range kn {
			n *= 3
		}
		u := make([]uint8, 0, len(kn))
		a := make([]uint8, 0, len(kn))
		for x := 0; x < n; x++ {
			u, a = u[:0], a[:0]
			y := x
			for _, id := range kn {
				switch y % 3 {
				case 1:
					u = append(u, id)
				case 2:
					a = append(a, id)
				}
				y /= 3
			}
			yield(u, a)
		}
	case "counts":
		type class struct{ ids []uint8 }
		var cl []class
		for _, ch := range cf.chains() {
			for k, s := range []int{cf.e[ch], cf.w[ch]} {
				if s == 0 {
					continue
				}
				ids := make([]uint8, s)
				for i := range ids {
					ids[i] = idOf(ch, k, i)
				}
				cl = append(cl, class{ids})
			}
		}
		u := make([]uint8, 0, 16)
		a := make([]uint8, 0, 16)
		var rec func(i int)
		rec = func(i int) {
			if i == len(cl) {
				yield(u, a)
				return
			}
			s := len(cl[i].ids)
			for nu := 0; nu <= s; nu++ {
				for na := 0; nu+na <= s; na++ {
					lu, la := len(u), len(a)
					u = append(u, cl[i].ids[:nu]...)
					a = append(a, cl[i].ids[nu:nu+na]...)
					rec(i + 1)
					u, a = u[:lu], a[:la]
				}
			}
		}
		rec(0)
	default:
		panic("unknown leaving generator " + ls.kind)
	}
}

// ---------------------------------------------------------------------------------------
// Slices: each one is an exhaustively enumerated product.
// ---------------------------------------------------------------------------------------

type lenRule struct {
	maxTotal int // applies to configs with at most this many eligible+waiting validators
	spec     leaveSpec
}

type slice struct {
	name    string
	nbs     []int
	maxE    int
	maxW    int
	mins    []int
	caps    []int
	maxNew  int
	fixes   []bool
	missing bool      // additionally run every config with an empty list once with that list absent from the map
	rules   []lenRule // first rule whose maxTotal >= cfg.total() applies; none -> config not in slice
	under   leaveSpec // generator for under-populated configs (an error is expected there)
	tway    int       // strength of the randomness alphabet (see seeds.go)
}

type task struct {
	sl    *slice
	cf    cfg
	kn    knobs
	spec  leaveSpec
	seeds int // 0 = whole alphabet of the hashed set, else only the first n seeds
	n     int64
}

func (t *task) seedList(alpha *alphabets) []string {
	s := alpha.get(hashed(&t.cf, t.kn.nNew), t.sl.tway)
	if t.seeds > 0 && len(s) > t.seeds {
		s = s[:t.seeds]
	}
	return s
}

func (t *task) size(alpha *alphabets) int64 {
	if t.n == 0 {
		n := int64(0)
		genLeaving(t.spec, &t.cf, t.kn.nNew, func(u, a []uint8) { n++ })
		t.n = n
	}
	return t.n * int64(len(t.seedList(alpha)))
}

func (t *task) run(l *local, alpha *alphabets) {
	seeds := t.seedList(alpha)
	l.begin(&t.cf, &t.kn)
	for _, s := range seeds {
		l.setSeed(s)
		genLeaving(t.spec, &t.cf, t.kn.nNew, l.eval)
	}
	l.end()
}

func buildTasks(c *mc.Ctx, slices []slice) []task {
	var tasks []task
	for si := range slices {
		sl := &slices[si]
		var cfgs []cfg
		for _, nb := range sl.nbs {
			chains := (&cfg{nb: nb}).chains()
			var rec func(i int, cur cfg)
			rec = func(i int, cur cfg) {
				if i == len(chains) {
					for _, ms := range sl.mins {
						for _, mm := range sl.mins {
							cur.minS, cur.minM = ms, mm
							cfgs = append(cfgs, cur)
							if sl.missing && cur.hasEmpty() {
								m := cur
								m.missing = true
								cfgs = append(cfgs, m)
							}
						}
					}
					return
				}
				for e := 0; e <= sl.maxE; e++ {
					for w := 0; w <= sl.maxW; w++ {
						cur.e[chains[i]], cur.w[chains[i]] = e, w
						rec(i+1, cur)
					}
				}
			}
			rec(0, cfg{nb: nb})
		}
		for _, cf := range cfgs {
			var spec leaveSpec
			seeds := 0
			if !cf.populated() {
				spec, seeds = sl.under, 1
			} else {
				found := false
				for _, r := range sl.rules {
					if cf.total() <= r.maxTotal {
						spec, found = r.spec, true
						break
					}
				}
				if !found {
					continue
				}
			}
			for _, cp := range sl.caps {
				for nn := 0; nn <= sl.maxNew; nn++ {
					for _, fix := range sl.fixes {
						for _, bal := range []bool{false, true} {
							for _, cross := range []bool{false, true} {
								tasks = append(tasks, task{sl: sl, cf: cf, spec: spec, seeds: seeds,
									kn: knobs{cap: cp, nNew: nn, fix: fix, bal: bal, cross: cross}})
							}
						}
					}
				}
			}
		}
	}
	// biggest first (load balance); size without the seed factor is good enough. The number
	// of leaving inputs only depends on the generator and the list sizes: cache it.
	cnt := map[string]int64{}
	for i := range tasks {
		t := &tasks[i]
		k := fmt.Sprint(t.spec, t.cf.nb, t.cf.e, t.cf.w, t.kn.nNew)
		if t.spec.kind == "ordered" {
			k = fmt.Sprint(t.spec, t.cf.total(), t.kn.nNew)
		}
		n, ok := cnt[k]
		if !ok {
			genLeaving(t.spec, &t.cf, t.kn.nNew, func(u, a []uint8) { n++ })
			cnt[k] = n
		}
		t.n = n
	}
	idx := make([]int, len(tasks))
	for i := range idx {
		idx[i] = i
	}
	sort.SliceStable(idx, func(i, j int) bool { return tasks[idx[i]].n > tasks[idx[j]].n })
	sorted := make([]task, len(tasks))
	for i, j := range idx {
		sorted[i] = tasks[j]
	}
	return sorted
}

func ord(distinct int, dup bool) leaveSpec {
	return leaveSpec{kind: "ordered", distinct: distinct, dup: dup}
}

func slicesFor(prop string, quick bool) []slice {
	both := []bool{false, true}
	caps := []int{-1, 0, 1}
	if prop == "C12" {
		if quick {
			return []slice{{
				name: "C12-quick", nbs: []int{1, 2}, maxE: 2, maxW: 1, mins: []int{1, 2, 3}, caps: caps, maxNew: 2,
				fixes: both, missing: true, tway: 3, under: ord(1, false),
				rules: []lenRule{{4, ord(2, true)}, {6, ord(2, false)}, {9, ord(1, true)}},
			}}
		}
		return []slice{{
			name: "C12-thorough", nbs: []int{1, 2}, maxE: 3, maxW: 2, mins: []int{1, 2, 3}, caps: caps, maxNew: 2,
			fixes: both, missing: true, tway: 3, under: ord(1, false),
			rules: []lenRule{{4, ord(3, true)}, {6, ord(3, false)}, {9, ord(2, true)}, {15, ord(1, true)}},
		}}
	}
	// C14: waiting-list fix on.
	on := []bool{true}
	if quick {
		return []slice{
			{name: "C14-quick-assign", nbs: []int{1, 2}, maxE: 2, maxW: 2, mins: []int{1, 2, 3}, caps: caps, maxNew: 1,
				fixes: on, missing: true, tway: 2, under: ord(1, false),
				rules: []lenRule{{7, leaveSpec{kind: "assign3"}}, {12, leaveSpec{kind: "counts"}}}},
		}
	}
	return []slice{
		{name: "C14-thorough-assign", nbs: []int{1, 2}, maxE: 3, maxW: 2, mins: []int{1, 2, 3}, caps: caps, maxNew: 2,
			fixes: on, missing: true, tway: 2, under: ord(1, false),
			rules: []lenRule{{9, leaveSpec{kind: "assign3"}}, {15, leaveSpec{kind: "counts"}}}},
		{name: "C14-thorough-ordered", nbs: []int{1, 2}, maxE: 2, maxW: 1, mins: []int{1, 2, 3}, caps: caps, maxNew: 1,
			fixes: on, missing: false, tway: 2, under: ord(1, false),
			rules: []lenRule{{9, ord(2, true)}}},
	}
}

func describe(c *mc.Ctx, slices []slice, alpha *alphabets) {
	var parts []string
	for _, sl := range slices {
		var rs []string
		for _, r := range sl.rules {
			rs = append(rs, fmt.Sprintf("<=%d validators: %s", r.maxTotal, r.spec))
		}
		parts = append(parts, fmt.Sprintf("[%s: shards %v (+meta), eligible 0..%d, waiting 0..%d per chain, NodesShard/NodesMeta %v, NodesToShufflePerShard %v (-1=default), new nodes 0..%d, waitingListFix %v x balance {off,on} x {intra,cross}-shard distributor, empty lists also as absent map keys=%v, leaving requests by total size {%s}, under-populated configs (error expected): %s with 1 seed, randomness: %d-wise permutation-complete alphabet]",
			sl.name, sl.nbs, sl.maxE, sl.maxW, sl.mins, sl.caps, sl.maxNew, sl.fixes, sl.missing, strings.Join(rs, "; "), sl.under, sl.tway))
	}
	if c.Prop == "C12" {
		c.Rule = "every input of the product " + strings.Join(parts, " + ") +
			"; 'ordered<=k,dup' = every pair (UnStakeLeaving, AdditionalLeaving) of ordered lists over eligible ∪ waiting ∪ new-node keys ∪ 2 ghost keys with <=k distinct keys in total and at most one key occurring twice" +
			"; non-trivial = a run with >=1 honoured (validator in Leaving) and >=1 refused (requested, known, still in a list) leaving request, keyed by (config, knobs, #honoured, #refused)"
	} else {
		c.Rule = "every input of the product " + strings.Join(parts, " + ") +
			"; precondition eligible+waiting >= minimum on every chain; 'assign3' = every map known validator -> {stays, UnStakeLeaving, AdditionalLeaving}, 'counts' = per (chain, list) every (u,a) with u+a<=size: first u slots unstake-leaving, next a additional-leaving" +
			"; non-trivial = a run where >=1 leaving request of a listed validator was refused, keyed by (config, knobs, #honoured, #refused)"
	}
	c.Bound = "all slices completely enumerated"
	c.Assumptions = append(c.Assumptions,
		"input lists hold pairwise distinct validators (a validator is in at most one eligible/waiting list and new nodes are in none)",
		"Adaptivity=false, Hysteresis=0 (split/merge are not implemented in the repo and only copy the maps)",
		"randomness influences UpdateNodeLists only through the order sha256(pubKey||rand) induces on the keys passed to shuffleList (eligible and new validators); the alphabet realises, with the real shuffleList, every total order when a case hashes <=t+1 keys (t = strength above), otherwise every order of every t-subset and of the first t+1 hashed keys",
		"the two ghost keys are interchangeable (never hashed, only compared for equality), so only lists where G1 follows G0 are run",
	)
	if c.Prop == "C12" {
		c.Assumptions = append(c.Assumptions,
			"a leaving request counts as honoured iff the validator's key is in ResUpdateNodes.Leaving; StillRemaining is judged only as 'a listed validator reported as still remaining, and not also reported leaving because its key was requested twice, is in a new list'",
			"a validator in Leaving that was never requested to leave is counted (leaving_unrequested), not judged: the statement does not forbid it",
		)
	} else {
		c.Assumptions = append(c.Assumptions,
			"minimum of a shard = NodesShard, of the metachain = NodesMeta (the values the shuffler was constructed with)",
			"an error returned although the precondition holds is reported as a violation of its own class (the reshuffle did not happen)")
	}
	c.Set("seed_alphabets", alpha.summary())
}
