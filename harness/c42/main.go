// C42 — per-peer flood quotas are enforced.
//
// Explicit-state BFS (mc.BFS) over the real floodPreventers.quotaFloodPreventer built by
// NewQuotaFloodPreventer on a real storage/lrucache LRU (capacity 1000, never evicts with 2
// peers). One search per constructor-accepted configuration of the design's product; events
// IncreaseLoad(pid in {p,q}, size), Reset, ApplyConsensusSize(n).
//
// What the statement promises, per peer and per reset interval (the time between two Reset
// calls; the first interval starts at construction):
//
//	(1) the first message of the interval is accepted ("at least one message is always
//	    accepted");
//	(2) a message is accepted only if, counting it, the number of messages accepted from that
//	    peer in the interval is <= max(1, message quota);
//	(3) counting it, the bytes accepted from that peer in the interval are <= byte quota +
//	    size of the interval's first message.
//
// Readings fixed here (also in c.Assumptions):
//   - the message quota moves with ApplyConsensusSize. The harness keeps its own reference
//     of the quota in force, by the rule the component documents (and the unchanged tree
//     implements): base after construction; after ApplyConsensusSize(size) with size >= 1
//     and size >= threshold it is base + uint32(float32(size-threshold)*factor), a function
//     of the LAST applied size only; calls with size < 1 or size < threshold leave it
//     unchanged. Acceptances are judged against this REFERENCE quota at the moment the
//     message is offered, never against a number read from the implementation. A count that
//     is above a quota that was lowered *afterwards* is no violation (messages cannot be
//     un-accepted): the bound is evaluated at every acceptance, which is the only time the
//     count changes. This is at least as strong as DESIGN's "largest quota in force during
//     the interval".
//   - separate clause (4), own signature: after every event the quota the preventer holds
//     (export file) equals the reference quota. It catches a quota that drifts (accumulates,
//     never shrinks, ignores the base) before any peer has used the excess.
//   - when float32(size-threshold)*factor is NaN or >= 2^32 the uint32 conversion is
//     implementation-defined in Go; only edge configurations (factor NaN/+Inf/3e9) reach it.
//     For such a step no formula value exists, so the reference adopts the value the
//     preventer holds and clause (4) is skipped for that step (counted in the evidence).
//   - "quota" has two candidate meanings: the configured maximum (computed max messages,
//     MaxTotalSizePerPeer) or the share of it that is not reserved (PercentReserved). Both
//     are checked under different signatures. The first (signatures "...-over-configured-
//     quota") is the weakest reading of the sentence. The second ("...-over-unreserved-
//     share") uses the exact rational floor((100-PercentReserved)*max/100); the
//     implementation truncates the percentage to an integer first, which is only stricter,
//     so neither reading can alarm on a tree that honours its own thresholds.
//
// Nothing else is demanded: no lower bound on what is accepted, no statistics.
package main

import (
	"bytes"
	"encoding/json"
	"flag"
	"fmt"
	"math"
	"math/big"
	"strconv"
	"sync"
	"sync/atomic"

	logger "github.com/ElrondNetwork/elrond-go-logger"
	"github.com/ElrondNetwork/elrond-go/core"
	"github.com/ElrondNetwork/elrond-go/process/throttle/antiflood/floodPreventers"
	"github.com/ElrondNetwork/elrond-go/storage/lrucache"
	"verif/engine/mc"
)

const (
	sigFirst     = "quota:first-message-of-interval-rejected"
	sigMsgCfg    = "quota:accepted-messages-over-configured-quota"
	sigBytesCfg  = "quota:accepted-bytes-over-configured-quota-plus-first"
	sigMsgShare  = "quota:accepted-messages-over-unreserved-share"
	sigByteShare = "quota:accepted-bytes-over-unreserved-share-plus-first"
	sigCtor      = "quota:constructor-rejected-design-configuration"
	sigFormula   = "quota:quota-in-force-differs-from-documented-formula"
)

// preventer is the part of the real object the harness drives (the concrete type is
// unexported; the Verif* methods come from ovl/export/.../floodPreventers/c42.go).
type preventer interface {
	IncreaseLoad(pid core.PeerID, size uint64) error
	Reset()
	ApplyConsensusSize(size int)
	VerifC42State() floodPreventers.VerifC42State
	VerifC42Quota(pid core.PeerID) floodPreventers.VerifC42Quota
}

type config struct {
	Base      uint32  `json:"base_max_messages"`
	MaxSize   uint64  `json:"max_total_size"`
	Reserved  float32 `json:"percent_reserved"`
	Threshold uint32  `json:"increase_threshold"`
	Factor    float32 `json:"increase_factor"`
}

func (g config) String() string {
	return fmt.Sprintf("{base %d, maxSize %d, reserved %v%%, threshold %d, factor %v}", g.Base, g.MaxSize, g.Reserved, g.Threshold, g.Factor)
}

var pids = []core.PeerID{core.PeerID("peer-p"), core.PeerID("peer-q")}
var pidNames = []string{"p", "q"}

type op struct {
	kind int // 0 IncreaseLoad, 1 Reset, 2 ApplyConsensusSize
	peer int
	size uint64
	n    int
}

var sizes = []uint64{0, 1, 5, 10, 100}
var consensus = []int{0, 1, 3, 5, 10}

func buildMenu(sizes []uint64) (ops []op, names []string) {
	for p := range pids {
		for _, s := range sizes {
			ops = append(ops, op{kind: 0, peer: p, size: s})
			names = append(names, fmt.Sprintf("IncreaseLoad(%s,%d)", pidNames[p], s))
		}
	}
	ops = append(ops, op{kind: 1})
	names = append(names, "Reset")
	for _, n := range consensus {
		ops = append(ops, op{kind: 2, n: n})
		names = append(names, fmt.Sprintf("ApplyConsensusSize(%d)", n))
	}
	return
}

// peerRef is the boring per-peer, per-interval bookkeeping of the oracle.
type peerRef struct {
	recv     uint64 // messages offered in the interval
	accN     uint64 // messages accepted in the interval
	accBytes uint64 // bytes accepted in the interval
	first    uint64 // size of the interval's first message
	quotaMov bool   // ApplyConsensusSize changed the quota while this peer had messages in the interval
}

type system struct {
	idx     int
	cfg     config
	ops     []op
	names   []string
	shareSz uint64 // floor((100-reserved)*MaxSize/100), exact
	unres   *big.Rat
	shareN  sync.Map // computed max -> floor((100-reserved)*computed/100), exact
}

type state struct {
	y    *system
	q    preventer
	ref  [2]peerRef
	ctor string
	// refQuota is the harness's own message quota in force (documented formula)
	refQuota uint32
	// last step, for the coverage labels (strings are built only when BFS asks for them)
	lastKind int // 0 none, 1 reset, 2 quota moved, 3 quota same, 4 accepted, 5 rejected
	lastN    uint64
	lastMov  bool
}

func (s *state) nontrivial() string {
	if s.lastKind != 5 {
		return ""
	}
	return fmt.Sprintf("%d|rej|%d|%v", s.y.idx, s.lastN, s.lastMov)
}

func (s *state) outcome() string {
	switch s.lastKind {
	case 1:
		return "reset"
	case 2:
		return "quota-moved"
	case 3:
		return "quota-same"
	case 4:
		return "accepted-" + strconv.FormatUint(s.lastN, 10)
	case 5:
		return "rejected-after-" + strconv.FormatUint(s.lastN, 10)
	}
	return ""
}

func newSystem(idx int, g config, ops []op, names []string) *system {
	y := &system{idx: idx, cfg: g, ops: ops, names: names}
	r := new(big.Rat)
	if r.SetFloat64(float64(g.Reserved)) == nil { // NaN / Inf: no unreserved share defined
		y.unres = nil
		return y
	}
	y.unres = new(big.Rat).Sub(big.NewRat(100, 1), r) // 100 - reserved, exact
	y.shareSz = y.share(g.MaxSize)
	return y
}

// share returns floor((100-reserved) * max / 100) computed exactly.
func (y *system) share(max uint64) uint64 {
	v := new(big.Rat).Mul(y.unres, new(big.Rat).SetInt(new(big.Int).SetUint64(max)))
	v.Quo(v, big.NewRat(100, 1))
	fl := new(big.Int).Quo(v.Num(), v.Denom()) // operands non-negative: truncation == floor
	if !fl.IsUint64() {
		return math.MaxUint64
	}
	return fl.Uint64()
}

func (y *system) shareMsgs(computed uint32) uint64 {
	if v, ok := y.shareN.Load(computed); ok {
		return v.(uint64)
	}
	v := y.share(uint64(computed))
	y.shareN.Store(computed, v)
	return v
}

func (y *system) init() *state {
	cache, err := lrucache.NewCache(1000)
	if err != nil {
		panic(err)
	}
	q, err := floodPreventers.NewQuotaFloodPreventer(floodPreventers.ArgQuotaFloodPreventer{
		Name:                      "c42",
		Cacher:                    cache,
		StatusHandlers:            nil,
		MaxTotalSizePerPeer:       y.cfg.MaxSize,
		PercentReserved:           y.cfg.Reserved,
		IncreaseFactor:            y.cfg.Factor,
		IncreaseThreshold:         y.cfg.Threshold,
		BaseMaxNumMessagesPerPeer: y.cfg.Base,
	})
	s := &state{y: y}
	if err != nil {
		s.ctor = err.Error()
		return s
	}
	s.q = q
	s.refQuota = y.cfg.Base
	return s
}

// refApply is the documented quota rule: a function of the configuration and of the last
// applied consensus size only. ok=false when the float value cannot be converted to uint32
// with a defined result (NaN, negative, or >= 2^32).
func (y *system) refApply(cur uint32, size int) (next uint32, changed bool, ok bool) {
	if size < 1 {
		return cur, false, true
	}
	if y.cfg.Threshold > uint32(size) {
		return cur, false, true
	}
	over := float32(uint32(size) - y.cfg.Threshold)
	value := over * y.cfg.Factor
	if value != value || value < 0 || value >= 4294967296 {
		return cur, true, false
	}
	return y.cfg.Base + uint32(value), true, true
}

func max1(v uint64) uint64 {
	if v < 1 {
		return 1
	}
	return v
}

func addSat(a, b uint64) uint64 {
	if a+b < a {
		return math.MaxUint64
	}
	return a + b
}

func (s *state) do(o int) (string, string) {
	y := s.y
	s.lastKind = 0
	if s.q == nil {
		return sigCtor, fmt.Sprintf("config %v: %s", y.cfg, s.ctor)
	}
	p := y.ops[o]
	switch p.kind {
	case 1:
		s.q.Reset()
		s.ref = [2]peerRef{}
		s.lastKind = 1
	case 2:
		before := s.refQuota
		s.q.ApplyConsensusSize(p.n)
		next, _, ok := y.refApply(s.refQuota, p.n)
		if !ok {
			// no defined formula value: adopt what the preventer holds (see header)
			next = s.q.VerifC42State().ComputedMaxNumMessagesPerPeer
			atomic.AddInt64(&undefinedTotal, 1)
		}
		s.refQuota = next
		after := s.refQuota
		if after != before {
			for i := range s.ref {
				if s.ref[i].recv > 0 {
					s.ref[i].quotaMov = true
				}
			}
			s.lastKind = 2
		} else {
			s.lastKind = 3
		}
	case 0:
		r := &s.ref[p.peer]
		quotaN := uint64(s.refQuota) // reference quota in force when the message is offered
		err := s.q.IncreaseLoad(pids[p.peer], p.size)
		accepted := err == nil
		isFirst := r.recv == 0
		r.recv++
		if isFirst {
			r.first = p.size
			if !accepted {
				return sigFirst, fmt.Sprintf("config %v: %s is the first message of %s in the interval and was refused: %v", y.cfg, y.names[o], pidNames[p.peer], err)
			}
		}
		if !accepted {
			s.lastKind, s.lastN, s.lastMov = 5, r.accN, r.quotaMov
			return "", ""
		}
		r.accN++
		r.accBytes = addSat(r.accBytes, p.size)
		s.lastKind, s.lastN = 4, r.accN
		what := func(bound string, lim uint64) string {
			return fmt.Sprintf("config %v: after %s peer %s has %d accepted messages / %d accepted bytes in this interval (first message %d bytes); message quota in force %d, byte quota %d; %s = %d",
				y.cfg, y.names[o], pidNames[p.peer], r.accN, r.accBytes, r.first, quotaN, y.cfg.MaxSize, bound, lim)
		}
		if lim := max1(quotaN); r.accN > lim {
			return sigMsgCfg, what("max(1, message quota)", lim)
		}
		if lim := addSat(y.cfg.MaxSize, r.first); r.accBytes > lim {
			return sigBytesCfg, what("byte quota + first message", lim)
		}
		if y.unres != nil {
			if lim := max1(y.shareMsgs(uint32(quotaN))); r.accN > lim {
				return sigMsgShare, what("max(1, floor((100-reserved)% of the message quota))", lim)
			}
			if lim := addSat(y.shareSz, r.first); r.accBytes > lim {
				return sigByteShare, what("floor((100-reserved)% of the byte quota) + first message", lim)
			}
		}
	}
	return "", ""
}

// check is clause (4): the quota the preventer holds equals the reference quota.
func (s *state) check() (string, string) {
	if s.q == nil {
		return "", ""
	}
	if got := s.q.VerifC42State().ComputedMaxNumMessagesPerPeer; got != s.refQuota {
		return sigFormula, fmt.Sprintf("config %v: the preventer holds message quota %d, the documented rule (base after construction; base + uint32(float32(size-threshold)*factor) after the last ApplyConsensusSize(size) with size >= 1 and size >= threshold) gives %d",
			s.y.cfg, got, s.refQuota)
	}
	return "", ""
}

var undefinedTotal int64

func (s *state) key() string {
	if s.q == nil {
		return "ctor-error"
	}
	var blk [2][]byte
	for i := range pids {
		q := s.q.VerifC42Quota(pids[i])
		r := &s.ref[i]
		b := make([]byte, 0, 48)
		if q.Present {
			b = append(b, 'P')
		} else {
			b = append(b, '-')
		}
		for _, v := range [...]uint64{uint64(q.NumReceivedMessages), uint64(q.NumProcessedMessages), q.SizeReceivedMessages, q.SizeProcessedMessages,
			r.recv, r.accN, r.accBytes, r.first} {
			b = strconv.AppendUint(b, v, 10)
			b = append(b, ',')
		}
		// quotaMov only labels coverage (non-trivial keys); it cannot influence any
		// future verdict, so it is deliberately not part of the state.
		blk[i] = b
	}
	// Peer symmetry: the preventer keeps one independent record per peer id in a cache that
	// never evicts, and the event alphabet is closed under swapping p and q, so a state and
	// its mirror image have mirror-image futures; the two blocks are sorted (assumption
	// recorded in the evidence).
	if !*noSym && bytes.Compare(blk[0], blk[1]) > 0 {
		blk[0], blk[1] = blk[1], blk[0]
	}
	b := make([]byte, 0, 112)
	b = strconv.AppendUint(b, uint64(s.q.VerifC42State().ComputedMaxNumMessagesPerPeer), 10)
	b = append(b, '/')
	b = strconv.AppendUint(b, uint64(s.refQuota), 10)
	b = append(b, '|')
	b = append(b, blk[0]...)
	b = append(b, '|')
	b = append(b, blk[1]...)
	return string(b)
}

// development aids (never set by the registered command): search only configurations
// [cfgFrom, cfgFrom+cfgN) and/or override the depth; such a run is recorded as capped.
var cfgFrom = flag.Int("cfg-from", 0, "dev: first configuration index")
var cfgN = flag.Int("cfg-n", 0, "dev: number of configurations (0 = all)")
var noSym = flag.Bool("no-symmetry", false, "dev: do not merge mirror-image states (p<->q)")
var devDepth = flag.Int("depth", 0, "dev: override search depth")

func main() {
	mc.Main("C42", "model_checking", func(c *mc.Ctx) {
		_ = logger.SetLogLevel("*:NONE")
		depth := c.Pick(5, 7)
		if *devDepth > 0 {
			depth = *devDepth
			c.Cap("dev: depth override")
		}
		ops, names := buildMenu(sizes)
		var cfgs []config
		// simplest first, so that the first witness of a signature is a small one
		for _, factor := range []float32{0, 0.5, 2} {
			for _, threshold := range []uint32{0, 3} {
				for _, reserved := range []float32{0, 33.3, 50, 90} {
					for _, base := range []uint32{1, 2, 5} {
						for _, maxSize := range []uint64{1, 10, 100} {
							cfgs = append(cfgs, config{Base: base, MaxSize: maxSize, Reserved: reserved, Threshold: threshold, Factor: factor})
						}
					}
				}
			}
		}
		// Edge configurations: the quantifier is "all quota configurations accepted by the
		// constructor", and the constructor's range checks are written so that non-finite
		// floats pass them; extreme integers are accepted as well. Each of these is searched
		// like a design configuration if (and only if) NewQuotaFloodPreventer accepts it.
		nProduct := len(cfgs)
		nan := float32(math.NaN())
		cfgs = append(cfgs,
			config{Base: 1, MaxSize: 10, Reserved: nan, Threshold: 0, Factor: 0},
			config{Base: 5, MaxSize: 1, Reserved: nan, Threshold: 3, Factor: 2},
			config{Base: 2, MaxSize: 10, Reserved: 0, Threshold: 0, Factor: nan},
			config{Base: 2, MaxSize: 10, Reserved: 0, Threshold: 0, Factor: float32(math.Inf(1))},
			config{Base: 2, MaxSize: 10, Reserved: 0, Threshold: 0, Factor: 3e9},
			config{Base: math.MaxUint32, MaxSize: math.MaxUint64, Reserved: 50, Threshold: 0, Factor: 2},
		)
		// Large byte quotas (at and above 2^24, where float32 can no longer hold every integer,
		// and above 2^32 / 2^53): the message sizes are chosen relative to the unreserved share
		// so that a few messages reach it.
		nLarge := 0
		largeMenus := map[int][2]interface{}{}
		for _, maxSize := range []uint64{1<<24 + 3, 1<<32 + 300, 1<<53 + 1} {
			for _, reserved := range []float32{0, 50} {
				g := config{Base: 5, MaxSize: maxSize, Reserved: reserved, Threshold: 0, Factor: 0}
				share := newSystem(0, g, nil, nil).shareSz
				lo, ln := buildMenu([]uint64{1, 100, share - 2, share / 2})
				largeMenus[len(cfgs)] = [2]interface{}{lo, ln}
				cfgs = append(cfgs, g)
				nLarge++
			}
		}
		var systems []*system
		edgeRejected := 0
		for i, g := range cfgs {
			y := newSystem(i, g, ops, names)
			if m, ok := largeMenus[i]; ok {
				y.ops, y.names = m[0].([]op), m[1].([]string)
			}
			if i >= nProduct && largeMenus[i][0] == nil {
				if st := y.init(); st.q == nil { // not accepted by the constructor: outside the quantifier
					edgeRejected++
					continue
				}
			}
			systems = append(systems, y)
		}
		c.Rule = fmt.Sprintf("one explicit-state BFS with state matching per configuration in base max {1,2,5} x max size {1,10,100} x reserved {0,33.3,50,90} x threshold {0,3} x factor {0,0.5,2} (%d configurations, all accepted by NewQuotaFloodPreventer) plus those of %d edge configurations (PercentReserved NaN x2; IncreaseFactor NaN, +Inf, 3e9; base 2^32-1 with max size 2^64-1) that the constructor accepts (%d do), plus %d large-quota configurations (max size {2^24+3, 2^32+300, 2^53+1} x reserved {0,50}, base 5; sizes {1, 100, share-2, share/2} with share = the unreserved byte share), on the real quotaFloodPreventer over a real LRU (capacity 1000); events IncreaseLoad(pid in {p,q}, size in %v), Reset, ApplyConsensusSize(n in %v): all event sequences of length <= %d; state = (computed max held by the preventer, the harness's reference quota, both peers' quota records, the oracle's per-peer interval bookkeeping), mirror images under swapping p and q merged; non-trivial = a message refused by the real preventer after >=1 accepted message of that peer in the interval (distinguished by configuration, number accepted, and whether the quota moved in the interval)",
			nProduct, len(cfgs)-nProduct-nLarge, len(cfgs)-nProduct-nLarge-edgeRejected, nLarge, sizes, consensus, depth)
		c.Assumptions = []string{
			"the LRU never evicts (capacity 1000, 2 peers); an evicting cache restarts a peer's record and is outside the statement",
			"operations are applied one at a time (the preventer serialises them under its mutex); no concurrency is explored",
			"the sum of the sizes offered by one peer in an interval stays below 2^64 (sizes are lengths of in-memory messages); uint64 wrap-around of the size counters is not explored",
			"message quota in force = the harness's own reference: base after construction; base + uint32(float32(size-threshold)*factor) after the last ApplyConsensusSize(size) with size >= 1 and size >= threshold (float32 arithmetic, calls below 1 or below the threshold change nothing); acceptances are judged against it at each acceptance; byte quota = MaxTotalSizePerPeer",
			"clause with its own signature: after every event the quota held by the preventer (export file) equals the reference quota",
			"steps whose float value is NaN or >= 2^32 (only the edge configurations with factor NaN/+Inf/3e9) have an implementation-defined uint32 conversion: the reference adopts the preventer's value for that step and the formula clause is skipped there (counter replayed_steps_with_undefined_formula_value)",
			"both readings of 'quota' are checked: the configured maximum (signatures *-over-configured-quota*) and the unreserved share floor((100-PercentReserved)*max/100) in exact rationals (signatures *-over-unreserved-share*); the implementation's integer truncation of the percentage is only stricter",
			"reset interval = from construction or a Reset() to the next Reset(); 'first message' = the first message offered by that peer in the interval",
			"no StatusHandlers are attached (statistics are not part of the statement)",
			"peer symmetry: a state and its mirror image under swapping p and q are explored once (the preventer keeps one independent record per peer id in a cache that never evicts, and the event alphabet is closed under the swap)",
		}
		if len(c.ReplayData) > 0 {
			replay(c, systems)
			return
		}
		fix := 0
		var maxStates int64
		if *cfgN > 0 {
			systems = systems[*cfgFrom : *cfgFrom+*cfgN]
			c.Cap("dev: configuration subset")
		}
		for _, y := range systems {
			y := y
			st := mc.BFS(c, mc.Sys[*state]{
				Init:       y.init,
				Menu:       y.names,
				Do:         func(s *state, o int) (string, string) { return s.do(o) },
				Check:      func(s *state) (string, string) { return s.check() },
				Key:        func(s *state) string { return s.key() },
				Nontrivial: func(s *state) string { return s.nontrivial() },
				Outcome:    func(s *state) string { return s.outcome() },
			}, depth)
			if st.Fixpoint {
				fix++
			}
			if st.States > maxStates {
				maxStates = st.States
			}
			if c.Expired() {
				c.Cap(fmt.Sprintf("deadline after configuration %d of %d", y.idx+1, len(systems)))
				break
			}
		}
		c.Bound = fmt.Sprintf("all event sequences of length <= %d in each of %d configurations", depth, len(systems))
		c.Count("configurations", int64(len(systems)))
		c.Count("replayed_steps_with_undefined_formula_value", atomic.LoadInt64(&undefinedTotal))
		c.Count("edge_configurations_accepted_by_constructor", int64(len(cfgs)-nProduct-nLarge-edgeRejected))
		c.Count("edge_configurations_rejected_by_constructor", int64(edgeRejected))
		c.Count("configurations_searched_to_fixpoint", int64(fix))
		c.Count("largest_state_count_of_one_configuration", maxStates)
	})
}

// replay re-runs a recorded history (operation names) on every configuration and reports
// what the oracle says.
func replay(c *mc.Ctx, systems []*system) {
	var names []string
	if err := json.Unmarshal(c.ReplayData, &names); err != nil {
		c.Fatal("replay data is not a list of operation names: %v", err)
	}
	for _, y := range systems {
		var ops []int
		for _, n := range names {
			for i, m := range y.names {
				if m == n {
					ops = append(ops, i)
				}
			}
		}
		if len(ops) != len(names) {
			continue // this configuration has another size menu
		}
		s := y.init()
		c.Eval(1)
		for _, o := range ops {
			sig, det := s.do(o)
			if sig == "" {
				sig, det = s.check()
			}
			if sig != "" {
				c.Violation(sig, map[string]interface{}{"history": names, "what": det}, names)
				break
			}
		}
	}
}
