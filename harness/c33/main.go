// C33 — block body size estimate does not undershoot beyond the safety margin.
//
// Statement fixed as: whenever the proposer's estimator (preprocess.blockSizeComputation with
// the production numbers: limit 943 718 B, throttle [104 857, 943 718]) answers "not reached"
// for a body of m miniblocks and t transaction hashes, the real protobuf encoding of a
// block.Body with m miniblocks and t hashes — for any sender / receiver shard identifiers and
// miniblock types — is not larger than the network message limit, p2p/libp2p.maxSendBuffSize =
// (1<<20) - 64 KiB = 983 040 B. The margin 983 040 - 943 718 = 39 322 B is what the estimate
// may undershoot by ("safety margin"); undershooting by more is the violation.
//
// Enumerated space: every miniblock count m the estimator accepts at all (quick: a fixed
// subset), for each the *maximal* t it still accepts, asked in three ways (all new; all but
// one miniblock and one hash already accumulated with AddNumMiniBlocks/AddNumTxs; half
// accumulated, throttled variant with the real throttler), x 4 distributions of the t hashes
// over the m miniblocks x sender in {0,999,META,ALL} x receiver in {0,999,META,ALL} x type in
// {TxBlock, RewardsBlock}. Additionally all success/failure histories of the real
// blockSizeThrottle up to a length, to show its limit never exceeds the configured maximum.
package main

import (
	"fmt"
	"sort"
	"sync"

	logger "github.com/ElrondNetwork/elrond-go-logger"
	"github.com/ElrondNetwork/elrond-go/core"
	"github.com/ElrondNetwork/elrond-go/data/block"
	"github.com/ElrondNetwork/elrond-go/marshal"
	"github.com/ElrondNetwork/elrond-go/p2p/libp2p"
	"github.com/ElrondNetwork/elrond-go/process/block/preprocess"
	"github.com/ElrondNetwork/elrond-go/process/throttle"
	"verif/engine/mc"
)

const (
	throttleMin = 104857 // cmd/node/config/config.toml [BlockSizeThrottleConfig]
	throttleMax = 943718
	maxHashes   = 1 << 16 // search bound for t (the estimator stops near 27 756)
)

// estimator is the part of *preprocess.blockSizeComputation the harness uses.
type estimator interface {
	Init()
	AddNumMiniBlocks(numMiniBlocks int)
	AddNumTxs(numTxs int)
	IsMaxBlockSizeReached(numNewMiniBlocks int, numNewTxs int) bool
	IsMaxBlockSizeWithoutThrottleReached(numNewMiniBlocks int, numNewTxs int) bool
}

// Measured on the unchanged tree (thorough tier, every m): the smallest accepted miniblock
// count whose body exceeds the network limit, per number of field bytes one miniblock
// carries besides its hashes (shard ids: 0 -> 0 B, 999 -> 3 B, META/ALL -> 6 B; type:
// TxBlock -> 0 B, RewardsBlock -> 3 B). The calibration miniblock has 6 such bytes. A failure
// at or above the listed m is the known finding; anything below (or any other class) alarms.
var knownFirstFailing = map[int]int{15: 4368, 12: 6567, 9: 16752}

const knownSig = "accepted-body-over-network-limit:miniblock-count-at-or-above-measured-threshold-for-its-field-width"

var shardIDs = []uint32{0, 999, core.MetachainShardId, core.AllShardId}
var shardNames = []string{"0", "999", "META", "ALL"}
var mbTypes = []block.Type{block.TxBlock, block.RewardsBlock}

func idBytes(id uint32) int {
	switch {
	case id == 0:
		return 0
	case id < 1<<7:
		return 2
	case id < 1<<14:
		return 3
	case id < 1<<21:
		return 4
	case id < 1<<28:
		return 5
	}
	return 6
}

type way struct {
	name string
	ask  func(e estimator, m, t int) bool // true = the estimator says it fits
}

var ways = []way{
	{"fresh counters, IsMaxBlockSizeWithoutThrottleReached(m,t)", func(e estimator, m, t int) bool {
		e.Init()
		return !e.IsMaxBlockSizeWithoutThrottleReached(m, t)
	}},
	{"AddNumMiniBlocks(m-1), AddNumTxs(t-1), IsMaxBlockSizeWithoutThrottleReached(1,1)", func(e estimator, m, t int) bool {
		e.Init()
		nt := 0
		if t > 0 {
			nt = 1
		}
		e.AddNumMiniBlocks(m - 1)
		e.AddNumTxs(t - nt)
		return !e.IsMaxBlockSizeWithoutThrottleReached(1, nt)
	}},
	{"AddNumMiniBlocks(m/2), AddNumTxs(t/2), IsMaxBlockSizeReached(m-m/2,t-t/2) (real throttler, initial state)", func(e estimator, m, t int) bool {
		e.Init()
		e.AddNumMiniBlocks(m / 2)
		e.AddNumTxs(t / 2)
		return !e.IsMaxBlockSizeReached(m-m/2, t-t/2)
	}},
}

// distributions of t hashes over m miniblocks
var distNames = []string{
	"all hashes in the first miniblock",
	"spread evenly",
	"one per miniblock as far as possible, the rest in the first",
	"length-prefix maximising: 4 per miniblock as far as possible, then 482 per miniblock, the rest in the last",
}

func distribute(d, m, t int, out []int) {
	for i := range out[:m] {
		out[i] = 0
	}
	switch d {
	case 0:
		out[0] = t
	case 1:
		q, r := t/m, t%m
		for i := 0; i < m; i++ {
			out[i] = q
			if i < r {
				out[i]++
			}
		}
	case 2:
		n := m
		if t < n {
			n = t
		}
		for i := 0; i < n; i++ {
			out[i] = 1
		}
		out[0] += t - n
	case 3:
		a := t / 4
		if a > m {
			a = m
		}
		for i := 0; i < a; i++ {
			out[i] = 4
		}
		left := t - 4*a
		for i := 0; i < a && left >= 478; i++ {
			out[i] += 478
			left -= 478
		}
		out[m-1] += left
	}
}

type buffers struct {
	mbs  []block.MiniBlock
	ptrs []*block.MiniBlock
	cnt  []int
	enc  []byte
}

type combo struct{ si, ri, ti int }

// allCombos: 4 senders x 4 receivers x 2 types. coreCombos: one representative of every
// field width (0,3,6,9,12,15 bytes) plus both 5-byte identifiers with both types; used for
// the miniblock counts where the full product would be too slow (thorough tier only).
var allCombos, coreCombos []combo

func init() {
	for si := range shardIDs {
		for ri := range shardIDs {
			for ti := range mbTypes {
				allCombos = append(allCombos, combo{si, ri, ti})
			}
		}
	}
	coreCombos = []combo{{0, 0, 0}, {0, 1, 0}, {1, 1, 0}, {0, 2, 1}, {1, 2, 1}, {2, 2, 0}, {2, 2, 1}, {3, 3, 1}, {2, 3, 1}}
}

var quickTier bool

// fullFields: the miniblock counts encoded with the full field product.
func fullFields(m int) bool { return quickTier || m <= 300 || m%64 == 0 }

var oneHash = make([]byte, 32)
var allHashes [][]byte

type firstFail struct {
	mu sync.Mutex
	m  map[int]int
}

func (f *firstFail) note(fb, m int) {
	f.mu.Lock()
	if old, ok := f.m[fb]; !ok || m < old {
		f.m[fb] = m
	}
	f.mu.Unlock()
}

func main() {
	_ = logger.SetLogLevel("*:NONE")
	mc.Main("C33", "exploration", func(c *mc.Ctx) {
		marsh := &marshal.GogoProtoMarshalizer{}
		quickTier = c.Quick()
		limit := libp2p.VerifC33MaxSendBuffSize()
		allHashes = make([][]byte, maxHashes+8)
		for i := range allHashes {
			allHashes[i] = oneHash
		}
		newEstimator := func() estimator {
			thr, err := throttle.NewBlockSizeThrottle(throttleMin, throttleMax)
			if err != nil {
				c.Fatal("throttle: %v", err)
			}
			e, err := preprocess.NewBlockSizeComputation(marsh, thr, throttleMax)
			if err != nil {
				c.Fatal("NewBlockSizeComputation: %v", err)
			}
			return e
		}

		// largest m accepted at all (with 0 hashes), by any way of asking
		e0 := newEstimator()
		mMax := 0
		for _, w := range ways {
			lo, hi := 0, 1<<22 // accept(lo), reject(hi)
			if w.ask(e0, hi, 0) {
				c.Violation("estimator-accepts-4M-miniblocks", w.name, nil)
				continue
			}
			for hi-lo > 1 {
				mid := (lo + hi) / 2
				if w.ask(e0, mid, 0) {
					lo = mid
				} else {
					hi = mid
				}
			}
			if lo > mMax {
				mMax = lo
			}
		}
		c.Set("largest_accepted_miniblock_count", mMax)

		// the m values of this tier
		var ms []int
		if c.Quick() {
			set := map[int]bool{}
			for m := 1; m <= 300; m++ {
				set[m] = true
			}
			for m := 1; m <= mMax; m *= 2 {
				set[m] = true
			}
			for m := 100; m <= mMax; m += 100 {
				if m <= 20000 || m%2500 == 0 {
					set[m] = true
				}
			}
			for m := 4300; m <= 4450; m++ { // dense band around the measured first failure
				set[m] = true
			}
			for m := mMax - 2; m <= mMax+1; m++ {
				set[m] = true
			}
			for m := range set {
				if m >= 1 && m <= mMax+1 {
					ms = append(ms, m)
				}
			}
			sort.Ints(ms)
		} else {
			for m := 1; m <= mMax+1; m++ {
				ms = append(ms, m)
			}
		}
		if len(c.ReplayData) > 0 {
			ms = nil
		}

		pool := sync.Pool{New: func() interface{} {
			b := &buffers{mbs: make([]block.MiniBlock, mMax+2), ptrs: make([]*block.MiniBlock, mMax+2), cnt: make([]int, mMax+2)}
			for i := range b.mbs {
				b.ptrs[i] = &b.mbs[i]
			}
			return b
		}}
		ff := &firstFail{m: map[int]int{}}
		var accMu sync.Mutex
		worstUnder := map[int]int{} // field bytes -> largest (encoded - limit) seen
		estPool := sync.Pool{New: func() interface{} { return newEstimator() }}

		mc.Par(len(ms), func(i int) {
			m := ms[i]
			e := estPool.Get().(estimator)
			defer estPool.Put(e)
			buf := pool.Get().(*buffers)
			defer pool.Put(buf)
			// maximal accepted t per way of asking
			tmaxs := map[int][]string{}
			for _, w := range ways {
				if !w.ask(e, m, 0) {
					continue // m not accepted at all by this way
				}
				lo, hi := 0, maxHashes
				if w.ask(e, m, hi) {
					lo = hi // accepted up to the search bound: the body check below will show it
				}
				for hi-lo > 1 {
					mid := (lo + hi) / 2
					if w.ask(e, m, mid) {
						lo = mid
					} else {
						hi = mid
					}
				}
				// the acceptance set is monotone around the frontier
				if lo < maxHashes && (w.ask(e, m, lo+1) || w.ask(e, m+1, lo+1) || (lo > 0 && !w.ask(e, m, lo-1)) || (m > 1 && !w.ask(e, m-1, lo))) {
					c.Violation("estimator-acceptance-not-monotone-at-frontier", map[string]interface{}{"m": m, "t": lo, "way": w.name}, nil)
				}
				tmaxs[lo] = append(tmaxs[lo], w.name)
			}
			ts := make([]int, 0, len(tmaxs))
			for t := range tmaxs {
				ts = append(ts, t)
			}
			sort.Ints(ts)
			evals := int64(0)
			worst := map[int]int{}
			for _, t := range ts {
				for d := range distNames {
					distribute(d, m, t, buf.cnt)
					off := 0
					for j := 0; j < m; j++ {
						buf.mbs[j] = block.MiniBlock{TxHashes: allHashes[off : off+buf.cnt[j]]}
						off += buf.cnt[j]
					}
					if off != t {
						c.Fatal("distribution %d lost hashes: %d != %d", d, off, t)
					}
					body := &block.Body{MiniBlocks: buf.ptrs[:m]}
					combos := coreCombos
					if fullFields(m) {
						combos = allCombos
					}
					for _, cb := range combos {
						si, ri := cb.si, cb.ri
						snd, rcv, ty := shardIDs[si], shardIDs[ri], mbTypes[cb.ti]
						for j := 0; j < m; j++ {
							buf.mbs[j].SenderShardID = snd
							buf.mbs[j].ReceiverShardID = rcv
							buf.mbs[j].Type = ty
						}
						fb := idBytes(snd) + idBytes(rcv)
						if ty != 0 {
							fb += 3
						}
						evals++
						size := body.Size() // the generated size function Marshal itself allocates by
						if (fb == 15 && si == 2 && ri == 2) || (fb == 6 && si == 1 && ri == 1) {
							// extreme field widths: run the real encoder
							var n int
							var err error
							if m <= 32 || m%1000 == 0 {
								var enc []byte
								enc, err = marsh.Marshal(body) // the production marshalizer
								n = len(enc)
							} else {
								// the generated encoder Marshal() calls, into a reused buffer
								if cap(buf.enc) < size {
									buf.enc = make([]byte, size+size/8)
								}
								n, err = body.MarshalToSizedBuffer(buf.enc[:size])
							}
							if err != nil {
								c.Violation("marshal-error", err.Error(), nil)
								continue
							}
							if n != size {
								c.Violation("harness:Size()-differs-from-marshalled-length", map[string]interface{}{"m": m, "t": t, "size": size, "len": n}, nil)
							}
							size = n
						}
						if over, ok := worst[fb]; !ok || size-limit > over {
							worst[fb] = size - limit
						}
						if size <= limit {
							continue
						}
						ff.note(fb, m)
						detail := map[string]interface{}{
							"miniblocks": m, "tx_hashes": t, "estimator_asked": tmaxs[t], "distribution": distNames[d],
							"sender": shardNames[si], "receiver": shardNames[ri], "type": ty.String(),
							"field_bytes_per_miniblock": fb, "encoded_body_bytes": size, "network_limit": limit, "estimator_limit": throttleMax,
						}
						if first, ok := knownFirstFailing[fb]; ok && m >= first {
							c.ViolationR(knownSig, m, detail, nil)
						} else {
							c.ViolationR(fmt.Sprintf("accepted-body-over-network-limit:below-measured-threshold-or-unlisted-field-width(%d-field-bytes)", fb), m, detail, nil)
						}
					}
					c.Nontrivial(fmt.Sprint(m, t, d)) // every (m,t,distribution) is encoded with 5-byte shard ids
				}
				if c.WantSample() {
					c.Sample(map[string]interface{}{"miniblocks": m, "max_accepted_tx_hashes": t, "asked": tmaxs[t]})
				}
			}
			c.Eval(evals)
			accMu.Lock()
			for fb, w := range worst {
				if over, ok := worstUnder[fb]; !ok || w > over {
					worstUnder[fb] = w
				}
			}
			accMu.Unlock()
			c.Outcome(fmt.Sprint(len(ts)))
		})

		// the real throttler never raises its limit above the configured maximum, so the
		// throttled estimate accepts a subset of what the unthrottled one accepts
		depth := c.Pick(12, 16)
		over := 0
		distinct := map[uint32]bool{}
		for seq := 0; seq < 1<<uint(depth); seq++ {
			thr, _ := throttle.NewBlockSizeThrottle(throttleMin, throttleMax)
			for r := 0; r < depth; r++ {
				thr.Add(uint64(r), thr.GetCurrentMaxSize())
				if seq>>uint(r)&1 == 1 {
					thr.Succeed(uint64(r))
				}
				thr.ComputeCurrentMaxSize()
				cur := thr.GetCurrentMaxSize()
				distinct[cur] = true
				if cur > throttleMax {
					over++
					c.ViolationR("throttler-limit-above-configured-maximum", r, map[string]interface{}{"history_bits_lsb_first": fmt.Sprintf("%0*b", depth, seq), "round": r, "limit": cur, "max": throttleMax}, nil)
				}
			}
		}
		c.Eval(int64(1) << uint(depth))
		c.Set("throttler_histories", 1<<uint(depth))
		c.Set("throttler_distinct_limits", len(distinct))
		c.Set("first_failing_m_by_field_bytes", ff.m)
		c.Set("worst_encoded_minus_limit_by_field_bytes", worstUnder)
		c.Set("network_limit", limit)
		if c.Quick() {
			c.Rule = fmt.Sprintf("m in 1..300, powers of two, multiples of 100 up to 20 000 and of 2 500 beyond, every m in 4300..4450, and the last accepted m (%d values of %d accepted)", len(ms), mMax)
		} else {
			c.Rule = fmt.Sprintf("every m in 1..%d (the largest miniblock count the estimator accepts) and %d", mMax, mMax+1)
		}
		c.Rule += "; per m the maximal accepted t for 3 ways of asking (fresh / accumulated counters / throttled) x 4 distributions x fields (quick tier, m<=300 and every 64th m: 4 sender ids x 4 receiver ids x 2 types; other m: 9 combinations covering every field width 0,3,6,9,12,15 B and META/ALL with both types); encoded length = generated Size() (what Marshal allocates), and on the two extreme field widths the real encoder is run (production marshalizer for m<=32 and every 1000th m, the generated MarshalToSizedBuffer into a reused buffer otherwise) and must agree; plus all success/failure histories of the real throttler of length " + fmt.Sprint(depth) + "; non-trivial = a (m,t,distribution) encoded with 5-byte shard identifiers"
		c.Bound = fmt.Sprintf("%d miniblock counts up to %d", len(ms), mMax+1)
		c.Assumptions = append(c.Assumptions,
			"'fits' = IsMaxBlockSizeWithoutThrottleReached / IsMaxBlockSizeReached returns false with the production limits (943 718 B; throttle 104 857..943 718); 'network limit' = p2p/libp2p maxSendBuffSize read from the code",
			"the encoded body is the protobuf encoding of block.Body (identical in size to the batch of marshalled miniblocks the estimator calibrates on); Reserved is empty; all miniblocks of one body carry the same sender/receiver/type",
			"only the maximal accepted t per m is encoded (the encoded size is monotone in t for a fixed distribution rule)",
		)
	})
}
