// C19 — a block body is accepted only if it matches its header.
//
// Seam: the real, unexported process/block baseProcessor.checkHeaderBodyCorrelation (called by
// shardProcessor.ProcessBlock and metaProcessor.ProcessBlock right after the nil checks),
// reached through the export file ovl/export/process/block/c19.go, with the production
// gogo-proto marshalizer and sha256 hasher.
//
// Space: a universe U of 4 miniblocks (some share coordinates, so that a perturbed entry of one
// can coincide with fields of another) plus a byte-identical twin of U[0] and a nil miniblock
// as body elements; header entry menu = for every m in U the correct entry and the entries
// with exactly one of {Hash (replaced by the hash of another member of U), SenderShardID,
// ReceiverShardID, Type, TxCount} perturbed; every header list x every body list up to the
// tier's length bound (with repetition, all orders).
//
// Oracle (reference = perfect bipartite matching on full 5-field equality): the function
// returned nil  =>  no nil miniblock, len(header) == len(body) and there is a bijection between
// header entries and body miniblocks in which each pair agrees on hash, sender shard, receiver
// shard, type and transaction count. Rejections are never judged.
package main

import (
	"bytes"
	"encoding/json"
	"fmt"
	"sort"
	"strings"
	"sync"

	"github.com/ElrondNetwork/elrond-go/core"
	"github.com/ElrondNetwork/elrond-go/data/block"
	"github.com/ElrondNetwork/elrond-go/hashing/sha256"
	"github.com/ElrondNetwork/elrond-go/marshal"
	procblock "github.com/ElrondNetwork/elrond-go/process/block"
	"verif/engine/mc"
)

var marsh = &marshal.GogoProtoMarshalizer{}
var hasher = sha256.NewSha256()

type bodyElem struct {
	name string
	mb   *block.MiniBlock // nil for the nil element
	hash []byte
}

type entry struct {
	name      string
	perturbed bool
	h         block.MiniBlockHeader
}

func mkMB(sender, receiver uint32, t block.Type, txs ...string) *block.MiniBlock {
	m := &block.MiniBlock{SenderShardID: sender, ReceiverShardID: receiver, Type: t}
	for _, x := range txs {
		m.TxHashes = append(m.TxHashes, []byte(x))
	}
	return m
}

func otherType(t block.Type) block.Type {
	if t == block.SmartContractResultBlock {
		return block.TxBlock
	}
	return block.SmartContractResultBlock
}

// universe builds the body elements and the header entry menu.
// allHashes: perturb the hash with the hash of every other member (thorough) or only the next one.
// onlyType: menu restricted to {correct, type-perturbed} (the "deep" part).
func universe(c *mc.Ctx, allHashes, onlyType bool) ([]bodyElem, []entry) {
	u := []*block.MiniBlock{
		mkMB(0, 1, block.TxBlock, "tx-a"),
		mkMB(0, 1, block.TxBlock, "tx-b", "tx-c"),
		mkMB(1, 0, block.SmartContractResultBlock, "scr-d"),
		mkMB(core.MetachainShardId, 0, block.RewardsBlock, "rwd-e", "rwd-f", "rwd-g"),
	}
	var elems []bodyElem
	for i, m := range u {
		h, err := core.CalculateHash(marsh, hasher, m)
		if err != nil {
			c.Fatal("hash: %v", err)
		}
		elems = append(elems, bodyElem{name: fmt.Sprintf("M%d", i), mb: m, hash: h})
	}
	twin := mkMB(0, 1, block.TxBlock, "tx-a") // distinct object, byte-identical to M0
	elems = append(elems, bodyElem{name: "M0twin", mb: twin, hash: elems[0].hash})
	elems = append(elems, bodyElem{name: "nil"})

	var menu []entry
	for i, m := range u {
		ok := block.MiniBlockHeader{Hash: elems[i].hash, SenderShardID: m.SenderShardID,
			ReceiverShardID: m.ReceiverShardID, Type: m.Type, TxCount: uint32(len(m.TxHashes))}
		n := elems[i].name
		menu = append(menu, entry{name: "E(" + n + ")", h: ok})
		e := ok
		e.Type = otherType(m.Type)
		menu = append(menu, entry{name: "E(" + n + ",Type=" + e.Type.String() + ")", perturbed: true, h: e})
		if onlyType {
			continue
		}
		for d := 1; d < len(u); d++ {
			j := (i + d) % len(u)
			e = ok
			e.Hash = elems[j].hash
			menu = append(menu, entry{name: "E(" + n + ",Hash=H(" + elems[j].name + "))", perturbed: true, h: e})
			if !allHashes {
				break
			}
		}
		e = ok
		e.SenderShardID = m.SenderShardID + 1
		menu = append(menu, entry{name: fmt.Sprintf("E(%s,Sender=%d)", n, e.SenderShardID), perturbed: true, h: e})
		e = ok
		e.ReceiverShardID = m.ReceiverShardID + 1
		menu = append(menu, entry{name: fmt.Sprintf("E(%s,Receiver=%d)", n, e.ReceiverShardID), perturbed: true, h: e})
		e = ok
		e.TxCount = ok.TxCount + 1
		menu = append(menu, entry{name: fmt.Sprintf("E(%s,TxCount=%d)", n, e.TxCount), perturbed: true, h: e})
	}
	return elems, menu
}

// lists enumerates all index lists of length <= maxLen over [0,k), shortest first.
func lists(k, maxLen int) [][]int {
	out := [][]int{{}}
	prev := [][]int{{}}
	for l := 1; l <= maxLen; l++ {
		var cur [][]int
		for _, p := range prev {
			for i := 0; i < k; i++ {
				cur = append(cur, append(append([]int{}, p...), i))
			}
		}
		out = append(out, cur...)
		prev = cur
	}
	return out
}

func fullMatch(e *block.MiniBlockHeader, b *bodyElem) bool {
	return b.mb != nil && bytes.Equal(e.Hash, b.hash) && e.SenderShardID == b.mb.SenderShardID &&
		e.ReceiverShardID == b.mb.ReceiverShardID && e.Type == b.mb.Type && e.TxCount == uint32(len(b.mb.TxHashes))
}

// perfectMatching: reference oracle, brute force over assignments (lists are short).
func perfectMatching(hdr []*entry, body []*bodyElem) bool {
	if len(hdr) != len(body) {
		return false
	}
	used := make([]bool, len(hdr))
	var rec func(j int) bool
	rec = func(j int) bool {
		if j == len(body) {
			return true
		}
		for i := range hdr {
			if !used[i] && fullMatch(&hdr[i].h, body[j]) {
				used[i] = true
				if rec(j + 1) {
					return true
				}
				used[i] = false
			}
		}
		return false
	}
	return rec(0)
}

// classify names why an accepted pair has no perfect matching (signature class, no inputs).
func classify(hdr []*entry, body []*bodyElem) string {
	for _, b := range body {
		if b.mb == nil {
			return "nil-miniblock-accepted"
		}
	}
	if len(hdr) != len(body) {
		return "length-mismatch-accepted"
	}
	worst := ""
	for _, b := range body {
		individually := false
		hashSeen := false
		best := []string(nil)
		for _, e := range hdr {
			if fullMatch(&e.h, b) {
				individually = true
				break
			}
			if !bytes.Equal(e.h.Hash, b.hash) {
				continue
			}
			hashSeen = true
			// root-cause isolation by minimisation: is this mismatching entry accepted by the
			// real function on its own (header = [entry], body = [miniblock])?
			if procblock.VerifC19CheckHeaderBodyCorrelation(marsh, hasher, []block.MiniBlockHeader{e.h},
				&block.Body{MiniBlocks: []*block.MiniBlock{b.mb}}) != nil {
				continue
			}
			var d []string
			if e.h.SenderShardID != b.mb.SenderShardID {
				d = append(d, "SenderShardID")
			}
			if e.h.ReceiverShardID != b.mb.ReceiverShardID {
				d = append(d, "ReceiverShardID")
			}
			if e.h.Type != b.mb.Type {
				d = append(d, "Type")
			}
			if e.h.TxCount != uint32(len(b.mb.TxHashes)) {
				d = append(d, "TxCount")
			}
			if best == nil || len(d) < len(best) {
				best = d
			}
		}
		if individually {
			continue
		}
		if !hashSeen {
			return "miniblock-hash-not-in-header-accepted"
		}
		w := "mismatching-entries-accepted-only-in-combination"
		if best != nil {
			w = "header-entry-differs-in-" + strings.Join(best, "+")
		}
		if worst == "" || w < worst {
			worst = w
		}
	}
	if worst != "" {
		return worst
	}
	// every body miniblock has a fully matching entry, yet no bijection: an entry is used twice
	return "one-header-entry-matched-by-several-body-miniblocks"
}

type replay struct {
	Part   string `json:"part"`
	Kind   string `json:"block_kind,omitempty"` // wiring phase only
	Header []int  `json:"header_entry_indices"`
	Body   []int  `json:"body_element_indices"`
}

type found struct {
	rank   [3]int
	detail map[string]interface{}
	replay replay
	count  int64
}

type collector struct {
	mu sync.Mutex
	m  map[string]*found
}

func (cl *collector) add(sig string, rank [3]int, mk func() (map[string]interface{}, replay)) {
	cl.mu.Lock()
	defer cl.mu.Unlock()
	f := cl.m[sig]
	if f == nil {
		f = &found{rank: [3]int{1 << 30}}
		cl.m[sig] = f
	}
	f.count++
	for i := range rank {
		if rank[i] != f.rank[i] {
			if rank[i] < f.rank[i] {
				f.rank = rank
				f.detail, f.replay = mk()
			}
			return
		}
	}
}

type part struct {
	name        string
	elems       []bodyElem
	menu        []entry
	hdrs, bodis [][]int
}

func describeEntry(e *entry) map[string]interface{} {
	return map[string]interface{}{"entry": e.name, "hash": mc.Hex(e.h.Hash[:4]) + "..", "sender": e.h.SenderShardID,
		"receiver": e.h.ReceiverShardID, "type": e.h.Type.String(), "tx_count": e.h.TxCount}
}

func describeElem(b *bodyElem) map[string]interface{} {
	if b.mb == nil {
		return map[string]interface{}{"miniblock": "nil"}
	}
	return map[string]interface{}{"miniblock": b.name, "hash": mc.Hex(b.hash[:4]) + "..", "sender": b.mb.SenderShardID,
		"receiver": b.mb.ReceiverShardID, "type": b.mb.Type.String(), "tx_count": len(b.mb.TxHashes)}
}

// runCase evaluates one (header list, body list) pair on the real function.
func runCase(c *mc.Ctx, cl *collector, p *part, hi, bi int, hl, bl []int, outcomes map[string]struct{}) {
	hdr := make([]*entry, len(hl))
	mbhs := make([]block.MiniBlockHeader, len(hl))
	for i, k := range hl {
		hdr[i] = &p.menu[k]
		mbhs[i] = p.menu[k].h
	}
	body := make([]*bodyElem, len(bl))
	b := &block.Body{}
	for i, k := range bl {
		body[i] = &p.elems[k]
		b.MiniBlocks = append(b.MiniBlocks, p.elems[k].mb)
	}
	var err error
	if pn := mc.Try(func() { err = procblock.VerifC19CheckHeaderBodyCorrelation(marsh, hasher, mbhs, b) }); pn != "" {
		cl.add("correlation:panic", [3]int{len(hl) + len(bl), hi, bi}, func() (map[string]interface{}, replay) {
			return map[string]interface{}{"panic": pn, "header": hl, "body": bl}, replay{Part: p.name, Header: hl, Body: bl}
		})
		return
	}
	if err != nil {
		outcomes[err.Error()] = struct{}{}
	} else {
		outcomes["accepted"] = struct{}{}
	}
	// non-trivial: equal non-zero lengths, no nil, every body miniblock's hash is listed in the
	// header — the hash lookups all succeed, the verdict rests on fields and multiplicity
	if len(hl) == len(bl) && len(bl) > 0 {
		all := true
		for _, be := range body {
			okh := false
			if be.mb != nil {
				for _, e := range hdr {
					if bytes.Equal(e.h.Hash, be.hash) {
						okh = true
						break
					}
				}
			}
			if !okh {
				all = false
				break
			}
		}
		if all {
			c.Nontrivial(fmt.Sprint(p.name, hl, bl))
		}
	}
	if err != nil {
		return
	}
	if perfectMatching(hdr, body) {
		return
	}
	sig := "correlation:" + classify(hdr, body)
	np := 0
	for _, e := range hdr {
		if e.perturbed {
			np++
		}
	}
	cl.add(sig, [3]int{len(hl) + len(bl), np, hi*100000 + bi}, func() (map[string]interface{}, replay) {
		var hd, bd []interface{}
		for _, e := range hdr {
			hd = append(hd, describeEntry(e))
		}
		for _, be := range body {
			bd = append(bd, describeElem(be))
		}
		return map[string]interface{}{"header_miniblock_headers": hd, "body_miniblocks": bd,
				"result": "checkHeaderBodyCorrelation returned nil", "reference": "no bijection header entries <-> body miniblocks with equal hash, sender, receiver, type, tx count"},
			replay{Part: p.name, Header: append([]int{}, hl...), Body: append([]int{}, bl...)}
	})
}

func main() {
	mc.Main("C19", "exploration", func(c *mc.Ctx) {
		maxLen := c.Pick(2, 3)
		parts := []*part{}
		{
			el, mn := universe(c, !c.Quick(), false)
			parts = append(parts, &part{name: "full-menu", elems: el, menu: mn, hdrs: lists(len(mn), maxLen), bodis: lists(len(el), maxLen)})
		}
		if !c.Quick() {
			el, mn := universe(c, false, true)
			parts = append(parts, &part{name: "deep-type-menu", elems: el, menu: mn, hdrs: lists(len(mn), 4), bodis: lists(len(el), 4)})
		}
		c.Rule = fmt.Sprintf("universe of 4 miniblocks + a byte-identical twin of M0 + nil as body elements (%d); header entry menu of %d entries "+
			"(per miniblock: correct entry; Type, Sender, Receiver, TxCount perturbed one at a time; Hash replaced by the hash of %s); "+
			"every header list of <=%d entries x every body list of <=%d elements, with repetition and in every order",
			len(parts[0].elems), len(parts[0].menu), map[bool]string{true: "the next member", false: "each other member"}[c.Quick()], maxLen, maxLen)
		if !c.Quick() {
			c.Rule += fmt.Sprintf("; plus menu {correct, Type-perturbed} (%d entries): every header list of <=4 x every body list of <=4", len(parts[1].menu))
		}
		wp := wiringPart(c, maxLen)
		c.Rule += fmt.Sprintf("; WIRING phase: block kind {shard block, regular metablock, start-of-epoch metablock} x every header list of <=%d of the %d entries of M0,M1 x every body list of <=%d over {M0,M1,twin of M0} through the real shardProcessor/metaProcessor.ProcessBlock (fresh stub-built processor per case; non-matching pair must not return nil; every non-matching pair is non-trivial)", maxLen, len(wp.menu), maxLen)
		c.Rule += ". non-trivial (phase 1) = equal non-zero lengths, no nil, and every body miniblock's hash is listed in the header (the verdict then rests on field comparison and multiplicity)"
		c.Bound = fmt.Sprintf("header and body lists of length <= %d", maxLen)
		c.Assumptions = []string{
			"miniblock hash = sha256 of the gogo-proto encoding (production components); the reference recomputes it with the same core.CalculateHash",
			"two body miniblocks with byte-identical content are distinct list elements; a header must list the hash once per occurrence",
			"MiniBlockHeader.Reserved is outside the statement and left empty",
			"phase 1 seam is checkHeaderBodyCorrelation itself; phase 2 (wiring) drives the real ProcessBlock of both processors with all collaborators stubbed to accept everything (repository mocks), so only the placement of the correlation check is decided there, not the other block validity checks",
			"wiring phase: one-shard coordinator (self shard 0), first block after genesis, no nil miniblock in bodies (shardProcessor.ProcessBlock dereferences body miniblocks in a background goroutine before the check)",
		}
		cl := &collector{m: map[string]*found{}}

		if len(c.ReplayData) > 0 {
			var r replay
			if err := json.Unmarshal(c.ReplayData, &r); err != nil {
				c.Fatal("bad replay: %v", err)
			}
			for _, p := range parts {
				if p.name == r.Part {
					runCase(c, cl, p, 0, 0, r.Header, r.Body, map[string]struct{}{})
					c.Eval(1)
				}
			}
			if r.Part == wp.name {
				replayWiring(c, cl, wp, r)
			}
		} else {
			for _, p := range parts {
				p := p
				c.Count("header_lists:"+p.name, int64(len(p.hdrs)))
				c.Count("body_lists:"+p.name, int64(len(p.bodis)))
				mc.Par(len(p.hdrs), func(hi int) {
					outcomes := map[string]struct{}{}
					for bi, bl := range p.bodis {
						runCase(c, cl, p, hi, bi, p.hdrs[hi], bl, outcomes)
					}
					c.Eval(int64(len(p.bodis)))
					for o := range outcomes {
						c.Outcome(o)
					}
				})
			}
			wiringPhase(c, cl, wp)
			// a few written-out cases
			p := parts[0]
			c.Sample(map[string]interface{}{"menu": func() []string {
				var s []string
				for _, e := range p.menu {
					s = append(s, e.name)
				}
				return s
			}()})
		}

		sigs := []string{}
		for s := range cl.m {
			sigs = append(sigs, s)
		}
		sort.Strings(sigs)
		for _, s := range sigs {
			f := cl.m[s]
			f.detail["violating_cases_in_this_class"] = f.count
			c.Count("violating_cases:"+s, f.count)
			c.Violation(s, f.detail, f.replay)
		}
	})
}
