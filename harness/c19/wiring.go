// C19 phase 2 — WIRING: the correlation check must stand in front of every way ProcessBlock
// can accept a block.
//
// Seam: the real shardProcessor.ProcessBlock and metaProcessor.ProcessBlock, on processors built
// by the real NewShardProcessor / NewMetaProcessor from the repository's own stubs (export file
// ovl/export/process/block/c19.go, same collaborators as the package's tests: process/mock,
// testscommon) with the production marshalizer and hasher. All collaborators accept everything,
// so in this stubbed world the header/body correlation check is the only stage that can tell a
// matching body from a non-matching one, and a matching pair passes ProcessBlock end to end
// (asserted: at least 2 matching pairs per kind must return nil, otherwise the run is vacuous).
//
// Space: block kind in {shard block, regular metablock, start-of-epoch metablock
// (EpochStart.LastFinalizedHeaders non-empty)} x every (header list, body list) pair up to the
// tier's length over the sub-universe {M0, M1, twin of M0} and the 12 header entries derived
// from M0 and M1 (correct; Type / Hash / Sender / Receiver / TxCount perturbed one at a time):
// this contains matching, reordered, missing, extra, duplicated, replaced miniblocks and entries
// with another type / tx count / receiver / sender / hash. A fresh processor per case.
//
// Oracle: the reference says the pair does not match (no bijection on 5-field equality) =>
// ProcessBlock must not return nil (any error is fine). Nothing is demanded for matching pairs.
// Signatures are prefixed "wiring:".
//
// Left out on purpose: the nil miniblock element. shardProcessor.ProcessBlock starts
// `go getMetricsFromBlockBody(body, ...)` before the correlation check and that goroutine
// dereferences every body miniblock, so a nil element kills the process from a goroutine the
// harness cannot recover (phase 1 covers nil at the function seam).
package main

import (
	"fmt"
	"math/big"
	"sort"
	"sync"
	"time"

	"github.com/ElrondNetwork/elrond-go/data"
	"github.com/ElrondNetwork/elrond-go/data/block"
	"github.com/ElrondNetwork/elrond-go/process"
	procblock "github.com/ElrondNetwork/elrond-go/process/block"
	"verif/engine/mc"
)

type wkind struct {
	name    string
	newProc func() (process.BlockProcessor, error)
	header  func(mbhs []block.MiniBlockHeader, txCount uint32) data.HeaderHandler
}

func wiringKinds() []wkind {
	newShard := func() (process.BlockProcessor, error) { return procblock.VerifC19NewShardProcessor(marsh, hasher) }
	newMeta := func() (process.BlockProcessor, error) { return procblock.VerifC19NewMetaProcessor(marsh, hasher) }
	meta := func(mbhs []block.MiniBlockHeader, txCount uint32) *block.MetaBlock {
		return &block.MetaBlock{Nonce: 1, Round: 1, PrevHash: []byte(""), MiniBlockHeaders: mbhs, TxCount: txCount,
			AccumulatedFees: big.NewInt(0), DeveloperFees: big.NewInt(0),
			AccumulatedFeesInEpoch: big.NewInt(0), DevFeesInEpoch: big.NewInt(0)}
	}
	return []wkind{
		{"shard-block", newShard, func(mbhs []block.MiniBlockHeader, txCount uint32) data.HeaderHandler {
			return &block.Header{Nonce: 1, Round: 1, PrevHash: []byte(""), MiniBlockHeaders: mbhs, TxCount: txCount,
				AccumulatedFees: big.NewInt(0), DeveloperFees: big.NewInt(0)}
		}},
		{"meta-block", newMeta, func(mbhs []block.MiniBlockHeader, txCount uint32) data.HeaderHandler {
			return meta(mbhs, txCount)
		}},
		{"start-of-epoch-meta-block", newMeta, func(mbhs []block.MiniBlockHeader, txCount uint32) data.HeaderHandler {
			h := meta(mbhs, txCount)
			h.Epoch = 1
			h.EpochStart = block.EpochStart{LastFinalizedHeaders: []block.EpochStartShardData{{ShardID: 0}}}
			return h
		}},
	}
}

// wiringPart: sub-universe of the phase-1 quick universe (indices are stable across tiers).
func wiringPart(c *mc.Ctx, maxLen int) *part {
	el, mn := universe(c, false, false)
	elems := []bodyElem{el[0], el[1], el[4]} // M0, M1, M0twin
	menu := mn[:12]                          // the 6 entries of M0 and the 6 entries of M1
	return &part{name: "wiring", elems: elems, menu: menu, hdrs: lists(len(menu), maxLen), bodis: lists(len(elems), maxLen)}
}

type wstats struct {
	mu sync.Mutex
	m  map[string]int64
}

func (w *wstats) add(k string) { w.mu.Lock(); w.m[k]++; w.mu.Unlock() }

func isCorrelationError(err error) bool {
	return err == process.ErrHeaderBodyMismatch || err == process.ErrNilMiniBlock
}

func runWiringCase(c *mc.Ctx, cl *collector, st *wstats, p *part, k *wkind, ki, hi, bi int, hl, bl []int) {
	hdr := make([]*entry, len(hl))
	mbhs := make([]block.MiniBlockHeader, len(hl))
	txCount := uint32(0)
	for i, x := range hl {
		hdr[i] = &p.menu[x]
		mbhs[i] = p.menu[x].h
		txCount += p.menu[x].h.TxCount
	}
	body := make([]*bodyElem, len(bl))
	b := &block.Body{}
	for i, x := range bl {
		body[i] = &p.elems[x]
		b.MiniBlocks = append(b.MiniBlocks, p.elems[x].mb)
	}
	proc, err := k.newProc()
	if err != nil {
		c.Fatal("cannot build %s processor: %v", k.name, err)
	}
	haveTime := func() time.Duration { return time.Second }
	var perr error
	if pn := mc.Try(func() { perr = proc.ProcessBlock(k.header(mbhs, txCount), b, haveTime) }); pn != "" {
		cl.add("wiring:"+k.name+":panic", [3]int{len(hl) + len(bl), ki, hi*100000 + bi}, func() (map[string]interface{}, replay) {
			return map[string]interface{}{"panic": pn, "kind": k.name, "header": hl, "body": bl}, replay{Part: p.name, Kind: k.name, Header: hl, Body: bl}
		})
		return
	}
	matching := perfectMatching(hdr, body)
	switch {
	case matching && perr == nil:
		st.add(k.name + ":matching_accepted")
	case matching && isCorrelationError(perr):
		st.add(k.name + ":matching_rejected_with_correlation_error")
	case matching:
		st.add(k.name + ":matching_rejected_with_other_error")
	case perr == nil:
		st.add(k.name + ":NONMATCHING_ACCEPTED")
	case isCorrelationError(perr):
		st.add(k.name + ":nonmatching_rejected_with_correlation_error")
	default:
		st.add(k.name + ":nonmatching_rejected_with_other_error:" + perr.Error())
	}
	if !matching {
		c.Nontrivial(fmt.Sprint("wiring", k.name, hl, bl))
	}
	if matching || perr != nil {
		return
	}
	np := 0
	for _, e := range hdr {
		if e.perturbed {
			np++
		}
	}
	cl.add("wiring:"+k.name+":non-matching-body-accepted-by-ProcessBlock", [3]int{len(hl) + len(bl), np, hi*100000 + bi}, func() (map[string]interface{}, replay) {
		var hd, bd []interface{}
		for _, e := range hdr {
			hd = append(hd, describeEntry(e))
		}
		for _, be := range body {
			bd = append(bd, describeElem(be))
		}
		return map[string]interface{}{"block_kind": k.name, "header_miniblock_headers": hd, "body_miniblocks": bd,
				"mismatch": classify(hdr, body), "result": "ProcessBlock returned nil",
				"reference": "no bijection header entries <-> body miniblocks with equal hash, sender, receiver, type, tx count"},
			replay{Part: p.name, Kind: k.name, Header: append([]int{}, hl...), Body: append([]int{}, bl...)}
	})
}

// wiringPhase enumerates kinds x pairs; returns the rule text fragment.
func wiringPhase(c *mc.Ctx, cl *collector, p *part) {
	kinds := wiringKinds()
	st := &wstats{m: map[string]int64{}}
	for ki := range kinds {
		k := &kinds[ki]
		ki := ki
		mc.Par(len(p.hdrs), func(hi int) {
			for bi, bl := range p.bodis {
				runWiringCase(c, cl, st, p, k, ki, hi, bi, p.hdrs[hi], bl)
			}
			c.Eval(int64(len(p.bodis)))
		})
	}
	keys := []string{}
	for k := range st.m {
		keys = append(keys, k)
	}
	sort.Strings(keys)
	for _, k := range keys {
		c.Count("wiring:"+k, st.m[k])
	}
	for _, k := range kinds {
		c.Outcome(fmt.Sprint("wiring:", k.name, ":matching_accepted>0:", st.m[k.name+":matching_accepted"] > 0))
		if st.m[k.name+":matching_accepted"] < 2 {
			c.Fatal("wiring phase vacuous for %s: only %d matching pairs pass ProcessBlock in the stubbed world (counters %v)",
				k.name, st.m[k.name+":matching_accepted"], st.m)
		}
	}
}

func replayWiring(c *mc.Ctx, cl *collector, p *part, r replay) {
	kinds := wiringKinds()
	for ki := range kinds {
		if kinds[ki].name == r.Kind {
			runWiringCase(c, cl, &wstats{m: map[string]int64{}}, p, &kinds[ki], ki, 0, 0, r.Header, r.Body)
			c.Eval(1)
		}
	}
}
