// C25 — transaction pool indexes stay consistent; C26 — selection respects nonce order.
//
// One binary, oracle switched on c.Prop. Explicit-state BFS (mc.BFS) over the real
// storage/txcache.TxCache with eviction enabled and the smallest accepted thresholds; the
// export file ovl/export/storage/txcache/txc.go exposes the per-sender lists, the hash index
// and a synchronous selection (doSelectTransactions + doAfterSelection in the caller's
// goroutine; the public SelectTransactions runs the latter in an untracked goroutine).
// C26 additionally enumerates all pool contents of a bounded shape directly (phase "pools").
//
// Determinism (no map-range rewrite of storage/txcache/maps is available): selection and
// eviction iterate score buckets, and inside one bucket a Go map. The alphabet therefore
// gives every sender its own gas-price class, chosen so that the score ranges of the
// senders are pairwise disjoint whatever the number of pooled transactions (a: score 0,
// c: 1..2, b: 12..33 for up to 6 txs). Then every bucket holds at most one sender and the iteration order
// (ascending score for eviction, descending for selection) is a function of the state. The
// harness verifies this in every reached state and aborts (exit 2) if two senders ever
// share a bucket, so a run that finishes was deterministic.
package main

import (
	"encoding/json"
	"fmt"
	"sort"
	"strings"
	"sync"

	"github.com/ElrondNetwork/elrond-go/data/transaction"
	"github.com/ElrondNetwork/elrond-go/storage/txcache"
	"github.com/ElrondNetwork/elrond-go/testscommon/txcachemocks"
	"verif/engine/mc"
)

// ---- fixed world -------------------------------------------------------------------------

const (
	minGasPrice = uint64(1000000000)
	minGasLimit = uint64(50000)
	divisor     = uint64(100)

	// "small" configuration: the smallest thresholds ConfigSourceMe.verify accepts
	smallCountThreshold    = 4
	smallBytesThreshold    = 200
	smallPerSenderCount    = 3
	smallPerSenderBytes    = 100
	smallSendersToEvict    = 1
	wideCountThreshold     = 1000
	wideBytesThreshold     = 1000000
	widePerSenderCount     = 8
	widePerSenderBytes     = 100000
	maxScoreBucket         = 99
	absentHash             = "absent"
	gasPriceShiftInSandbox = 20 // computeShiftMagnitude(1e9, 10); only used to pick price classes
)

// Gas price classes. Prices inside a class differ by 1 unit (below the 2^20 resolution of
// the fee score), so the score of a sender is a function of (class, number of txs) only.
var basePrice = map[string]uint64{
	"a": 0,                             // prices 1,2: fee score 0 => score 0
	"c": 417 << gasPriceShiftInSandbox, // ~0.44 x min price => score 1..2
	"b": 953 << gasPriceShiftInSandbox, // ~1.0 x min price => score 12..33
}

type txDesc struct {
	sender string
	nonce  uint64
	gp     int // 1 or 2: low / high price inside the sender's class
	size   int64
}

func (t txDesc) hash() string  { return fmt.Sprintf("%s/%d/g%d/%d", t.sender, t.nonce, t.gp, t.size) }
func (t txDesc) price() uint64 { return basePrice[t.sender] + uint64(t.gp) }

// allTxs maps every hash of the universe to its content (read-only after init).
var allTxs = func() map[string]txDesc {
	m := map[string]txDesc{}
	for sender := range basePrice {
		for nonce := uint64(0); nonce < 8; nonce++ {
			for gp := 1; gp <= 2; gp++ {
				for _, size := range []int64{10, 40, 70} {
					t := txDesc{sender, nonce, gp, size}
					m[t.hash()] = t
				}
			}
		}
	}
	return m
}()

func parseTx(h string) (txDesc, bool) {
	t, ok := allTxs[h]
	return t, ok
}

func (t txDesc) wrap() *txcache.WrappedTransaction {
	return &txcache.WrappedTransaction{
		Tx: &transaction.Transaction{
			SndAddr:  []byte(t.sender),
			Nonce:    t.nonce,
			GasPrice: t.price(),
			GasLimit: minGasLimit,
		},
		TxHash: []byte(t.hash()),
		Size:   t.size,
	}
}

// ---- operations (names are the replay format; every name is parseable on its own) ---------

const (
	kCfg = iota
	kAdd
	kRm
	kSel
	kNotify
	kClear
)

type opDesc struct {
	kind   int
	name   string
	cfg    string // kCfg: "small" | "wide"
	chunks uint32
	tx     txDesc // kAdd, kRm (kRm of absentHash: tx.sender == "")
	n, b   int
	sender string
	nonce  uint64
}

func parseOp(name string) (opDesc, error) {
	o := opDesc{name: name}
	f := strings.Fields(name)
	bad := fmt.Errorf("unparseable op %q", name)
	if len(f) == 0 {
		return o, bad
	}
	switch f[0] {
	case "cfg":
		o.kind = kCfg
		if len(f) != 3 {
			return o, bad
		}
		o.cfg = f[1]
		if _, err := fmt.Sscanf(f[2], "chunks=%d", &o.chunks); err != nil {
			return o, bad
		}
	case "add", "rm":
		o.kind = kAdd
		if f[0] == "rm" {
			o.kind = kRm
		}
		if len(f) != 2 {
			return o, bad
		}
		if f[0] == "rm" && f[1] == absentHash {
			return o, nil
		}
		t, ok := parseTx(f[1])
		if !ok {
			return o, bad
		}
		o.tx = t
	case "select":
		o.kind = kSel
		if len(f) != 3 {
			return o, bad
		}
		if _, err := fmt.Sscanf(f[1]+" "+f[2], "n=%d batch=%d", &o.n, &o.b); err != nil {
			return o, bad
		}
	case "notify":
		o.kind = kNotify
		if len(f) != 3 {
			return o, bad
		}
		o.sender = f[1]
		if _, err := fmt.Sscanf(f[2], "%d", &o.nonce); err != nil {
			return o, bad
		}
	case "clear":
		o.kind = kClear
	default:
		return o, bad
	}
	return o, nil
}

func mustOp(name string) opDesc {
	o, err := parseOp(name)
	if err != nil {
		panic(err)
	}
	return o
}

// ---- instance -----------------------------------------------------------------------------

type senderView struct {
	name      string
	txs       []txDesc
	hashes    []string
	bytes     int64 // actual bytes of the listed txs
	internalB int64
	score     uint32
	inScore   bool
	acctNonce uint64 // the implementation's idea of the account nonce (state key and witnesses only)
	refKnown  bool   // the harness's own record: was a nonce notified while the sender was pooled
	refNonce  uint64 // ... and the LAST such value; the C26 oracle uses only this
	known     bool
	failed    int64
	sweepable bool
}

type view struct {
	senders      []senderView
	index        []string // sorted hashes of the hash index
	countTx      uint64
	numBytes     int
	countSenders uint64
	scoreIdx     []string
	pending      int
}

type limits struct {
	perSenderCount int
	perSenderBytes int64
	count          uint64
	bytes          int
}

type inst struct {
	w      *world
	cache  *txcache.TxCache
	cfg    string
	chunks uint32
	lim    limits
	v      *view // cached view of the current state
	hist   []string
	ref    map[string]uint64 // harness-side record of the last notified account nonce per pooled sender
	pend   map[string]int64  // counters of the last step, committed once per explored transition
	pendK  *[2]string        // known-class (sig, detail) of the last step, committed likewise
	nt     string            // non-trivial key of the last step
	out    string            // outcome of the last step
}

type world struct {
	c                *mc.Ctx
	prop             string
	graceLo, graceHi int64

	mu    sync.Mutex
	known map[string]*knownSeen
}

// knownSeen keeps, per non-pruning signature, the number of occurrences and the smallest
// witness (shortest history, then lexicographic), so the reported witness is deterministic.
type knownSeen struct {
	count  int64
	hist   []string
	pend   map[string]int64 // counters of the last step, committed once per explored transition
	pendK  *[2]string       // known-class (sig, detail) of the last step, committed likewise
	detail string
}

func (w *world) noteKnown(sig, detail string, hist []string) {
	w.mu.Lock()
	defer w.mu.Unlock()
	if w.known == nil {
		w.known = map[string]*knownSeen{}
	}
	k := w.known[sig]
	if k == nil {
		k = &knownSeen{}
		w.known[sig] = k
	}
	k.count++
	if k.hist == nil || len(hist) < len(k.hist) || (len(hist) == len(k.hist) && strings.Join(hist, "\n") < strings.Join(k.hist, "\n")) {
		k.hist, k.detail = append([]string{}, hist...), detail
	}
}

// flushKnown hands the collected non-pruning violations to the engine (known-finding matching,
// evidence, replay file): first the smallest witness, then one call per further occurrence.
func (w *world) flushKnown() {
	w.mu.Lock()
	defer w.mu.Unlock()
	sigs := []string{}
	for sig := range w.known {
		sigs = append(sigs, sig)
	}
	sort.Strings(sigs)
	for _, sig := range sigs {
		k := w.known[sig]
		w.c.Violation(sig, map[string]interface{}{"history": k.hist, "what": k.detail}, k.hist)
		for i := int64(1); i < k.count; i++ {
			w.c.Violation(sig, nil, nil)
		}
	}
}

func (w *world) fresh() *inst { return &inst{w: w} }

func (s *inst) configure(o opDesc) {
	cfg := txcache.ConfigSourceMe{
		Name:            "verif",
		NumChunks:       o.chunks,
		EvictionEnabled: true,
	}
	switch o.cfg {
	case "small":
		s.lim = limits{smallPerSenderCount, smallPerSenderBytes, smallCountThreshold, smallBytesThreshold}
	case "wide":
		s.lim = limits{widePerSenderCount, widePerSenderBytes, wideCountThreshold, wideBytesThreshold}
	default:
		panic("unknown cfg " + o.cfg)
	}
	cfg.NumBytesThreshold = uint32(s.lim.bytes)
	cfg.CountThreshold = uint32(s.lim.count)
	cfg.NumBytesPerSenderThreshold = uint32(s.lim.perSenderBytes)
	cfg.CountPerSenderThreshold = uint32(s.lim.perSenderCount)
	cfg.NumSendersToPreemptivelyEvict = smallSendersToEvict
	gh := &txcachemocks.TxGasHandlerMock{MinimumGasMove: minGasLimit, MinimumGasPrice: minGasPrice, GasProcessingDivisor: divisor}
	cache, err := txcache.NewTxCache(cfg, gh)
	if err != nil {
		panic(fmt.Sprintf("NewTxCache rejected the configuration: %v", err))
	}
	s.cache, s.cfg, s.chunks = cache, o.cfg, o.chunks
}

func descOf(tx *txcache.WrappedTransaction) txDesc {
	t, ok := parseTx(string(tx.TxHash))
	if !ok {
		panic("foreign tx in pool: " + string(tx.TxHash))
	}
	// cross-check the content against the real transaction fields
	if t.nonce != tx.Tx.GetNonce() || t.price() != tx.Tx.GetGasPrice() || t.size != tx.Size || t.sender != string(tx.Tx.GetSndAddr()) {
		panic("tx content does not match its hash: " + string(tx.TxHash))
	}
	return t
}

func (s *inst) view() *view {
	if s.v != nil {
		return s.v
	}
	v := &view{}
	if s.cache == nil {
		s.v = v
		return v
	}
	for _, sv := range s.cache.VerifSenders() {
		x := senderView{name: sv.Sender, internalB: sv.TotalBytes, score: sv.Score, inScore: sv.InScoreIndex,
			acctNonce: sv.AccountNonce, known: sv.AccountNonceKnown, failed: sv.NumFailedSelections, sweepable: sv.Sweepable}
		for _, tx := range sv.Txs {
			d := descOf(tx)
			x.txs = append(x.txs, d)
			x.hashes = append(x.hashes, string(tx.TxHash))
			x.bytes += tx.Size
		}
		v.senders = append(v.senders, x)
	}
	for h := range s.cache.VerifHashIndex() {
		v.index = append(v.index, h)
	}
	sort.Strings(v.index)
	v.countTx = s.cache.CountTx()
	v.numBytes = s.cache.NumBytes()
	v.countSenders = s.cache.CountSenders()
	v.scoreIdx = s.cache.VerifScoreIndexSenders()
	v.pending = s.cache.VerifPendingSweep()
	// determinism guard: at most one sender per score bucket
	seen := map[uint32]string{}
	for _, x := range v.senders {
		b := x.score
		if b > maxScoreBucket {
			b = maxScoreBucket
		}
		if other, dup := seen[b]; dup && x.inScore {
			s.w.c.Fatal("senders %s and %s share score bucket %d: iteration order would depend on Go map order", other, x.name, b)
		}
		if x.inScore {
			seen[b] = x.name
		}
	}
	s.v = v
	return v
}

func (v *view) sender(name string) *senderView {
	for i := range v.senders {
		if v.senders[i].name == name {
			return &v.senders[i]
		}
	}
	return nil
}

func (v *view) allListed() map[string]bool {
	m := map[string]bool{}
	for _, x := range v.senders {
		for _, h := range x.hashes {
			m[h] = true
		}
	}
	return m
}

func (s *inst) key() string {
	if s.cache == nil {
		return "unconfigured"
	}
	v := s.view()
	var b strings.Builder
	fmt.Fprintf(&b, "%s/%d|%d,%d,%d,%d|%s|%s|", s.cfg, s.chunks, v.countTx, v.numBytes, v.countSenders, v.pending,
		strings.Join(v.index, ","), strings.Join(v.scoreIdx, ","))
	for _, x := range v.senders {
		fmt.Fprintf(&b, "%s[%d,%v,%d,%v,%d,%v,%d]%s;", x.name, x.score, x.inScore, x.acctNonce, x.known, x.failed, x.sweepable,
			x.internalB, strings.Join(x.hashes, ","))
		if s.w.prop == "C26" {
			// the reference account nonce decides future C26 verdicts, so it is part of the state
			fmt.Fprintf(&b, "ref[%v,%d];", x.refKnown, x.refNonce)
		}
	}
	return b.String()
}

func js(v interface{}) string {
	b, _ := json.Marshal(v)
	return string(b)
}

func (v *view) describe() map[string]interface{} {
	lists := map[string]interface{}{}
	for _, x := range v.senders {
		d := map[string]interface{}{"txs": x.hashes, "bytes": x.bytes, "score": x.score}
		if x.refKnown {
			d["lastNotifiedNonce"] = x.refNonce
		}
		if x.known {
			d["implAccountNonce"] = x.acctNonce
		}
		if x.failed > 0 {
			d["failedSelections"] = x.failed
		}
		lists[x.name] = d
	}
	return map[string]interface{}{"senderLists": lists, "hashIndex": v.index, "CountTx": v.countTx, "NumBytes": v.numBytes, "CountSenders": v.countSenders}
}

// ---- C25 oracle -----------------------------------------------------------------------------

// checkIndexes evaluates the state part of C25 (statement, literally):
// (1) set found by hash == set held in the per-sender lists; (2) CountTx, NumBytes,
// CountSenders match the contents; (3) every list ordered by nonce ascending, equal nonces by
// gas price descending (equal price: any order), (4) no hash twice.
func (s *inst) checkIndexes() (string, string) {
	v := s.view()
	listed := map[string]bool{}
	var nTx int
	var nBytes int64
	for _, x := range v.senders {
		for i, h := range x.hashes {
			if listed[h] {
				return "txcache:duplicate-in-sender-lists", js(map[string]interface{}{"hash": h, "state": v.describe()})
			}
			listed[h] = true
			nTx++
			if i > 0 {
				p, q := x.txs[i-1], x.txs[i]
				if p.nonce > q.nonce || (p.nonce == q.nonce && p.price() < q.price()) {
					return "txcache:sender-list-not-sorted", js(map[string]interface{}{"sender": x.name, "list": x.hashes})
				}
			}
			if x.txs[i].sender != x.name {
				return "txcache:tx-in-foreign-sender-list", js(map[string]interface{}{"sender": x.name, "list": x.hashes})
			}
		}
		nBytes += x.bytes
	}
	for _, h := range v.index {
		if !listed[h] {
			return "txcache:in-hash-index-not-in-sender-lists", js(map[string]interface{}{"hash": h, "state": v.describe()})
		}
	}
	for h := range listed {
		if _, ok := s.cache.GetByTxHash([]byte(h)); !ok {
			return "txcache:in-sender-lists-not-found-by-hash", js(map[string]interface{}{"hash": h, "state": v.describe()})
		}
	}
	if len(v.index) != len(listed) {
		return "txcache:in-sender-lists-not-found-by-hash", js(map[string]interface{}{"state": v.describe()})
	}
	if v.countTx != uint64(nTx) {
		return "txcache:CountTx-mismatch", js(map[string]interface{}{"CountTx": v.countTx, "actual": nTx, "state": v.describe()})
	}
	if int64(v.numBytes) != nBytes {
		return "txcache:NumBytes-mismatch", js(map[string]interface{}{"NumBytes": v.numBytes, "actual": nBytes, "state": v.describe()})
	}
	if v.countSenders != uint64(len(v.senders)) {
		return "txcache:CountSenders-mismatch", js(map[string]interface{}{"CountSenders": v.countSenders, "actual": len(v.senders), "state": v.describe()})
	}
	return "", ""
}

// Signature of the accepted known finding (the repo's own test
// TestListForSender_AddTx_AppliesSizeConstraintsForNumBytes pins the behaviour): an AddTx after
// which the sender is over its limits *because applySizeConstraints evicted exactly one
// transaction from the back of the list where two or more were needed*.
const sigKnownOneEviction = "txcache:sender-limit-exceeded:AddTx-needing-more-than-one-eviction"

// checkSenderLimits: "after each addition the sender's count and byte limits hold".
// pre = the pool before the AddTx of tx (which was accepted as new). The overshoot is put in the
// narrow known class iff the real list equals (previous list + tx) minus exactly one
// transaction E, E does not sort before the remaining back of the list (it was the back
// element), and the remaining list still needs >= 1 more back-to-front eviction; i.e. the
// AddTx needed >= 2 evictions and got exactly 1. Everything else (no eviction at all, one
// eviction would have sufficed, wrong victim, ...) is the general, alarming class.
func (s *inst) checkSenderLimits(pre *view, tx txDesc) (sig, detail string) {
	x := s.view().sender(tx.sender)
	if x == nil {
		return "", ""
	}
	within := func(n int, bytes int64) bool { return n <= s.lim.perSenderCount && bytes <= s.lim.perSenderBytes }
	if within(len(x.txs), x.bytes) {
		return "", ""
	}
	now := map[string]bool{}
	for _, h := range x.hashes {
		now[h] = true
	}
	before := []string{}
	if p := pre.sender(tx.sender); p != nil {
		before = append(before, p.hashes...)
	}
	var evicted []string
	for _, h := range append(append([]string{}, before...), tx.hash()) {
		if !now[h] {
			evicted = append(evicted, h)
		}
	}
	stillNeeded, n, bytes := 0, len(x.txs), x.bytes
	for !within(n, bytes) && n > 0 {
		n--
		bytes -= x.txs[n].size
		stillNeeded++
	}
	d := js(map[string]interface{}{"sender": tx.sender, "listBefore": before, "offered": tx.hash(), "listAfter": x.hashes,
		"count": len(x.txs), "bytes": x.bytes, "maxCount": s.lim.perSenderCount, "maxBytes": s.lim.perSenderBytes,
		"evicted": evicted, "evictionsStillNeeded": stillNeeded})
	if len(evicted) == 1 && stillNeeded >= 1 {
		e, _ := parseTx(evicted[0])
		if !less(e, x.txs[len(x.txs)-1]) {
			return sigKnownOneEviction, d
		}
	}
	return "txcache:sender-limit-exceeded-after-AddTx", d
}

// ---- C26 oracle -----------------------------------------------------------------------------

func less(p, q txDesc) bool { // strict order of the nonce-ordered list
	if p.nonce != q.nonce {
		return p.nonce < q.nonce
	}
	return p.price() > q.price()
}

func hasNonceGap(x *senderView) (initial, middle bool) {
	if len(x.txs) == 0 {
		return
	}
	nonces := []uint64{}
	for _, t := range x.txs {
		nonces = append(nonces, t.nonce)
	}
	sort.Slice(nonces, func(i, j int) bool { return nonces[i] < nonces[j] })
	initial = x.refKnown && nonces[0] > x.refNonce
	for i := 1; i < len(nonces); i++ {
		if nonces[i] > nonces[i-1]+1 {
			middle = true
		}
	}
	return
}

// checkSelection judges one selection result against the pool as it was before the call.
func (s *inst) checkSelection(pre *view, n, batch int, result []*txcache.WrappedTransaction) (string, string) {
	res := make([]string, len(result))
	for i, tx := range result {
		if tx == nil {
			return "txcache:selection-contains-nil", js(map[string]interface{}{"requested": n, "batch": batch, "pool": pre.describe()})
		}
		res[i] = string(tx.TxHash)
	}
	ctx := func(extra map[string]interface{}) string {
		extra["requested"], extra["batch"], extra["selected"], extra["pool"] = n, batch, res, pre.describe()["senderLists"]
		return js(extra)
	}
	if len(res) > n {
		return "txcache:selected-more-than-requested", ctx(map[string]interface{}{})
	}
	pooled := pre.allListed()
	seen := map[string]bool{}
	perSender := map[string][]txDesc{}
	for _, h := range res {
		if seen[h] {
			return "txcache:selected-twice", ctx(map[string]interface{}{"hash": h})
		}
		seen[h] = true
		if !pooled[h] {
			return "txcache:selected-not-pooled", ctx(map[string]interface{}{"hash": h})
		}
		d, _ := parseTx(h)
		perSender[d.sender] = append(perSender[d.sender], d)
	}
	for i := range pre.senders {
		x := &pre.senders[i]
		sel := perSender[x.name]
		if len(sel) == 0 {
			continue
		}
		// the selected txs are the first ones of the nonce-ordered list: selected in order,
		// and no pooled, unselected tx sorts strictly before the last selected one
		for j := 1; j < len(sel); j++ {
			if less(sel[j], sel[j-1]) {
				return "txcache:selected-out-of-nonce-order", ctx(map[string]interface{}{"sender": x.name})
			}
			if sel[j].nonce > sel[j-1].nonce+1 {
				return "txcache:selected-across-nonce-gap", ctx(map[string]interface{}{"sender": x.name, "after": sel[j-1].nonce, "selectedNonce": sel[j].nonce})
			}
		}
		last := sel[len(sel)-1]
		for _, t := range x.txs {
			if !seen[t.hash()] && less(t, last) {
				return "txcache:selected-not-a-prefix", ctx(map[string]interface{}{"sender": x.name, "skipped": t.hash()})
			}
		}
		initial, _ := hasNonceGap(x)
		if initial {
			allowed := 0
			if x.failed+1 >= s.w.graceLo && x.failed+1 <= s.w.graceHi {
				allowed = 1
			}
			if len(sel) > allowed {
				return "txcache:selected-despite-initial-gap", ctx(map[string]interface{}{"sender": x.name, "lastNotifiedNonce": x.refNonce,
					"failedSelectionsBefore": x.failed, "allowed": allowed})
			}
		}
	}
	return "", ""
}

// ---- step ---------------------------------------------------------------------------------

// do applies one operation and then brings the harness-side account-nonce record up to date.
func (s *inst) do(o opDesc) (sig, detail string) {
	var pre *view
	if s.cache != nil {
		pre = s.view()
	}
	sig, detail = s.step(o)
	s.updateRef(pre, o)
	return sig, detail
}

// updateRef maintains the reference account nonce of every pooled sender from the operations
// the harness itself issued (never from the implementation): NotifyAccountNonce(s, n) on a
// sender holding >= 1 pooled tx sets it to n (the LAST notification wins, also a lower one:
// account nonces go back on reverts); a notification for a sender without pooled txs is not
// retained, and the record is dropped when the sender holds no pooled tx after an operation
// (removal of its last tx, eviction, sweep, Clear), because the cache keeps the account nonce
// as per-sender pool state. Corner: an AddTx that starts over a global threshold (eviction runs
// first) may evict and re-create the sender of the offered tx within the one call; there the
// record is kept only if a previously pooled tx of that sender other than the offered hash is
// still pooled afterwards (otherwise dropped: oracle silent for that sender until the next
// notification - sound, slightly weaker).
func (s *inst) updateRef(pre *view, o opDesc) {
	if pre == nil || s.cache == nil {
		return
	}
	post := s.view()
	if s.ref == nil {
		s.ref = map[string]uint64{}
	}
	if o.kind == kNotify {
		if x := pre.sender(o.sender); x != nil && len(x.txs) > 0 {
			s.ref[o.sender] = o.nonce
		}
	}
	evictionRan := o.kind == kAdd && (pre.countTx > s.lim.count || pre.countSenders > s.lim.count || pre.numBytes > s.lim.bytes)
	for name := range s.ref {
		px, qx := pre.sender(name), post.sender(name)
		keep := px != nil && qx != nil && len(qx.txs) > 0
		if keep && evictionRan && name == o.tx.sender {
			// the sender may have been evicted and re-created inside this AddTx
			keep = false
			now := map[string]bool{}
			for _, h := range qx.hashes {
				now[h] = true
			}
			for _, h := range px.hashes {
				if h != o.tx.hash() && now[h] {
					keep = true
					break
				}
			}
		}
		if !keep {
			delete(s.ref, name)
		}
	}
	for i := range post.senders {
		post.senders[i].refNonce, post.senders[i].refKnown = s.ref[post.senders[i].name]
	}
}

func (s *inst) step(o opDesc) (sig, detail string) {
	s.nt, s.out, s.pend, s.pendK = "", "", map[string]int64{}, nil
	s.hist = append(s.hist, o.name)
	c25 := s.w.prop == "C25"
	if o.kind == kCfg {
		s.configure(o)
		s.v = nil
		return "", ""
	}
	pre := s.view()
	preKey := ""
	s.v = nil
	switch o.kind {
	case kAdd:
		exceeded := pre.countTx > s.lim.count || pre.countSenders > s.lim.count || pre.numBytes > s.lim.bytes
		ok, added := s.cache.AddTx(o.tx.wrap())
		post := s.view()
		if c25 {
			// non-trivial: a transaction pooled before (or the one just offered) left the pool
			// without a removal request: per-sender trim or global eviction
			now := post.allListed()
			var gone []string
			for h := range pre.allListed() {
				if !now[h] {
					gone = append(gone, h)
				}
			}
			if added && !now[o.tx.hash()] {
				gone = append(gone, o.tx.hash())
			}
			if len(gone) > 0 {
				sort.Strings(gone)
				kind := "trim"
				if exceeded {
					kind = "evict"
				}
				s.nt = kind + "|" + o.name + "|" + strings.Join(gone, ",")
				s.pend["steps_with_"+kind]++
			}
			s.out = fmt.Sprintf("add %v %v %d %d %d", ok, added, post.countTx, post.numBytes, post.countSenders)
			if added { // a rejected duplicate is not an addition
				sg, d := s.checkSenderLimits(pre, o.tx)
				if sg == sigKnownOneEviction {
					// known class: reported, but the state is still explored (all other oracles stay active)
					s.pendK = &[2]string{sg, d}
				} else if sg != "" {
					return sg, d
				}
			}
		}
	case kRm:
		h := absentHash
		if o.tx.sender != "" {
			h = o.tx.hash()
		}
		found := s.cache.RemoveTxByHash([]byte(h))
		if c25 {
			s.out = fmt.Sprintf("rm %v", found)
		}
	case kSel:
		if !c25 {
			preKey = s.keyOf(pre)
		}
		result := s.cache.VerifSelect(o.n, o.b)
		post := s.view()
		if c25 {
			if len(post.allListed()) < len(pre.allListed()) {
				s.nt = "sweep|" + o.name + "|" + strings.Join(pre.index, ",") + ">" + strings.Join(post.index, ",")
				s.pend["steps_with_sweep"]++
			}
			s.out = fmt.Sprintf("select %d %d %d %d", len(result), post.countTx, post.numBytes, post.countSenders)
		} else {
			initial, middle, grace := false, false, false
			for i := range pre.senders {
				in, mid := hasNonceGap(&pre.senders[i])
				initial, middle = initial || in, middle || mid
				if in && pre.senders[i].failed+1 >= s.w.graceLo && pre.senders[i].failed+1 <= s.w.graceHi {
					grace = true
				}
			}
			if initial || middle {
				s.nt = o.name + "|" + preKey
				if initial {
					s.pend["selections_with_initial_gap"]++
				}
				if middle {
					s.pend["selections_with_middle_gap"]++
				}
				if grace {
					s.pend["selections_with_sender_in_grace_period"]++
				}
			}
			hs := make([]string, len(result))
			for i, tx := range result {
				if tx != nil {
					hs[i] = string(tx.TxHash)
				}
			}
			s.out = o.name + ">" + strings.Join(hs, ",")
			s.pend["selections_checked"]++
			if sg, d := s.checkSelection(pre, o.n, o.b, result); sg != "" {
				return sg, d
			}
		}
	case kNotify:
		s.cache.NotifyAccountNonce([]byte(o.sender), o.nonce)
	case kClear:
		s.cache.Clear()
	}
	return "", ""
}

// keyOf renders a view that is not the current one (used for non-trivial keys).
func (s *inst) keyOf(v *view) string {
	var b strings.Builder
	for _, x := range v.senders {
		fmt.Fprintf(&b, "%s[%d,%v,%d]%s;", x.name, x.refNonce, x.refKnown, x.failed, strings.Join(x.hashes, ","))
	}
	return b.String()
}

// commit publishes the counters and known-class report of the last step. The BFS engine
// re-executes history prefixes on fresh instances, so this is called once per explored
// transition (from the Nontrivial callback) and not from do.
func (s *inst) commit() {
	for k, n := range s.pend {
		s.w.c.Count(k, n)
	}
	if s.pendK != nil {
		s.w.noteKnown(s.pendK[0], s.pendK[1], s.hist)
	}
	s.pend, s.pendK = nil, nil
}

func (s *inst) check() (string, string) {
	if s.cache == nil || s.w.prop != "C25" {
		return "", ""
	}
	return s.checkIndexes()
}

// ---- alphabets ------------------------------------------------------------------------------

type senderAlpha struct {
	name   string
	nonces []uint64
	gps    []int
	sizes  []int64
}

type alphabet struct {
	senders []senderAlpha
	selN    []int
	selB    []int
	notify  []uint64
	chunks  []uint32
	depth   int // operations after the configuration step
}

func (a alphabet) String() string {
	var parts []string
	for _, s := range a.senders {
		parts = append(parts, fmt.Sprintf("%s:nonces%v,price{lo,hi}%v,sizes%v", s.name, s.nonces, s.gps, s.sizes))
	}
	return fmt.Sprintf("AddTx{%s} (hash = content; re-adding in menu), RemoveTxByHash{every pooled hash, one absent hash}, select{n%v x batch%v}, NotifyAccountNonce{senders x %v}, Clear; NumChunks%v",
		strings.Join(parts, "; "), a.selN, a.selB, a.notify, a.chunks)
}

func (a alphabet) menu() []opDesc {
	var ops []opDesc
	for _, k := range a.chunks {
		ops = append(ops, mustOp(fmt.Sprintf("cfg small chunks=%d", k)))
	}
	var txs []txDesc
	for _, s := range a.senders {
		for _, n := range s.nonces {
			for _, g := range s.gps {
				for _, z := range s.sizes {
					txs = append(txs, txDesc{s.name, n, g, z})
				}
			}
		}
	}
	for _, t := range txs {
		ops = append(ops, mustOp("add "+t.hash()))
	}
	for _, t := range txs {
		ops = append(ops, mustOp("rm "+t.hash()))
	}
	ops = append(ops, mustOp("rm "+absentHash))
	for _, n := range a.selN {
		for _, b := range a.selB {
			ops = append(ops, mustOp(fmt.Sprintf("select n=%d batch=%d", n, b)))
		}
	}
	named := map[string]bool{}
	for _, s := range a.senders {
		if named[s.name] {
			continue
		}
		named[s.name] = true
		for _, n := range a.notify {
			ops = append(ops, mustOp(fmt.Sprintf("notify %s %d", s.name, n)))
		}
	}
	ops = append(ops, mustOp("clear"))
	if len(ops) > 250 {
		panic("menu too large for the engine's uint8 op index")
	}
	return ops
}

// phasesFor returns the BFS phases (alphabet, depth) of the property and tier.
func phasesFor(c *mc.Ctx) []alphabet {
	base := func(depth int, senders ...senderAlpha) alphabet {
		return alphabet{senders: senders, selN: []int{1, 5}, selB: []int{1, 3}, notify: []uint64{0, 1, 3}, chunks: []uint32{1, 2}, depth: depth}
	}
	full := func(name string) senderAlpha {
		return senderAlpha{name, []uint64{0, 1, 2, 3}, []int{1, 2}, []int64{10, 40, 70}}
	}
	// C25 "deep" alphabet: every size for a (trim by bytes and by count, two evictions needed),
	// one equal-nonce price pair, b and c large enough to push the pool over its byte and
	// count thresholds (global eviction) together with a.
	deep25 := []senderAlpha{
		{"a", []uint64{0, 1, 2}, []int{1}, []int64{10, 40, 70}},
		{"a", []uint64{1}, []int{2}, []int64{40}},
		{"b", []uint64{1, 2}, []int{1}, []int64{40, 70}},
		{"c", []uint64{1}, []int{1}, []int64{70}},
	}
	// C26 alphabets: nonce 0 and gaps at every position for a (score 0: the requested batch
	// size is the effective one), fewer shapes for b and c
	small26 := []senderAlpha{
		{"a", []uint64{0, 1, 2, 3}, []int{1, 2}, []int64{40}},
		{"b", []uint64{0, 2}, []int{1}, []int64{40}},
		{"c", []uint64{1, 3}, []int{1}, []int64{70}},
	}
	large26 := []senderAlpha{
		{"a", []uint64{0, 1, 2, 3}, []int{1, 2}, []int64{40, 70}},
		{"b", []uint64{0, 1, 2, 3}, []int{1, 2}, []int64{40}},
		{"c", []uint64{0, 1, 3}, []int{1}, []int64{70}},
	}
	// tiny alphabet, long histories: repeated failed selections (grace period, sweeping),
	// re-adding after a sweep, notifications in between
	tiny := func(depth int) alphabet {
		return alphabet{senders: []senderAlpha{
			{"a", []uint64{0, 1, 2}, []int{1}, []int64{40}},
			{"b", []uint64{1}, []int{1}, []int64{70}},
			{"c", []uint64{1}, []int{1}, []int64{70}},
		}, selN: []int{1, 5}, selB: []int{1, 3}, notify: []uint64{0, 1}, chunks: []uint32{1, 2}, depth: depth}
	}
	var phases []alphabet
	switch {
	case c.Prop == "C25" && c.Quick():
		phases = []alphabet{base(6, deep25...), tiny(10)}
	case c.Prop == "C25":
		phases = []alphabet{base(7, deep25...), base(4, full("a"), full("b"), full("c")), tiny(16)}
	case c.Quick():
		phases = []alphabet{base(6, small26...), tiny(10)}
	default:
		phases = []alphabet{base(9, small26...), base(6, large26...), tiny(24)}
	}
	return phases
}

// ---- C26 phase 2: all pools of a bounded shape ----------------------------------------------

// Pools: sender a (score 0, so the requested batch size is the effective one) holds any
// subset of nonces {0..5} (price lo) plus optionally a second, higher-priced tx for its lowest
// nonce; sender c holds any subset of {0,1,2,3}. x every sequence of <= 2 notifications for a over {0,1,2,3} (21 sequences, decreasing ones included) x
// n x batch; the same selection is issued three times in a row (failed-selection counter 0,1,2:
// before, inside and after the grace period; the third one sweeps).
func poolPhase(c *mc.Ctx, w *world) {
	ns := []int{1, 2, 3, 5, 10}
	cNonces := []uint64{0, 1, 2, 3}
	if c.Quick() {
		ns = []int{1, 2, 3, 10}
		cNonces = []uint64{0, 1, 3}
	}
	bs := []int{1, 2, 3}
	// notification sequences of length <= 2 over {0,1,2,3} (increasing, equal and decreasing pairs)
	notif := [][]int{{}}
	for x := 0; x <= 3; x++ {
		notif = append(notif, []int{x})
		for y := 0; y <= 3; y++ {
			notif = append(notif, []int{x, y})
		}
	}
	type job struct{ am, cm, dup int }
	var jobs []job
	for am := 0; am < 64; am++ {
		for cm := 0; cm < 1<<len(cNonces); cm++ {
			for dup := 0; dup < 2; dup++ {
				if dup == 1 && am == 0 {
					continue
				}
				jobs = append(jobs, job{am, cm, dup})
			}
		}
	}
	mc.Par(len(jobs), func(i int) {
		j := jobs[i]
		var base []string
		base = append(base, "cfg wide chunks=1")
		first := true
		for n := 0; n < 6; n++ {
			if j.am&(1<<n) != 0 {
				base = append(base, "add "+txDesc{"a", uint64(n), 1, 40}.hash())
				if first && j.dup == 1 {
					base = append(base, "add "+txDesc{"a", uint64(n), 2, 40}.hash())
				}
				first = false
			}
		}
		for i, n := range cNonces {
			if j.cm&(1<<i) != 0 {
				base = append(base, "add "+txDesc{"c", n, 1, 40}.hash())
			}
		}
		for _, nf := range notif {
			if len(nf) > 0 && j.am == 0 {
				continue
			}
			for _, n := range ns {
				for _, b := range bs {
					hist := append([]string{}, base...)
					for _, x := range nf {
						hist = append(hist, fmt.Sprintf("notify a %d", x))
					}
					sel := fmt.Sprintf("select n=%d batch=%d", n, b)
					hist = append(hist, sel, sel, sel)
					runHistory(c, w, hist, false)
				}
			}
		}
	})
}

// runHistory applies a named history to a fresh instance, checking after every step.
func runHistory(c *mc.Ctx, w *world, hist []string, verbose bool) {
	s := w.fresh()
	for i, name := range hist {
		o, err := parseOp(name)
		if err != nil {
			c.Fatal("%v", err)
		}
		var sig, detail string
		if p := mc.Try(func() {
			sig, detail = s.do(o)
			if sig == "" {
				sig, detail = s.check()
			}
		}); p != "" {
			sig, detail = "panic", p
		}
		c.Eval(1)
		s.commit()
		if s.nt != "" {
			c.Nontrivial(s.nt)
		}
		if s.out != "" {
			c.Outcome(s.out)
		}
		if verbose {
			fmt.Printf("step %d %-28s -> %s\n", i, name, js(s.view().describe()))
		}
		if sig != "" {
			c.Violation(sig, map[string]interface{}{"history": hist[:i+1], "what": detail}, hist[:i+1])
			return
		}
	}
}

// ---- main -------------------------------------------------------------------------------------

func main() {
	mc.Main("C25", "model_checking", func(c *mc.Ctx) {
		if c.Prop != "C25" && c.Prop != "C26" {
			c.Fatal("this harness serves C25 and C26, not %s", c.Prop)
		}
		c.Level = "model_checking"
		w := &world{c: c, prop: c.Prop}
		w.graceLo, w.graceHi = txcache.VerifGraceBounds()
		c.Assumptions = []string{
			"single-threaded histories; selection = doSelectTransactions followed synchronously by doAfterSelection (sweeping), i.e. no operation interleaves between a selection and its sweep",
			"each sender uses its own gas-price class (a: 1,2; c: 417<<20 +1,+2; b: 953<<20 +1,+2; gas limit 50000, TxGasHandlerMock min price 1e9, divisor 100) so that sender scores never collide (a=0, c in 1..2, b in 12..33): at most one sender per score bucket, hence eviction and selection order are deterministic; verified in every reached state (abort otherwise)",
			"transaction hash is a function of (sender, nonce, price, size); sizes are the WrappedTransaction.Size values",
			fmt.Sprintf("configuration: eviction enabled, CountThreshold %d, NumBytesThreshold %d, NumSendersToPreemptivelyEvict %d, per sender %d txs / %d bytes", smallCountThreshold, smallBytesThreshold, smallSendersToEvict, smallPerSenderCount, smallPerSenderBytes),
		}
		if c.Prop == "C25" {
			c.Assumptions = append(c.Assumptions,
				"'counts match the actual contents': CountTx == number of listed txs == size of hash index, NumBytes == sum of Size of listed txs, CountSenders == number of sender lists in the sender map",
				"sender limits are judged on the sender of the offered transaction right after each AddTx (actual list contents, not the list's own counters)")
		} else {
			c.Assumptions = append(c.Assumptions,
				"'first ones of its nonce-ordered list': order = nonce ascending, then gas price descending; txs equal in both may appear in any order",
				"'account nonce' of a sender = the harness's own record of the LAST NotifyAccountNonce value issued while the sender held >= 1 pooled tx (a lower value replaces a higher one); never read from the implementation. Notifications for senders without pooled txs are not retained and the record is dropped when the sender holds no pooled tx after an operation (the cache keeps account nonces as per-sender pool state; after an AddTx that ran a global eviction the offered sender's record is kept only if one of its other pooled txs survived); senders without a record are not constrained by the initial-gap clause; grace period = the sender's failed-selection counter (read before the call) + 1 lies in [senderGracePeriodLowerBound, senderGracePeriodUpperBound]",
				"the pool is read through the per-sender lists (C25 judges their consistency with the hash index separately)")
		}

		if len(c.ReplayData) > 0 {
			var hist []string
			if err := json.Unmarshal(c.ReplayData, &hist); err != nil {
				c.Fatal("bad replay data: %v", err)
			}
			runHistory(c, w, hist, true)
			w.flushKnown()
			return
		}

		var rules, bounds []string
		for i, a := range phasesFor(c) {
			a := a
			ops := a.menu()
			menu := make([]string, len(ops))
			for i, o := range ops {
				menu[i] = o.name
			}
			sys := mc.Sys[*inst]{
				Init: w.fresh,
				Menu: menu,
				Enabled: func(s *inst, op int) bool {
					o := ops[op]
					if s.cache == nil {
						return o.kind == kCfg
					}
					switch o.kind {
					case kCfg:
						return false
					case kRm:
						if o.tx.sender == "" {
							return true
						}
						h := o.tx.hash()
						v := s.view()
						i := sort.SearchStrings(v.index, h)
						return (i < len(v.index) && v.index[i] == h) || v.allListed()[h]
					}
					return true
				},
				Do:         func(s *inst, op int) (string, string) { return s.do(ops[op]) },
				Check:      func(s *inst) (string, string) { return s.check() },
				Key:        func(s *inst) string { return s.key() },
				Nontrivial: func(s *inst) string { s.commit(); return s.nt },
				Outcome:    func(s *inst) string { return s.out },
			}
			st := mc.BFS(c, sys, a.depth+1)
			c.Set(fmt.Sprintf("bfs_phase_%d", i+1), map[string]interface{}{"menu_size": len(menu), "depth_reached": st.Depth - 1,
				"states": st.States, "transitions": st.Transitions, "fixpoint": st.Fixpoint})
			rules = append(rules, fmt.Sprintf("BFS %d: %s", i+1, a.String()))
			if st.Fixpoint {
				bounds = append(bounds, fmt.Sprintf("BFS %d: fixpoint after %d operations - the complete reachable state space of this alphabet (%d states)", i+1, st.Depth-1, st.States))
			} else {
				bounds = append(bounds, fmt.Sprintf("BFS %d: all operation sequences of length <= %d after choosing NumChunks (state matching on the canonical pool state)", i+1, a.depth))
			}
		}
		w.flushKnown()
		rule, bound := strings.Join(rules, " || "), strings.Join(bounds, "; ")
		if c.Prop == "C25" {
			c.Rule = rule + ". Non-trivial = a step in which a pooled (or just offered) transaction left the pool without a removal request: per-sender trim, global eviction (pool over a threshold when AddTx starts) or sweep after selection; key = kind + operation + transactions lost"
			c.Bound = bound
		} else {
			poolC, poolN := "{0,1,2,3}", "{1,2,3,5,10}"
			if c.Quick() {
				poolC, poolN = "{0,1,3}", "{1,2,3,10}"
			}
			before := c.Counter("selections_checked")
			poolPhase(c, w)
			c.Set("pool_phase_selections", c.Counter("selections_checked")-before)
			c.Rule = rule + "; every selection result judged against the pool before the call. || pools: sender a any subset of nonces 0..5 (optionally two prices for its lowest nonce) x sender c any subset of " + poolC + " x every notification sequence of length <= 2 for a over {0,1,2,3} (none, single, increasing, equal, decreasing: 21) x n " + poolN + " x batch {1,2,3}, per-sender limit 8, the selection issued 3 times in a row. Non-trivial = selection over a pool in which some sender has a nonce gap (first pooled nonce above notified account nonce, or two consecutive pooled nonces differing by more than 1); key = pool + notifications + failed-selection counters + (n, batch)"
			c.Bound = bound + "; pools: complete"
		}
	})
}
