// C40 — a failed nested system contract call leaves no storage effects.
//
// Seam: the real vm/systemSmartContracts vmContext (NewVMContext) driven through the real
// vm/process systemVM.RunSmartContractCall, with three *scripted* system contracts A, B, C
// registered in a real vm/factory systemSCContainer. The scripts only call the eei
// (SetStorage, Transfer, ExecuteOnDestContext, GetStorageFromAddress) and return a code; what a
// script does is decided lazily by an mc.Explore chooser, so every program (= call tree) of the
// stated shape is run exactly once.
//
// Reference model (boring): pending writes / balance deltas / transfer list with
// snapshot-before-call and restore-on-failure (a failed call, including its call value, is a
// no-op). Oracle, per the statement:
//   - after every ExecuteOnDestContext return the calling script reads kA, kB, kC through
//     GetStorageFromAddress and must see the reference view ("works on the state as it was
//     before the call");
//   - if the top-level call returns Ok, the VMOutput's storage updates equal the reference
//     pending writes, per-address balance deltas equal the reference, and no OutputTransfer
//     entry (recognised by its unique value) originates in a rolled-back call.
//     If the top-level call fails its VMOutput is not judged (scProcessor discards it).
package main

import (
	"encoding/json"
	"errors"
	"fmt"
	"math/big"
	"sort"
	"strings"

	"github.com/ElrondNetwork/elrond-go/process/smartContract/hooks"
	"github.com/ElrondNetwork/elrond-go/testscommon"
	"github.com/ElrondNetwork/elrond-go/vm"
	vmfactory "github.com/ElrondNetwork/elrond-go/vm/factory"
	"github.com/ElrondNetwork/elrond-go/vm/mock"
	vmprocess "github.com/ElrondNetwork/elrond-go/vm/process"
	"github.com/ElrondNetwork/elrond-go/vm/systemSmartContracts"
	vmcommon "github.com/ElrondNetwork/elrond-vm-common"
	"github.com/ElrondNetwork/elrond-vm-common/parsers"
	"verif/engine/mc"
)

const maxDepth = 3 // A -> B -> C

var names = [maxDepth]string{"A", "B", "C"}

func addrOf(i int) []byte {
	a := make([]byte, 32)
	copy(a, "scripted-system-contract-")
	a[31] = byte('A' + i)
	return a
}

var addrD = append(make([]byte, 31), 'D') // plain receiver of scripted transfers
var addrUser = append(make([]byte, 31), 'U')

func keyOf(i int) []byte { return []byte("k" + names[i]) }

// ---------------------------------------------------------------- reference model

type xfer struct {
	id        int    // unique action id; value == 1<<id (0 for zero-value calls)
	kind      string // "callvalue" | "inner"
	from, to  string
	value     int64
	zeroValue bool
}

type state struct {
	st    map[string]string // addr|key -> pending value
	delta map[string]int64
	xf    []xfer
	ghost map[string]int64 // deltas of call values of failed calls whose ancestors all survive (classification only)
}

func (s *state) clone() *state {
	n := &state{st: map[string]string{}, delta: map[string]int64{}, ghost: map[string]int64{}}
	for k, v := range s.st {
		n.st[k] = v
	}
	for k, v := range s.delta {
		n.delta[k] = v
	}
	for k, v := range s.ghost {
		n.ghost[k] = v
	}
	n.xf = append([]xfer{}, s.xf...)
	return n
}

// run is the state of one execution (one program).
type run struct {
	c      *mc.Ctx
	ch     *mc.Chooser
	in     *inst
	lim    [maxDepth]int
	budget int // remaining actions (all contracts together)
	nextID int
	pre    map[string]string // committed storage addr|key -> value
	m      *state
	rbVal  map[string]string // value -> where it was written, for values written in rolled-back calls
	rbXf   map[int64]xfer    // value -> transfer made in (or as call value of) a rolled-back call
	rbZero map[string]int    // dest -> number of rolled-back zero-value call entries
	trace  []string
	viol   []violation
	// non-triviality
	failedWithEffects int
	continuedAfter    bool
	failedCalls       int
	okCalls           int
	txOk              bool
}

type violation struct {
	sig    string
	detail map[string]interface{}
}

func (r *run) report(sig string, d map[string]interface{}) {
	for _, v := range r.viol {
		if v.sig == sig {
			return
		}
	}
	r.viol = append(r.viol, violation{sig, d})
}

func sk(addr, key []byte) string { return string(addr[31:]) + "|" + string(key) }

func (r *run) view(addr, key []byte) string {
	if v, ok := r.m.st[sk(addr, key)]; ok {
		return v
	}
	return r.pre[sk(addr, key)]
}

// ---------------------------------------------------------------- scripted contracts

type scripted struct {
	in    *inst
	depth int
}

func (s *scripted) CanUseContract() bool     { return true }
func (s *scripted) SetNewGasCost(vm.GasCost) {}
func (s *scripted) IsInterfaceNil() bool     { return s == nil }

const (
	actOk = iota
	actFail
	actWrite
	actTransfer
	actCall0
	actCallV
)

func (s *scripted) Execute(_ *vmcommon.ContractCallInput) vmcommon.ReturnCode {
	r := s.in.run
	eei := s.in.eei
	d := s.depth
	me := addrOf(d)
	ind := strings.Repeat("  ", d+1)
	for step := 0; ; step++ {
		opts := []int{actOk, actFail}
		if step < r.lim[d] && r.budget > 0 {
			opts = append(opts, actWrite, actTransfer)
			if d+1 < maxDepth {
				opts = append(opts, actCall0, actCallV)
			}
		}
		a := opts[r.ch.Choose(len(opts), names[d])]
		switch a {
		case actOk:
			r.trace = append(r.trace, ind+names[d]+": return Ok")
			return vmcommon.Ok
		case actFail:
			r.trace = append(r.trace, ind+names[d]+": return UserError")
			eei.AddReturnMessage("scripted failure of " + names[d])
			return vmcommon.UserError
		}
		r.budget--
		id := r.nextID
		r.nextID++
		switch a {
		case actWrite:
			val := fmt.Sprintf("w%d", id)
			eei.SetStorage(keyOf(d), []byte(val))
			r.m.st[sk(me, keyOf(d))] = val
			r.trace = append(r.trace, fmt.Sprintf("%s%s: SetStorage(k%s, %q)", ind, names[d], names[d], val))
		case actTransfer:
			v := int64(1) << uint(id)
			if err := eei.Transfer(addrD, me, big.NewInt(v), []byte(fmt.Sprintf("t%d", id)), 0); err != nil {
				r.c.Fatal("Transfer returned %v", err)
			}
			r.m.delta[string(me[31:])] -= v
			r.m.delta["D"] += v
			r.m.xf = append(r.m.xf, xfer{id: id, kind: "inner", from: names[d], to: "D", value: v})
			r.trace = append(r.trace, fmt.Sprintf("%s%s: Transfer(to D, %d)", ind, names[d], v))
		case actCall0, actCallV:
			var v int64
			if a == actCallV {
				v = int64(1) << uint(id)
			}
			child := addrOf(d + 1)
			snap := r.m.clone()
			lenBefore := len(r.m.xf)
			r.m.delta[string(me[31:])] -= v
			r.m.delta[names[d+1]] += v
			r.m.xf = append(r.m.xf, xfer{id: id, kind: "callvalue", from: names[d], to: names[d+1], value: v, zeroValue: v == 0})
			r.trace = append(r.trace, fmt.Sprintf("%s%s: ExecuteOnDestContext(%s, value %d) {", ind, names[d], names[d+1], v))
			out, err := eei.ExecuteOnDestContext(child, me, big.NewInt(v), []byte("run"))
			if err != nil || out == nil {
				r.c.Fatal("ExecuteOnDestContext returned error %v", err)
			}
			r.trace = append(r.trace, fmt.Sprintf("%s} -> %s", ind, out.ReturnCode))
			if out.ReturnCode != vmcommon.Ok {
				r.failedCalls++
				effects := len(r.m.xf) > lenBefore+1 || v != 0
				for k, val := range r.m.st {
					if snap.st[k] != val {
						r.rbVal[val] = k
						effects = true
					}
				}
				for _, x := range r.m.xf[lenBefore:] {
					if x.zeroValue {
						r.rbZero[x.to]++
					} else {
						r.rbXf[x.value] = x
					}
				}
				if effects {
					r.failedWithEffects++
				}
				r.m = snap
				r.m.ghost[names[d]] -= v
				r.m.ghost[names[d+1]] += v
			} else {
				r.okCalls++
			}
			s.observe(fmt.Sprintf("%s after its call #%d to %s returned %s", names[d], id, names[d+1], out.ReturnCode), out.ReturnCode != vmcommon.Ok)
		}
	}
}

// observe reads the three keys through the real eei, as a calling contract would.
func (s *scripted) observe(where string, afterFailure bool) {
	r := s.in.run
	for i := 0; i < maxDepth; i++ {
		got := string(s.in.eei.GetStorageFromAddress(addrOf(i), keyOf(i)))
		want := r.view(addrOf(i), keyOf(i))
		if got == want {
			continue
		}
		d := map[string]interface{}{"where": where, "key": "k" + names[i], "read": got, "expected_as_before_the_call": want}
		if w, ok := r.rbVal[got]; ok {
			d["written_in_failed_call_to"] = w
			r.report("storage-survives-failed-inner-call:read-by-caller", d)
		} else if afterFailure {
			r.report("storage-differs-after-failed-inner-call:read-by-caller", d)
		} else {
			r.report("successful-write-not-visible-to-caller", d)
		}
	}
	if afterFailure {
		r.continuedAfter = true
	}
}

// ---------------------------------------------------------------- wiring (one per worker)

type inst struct {
	eei  vm.ContextHandler
	sysv vmcommon.VMExecutionHandler
	run  *run
}

func newInst() (*inst, error) {
	in := &inst{}
	hook := &mock.BlockChainHookStub{
		GetUserAccountCalled: func([]byte) (vmcommon.UserAccountHandler, error) {
			return nil, errors.New("no account") // => contract code key = address (backward-compat path)
		},
		GetStorageDataCalled: func(addr, key []byte) ([]byte, error) {
			if v, ok := in.run.pre[sk(addr, key)]; ok {
				return []byte(v), nil
			}
			return nil, nil
		},
		CurrentNonceCalled: func() uint64 { return 1 },
	}
	eei, err := systemSmartContracts.NewVMContext(hook, hooks.NewVMCryptoHook(), parsers.NewCallArgsParser(),
		&testscommon.AccountsStub{}, &mock.RaterMock{})
	if err != nil {
		return nil, err
	}
	cont := vmfactory.NewSystemSCContainer()
	for i := 0; i < maxDepth; i++ {
		if err := cont.Add(addrOf(i), &scripted{in: in, depth: i}); err != nil {
			return nil, err
		}
	}
	if err := eei.SetSystemSCContainer(cont); err != nil {
		return nil, err
	}
	gs := mock.NewGasScheduleNotifierMock(map[string]map[string]uint64{
		"ElrondAPICost": {"AsyncCallStep": 1, "AsyncCallbackGasLock": 1}})
	sysv, err := vmprocess.NewSystemVM(vmprocess.ArgsNewSystemVM{SystemEI: eei, SystemContracts: cont,
		VmType: []byte{0, 1}, GasSchedule: gs})
	if err != nil {
		return nil, err
	}
	in.eei, in.sysv = eei, sysv
	return in, nil
}

// ---------------------------------------------------------------- one execution

func execute(c *mc.Ctx, in *inst, ch *mc.Chooser, lim [maxDepth]int, budget int) *run {
	r := &run{c: c, ch: ch, in: in, lim: lim, budget: budget, pre: map[string]string{},
		m:     &state{st: map[string]string{}, delta: map[string]int64{}, ghost: map[string]int64{}},
		rbVal: map[string]string{}, rbXf: map[int64]xfer{}, rbZero: map[string]int{}}
	in.run = r
	if ch.Choose(2, "pre-existing") == 1 {
		for i := 0; i < maxDepth; i++ {
			r.pre[sk(addrOf(i), keyOf(i))] = "old" + names[i]
		}
		r.trace = append(r.trace, "committed storage: kA=oldA kB=oldB kC=oldC")
	} else {
		r.trace = append(r.trace, "committed storage: empty")
	}
	r.trace = append(r.trace, "tx: RunSmartContractCall(A, value 0) {")
	out, err := in.sysv.RunSmartContractCall(&vmcommon.ContractCallInput{
		VMInput:       vmcommon.VMInput{CallerAddr: addrUser, CallValue: big.NewInt(0), GasProvided: 1000},
		RecipientAddr: addrOf(0), Function: "run"})
	if err != nil || out == nil {
		c.Fatal("RunSmartContractCall: %v", err)
	}
	r.trace = append(r.trace, "} -> "+out.ReturnCode.String())
	if out.ReturnCode == vmcommon.Ok {
		r.txOk = true
		r.checkFinal(out)
	}
	return r
}

func (r *run) checkFinal(out *vmcommon.VMOutput) {
	// storage updates
	real := map[string]string{}
	for a, acc := range out.OutputAccounts {
		for k, su := range acc.StorageUpdates {
			real[sk([]byte(a), []byte(k))] = string(su.Data)
		}
	}
	keys := map[string]bool{}
	for k := range real {
		keys[k] = true
	}
	for k := range r.m.st {
		keys[k] = true
	}
	for _, k := range sortedKeys(keys) {
		got, inReal := real[k]
		want, inModel := r.m.st[k]
		if inReal == inModel && got == want {
			continue
		}
		d := map[string]interface{}{"storage_key": k, "in_final_VMOutput": got, "reference": want}
		if w, ok := r.rbVal[got]; ok && inReal {
			d["written_in_failed_call_to"] = w
			r.report("storage-survives-failed-inner-call:in-final-output", d)
		} else {
			r.report("successful-storage-write-lost-or-changed", d)
		}
	}
	// transfers entries and balance deltas
	realDelta := map[string]int64{}
	zero := map[string]int{}
	present := map[int64]bool{}
	for a, acc := range out.OutputAccounts {
		name := a[31:]
		if acc.BalanceDelta != nil {
			realDelta[name] = acc.BalanceDelta.Int64()
		}
		for _, t := range acc.OutputTransfers {
			v := t.Value.Int64()
			if v == 0 {
				zero[name]++
				continue
			}
			present[v] = true
			if x, ok := r.rbXf[v]; ok {
				d := map[string]interface{}{"transfer": fmt.Sprintf("%s->%s value %d", x.from, x.to, x.value), "listed_under_account": name}
				if x.kind == "callvalue" {
					r.report("call-value-transfer-survives-failed-inner-call", d)
				} else {
					r.report("inner-transfer-survives-failed-inner-call", d)
				}
			}
		}
	}
	modelZero := map[string]int{}
	for _, x := range r.m.xf {
		if x.zeroValue {
			modelZero[x.to]++
		} else if !present[x.value] {
			// Entry of a successful transfer missing from the lists (the balance deltas are
			// judged below). Not part of the statement (no failure needed): counted only.
			r.c.Count("side_observation:transfer-entry-of-surviving-transfer-missing", 1)
		}
	}
	for n, k := range zero {
		if k > modelZero[n] && r.rbZero[n] > 0 {
			r.report("zero-value-call-transfer-entry-survives-failed-inner-call",
				map[string]interface{}{"account": n, "zero_value_entries": k, "reference": modelZero[n]})
		}
	}
	names4 := []string{"A", "B", "C", "D"}
	diff, ghostOnly := false, true
	dd := map[string]interface{}{}
	for _, n := range names4 {
		if realDelta[n] != r.m.delta[n] {
			diff = true
			dd[n] = fmt.Sprintf("balance delta %d, reference %d", realDelta[n], r.m.delta[n])
		}
		if realDelta[n] != r.m.delta[n]+r.m.ghost[n] {
			ghostOnly = false
		}
	}
	if diff {
		if ghostOnly {
			r.report("call-value-balance-delta-survives-failed-inner-call", dd)
		} else {
			r.report("balance-delta-differs-from-reference", dd)
		}
	}
}

func sortedKeys(m map[string]bool) []string {
	r := make([]string, 0, len(m))
	for k := range m {
		r = append(r, k)
	}
	sort.Strings(r)
	return r
}

// ---------------------------------------------------------------- main

func main() {
	mc.Main("C40", "exploration", func(c *mc.Ctx) {
		lim := [maxDepth]int{3, 2, 1}
		budget := c.Pick(5, 7)
		c.Rule = fmt.Sprintf("all call trees A->B->C of scripted system contracts run by the real systemVM+vmContext: "+
			"A does <=%d, B <=%d, C <=%d actions per activation, <=%d actions in the whole transaction; an action is "+
			"{SetStorage(own key, fresh value), Transfer(fresh power-of-two value to plain address D), "+
			"ExecuteOnDestContext(next contract, value 0), ExecuteOnDestContext(next contract, fresh power-of-two value)} "+
			"(C makes no calls); every activation ends with Ok or UserError; committed storage of kA,kB,kC in {absent, old}. "+
			"non-trivial = the transaction returned Ok after >=1 inner call that had effects (storage write, transfer or "+
			"call value) failed and its caller read storage afterwards",
			lim[0], lim[1], lim[2], budget)
		c.Bound = fmt.Sprintf("actions per activation A<=%d B<=%d C<=%d, total actions <=%d", lim[0], lim[1], lim[2], budget)
		c.Assumptions = []string{
			"failure of a contract = return code UserError (the vmContext treats every code != Ok identically)",
			"an inner call that returns an *error* (unknown contract / unparsable input) is outside the enumerated space; real callers turn it into a failure of the whole transaction",
			"the VMOutput of a transaction whose top-level contract fails is not judged (scProcessor discards it)",
			"completeness of the OutputTransfers *lists* after successful calls is not demanded (statement is about failed calls); balance deltas and storage are compared exactly",
		}
		pool := make(chan *inst, 64)
		get := func() *inst {
			select {
			case in := <-pool:
				return in
			default:
				in, err := newInst()
				if err != nil {
					c.Fatal("wiring: %v", err)
				}
				return in
			}
		}
		body := func(ch *mc.Chooser) {
			in := get()
			r := execute(c, in, ch, lim, budget)
			in.run = nil
			pool <- in
			if r.failedWithEffects > 0 && r.continuedAfter && r.txOk {
				c.Nontrivial(fmt.Sprint(ch.Choices()))
				if c.WantSample() && r.failedCalls > 0 && r.okCalls > 0 {
					c.Sample(map[string]interface{}{"program": r.trace})
				}
			}
			c.Outcome(fmt.Sprintf("%s failed=%d ok=%d viol=%d", r.trace[len(r.trace)-1], min(r.failedCalls, 3), min(r.okCalls, 3), len(r.viol)))
			for _, v := range r.viol {
				v.detail["program"] = r.trace
				// smallest program first, then the simplest choices (Ok < fail < write < ..., value 0 < value)
				rank := len(r.trace) * 10000
				for _, k := range ch.Choices() {
					rank += k
				}
				c.ViolationR(v.sig, rank, v.detail, ch.Choices())
			}
		}
		if len(c.ReplayData) > 0 {
			var choices []int
			if err := json.Unmarshal(c.ReplayData, &choices); err != nil {
				c.Fatal("bad replay data: %v", err)
			}
			mc.Replay(choices, body)
			c.Eval(1)
			return
		}
		st := mc.Explore(c, -1, mc.Workers(), body)
		c.Set("max_choice_points", st.MaxPoints)
	})
}
