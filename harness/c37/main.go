// C37 — validator ratings stay in range and move in the right direction.
//
// Part A: every ratings configuration of a boundary product is pushed through the real
// validation (rating.NewRatingsData -> rating.NewBlockSigningRater); for each accepted one
// every (shard, current rating, streak) of the input alphabet is evaluated on the real rater.
// Part B: the same checks on raters built from step handlers given directly
// (rating.NewRatingStepData) with extreme int32 steps, restricted to what NewRatingsData can
// produce (increase steps >= 1, decrease steps <= -1, penalty >= 1).
//
// Oracle (statement only): every Compute* / RevertIncreaseValidator result in [min,max];
// increases >= input; decreases <= input; ComputeDecreaseProposer monotone non-increasing in
// the streak; GetChance(r) == chance of the first band (ascending thresholds) with
// r <= threshold.
package main

import (
	"errors"
	"fmt"
	"math"
	"sort"
	"sync"

	"github.com/ElrondNetwork/elrond-go/config"
	"github.com/ElrondNetwork/elrond-go/core"
	"github.com/ElrondNetwork/elrond-go/process"
	"github.com/ElrondNetwork/elrond-go/process/mock"
	"github.com/ElrondNetwork/elrond-go/process/rating"
	"verif/engine/mc"
)

type band struct{ thr, chance uint32 }

type genCfg struct {
	min, start, max uint32
	table           int
}

type stepCfg struct {
	hours          uint32
	propF, valF    float32
	penalty        float32
	importance     float32
	shardN, consN  uint32
	roundMs        uint64
	metaSameAsThis bool
}

func tables(min, max uint32) [][]band {
	mid := min + (max-min)/2
	return [][]band{
		{{max, 10}},                   // single band: rejected (no band for 0)
		{{0, 5}, {max, 10}},           // two bands
		{{max, 10}, {0, 5}},           // the same, unsorted
		{{0, 5}, {mid, 0}, {max, 16}}, // three bands, non-monotone chances
		{{max, 24}, {0, 5}, {max - 1, 20}, {min, 0}, {mid, 16}}, // five bands, unsorted
		{{0, 5}, {mid, 7}, {mid, 8}, {max, 9}},                  // duplicate threshold: rejected unless caught
		{{0, 5}, {max - 1, 9}},                                  // no band for max: rejected
		{{0, 5}, {max, 9}, {max + 1, 11}},                       // band above max: rejected
	}
}

var shards = []uint32{0, 1, core.MetachainShardId}

func ratingInputs(min, max uint32, bands []band) []uint32 {
	set := map[uint32]bool{}
	add := func(v int64) {
		if v >= int64(min) && v <= int64(max) {
			set[uint32(v)] = true
		}
	}
	mid := int64(min) + int64(max-min)/2
	for _, v := range []int64{int64(min), int64(min) + 1, mid, int64(max) - 1, int64(max)} {
		add(v)
	}
	for _, b := range bands {
		add(int64(b.thr) - 1)
		add(int64(b.thr))
		add(int64(b.thr) + 1)
	}
	out := []uint32{}
	for v := range set {
		out = append(out, v)
	}
	sort.Slice(out, func(i, j int) bool { return out[i] < out[j] })
	return out
}

func streakInputs(penalty float32, maxStreak int) []uint32 {
	s := []uint32{}
	for i := 0; i <= maxStreak; i++ {
		s = append(s, uint32(i))
	}
	s = append(s, 100, 1000)
	if penalty > 1 {
		// the penalty loop leaves as soon as the step saturates at MinInt32; with penalty == 1 it
		// would spin 2^32 times doing nothing (result independent of the streak), so the largest
		// streaks are only enumerated for penalty > 1
		s = append(s, 1000000, math.MaxInt32, math.MaxUint32)
	} else {
		s = append(s, 20000)
	}
	return s
}

func refChance(bands []band, r uint32) (uint32, bool) {
	b := append([]band{}, bands...)
	sort.Slice(b, func(i, j int) bool { return b[i].thr < b[j].thr })
	for _, x := range b {
		if r <= x.thr {
			return x.chance, true
		}
	}
	return 0, false // no band: validation must have rejected such a table
}

type desc = map[string]interface{}

// collector keeps per signature the earliest witness in enumeration order, so the reported
// witness is the simplest one and does not depend on goroutine interleaving.
type found struct {
	rank   [2]int64
	detail map[string]interface{}
	count  int64
}

type collector struct {
	mu sync.Mutex
	m  map[string]*found
}

var col = &collector{m: map[string]*found{}}

func (k *collector) add(sig string, rank [2]int64, detail map[string]interface{}) {
	k.mu.Lock()
	defer k.mu.Unlock()
	f := k.m[sig]
	if f == nil {
		k.m[sig] = &found{rank, detail, 1}
		return
	}
	f.count++
	if rank[0] < f.rank[0] || (rank[0] == f.rank[0] && rank[1] < f.rank[1]) {
		f.rank, f.detail = rank, detail
	}
}

func (k *collector) flush(c *mc.Ctx) {
	sigs := []string{}
	for s := range k.m {
		sigs = append(sigs, s)
	}
	sort.Strings(sigs)
	for _, s := range sigs {
		f := k.m[s]
		f.detail["violating_cases_in_this_run"] = f.count
		c.Violation(s, f.detail, nil)
	}
}

// rejectClass maps a validation error to its sentinel (for the evidence counters only).
func rejectClass(err error) string {
	for _, e := range []error{process.ErrNilMinChanceIfZero, process.ErrDuplicateThreshold, process.ErrNoChancesForMaxThreshold,
		process.ErrOverflow, process.ErrIncreaseStepLowerThanOne, process.ErrDecreaseRatingsStepMoreThanMinusOne,
		process.ErrStartRatingNotBetweenMinAndMax} {
		if errors.Is(err, e) {
			return e.Error()
		}
	}
	return "other"
}

// checkRater evaluates the whole input alphabet on one accepted configuration.
func checkRater(c *mc.Ctx, bsr *rating.BlockSigningRater, min, max uint32, bands []band,
	shardStep, metaStep process.RatingsStepHandler, maxStreak int, cfg desc, key string, ord int64) {
	ratings := ratingInputs(min, max, bands)
	var n int64
	outs := map[string]struct{}{}
	nt := map[string]int64{}
	outcome := func(k string) { outs[k] = struct{}{} }
	nontrivial := func(kind string) { nt[kind]++ }
	defer func() {
		for k := range outs {
			c.Outcome(k)
		}
		for kind, v := range nt {
			c.Nontrivial(key + "|" + kind) // one distinct entry per (config, kind); inputs counted below
			c.Count("nontrivial_inputs_"+kind, v)
		}
	}()
	viol := func(sig string, d desc) {
		d["config"] = cfg
		col.add(sig, [2]int64{ord, n}, d)
	}
	inRange := func(op string, shard, r, got uint32, extra desc) bool {
		if got < min || got > max {
			d := desc{"op": op, "shard": shard, "rating": r, "result": got, "min": min, "max": max}
			for k, v := range extra {
				d[k] = v
			}
			viol(op+":result-out-of-[min,max]", d)
			return false
		}
		return true
	}
	for _, sh := range shards {
		st := shardStep
		if sh == core.MetachainShardId {
			st = metaStep
		}
		streaks := streakInputs(st.ConsecutiveMissedBlocksPenalty(), maxStreak)
		for _, r := range ratings {
			// increases
			for _, op := range []struct {
				name string
				f    func(uint32, uint32) uint32
				step int32
			}{{"ComputeIncreaseProposer", bsr.ComputeIncreaseProposer, st.ProposerIncreaseRatingStep()},
				{"ComputeIncreaseValidator", bsr.ComputeIncreaseValidator, st.ValidatorIncreaseRatingStep()}} {
				got := op.f(sh, r)
				n++
				inRange(op.name, sh, r, got, nil)
				if got < r {
					viol(op.name+":increase-lowered-rating", desc{"shard": sh, "rating": r, "result": got})
				}
				if int64(r)+int64(op.step) > int64(max) {
					nontrivial("increase-clamped-at-max")
				}
				outcome(fmt.Sprint("inc", got == r, got == max))
			}
			// plain decrease
			got := bsr.ComputeDecreaseValidator(sh, r)
			n++
			inRange("ComputeDecreaseValidator", sh, r, got, nil)
			if got > r {
				viol("ComputeDecreaseValidator:decrease-raised-rating", desc{"shard": sh, "rating": r, "result": got})
			}
			if int64(r)+int64(st.ValidatorDecreaseRatingStep()) < int64(min) {
				nontrivial("decrease-clamped-at-min")
			}
			outcome(fmt.Sprint("dec", got == r, got == min))
			// streak decrease and reverts
			var prev, prevRev uint32
			var r0 uint32
			for i, s := range streaks {
				got := bsr.ComputeDecreaseProposer(sh, r, s)
				n++
				inRange("ComputeDecreaseProposer", sh, r, got, desc{"streak": s})
				if got > r {
					viol("ComputeDecreaseProposer:decrease-raised-rating", desc{"shard": sh, "rating": r, "streak": s, "result": got})
				}
				if i == 0 {
					r0 = got
				} else {
					if got > prev {
						viol("ComputeDecreaseProposer:longer-streak-higher-rating", desc{"shard": sh, "rating": r, "streak": s, "result": got, "shorter_streak": streaks[i-1], "result_shorter": prev})
					}
					if got < r0 {
						nontrivial("streak-changes-result")
					}
				}
				prev = got
				outcome(fmt.Sprint("decp", got == r, got == min))

				rev := bsr.RevertIncreaseValidator(sh, r, s)
				n++
				inRange("RevertIncreaseValidator", sh, r, rev, desc{"reverts": s})
				if rev > r {
					viol("RevertIncreaseValidator:revert-raised-rating", desc{"shard": sh, "rating": r, "reverts": s, "result": rev})
				}
				if i > 0 && rev > prevRev {
					c.Count("info_revert_not_monotone_in_reverts", 1) // not part of the statement
				}
				prevRev = rev
				outcome(fmt.Sprint("rev", rev == r, rev == min))
			}
		}
	}
	for _, r := range ratings {
		got := bsr.GetChance(r)
		n++
		want, ok := refChance(bands, r)
		if !ok {
			viol("GetChance:accepted-config-has-no-band-for-a-rating-in-[min,max]", desc{"rating": r, "chance": got, "bands(thr,chance)": fmt.Sprint(bands)})
		} else if got != want {
			viol("GetChance:not-the-band-of-the-rating", desc{"rating": r, "chance": got, "want": want, "bands(thr,chance)": fmt.Sprint(bands)})
		}
		outcome(fmt.Sprint("chance", got))
	}
	if bsr.GetStartRating() < min || bsr.GetStartRating() > max {
		viol("GetStartRating:out-of-[min,max]", desc{"start": bsr.GetStartRating()})
	}
	c.Eval(n)
}

func partA(c *mc.Ctx) {
	mins := []uint32{1, 5}
	maxs := []uint32{10, 100, 10000000, math.MaxUint32}
	var gens []genCfg
	for _, mn := range mins {
		for _, mx := range maxs {
			mid := mn + (mx-mn)/2
			for _, st := range []uint32{mn, mid, mx, mx - 1} {
				for t := range tables(mn, mx) {
					gens = append(gens, genCfg{mn, st, mx, t})
				}
			}
		}
	}
	var steps []stepCfg
	rounds := []uint64{6000, 3600000}
	hours := []uint32{1, 72}
	if !c.Quick() {
		rounds = []uint64{6000, 100, 3600000}
		hours = []uint32{1, 2, 72}
	}
	for _, h := range hours {
		for _, pf := range []float32{-1, -4} {
			for _, vf := range []float32{-1, -4} {
				for _, pen := range []float32{1, 1.1, 2, 1000000} {
					for _, imp := range []float32{1, 2} {
						for _, sz := range [][2]uint32{{1, 1}, {400, 63}} {
							for _, rd := range rounds {
								for _, same := range []bool{true, false} {
									steps = append(steps, stepCfg{h, pf, vf, pen, imp, sz[0], sz[1], rd, same})
								}
							}
						}
					}
				}
			}
		}
	}
	maxStreak := c.Pick(40, 64)
	c.Set("partA_general_configs", len(gens))
	c.Set("partA_step_configs", len(steps))
	mc.Par(len(gens), func(gi int) {
		g := gens[gi]
		bands := tables(g.min, g.max)[g.table]
		for si, s := range steps {
			rc := config.RatingsConfig{}
			rc.General = config.General{StartRating: g.start, MaxRating: g.max, MinRating: g.min, SignedBlocksThreshold: 0.01}
			for _, b := range bands {
				rc.General.SelectionChances = append(rc.General.SelectionChances, &config.SelectionChance{MaxThreshold: b.thr, ChancePercent: b.chance})
			}
			rs := config.RatingSteps{HoursToMaxRatingFromStartRating: s.hours, ProposerValidatorImportance: s.importance,
				ProposerDecreaseFactor: s.propF, ValidatorDecreaseFactor: s.valF, ConsecutiveMissedBlocksPenalty: s.penalty}
			rc.ShardChain.RatingSteps = rs
			metaN, metaC := s.shardN, s.consN
			if s.metaSameAsThis {
				rc.MetaChain.RatingSteps = rs
			} else { // main-net like metachain settings
				rc.MetaChain.RatingSteps = config.RatingSteps{HoursToMaxRatingFromStartRating: 55, ProposerValidatorImportance: 1,
					ProposerDecreaseFactor: -4, ValidatorDecreaseFactor: -4, ConsecutiveMissedBlocksPenalty: 1.5}
				metaN, metaC = 400, 400
			}
			cfg := desc{"min": g.min, "start": g.start, "max": g.max, "bands(thr,chance)": fmt.Sprint(bands), "shardSteps": fmt.Sprintf("%+v", rs),
				"metaSteps": fmt.Sprintf("%+v", rc.MetaChain.RatingSteps), "shardMinNodes": s.shardN, "shardConsensus": s.consN, "metaMinNodes": metaN, "metaConsensus": metaC, "roundMs": s.roundMs}
			c.Count("partA_configs_tried", 1)
			var rd *rating.RatingsData
			var bsr *rating.BlockSigningRater
			var err error
			if p := mc.Try(func() {
				rd, err = rating.NewRatingsData(rating.RatingsDataArg{Config: rc, ShardConsensusSize: s.consN, MetaConsensusSize: metaC,
					ShardMinNodes: s.shardN, MetaMinNodes: metaN, RoundDurationMiliseconds: s.roundMs})
				if err == nil {
					bsr, err = rating.NewBlockSigningRater(rd)
				}
			}); p != "" {
				col.add("validation:panic", [2]int64{int64(gi)*int64(len(steps)) + int64(si), 0}, desc{"config": cfg, "panic": p})
				continue
			}
			if err != nil {
				c.Count("partA_configs_rejected_by_validation", 1)
				c.Count("partA_rejected: "+rejectClass(err), 1)
				continue
			}
			c.Count("partA_configs_accepted", 1)
			c.Count(fmt.Sprintf("partA_accepted_with_max=%d", g.max), 1)
			if c.WantSample() && si%97 == 5 && gi%13 == 3 {
				c.Sample(cfg)
			}
			checkRater(c, bsr, g.min, g.max, bands, rd.ShardChainRatingsStepHandler(), rd.MetaChainRatingsStepHandler(), maxStreak, cfg, fmt.Sprint("A", gi, "/", si), int64(gi)*int64(len(steps))+int64(si))
		}
	})
}

func partB(c *mc.Ctx) {
	incs := []int32{1, 2, 1000, math.MaxInt32}
	decs := []int32{-1, -2, -1000, math.MinInt32}
	pens := []float32{1, 1.01, 1.1, 2, 1000000, math.MaxFloat32}
	type gen struct{ min, start, max uint32 }
	gens := []gen{{1, 1, 1}, {1, 1, 10}, {5, 7, 10}, {1, 50, 100}, {5, 5000001, 10000000}, {1, math.MaxUint32, math.MaxUint32},
		{math.MaxUint32 - 3, math.MaxUint32 - 1, math.MaxUint32}, {math.MaxInt32 - 1, math.MaxInt32, uint32(math.MaxInt32) + 2}}
	type sc struct {
		pi, pd, vi, vd int32
		pen            float32
	}
	var steps []sc
	for _, pi := range incs {
		for _, pd := range decs {
			for _, vi := range incs {
				for _, vd := range decs {
					for _, pen := range pens {
						steps = append(steps, sc{pi, pd, vi, vd, pen})
					}
				}
			}
		}
	}
	maxStreak := c.Pick(40, 64)
	c.Set("partB_step_configs", len(steps))
	mc.Par(len(steps), func(i int) {
		s := steps[i]
		for gi, g := range gens {
			bands := []band{{0, 5}, {g.min, 0}, {g.min + (g.max-g.min)/2, 16}, {g.max, 24}}
			if g.min == g.max || g.min+(g.max-g.min)/2 == g.min {
				bands = []band{{0, 5}, {g.max, 24}}
			}
			sh := rating.NewRatingStepData(s.pi, s.pd, s.vi, s.vd, s.pen)
			// metachain handler: the mirrored choice, so both code paths see every step value
			mt := rating.NewRatingStepData(s.vi, s.vd, s.pi, s.pd, s.pen)
			info := &mock.RatingsInfoMock{StartRatingProperty: g.start, MaxRatingProperty: g.max, MinRatingProperty: g.min,
				SignedBlocksThresholdProperty: 0.01, MetaRatingsStepDataProperty: mt, ShardRatingsStepDataProperty: sh}
			for _, b := range bands {
				info.SelectionChancesProperty = append(info.SelectionChancesProperty, &rating.SelectionChance{MaxThreshold: b.thr, ChancePercent: b.chance})
			}
			cfg := desc{"min": g.min, "start": g.start, "max": g.max, "bands(thr,chance)": fmt.Sprint(bands),
				"shard(propInc,propDec,valInc,valDec,penalty)": fmt.Sprint(s.pi, s.pd, s.vi, s.vd, s.pen), "meta": "validator/proposer steps swapped"}
			c.Count("partB_configs_tried", 1)
			bsr, err := rating.NewBlockSigningRater(info)
			if err != nil {
				c.Count("partB_configs_rejected_by_validation", 1)
				continue
			}
			c.Count("partB_configs_accepted", 1)
			checkRater(c, bsr, g.min, g.max, bands, sh, mt, maxStreak, cfg, fmt.Sprint("B", i, "/", gi), 1<<40+int64(i)*int64(len(gens))+int64(gi))
		}
	})
}

// ---- part C: listing order of the selection-chance table --------------------------------
//
// The chance table is a set of (threshold, chance) bands; the rater sorts it itself. For every
// valid table shape (2, 3 and 5 bands; the single-band shape can never be valid because a band
// for threshold 0 and one for maxRating are both required) EVERY permutation of the listing
// order is enumerated. Judged: (a) acceptance by NewRatingsData+NewBlockSigningRater is the
// same for all listing orders of one table (on the unchanged tree validation looks at the
// sorted table only: first threshold 0, no duplicates, last == maxRating); (b) GetChance(r)
// == chance of the band the harness computes from its own sorted copy, for every rating in
// [min,max] when the range is small and for {min,min+1,mid,max-1,max, thresholds+-1} otherwise.
// The Compute*/Revert functions do not read the table, so the permuted variants run with a
// restricted step product and only the chance clauses.

func permutations(n int) [][]int {
	var out [][]int
	cur := []int{}
	used := make([]bool, n)
	var rec func()
	rec = func() {
		if len(cur) == n {
			out = append(out, append([]int{}, cur...))
			return
		}
		for i := 0; i < n; i++ { // lexicographic: identity (ascending listing) first
			if !used[i] {
				used[i] = true
				cur = append(cur, i)
				rec()
				cur = cur[:len(cur)-1]
				used[i] = false
			}
		}
	}
	rec()
	return out
}

func validShapes(min, max uint32) [][]band {
	mid := min + (max-min)/2
	return [][]band{
		{{max, 10}}, // single band: never valid, listed so that the shape is on record
		{{0, 5}, {max, 10}},
		{{0, 5}, {mid, 0}, {max, 16}},
		{{0, 5}, {min, 0}, {mid, 16}, {max - 1, 20}, {max, 24}},
	}
}

func chanceProbes(min, max uint32, bands []band) []uint32 {
	if max-min <= 200 {
		out := []uint32{}
		for r := min; ; r++ {
			out = append(out, r)
			if r == max {
				break
			}
		}
		return out
	}
	return ratingInputs(min, max, bands)
}

func partC(c *mc.Ctx) {
	type gen struct{ min, start, max uint32 }
	var gens []gen
	for _, mn := range []uint32{1, 5} {
		for _, mx := range []uint32{10, 100, 10000, 10000000, math.MaxUint32} {
			mid := mn + (mx-mn)/2
			for _, st := range []uint32{mn, mid, mx - 1} {
				gens = append(gens, gen{mn, st, mx})
			}
		}
	}
	// restricted step product (all accepted for some of the ranges above)
	type stp struct {
		hours   uint32
		factor  float32
		roundMs uint64
		n, cons uint32
	}
	steps := []stp{{1, -1, 3600000, 1, 1}, {1, -4, 6000, 1, 1}, {72, -4, 6000, 400, 63}}
	type item struct {
		g     gen
		s     stp
		shape int
	}
	var items []item
	for _, g := range gens {
		for _, s := range steps {
			for sh := range validShapes(g.min, g.max) {
				items = append(items, item{g, s, sh})
			}
		}
	}
	c.Set("partC_table_sets", len(items))
	mc.Par(len(items), func(ii int) {
		it := items[ii]
		base := validShapes(it.g.min, it.g.max)[it.shape]
		perms := permutations(len(base))
		probes := chanceProbes(it.g.min, it.g.max, base)
		var nEval int64
		type res struct {
			listed []band
			err    error
		}
		var accepted, rejected []res
		for pi, perm := range perms {
			listed := make([]band, len(base))
			for k, idx := range perm {
				listed[k] = base[idx]
			}
			rc := config.RatingsConfig{}
			rc.General = config.General{StartRating: it.g.start, MaxRating: it.g.max, MinRating: it.g.min, SignedBlocksThreshold: 0.01}
			for _, b := range listed {
				rc.General.SelectionChances = append(rc.General.SelectionChances, &config.SelectionChance{MaxThreshold: b.thr, ChancePercent: b.chance})
			}
			rs := config.RatingSteps{HoursToMaxRatingFromStartRating: it.s.hours, ProposerValidatorImportance: 1,
				ProposerDecreaseFactor: it.s.factor, ValidatorDecreaseFactor: it.s.factor, ConsecutiveMissedBlocksPenalty: 1.1}
			rc.ShardChain.RatingSteps = rs
			rc.MetaChain.RatingSteps = rs
			cfg := desc{"min": it.g.min, "start": it.g.start, "max": it.g.max, "bands_as_listed(thr,chance)": fmt.Sprint(listed),
				"steps": fmt.Sprintf("%+v", rs), "minNodes": it.s.n, "consensus": it.s.cons, "roundMs": it.s.roundMs}
			rank := [2]int64{1<<41 + int64(ii), int64(pi) << 20}
			c.Count("partC_configs_tried", 1)
			nEval++
			var bsr *rating.BlockSigningRater
			var err error
			if p := mc.Try(func() {
				var rd *rating.RatingsData
				rd, err = rating.NewRatingsData(rating.RatingsDataArg{Config: rc, ShardConsensusSize: it.s.cons, MetaConsensusSize: it.s.cons,
					ShardMinNodes: it.s.n, MetaMinNodes: it.s.n, RoundDurationMiliseconds: it.s.roundMs})
				if err == nil {
					bsr, err = rating.NewBlockSigningRater(rd)
				}
			}); p != "" {
				col.add("validation:panic", rank, desc{"config": cfg, "panic": p})
				continue
			}
			if err != nil {
				rejected = append(rejected, res{listed, err})
				continue
			}
			accepted = append(accepted, res{listed, nil})
			c.Count("partC_configs_accepted", 1)
			if pi > 0 {
				c.Nontrivial(fmt.Sprint("C", ii, "/", pi))
			}
			for ri, r := range probes {
				nEval++
				got := bsr.GetChance(r)
				want, ok := refChance(base, r)
				rk := [2]int64{rank[0], rank[1] + int64(ri)}
				if !ok {
					col.add("GetChance:accepted-config-has-no-band-for-a-rating-in-[min,max]", rk, desc{"config": cfg, "rating": r, "chance": got})
				} else if got != want {
					col.add("GetChance:not-the-band-of-the-rating", rk, desc{"config": cfg, "rating": r, "chance": got, "want": want,
						"bands_sorted(thr,chance)": fmt.Sprint(base)})
				}
			}
		}
		if len(accepted) > 0 && len(rejected) > 0 {
			col.add("validation:acceptance-depends-on-listing-order-of-selection-chances", [2]int64{1<<41 + int64(ii), 0},
				desc{"min": it.g.min, "start": it.g.start, "max": it.g.max, "accepted_listing": fmt.Sprint(accepted[0].listed),
					"rejected_listing": fmt.Sprint(rejected[0].listed), "rejection": rejected[0].err.Error(),
					"orders_accepted": len(accepted), "orders_rejected": len(rejected)})
		}
		if len(accepted) > 0 {
			c.Outcome(fmt.Sprint("C:accepted-shape", len(base)))
		} else {
			c.Outcome(fmt.Sprint("C:rejected-shape", len(base), rejectClass(rejected[0].err)))
			c.Count("partC_table_sets_rejected_in_every_order: "+rejectClass(rejected[0].err), 1)
		}
		c.Eval(nEval)
	})
}

func main() {
	mc.Main("C37", "exploration", func(c *mc.Ctx) {
		c.Rule = "A: product min{1,5} x max{10,100,1e7,2^32-1} x start{min,mid,max-1,max} x 8 selection-chance tables (valid sorted/unsorted 2,3,5 bands; single band, duplicate threshold, missing/extra top band as rejected shapes) x hours{1,72[,2]} x proposer/validator decrease factor{-1,-4}^2 x penalty{1,1.1,2,1e6} x importance{1,2} x sizes{1/1,400/63} x round{6000,3600000[,100]}ms (the one-hour round makes small rating ranges pass the increase-step>=1 validation) x metachain{same settings, main-net-like}; every config goes through NewRatingsData+NewBlockSigningRater, accepted ones are evaluated on shard{0,1,meta} x rating{min,min+1,mid,max-1,max, thresholds+-1} x streak{0..40[64],100,1000, and 1e6,2^31-1,2^32-1 when penalty>1 / 20000 when penalty==1}. " +
			"B: raters over NewRatingStepData with steps inc{1,2,1000,MaxInt32} dec{-1,-2,-1000,MinInt32} penalty{1,1.01,1.1,2,1e6,MaxFloat32} x 8 (min,start,max) triples incl. uint32 extremes. " +
			"C: every listing order (all 1/2/6/120 permutations) of the 1-,2-,3- and 5-band chance tables x min{1,5} x max{10,100,1e4,1e7,2^32-1} x start{min,mid,max-1} x 3 step settings; acceptance must be the same for all orders of a table and GetChance must equal the band of the harness-sorted table on every rating of [min,max] (range <= 200) or {min,min+1,mid,max-1,max,thresholds+-1}. " +
			"Non-trivial: an accepted config and input where the raw new value leaves [min,max] (clamping decides) or where the streak changes the result against streak 0; C = an accepted table listed in a non-ascending order."
		c.Bound = "complete product of the stated alphabets"
		c.Assumptions = []string{
			"'valid configuration' = accepted by rating.NewRatingsData and rating.NewBlockSigningRater (part A) or by NewBlockSigningRater over steps NewRatingsData can produce: increase >= 1, decrease <= -1, penalty >= 1 (part B)",
			"current ratings are taken inside [min,max] (the statement's 'keeps the rating between')",
			"with penalty exactly 1 the result does not depend on the streak and the code loops streak times; streaks above 20000 are enumerated only for penalty > 1",
			"the selection-chance table is a set of bands: its listing order carries no meaning (the rater sorts it), so acceptance and GetChance must not depend on it; on the unchanged tree validation applies 'lowest threshold 0, no duplicate thresholds, highest threshold == maxRating' to the sorted table; permuted listings (part C) are run with a restricted step product and the chance clauses only, because Compute*/Revert never read the table",
			"monotonicity of RevertIncreaseValidator in the number of reverts is not part of the statement: counted as information only",
		}
		partA(c)
		partB(c)
		partC(c)
		col.flush(c)
	})
}
