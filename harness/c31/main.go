// C31 — bloom filter has no false negatives and is race-free.
// (a) sequential: all operation sequences (Add / Clear over 6 keys) up to a depth on the
//     real storage/bloom filter, for several sizes and hasher sets (3 real hashers; stub
//     hashers mapping keys onto chosen bits, two keys on different bits of one byte): after
//     every step every key added since the last Clear must be reported by MayContain.
// (b) concurrent: the bloom package's "sync" import is shimmed; every multiset of 2 (quick)
//     / 3 (thorough) operations from {Add(k1), Add(k2), MayContain(k1), MayContain(k2), Clear}
//     runs as separate real goroutines under the cooperative scheduler in RACE MODE (the
//     hand-off adds no happens-before edge); every schedule up to the preemption bound is
//     executed in a -race build and the Go race detector judges each one. Functional
//     oracle per schedule: an Add that finished before a MayContain of that key started
//     (no Clear in between) must be seen; after all threads ended, every key whose Add
//     started after the last Clear ended must be contained.
package main

import (
	"encoding/binary"
	"fmt"
	"runtime"

	"github.com/ElrondNetwork/elrond-go/hashing"
	"github.com/ElrondNetwork/elrond-go/hashing/blake2b"
	"github.com/ElrondNetwork/elrond-go/hashing/fnv"
	"github.com/ElrondNetwork/elrond-go/hashing/keccak"
	"github.com/ElrondNetwork/elrond-go/storage/bloom"
	"verif/engine/mc"
	"verif/engine/racelog"
	"verif/engine/vsched"
)

// stubHasher maps key -> bit index (big endian in the first 8 bytes), offset by salt.
type stubHasher struct{ bits map[string]uint64 }

func (s *stubHasher) Compute(k string) []byte {
	b := make([]byte, 32)
	binary.BigEndian.PutUint64(b, s.bits[k])
	return b
}
func (s *stubHasher) Size() int            { return 32 }
func (s *stubHasher) IsInterfaceNil() bool { return s == nil }

var keys = []string{"k1", "k2", "k3", "k4", "k5", "k6"}

type hset struct {
	name string
	mk   func() []hashing.Hasher
}

func hsets() []hset {
	return []hset{
		{"real3", func() []hashing.Hasher {
			return []hashing.Hasher{keccak.NewKeccak(), blake2b.NewBlake2b(), fnv.NewFnv()}
		}},
		{"keccak", func() []hashing.Hasher { return []hashing.Hasher{keccak.NewKeccak()} }},
		// k1,k2 different bits of byte 0; k3 last bit of byte 0; k4 first bit of byte 1; k5 = same bit as k1; k6 last bit of filter (size 4)
		{"stub1", func() []hashing.Hasher {
			return []hashing.Hasher{&stubHasher{map[string]uint64{"k1": 0, "k2": 1, "k3": 7, "k4": 8, "k5": 0, "k6": 31}}}
		}},
		{"stub2", func() []hashing.Hasher {
			return []hashing.Hasher{
				&stubHasher{map[string]uint64{"k1": 0, "k2": 1, "k3": 7, "k4": 8, "k5": 0, "k6": 31}},
				&stubHasher{map[string]uint64{"k1": 9, "k2": 9, "k3": 2, "k4": 1, "k5": 3, "k6": 0}}}
		}},
	}
}

func main() {
	racelog.Init()
	defer racelog.Cleanup()
	mc.Main("C31", "exploration", func(c *mc.Ctx) {
		defer racelog.Cleanup()
		c.Rule = "(a) all Add/Clear sequences up to the depth over 6 keys x sizes x hasher sets, MayContain of every key after every step; (b) all schedules up to the preemption bound of every multiset of 2/3 operations from {Add k1, Add k2, MayContain k1, MayContain k2, Clear} as real goroutines in race mode, judged by the race detector; non-trivial = (a) sequences with a Clear between Adds or two keys sharing a byte, (b) schedules with >=1 preemption in which two operations touched the filter"
		c.Assumptions = []string{"the Go race detector is exact for a given synchronisation order (happens-before detector); enumerated are all orders of the intercepted sync.Mutex operations",
			"getBitsIndexes' internal hashing goroutines are left free-running (they touch no shared state besides their channel/WaitGroup)"}
		sequential(c)
		concurrent(c)
	})
}

func sequential(c *mc.Ctx) {
	depth := c.Pick(4, 5)
	menu := len(keys) + 1 // Add(k_i), Clear
	sizes := []uint{4, 5, 8, 2048}
	for _, hs := range hsets() {
		for _, size := range sizes {
			if size <= uint(len(hs.mk())) {
				continue
			}
			var rec func(seq []int)
			rec = func(seq []int) {
				if len(seq) > 0 {
					runSeq(c, hs, size, seq)
				}
				if len(seq) == depth {
					return
				}
				for op := 0; op < menu; op++ {
					rec(append(seq, op))
				}
			}
			rec(nil)
		}
	}
}

func runSeq(c *mc.Ctx, hs hset, size uint, seq []int) {
	c.Eval(1)
	f, err := bloom.NewFilter(size, hs.mk())
	if err != nil {
		c.Fatal("NewFilter: %v", err)
	}
	added := map[string]bool{}
	cleared := false
	for _, op := range seq {
		if op == len(keys) {
			f.Clear()
			added = map[string]bool{}
			cleared = true
		} else {
			f.Add([]byte(keys[op]))
			added[keys[op]] = true
		}
	}
	for k := range added {
		if !f.MayContain([]byte(k)) {
			c.Violation("false-negative-sequential", map[string]interface{}{"hashers": hs.name, "size": size, "ops": seq, "key": k}, nil)
		}
	}
	if cleared && len(added) > 0 || len(added) >= 2 {
		c.Nontrivial(fmt.Sprint("seq", hs.name, size, seq))
	}
	n := 0
	for _, k := range keys {
		if f.MayContain([]byte(k)) {
			n++
		}
	}
	c.Outcome(fmt.Sprint("seq-contained=", n))
}

type cop struct {
	kind string // add, may, clear
	key  string
}

var cmenu = []cop{{"add", "k1"}, {"add", "k2"}, {"may", "k1"}, {"may", "k2"}, {"clear", ""}}

// tick and setRes touch harness bookkeeping shared between threads; in race mode the
// scheduler's hand-off is (deliberately) no happens-before edge, so they are norace.
//
//go:norace
func tick(p *int) int { *p++; return *p }

//go:norace
func setRes(sp *span, v bool) { sp.result = v }

type span struct {
	op         cop
	start, end int
	result     bool
}

func concurrent(c *mc.Ctx) {
	runtime.GOMAXPROCS(4)
	nthreads := 3
	bound := c.Pick(2, -1)
	var combos [][]int
	var rec func(cur []int, from int)
	rec = func(cur []int, from int) {
		if len(cur) == nthreads {
			combos = append(combos, append([]int{}, cur...))
			return
		}
		for i := from; i < len(cmenu); i++ {
			rec(append(cur, i), i)
		}
	}
	rec(nil, 0)
	{ // all pairs as well
		for i := range cmenu {
			for j := i; j < len(cmenu); j++ {
				combos = append(combos, []int{i, j})
			}
		}
	}
	total := int64(0)
	for _, hname := range []string{"stub1", "stub2"} {
		var hs hset
		for _, h := range hsets() {
			if h.name == hname {
				hs = h
			}
		}
		for _, combo := range combos {
			combo := combo
			st := mc.Explore(c, bound, 1, func(ch *mc.Chooser) { runConc(c, hs, combo, ch) })
			total += st.Executions
		}
	}
	c.Count("concurrent_schedules", total)
	c.Set("concurrent_scenarios", len(combos)*2)
	if bound < 0 {
		c.Bound = fmt.Sprintf("sequential depth %d; %d threads, unbounded preemptions", c.Pick(4, 5), nthreads)
	} else {
		c.Bound = fmt.Sprintf("sequential depth %d; %d threads, preemption bound %d", c.Pick(4, 5), nthreads, bound)
	}
}

func runConc(c *mc.Ctx, hs hset, combo []int, ch *mc.Chooser) {
	f, _ := bloom.NewFilter(4, hs.mk())
	spans := make([]*span, len(combo))
	clock := 0
	bodies := make([]func(), len(combo))
	for i, oi := range combo {
		i, op := i, cmenu[oi]
		spans[i] = &span{op: op}
		bodies[i] = func() {
			spans[i].start = tick(&clock)
			switch op.kind {
			case "add":
				f.Add([]byte(op.key))
			case "may":
				setRes(spans[i], f.MayContain([]byte(op.key)))
			case "clear":
				f.Clear()
			}
			spans[i].end = tick(&clock)
		}
	}
	s := vsched.Run(ch, vsched.Options{Race: true, Horizon: 500}, bodies...)
	desc := func() map[string]interface{} {
		ops := []string{}
		for _, sp := range spans {
			ops = append(ops, sp.op.kind+" "+sp.op.key)
		}
		return map[string]interface{}{"hashers": hs.name, "threads": ops, "schedule": ch.Choices(), "labels": ch.Labels()}
	}
	for _, r := range racelog.New() {
		d := desc()
		d["race_report"] = r.Text
		c.ViolationR(r.Signature, ch.Deviations(), d, ch.Choices())
	}
	if s.Deadlock {
		c.Violation("deadlock", desc(), ch.Choices())
	}
	if s.PanicValue != "" {
		d := desc()
		d["panic"] = s.PanicValue
		c.Violation("panic", d, ch.Choices())
	}
	if s.HorizonHit {
		c.Cap("scheduler horizon")
	}
	// functional oracle
	lastClearEnd, anyClear := 0, false
	for _, sp := range spans {
		if sp.op.kind == "clear" {
			anyClear = true
			if sp.end > lastClearEnd {
				lastClearEnd = sp.end
			}
		}
	}
	for _, a := range spans {
		if a.op.kind != "add" {
			continue
		}
		for _, m := range spans {
			if m.op.kind == "may" && m.op.key == a.op.key && a.end < m.start && !anyClear && !m.result {
				d := desc()
				d["what"] = "Add(" + a.op.key + ") finished before MayContain started, result false"
				c.ViolationR("false-negative-concurrent", ch.Deviations(), d, ch.Choices())
			}
		}
		// at the end: adds that started after every clear ended must be visible
		clearOverlaps := false
		for _, cl := range spans {
			if cl.op.kind == "clear" && cl.end > a.start {
				clearOverlaps = true
			}
		}
		if !clearOverlaps && !f.MayContain([]byte(a.op.key)) {
			d := desc()
			d["what"] = "after all threads ended, added key " + a.op.key + " is not contained (lost bit)"
			c.ViolationR("false-negative-after-concurrent-adds", ch.Deviations(), d, ch.Choices())
		}
	}
	if s.Preemptions > 0 {
		c.Nontrivial(fmt.Sprint("conc", hs.name, combo, ch.Choices()))
		if c.WantSample() {
			c.Sample(desc())
		}
	}
	res := ""
	for _, sp := range spans {
		res += fmt.Sprint(sp.op.kind, sp.result, ";")
	}
	c.Outcome(res)
}
