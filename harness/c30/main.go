// C30 — epoch-partitioned storage keeps and removes data as promised.
//
// Explicit-state BFS (mc.BFS) over the real storage/pruning.PruningStorer and
// FullHistoryPruningStorer. Environment (all deterministic, synchronous, in memory):
//   - a stub persister factory whose persisters are path-keyed in-memory stores that survive
//     Close (re-Create(path) sees the data; a closed handle errors like leveldb; Remove of an
//     absent key returns nil like memorydb/leveldb),
//   - the real LRU cache (capacity 1 or 100) and the real bloom filter (off / on),
//   - a stub epoch-start notifier: the harness fires the handler the storer registered
//     (EpochStartPrepare / EpochStartAction) exactly like the production notifier does.
//
// The storer in this tree closes persisters synchronously inside changeEpoch (no goroutine),
// so there is nothing to wait for and no clock anywhere.
//
// Reference model ("boring"): epoch -> key -> {values possibly stored}, plus a
// "guaranteed present" bit set only by puts the statement makes promises about. The windows
// (active epochs, retained epochs) are read from the implementation's own structures through
// the export file /verif/ovl/export/storage/pruning/c30.go and are separately sanity-checked
// against the configuration so that they cannot shrink silently.
//
// Readings fixed here (also in c.Assumptions):
//
//	R1 "readable" = the read succeeds and returns a value that was put under that key in one
//	   of the epochs the read may legitimately consult (or is still cached from a put/read);
//	   with several active epochs holding different values for one key the newest-first
//	   search order decides, which the statement does not regulate.
//	R2 "put-epoch is an open epoch" = the storer's own map has an open persister for the epoch
//	   set with SetEpochForPutOperation (initially the starting epoch); otherwise the storer
//	   falls back to the newest persister and the statement promises nothing: the reference
//	   only remembers the value as possibly present there. PutInEpoch returning nil counts as
//	   a put into that epoch.
//	R3 "after a key is removed, no read returns it from any active epoch" = Remove(k)==nil
//	   obliges every epoch active at that moment; a later re-activation of an epoch that was
//	   closed at removal time may legitimately bring an old value back.
package main

import (
	"errors"
	"flag"
	"fmt"
	"sort"
	"strings"

	logger "github.com/ElrondNetwork/elrond-go-logger"
	"github.com/ElrondNetwork/elrond-go/data/block"
	"github.com/ElrondNetwork/elrond-go/epochStart"
	"github.com/ElrondNetwork/elrond-go/storage"
	"github.com/ElrondNetwork/elrond-go/storage/pruning"
	"github.com/ElrondNetwork/elrond-go/storage/storageUnit"
	"verif/engine/mc"
)

// ---------------------------------------------------------------- stub environment

type memStore struct{ kv map[string]string }

type handle struct {
	st     *memStore
	closed bool
}

var errClosed = errors.New("stub persister: closed")

func (h *handle) Put(key, val []byte) error {
	if h.closed {
		return errClosed
	}
	h.st.kv[string(key)] = string(val)
	return nil
}
func (h *handle) Get(key []byte) ([]byte, error) {
	if h.closed {
		return nil, errClosed
	}
	v, ok := h.st.kv[string(key)]
	if !ok {
		return nil, storage.ErrKeyNotFound
	}
	return []byte(v), nil
}
func (h *handle) Has(key []byte) error {
	if h.closed {
		return errClosed
	}
	if _, ok := h.st.kv[string(key)]; !ok {
		return storage.ErrKeyNotFound
	}
	return nil
}
func (h *handle) Init() error { return nil }
func (h *handle) Close() error {
	h.closed = true
	return nil
}
func (h *handle) Remove(key []byte) error {
	if h.closed {
		return errClosed
	}
	delete(h.st.kv, string(key)) // absent key: nil, like memorydb / leveldb
	return nil
}
func (h *handle) Destroy() error {
	h.closed = true
	h.st.kv = map[string]string{}
	return nil
}
func (h *handle) DestroyClosed() error { return h.Destroy() }
func (h *handle) RangeKeys(_ func(key []byte, val []byte) bool) {
}
func (h *handle) IsInterfaceNil() bool { return h == nil }

type factory struct{ stores map[string]*memStore }

func (f *factory) Create(path string) (storage.Persister, error) {
	st := f.stores[path]
	if st == nil {
		st = &memStore{kv: map[string]string{}}
		f.stores[path] = st
	}
	return &handle{st: st}, nil
}
func (f *factory) CreateDisabled() storage.Persister {
	return &handle{st: &memStore{kv: map[string]string{}}, closed: true}
}
func (f *factory) IsInterfaceNil() bool { return f == nil }

type notifier struct{ h epochStart.ActionHandler }

func (n *notifier) RegisterHandler(h epochStart.ActionHandler) { n.h = h }
func (n *notifier) IsInterfaceNil() bool                       { return n == nil }

type pathMgr struct{}

func (pathMgr) PathForEpoch(shardID string, epoch uint32, id string) string {
	return fmt.Sprintf("db/Epoch_%d/Shard_%s/%s", epoch, shardID, id)
}
func (pathMgr) PathForStatic(shardID string, id string) string {
	return fmt.Sprintf("db/Static/Shard_%s/%s", shardID, id)
}
func (pathMgr) DatabasePath() string { return "db" }
func (pathMgr) IsInterfaceNil() bool { return false }

type cleaner struct{}

func (cleaner) ShouldClean() bool    { return true }
func (cleaner) IsInterfaceNil() bool { return false }

type coord struct{}

func (coord) NumberOfShards() uint32                  { return 2 }
func (coord) ComputeId(_ []byte) uint32               { return 0 }
func (coord) SelfId() uint32                          { return 0 }
func (coord) SameShard(_, _ []byte) bool              { return true }
func (coord) CommunicationIdentifier(_ uint32) string { return "0" }
func (coord) IsInterfaceNil() bool                    { return false }

// ---------------------------------------------------------------- configuration / menu

type config struct {
	full      bool
	active    uint32
	keep      uint32
	cacheCap  uint32
	bloom     bool
	oldActive uint32 // FullHistory: NumOfOldActivePersisters
	keys      int
	depth     int
}

func (c config) String() string {
	t := "PruningStorer"
	if c.full {
		t = fmt.Sprintf("FullHistoryPruningStorer(old=%d)", c.oldActive)
	}
	return fmt.Sprintf("%s{active=%d keep=%d cache=%d bloom=%v keys=%d}", t, c.active, c.keep, c.cacheCap, c.bloom, c.keys)
}

type opKind int

const (
	opPut opKind = iota
	opPutInEpoch
	opSetPutEpoch
	opGet
	opGetFromEpoch
	opRemove
	opClear
	opEpoch
)

const (
	modePlain = iota // EpochStartAction(shard header), EpochStartPrepare never called
	modePrep         // EpochStartPrepare(meta block) then EpochStartAction(shard header)
	modeMeta         // EpochStartAction(meta block) (metachain node)
)

type op struct {
	kind opKind
	k, v int
	d    int // relative epoch: e = current - d
	step int // epoch ops: +1 / +2
	lag  int // epoch ops: oldest last-finalized shard header epoch = new epoch - lag
	mode int
	name string
}

// --skips adds epoch changes that skip an epoch number (development aid, not registered):
// every violation found in such a run is prefixed "skipped-epoch:".
var withSkips = flag.Bool("skips", false, "also explore epoch changes that skip one epoch number")

var keyNames = []string{"k0", "k1", "k2"}
var valNames = []string{"v0", "v1"}

func rel(d int) string {
	switch {
	case d == 0:
		return "cur"
	case d > 0:
		return fmt.Sprintf("cur-%d", d)
	}
	return fmt.Sprintf("cur+%d", -d)
}

func buildMenu(cfg config) []op {
	var m []op
	for k := 0; k < cfg.keys; k++ {
		for v := 0; v < 2; v++ {
			m = append(m, op{kind: opPut, k: k, v: v, name: fmt.Sprintf("Put(%s,%s)", keyNames[k], valNames[v])})
		}
	}
	for k := 0; k < cfg.keys; k++ {
		for d := 0; d <= 2; d++ {
			m = append(m, op{kind: opPutInEpoch, k: k, v: 1, d: d, name: fmt.Sprintf("PutInEpoch(%s,v1,%s)", keyNames[k], rel(d))})
		}
	}
	for d := -1; d <= 2; d++ {
		m = append(m, op{kind: opSetPutEpoch, d: d, name: fmt.Sprintf("SetEpochForPutOperation(%s)", rel(d))})
	}
	for k := 0; k < cfg.keys; k++ {
		m = append(m, op{kind: opGet, k: k, name: fmt.Sprintf("Get(%s)", keyNames[k])})
	}
	if cfg.full {
		// state-changing for the full-history storer (opens old persisters, adds map entries)
		for k := 0; k < cfg.keys; k++ {
			for d := -1; d <= 3; d++ {
				m = append(m, op{kind: opGetFromEpoch, k: k, d: d, name: fmt.Sprintf("GetFromEpoch(%s,%s)", keyNames[k], rel(d))})
			}
		}
	}
	for k := 0; k < cfg.keys; k++ {
		m = append(m, op{kind: opRemove, k: k, name: fmt.Sprintf("Remove(%s)", keyNames[k])})
	}
	m = append(m, op{kind: opClear, name: "ClearCache"})
	m = append(m,
		op{kind: opEpoch, step: 1, mode: modePlain, name: "Epoch+1[Action(shardHdr), no Prepare ever]"},
		op{kind: opEpoch, step: 1, lag: 1, mode: modePrep, name: "Epoch+1[Prepare(meta,lastFinalized=new-1);Action(shardHdr)]"},
		op{kind: opEpoch, step: 1, lag: 2, mode: modePrep, name: "Epoch+1[Prepare(meta,lastFinalized=new-2 stuck);Action(shardHdr)]"},
		op{kind: opEpoch, step: 1, lag: 3, mode: modePrep, name: "Epoch+1[Prepare(meta,lastFinalized=new-3 stuck);Action(shardHdr)]"},
		op{kind: opEpoch, step: 1, lag: 2, mode: modeMeta, name: "Epoch+1[Action(metaBlock,lastFinalized=new-2 stuck)]"},
	)
	if *withSkips {
		// outside the registered space: the production triggers only ever advance by one epoch
		m = append(m,
			op{kind: opEpoch, step: 2, mode: modePlain, name: "Epoch+2[Action(shardHdr), no Prepare ever]"},
			op{kind: opEpoch, step: 2, lag: 2, mode: modePrep, name: "Epoch+2[Prepare(meta,lastFinalized=new-2);Action(shardHdr)]"},
		)
	}
	return m
}

// ---------------------------------------------------------------- instance = impl + reference

type storerAPI interface {
	Put(key, data []byte) error
	PutInEpoch(key, data []byte, epoch uint32) error
	Get(key []byte) ([]byte, error)
	GetFromEpoch(key []byte, epoch uint32) ([]byte, error)
	Has(key []byte) error
	SearchFirst(key []byte) ([]byte, error)
	Remove(key []byte) error
	ClearCache()
	SetEpochForPutOperation(epoch uint32)
}

type inst struct {
	cfg  config
	menu []op
	ps   *pruning.PruningStorer
	fh   *pruning.FullHistoryPruningStorer
	st   storerAPI
	fac  *factory
	not  *notifier

	// reference
	cur      uint32
	created  map[uint32]bool
	prepared bool
	all      map[uint32]map[string]map[string]bool // epoch -> key -> values possibly stored
	present  map[uint32]map[string]bool            // epoch -> key -> promised present
	cached   map[string]map[string]bool            // key -> values possibly in the cache
	removed  map[string]bool                       // Remove(k)==nil and no put of k since
	everPut  map[string]bool

	vw    *pruning.VerifC30View // cached snapshot, dropped by every operation that can change it
	hist  []int
	nt    string // last non-trivial observation
	reads []string
}

func newInst(cfg config, menu []op) *inst {
	s := &inst{cfg: cfg, menu: menu, fac: &factory{stores: map[string]*memStore{}}, not: &notifier{},
		created: map[uint32]bool{0: true}, all: map[uint32]map[string]map[string]bool{},
		present: map[uint32]map[string]bool{}, cached: map[string]map[string]bool{},
		removed: map[string]bool{}, everPut: map[string]bool{}}
	args := &pruning.StorerArgs{
		Identifier:             "unit",
		ShardCoordinator:       coord{},
		CacheConf:              storageUnit.CacheConfig{Type: storageUnit.LRUCache, Capacity: cfg.cacheCap, Shards: 1},
		PathManager:            pathMgr{},
		DbPath:                 "db",
		PersisterFactory:       s.fac,
		Notifier:               s.not,
		OldDataCleanerProvider: cleaner{},
		MaxBatchSize:           1,
		NumOfEpochsToKeep:      cfg.keep,
		NumOfActivePersisters:  cfg.active,
		StartingEpoch:          0,
		PruningEnabled:         true,
	}
	if cfg.bloom {
		args.BloomFilterConf = storageUnit.BloomConfig{Size: 2048, HashFunc: []storageUnit.HasherType{storageUnit.Keccak, storageUnit.Blake2b, storageUnit.Fnv}}
	}
	var err error
	if cfg.full {
		s.fh, err = pruning.NewFullHistoryPruningStorer(&pruning.FullHistoryStorerArgs{StorerArgs: args, NumOfOldActivePersisters: cfg.oldActive})
		if err == nil {
			s.ps = s.fh.PruningStorer
			s.st = s.fh
		}
	} else {
		s.ps, err = pruning.NewPruningStorer(args)
		s.st = s.ps
	}
	if err != nil {
		panic("constructor: " + err.Error())
	}
	if s.not.h == nil {
		panic("storer did not register an epoch-start handler")
	}
	return s
}

// view returns the storer's own snapshot; cached between operations that cannot change it
// (plain reads only touch the cache).
func (s *inst) view() pruning.VerifC30View {
	if s.vw == nil {
		v := s.ps.VerifC30View()
		s.vw = &v
	}
	return *s.vw
}

func key(k int) []byte { return []byte(keyNames[k]) }
func val(v int) []byte { return []byte(valNames[v]) }

func (s *inst) addAll(e uint32, k, v string, exact bool) {
	if s.all[e] == nil {
		s.all[e] = map[string]map[string]bool{}
	}
	if exact || s.all[e][k] == nil {
		s.all[e][k] = map[string]bool{}
	}
	s.all[e][k][v] = true
}
func (s *inst) setPresent(e uint32, k string, p bool) {
	if s.present[e] == nil {
		s.present[e] = map[string]bool{}
	}
	if p {
		s.present[e][k] = true
	} else {
		delete(s.present[e], k)
	}
}
func (s *inst) addCached(k, v string) {
	if s.cached[k] == nil {
		s.cached[k] = map[string]bool{}
	}
	s.cached[k][v] = true
}

func activeEpochs(v pruning.VerifC30View) []uint32 {
	r := make([]uint32, len(v.Active))
	for i, p := range v.Active {
		r[i] = p.Epoch
	}
	return r
}

func (s *inst) enabled(o op) bool {
	switch o.kind {
	case opPutInEpoch, opSetPutEpoch, opGetFromEpoch:
		return int(s.cur)-o.d >= 0
	case opEpoch:
		if o.mode == modePlain {
			return !s.prepared
		}
		return int(s.cur)+o.step-o.lag >= 0
	}
	return true
}

func (s *inst) ctx() string {
	v := s.view()
	ret := make([]int, 0, len(v.ByEpoch))
	for e := range v.ByEpoch {
		ret = append(ret, int(e))
	}
	sort.Ints(ret)
	return fmt.Sprintf("%v current epoch %d, active epochs (newest first) %v, retained epochs %v", s.cfg, s.cur, activeEpochs(v), ret)
}

// judgePlain evaluates the result of a plain read (Get / Has / SearchFirst).
func (s *inst) judgePlain(what string, k string, found bool, v string, hasValue bool) (string, string) {
	view := s.view()
	must := false
	allowed := map[string]bool{}
	for c := range s.cached[k] {
		allowed[c] = true
	}
	for _, p := range view.Active {
		if s.present[p.Epoch][k] {
			must = true
		}
		for x := range s.all[p.Epoch][k] {
			allowed[x] = true
		}
	}
	if !found && must {
		// refine the class: is the persister of the promised epoch(s) open at all?
		sig := "value-put-in-open-epoch-not-readable-while-epoch-active:active-epoch-has-closed-persister"
		for _, p := range view.Active {
			if s.present[p.Epoch][k] && !p.Closed {
				sig = "value-put-in-open-epoch-not-readable-while-epoch-active:open-active-persister-not-consulted"
			}
		}
		return sig, fmt.Sprintf("%s fails although %s was put (and not removed) in an epoch that is still active; %s", what, k, s.ctx())
	}
	if found && (len(allowed) == 0 || (hasValue && !allowed[v])) {
		if s.removed[k] {
			return "removed-key-still-readable-from-active-epoch",
				fmt.Sprintf("%s returns %q after Remove(%s) returned nil and no later put; %s", what, v, k, s.ctx())
		}
		return "read-returns-value-not-stored-in-any-active-epoch",
			fmt.Sprintf("%s returns %q; values the reference allows: %v; %s", what, v, keysOf(allowed), s.ctx())
	}
	if found && len(s.cached[k]) == 0 && len(s.all[view.Active[0].Epoch][k]) == 0 {
		s.nt = fmt.Sprintf("%s served by non-newest persister: active=%v", strings.SplitN(what, "(", 2)[0], activeEpochs(view))
	}
	return "", ""
}

// judgeEpoch evaluates the result of GetFromEpoch(k, e).
func (s *inst) judgeEpoch(what string, k string, e uint32, found bool, v string) (string, string) {
	view := s.view()
	_, retained := view.ByEpoch[e]
	if s.cfg.full {
		retained = true // full history: every epoch ever written stays reachable by path
	}
	must := retained && s.present[e][k]
	allowed := map[string]bool{}
	for c := range s.cached[k] {
		allowed[c] = true
	}
	for x := range s.all[e][k] {
		allowed[x] = true
	}
	if s.cfg.full {
		// searches epoch e, then e+1; an epoch inside the active range is answered by a search
		// over all active persisters
		for x := range s.all[e+1][k] {
			allowed[x] = true
		}
		if len(view.Active) > 0 {
			lo, hi := view.Active[len(view.Active)-1].Epoch, view.Active[0].Epoch
			if (e >= lo && e <= hi) || (e+1 >= lo && e+1 <= hi) {
				for _, p := range view.Active {
					for x := range s.all[p.Epoch][k] {
						allowed[x] = true
					}
				}
			}
		}
	}
	if !found && must {
		return "value-put-in-epoch-not-readable-by-epoch-read-while-retained",
			fmt.Sprintf("%s fails although %s was put in epoch %d which is retained; %s", what, k, e, s.ctx())
	}
	if found && !allowed[v] {
		if s.removed[k] {
			return "removed-key-still-readable-from-active-epoch",
				fmt.Sprintf("%s returns %q after Remove(%s) returned nil and no later put; %s", what, v, k, s.ctx())
		}
		return "epoch-read-returns-value-not-stored-in-that-epoch",
			fmt.Sprintf("%s returns %q; values the reference allows: %v; %s", what, v, keysOf(allowed), s.ctx())
	}
	if found && len(s.cached[k]) == 0 {
		act := false
		for _, p := range view.Active {
			if p.Epoch == e {
				act = true
			}
		}
		if !act {
			s.nt = fmt.Sprintf("GetFromEpoch served by a non-active retained epoch: cur-%d active=%d", s.cur-e, len(view.Active))
		}
	}
	return "", ""
}

func keysOf(m map[string]bool) []string {
	r := make([]string, 0, len(m))
	for k := range m {
		r = append(r, k)
	}
	sort.Strings(r)
	return r
}

func (s *inst) doGet(k int) (string, string) {
	what := fmt.Sprintf("Get(%s)", keyNames[k])
	s.reads = append(s.reads, what)
	v, err := s.st.Get(key(k))
	sig, d := s.judgePlain(what, keyNames[k], err == nil, string(v), true)
	if err == nil {
		s.addCached(keyNames[k], string(v)) // a hit (re)populates the cache
	}
	return sig, d
}

func (s *inst) doGetFromEpoch(k int, e uint32) (string, string) {
	what := fmt.Sprintf("GetFromEpoch(%s,%d)", keyNames[k], e)
	s.reads = append(s.reads, what)
	v, err := s.st.GetFromEpoch(key(k), e)
	if s.cfg.full {
		s.vw = nil
	}
	found := err == nil && (v != nil || !s.cfg.full)
	return s.judgeEpoch(what, keyNames[k], e, found, string(v))
}

func (s *inst) do(i int) (string, string) {
	o := s.menu[i]
	s.hist = append(s.hist, i)
	s.nt = ""
	s.vw = nil
	if o.kind != opGet {
		defer func() { s.vw = nil }()
	}
	switch o.kind {
	case opPut:
		k, v := keyNames[o.k], valNames[o.v]
		view := s.view()
		pd, ok := view.ByEpoch[view.EpochForPut]
		open := ok && !pd.Closed
		err := s.st.Put(key(o.k), val(o.v))
		s.addCached(k, v)
		s.everPut[k] = true
		if err != nil {
			// the caller sees the error: nothing is promised about this value
			return "", ""
		}
		delete(s.removed, k)
		if open {
			s.addAll(view.EpochForPut, k, v, true)
			s.setPresent(view.EpochForPut, k, true)
		} else {
			s.addAll(view.Active[0].Epoch, k, v, false) // documented fallback: newest persister
		}
	case opPutInEpoch:
		k, v := keyNames[o.k], valNames[o.v]
		e := uint32(int(s.cur) - o.d)
		view := s.view()
		pd, ok := view.ByEpoch[e]
		open := ok && !pd.Closed
		err := s.st.PutInEpoch(key(o.k), val(o.v), e)
		s.addCached(k, v) // the cache is written even when the put fails
		s.everPut[k] = true
		if err != nil {
			return "", ""
		}
		delete(s.removed, k)
		if open {
			s.addAll(e, k, v, true)
			s.setPresent(e, k, true)
		} else {
			// the epoch was closed (the storer opens it temporarily): the statement only
			// speaks about puts into an open epoch
			s.addAll(e, k, v, false)
		}
	case opSetPutEpoch:
		s.st.SetEpochForPutOperation(uint32(int(s.cur) - o.d))
	case opGet:
		return s.doGet(o.k)
	case opGetFromEpoch:
		return s.doGetFromEpoch(o.k, uint32(int(s.cur)-o.d))
	case opRemove:
		k := keyNames[o.k]
		view := s.view()
		err := s.st.Remove(key(o.k))
		delete(s.cached, k)
		for _, p := range view.Active {
			if err == nil {
				delete(s.all[p.Epoch], k)
			}
			s.setPresent(p.Epoch, k, false)
		}
		if err == nil {
			s.removed[k] = true
		}
	case opClear:
		s.st.ClearCache()
		s.cached = map[string]map[string]bool{}
	case opEpoch:
		n := s.cur + uint32(o.step)
		meta := &block.MetaBlock{Epoch: n, EpochStart: block.EpochStart{LastFinalizedHeaders: []block.EpochStartShardData{{ShardID: 0, Epoch: n - uint32(o.lag)}}}}
		switch o.mode {
		case modePlain:
			s.not.h.EpochStartAction(&block.Header{Epoch: n})
		case modePrep:
			s.prepared = true
			s.not.h.EpochStartPrepare(meta, nil)
			s.not.h.EpochStartAction(&block.Header{Epoch: n})
		case modeMeta:
			s.prepared = true // a metachain node never mixes with the shard-header style
			s.not.h.EpochStartAction(meta)
		}
		s.cur = n
		s.created[n] = true
	}
	return "", ""
}

// window sanity: the implementation's own windows may not be smaller than configured.
func (s *inst) checkWindow() (string, string) {
	view := s.view()
	if len(view.Active) == 0 || view.Active[0].Epoch != s.cur {
		return "current-epoch-not-newest-active", s.ctx()
	}
	want := int(s.cfg.active)
	if len(s.created) < want {
		want = len(s.created)
	}
	seen := map[uint32]bool{}
	for _, p := range view.Active {
		seen[p.Epoch] = true
	}
	if len(seen) < want {
		return "active-window-smaller-than-configured", fmt.Sprintf("want >= %d distinct active epochs; %s", want, s.ctx())
	}
	ce := make([]int, 0, len(s.created))
	for e := range s.created {
		ce = append(ce, int(e))
	}
	sort.Sort(sort.Reverse(sort.IntSlice(ce)))
	for i := 0; i < len(ce) && i < int(s.cfg.keep); i++ {
		if _, ok := view.ByEpoch[uint32(ce[i])]; !ok {
			return "retained-window-smaller-than-configured", fmt.Sprintf("epoch %d is among the newest %d created epochs but not retained; %s", ce[i], s.cfg.keep, s.ctx())
		}
	}
	return "", ""
}

// sweep issues every read on this instance (used on a replayed probe copy only).
func (s *inst) sweep() (string, string) {
	s.reads = s.reads[:0]
	for pass := 0; pass < 2; pass++ {
		if pass == 1 {
			s.reads = append(s.reads, "ClearCache")
			s.st.ClearCache()
			s.cached = map[string]map[string]bool{}
		}
		for k := 0; k < s.cfg.keys; k++ {
			what := fmt.Sprintf("Has(%s)", keyNames[k])
			s.reads = append(s.reads, what)
			err := s.st.Has(key(k))
			if sig, d := s.judgePlain(what, keyNames[k], err == nil, "", false); sig != "" {
				return sig, d
			}
			what = fmt.Sprintf("SearchFirst(%s)", keyNames[k])
			s.reads = append(s.reads, what)
			v, err := s.st.SearchFirst(key(k))
			if sig, d := s.judgePlain(what, keyNames[k], err == nil, string(v), true); sig != "" {
				return sig, d
			}
		}
		if !s.cfg.full { // pure for the plain storer; for full history it is a menu operation
			for k := 0; k < s.cfg.keys; k++ {
				for e := uint32(0); e <= s.cur+1; e++ {
					if sig, d := s.doGetFromEpoch(k, e); sig != "" {
						return sig, d
					}
				}
			}
		}
		for k := 0; k < s.cfg.keys; k++ {
			if sig, d := s.doGet(k); sig != "" {
				return sig, d
			}
		}
	}
	return "", ""
}

func (s *inst) check() (string, string) {
	if sig, d := s.checkWindow(); sig != "" {
		return sig, d
	}
	// all reads, as-is and after a cache clear, on a replayed copy (reads change the cache)
	p := newInst(s.cfg, s.menu)
	for _, i := range s.hist {
		p.do(i)
	}
	nt := s.nt
	p.nt = ""
	sig, d := p.sweep()
	if sig != "" {
		return sig, fmt.Sprintf("%s; reads issued after the history: %v", d, p.reads)
	}
	if nt == "" {
		nt = p.nt
	}
	s.nt = nt
	return "", ""
}

// tag prefixes violations whose history contains a skipped epoch number (--skips runs only).
func (s *inst) tag(sig, d string) (string, string) {
	if sig == "" {
		return sig, d
	}
	for _, i := range s.hist {
		if s.menu[i].kind == opEpoch && s.menu[i].step > 1 {
			return "skipped-epoch:" + sig, d
		}
	}
	return sig, d
}

func fmtSet(m map[string]bool) string { return strings.Join(keysOf(m), "|") }

func (s *inst) stateKey() string {
	var b strings.Builder
	view := s.view()
	fmt.Fprintf(&b, "cur%d put%d prep%v/%d/%d|A", s.cur, view.EpochForPut, s.prepared, view.PrepareEpoch, view.PrepareOldest)
	hc := func(p pruning.VerifC30Persister) bool {
		if h, ok := p.Persister.(*handle); ok {
			return h.closed
		}
		return true
	}
	for _, p := range view.Active {
		fmt.Fprintf(&b, " %d:%v:%v", p.Epoch, p.Closed, hc(p))
	}
	b.WriteString("|M")
	es := make([]int, 0, len(view.ByEpoch))
	for e := range view.ByEpoch {
		es = append(es, int(e))
	}
	sort.Ints(es)
	for _, e := range es {
		p := view.ByEpoch[uint32(e)]
		fmt.Fprintf(&b, " %d>%d:%v:%v", e, p.Epoch, p.Closed, hc(p))
	}
	if s.fh != nil {
		fmt.Fprintf(&b, "|O%v", s.fh.VerifC30OldEpochs())
	}
	b.WriteString("|S")
	paths := make([]string, 0, len(s.fac.stores))
	for p := range s.fac.stores {
		paths = append(paths, p)
	}
	sort.Strings(paths)
	for _, p := range paths {
		kv := s.fac.stores[p].kv
		ks := make([]string, 0, len(kv))
		for k := range kv {
			ks = append(ks, k)
		}
		sort.Strings(ks)
		fmt.Fprintf(&b, " %s{", p)
		for _, k := range ks {
			fmt.Fprintf(&b, "%s=%s,", k, kv[k])
		}
		b.WriteString("}")
	}
	b.WriteString("|C")
	ca := s.ps.VerifC30Cacher()
	for _, k := range ca.Keys() {
		v, _ := ca.Peek(k)
		fmt.Fprintf(&b, " %s=%s", k, v)
	}
	b.WriteString("|R")
	re := make([]int, 0)
	for e := range s.all {
		re = append(re, int(e))
	}
	for e := range s.present {
		if _, ok := s.all[e]; !ok {
			re = append(re, int(e))
		}
	}
	sort.Ints(re)
	for _, e := range re {
		for k := 0; k < s.cfg.keys; k++ {
			kn := keyNames[k]
			if len(s.all[uint32(e)][kn]) > 0 || s.present[uint32(e)][kn] {
				fmt.Fprintf(&b, " %d.%s=%s/%v", e, kn, fmtSet(s.all[uint32(e)][kn]), s.present[uint32(e)][kn])
			}
		}
	}
	b.WriteString("|c")
	for k := 0; k < s.cfg.keys; k++ {
		kn := keyNames[k]
		fmt.Fprintf(&b, " %s:%s:%v", kn, fmtSet(s.cached[kn]), s.removed[kn])
		if s.cfg.bloom {
			fmt.Fprintf(&b, ":%v", s.everPut[kn])
		}
	}
	cr := make([]int, 0, len(s.created))
	for e := range s.created {
		cr = append(cr, int(e))
	}
	sort.Ints(cr)
	fmt.Fprintf(&b, "|E%v", cr)
	return b.String()
}

func (s *inst) outcome() string {
	view := s.view()
	es := make([]int, 0, len(view.ByEpoch))
	for e := range view.ByEpoch {
		es = append(es, int(e)-int(s.cur))
	}
	sort.Ints(es)
	act := make([]int, len(view.Active))
	for i, p := range view.Active {
		act[i] = int(p.Epoch) - int(s.cur)
	}
	return fmt.Sprintf("%v act%v ret%v", s.cfg.full, act, es)
}

// ---------------------------------------------------------------- main

func configs(c *mc.Ctx) []config {
	var r []config
	add := func(full bool, a, k, cc uint32, bloom bool, keys, depth int) {
		r = append(r, config{full: full, active: a, keep: k, cacheCap: cc, bloom: bloom, oldActive: 1, keys: keys, depth: depth})
	}
	if c.Quick() {
		add(false, 2, 2, 100, false, 2, 5)
		add(false, 1, 2, 1, true, 2, 5)
		add(false, 2, 3, 1, false, 2, 5)
		add(false, 3, 4, 100, true, 2, 5)
		add(true, 2, 3, 100, false, 2, 5)
		add(true, 1, 1, 1, true, 2, 5)
		return r
	}
	// depth 6 on a spread of configurations ...
	deep := map[string]bool{}
	addDeep := func(full bool, a, k, cc uint32, bloom bool) {
		add(full, a, k, cc, bloom, 2, 6)
		deep[fmt.Sprint(full, a, k, cc, bloom)] = true
	}
	addDeep(false, 2, 2, 100, false)
	addDeep(false, 1, 2, 1, true)
	addDeep(false, 2, 3, 1, false)
	addDeep(false, 3, 4, 100, true)
	addDeep(false, 1, 1, 1, false)
	addDeep(true, 2, 3, 100, false)
	addDeep(true, 1, 1, 1, true)
	// ... and depth 5 on the full product active {1,2,3} x keep {active..4} x cache {1,100} x
	// bloom {off,on} (plain storer) / two cache-bloom pairs (full history)
	for a := uint32(1); a <= 3; a++ {
		for k := a; k <= 4; k++ {
			for _, cc := range []uint32{1, 100} {
				for _, bl := range []bool{false, true} {
					if !deep[fmt.Sprint(false, a, k, cc, bl)] {
						add(false, a, k, cc, bl, 2, 5)
					}
				}
			}
			add(true, a, k, 1, false, 2, 5)
			add(true, a, k, 100, true, 2, 5)
		}
	}
	// three keys on the central configurations
	add(false, 2, 3, 1, false, 3, 5)
	add(false, 2, 3, 100, true, 3, 5)
	return r
}

func main() {
	_ = logger.SetLogLevel("*:NONE")
	mc.Main("C30", "model_checking", func(c *mc.Ctx) {
		cfgs := configs(c)
		c.Rule = "explicit-state BFS with state matching over the real PruningStorer / FullHistoryPruningStorer (stub path-keyed in-memory persisters surviving Close, real LRU cache, real bloom filter, handler fired through a stub notifier); operations: Put(k,v), PutInEpoch(k,v1,cur-{0,1,2}), SetEpochForPutOperation(cur-{-1..2}), Get(k), [full history: GetFromEpoch(k,cur-{-1..3})], Remove(k), ClearCache, 5 kinds of epoch change, always to current+1 (Action(shard header) while Prepare was never used; Prepare(meta)+Action(shard header) with the oldest last-finalized shard header 1, 2 or 3 epochs back (2,3 = stuck shard); Action(meta block) 2 back); after every transition a replayed copy answers Has/SearchFirst/GetFromEpoch(every epoch)/Get for every key as-is and again after ClearCache, all judged against the epoch->key->values reference; non-trivial = a plain read served by a non-newest active persister or an epoch read served by a closed retained epoch"
		c.Assumptions = append(c.Assumptions,
			"R1: 'readable' = found with a value put under that key in an epoch the read may consult (or still cached); which of several active epochs' values wins is not regulated",
			"R2: a Put / PutInEpoch is promised only if the storer's map has an open persister for the put-epoch at that moment (else the value is only remembered as possibly present in the epoch the storer falls back to / opens temporarily); a put returning an error promises nothing",
			"R3: Remove(k)==nil obliges every epoch active at that moment; re-activating an epoch that was closed at removal time may bring an old value back",
			"active / retained windows are the storer's own (activePersisters epochs, persistersMapByEpoch keys), separately checked to be no smaller than configured",
			"stub persisters do not model leveldb's directory lock (a second Create of an open path succeeds); old-data cleaner ShouldClean()==true; starting epoch 0; pruning enabled; no db-lookup extensions",
			"EpochStartPrepare precedes every EpochStartAction once it has been used (production order); the shard-header-only epoch change is explored only while Prepare was never called",
			"epoch-start notifications carry consecutive epoch numbers (the production triggers advance by exactly one); skipped epoch numbers break the storer's window arithmetic (epoch-numOfActivePersisters) and are only explored with the unregistered --skips flag",
		)
		total := 0
		byDepth := map[int]int{}
		for _, cfg := range cfgs {
			cfg := cfg
			menu := buildMenu(cfg)
			names := make([]string, len(menu))
			for i, o := range menu {
				names[i] = o.name
			}
			st := mc.BFS(c, mc.Sys[*inst]{
				Init:       func() *inst { return newInst(cfg, menu) },
				Menu:       names,
				Enabled:    func(s *inst, o int) bool { return s.enabled(menu[o]) },
				Do:         func(s *inst, o int) (string, string) { return s.tag(s.do(o)) },
				Check:      func(s *inst) (string, string) { return s.tag(s.check()) },
				Key:        func(s *inst) string { return s.stateKey() },
				Nontrivial: func(s *inst) string { return s.nt },
				Outcome:    func(s *inst) string { return s.outcome() },
			}, cfg.depth)
			c.Set("states "+cfg.String(), fmt.Sprintf("%d states, %d transitions, depth %d", st.States, st.Transitions, st.Depth))
			total++
			byDepth[cfg.depth]++
			if c.Expired() {
				break
			}
		}
		c.Bound = fmt.Sprintf("all operation sequences from a fresh storer at epoch 0 of length <= 6 for %d and <= 5 for %d configurations (storer kind x active x keep x cache capacity x bloom x keys); %d of %d configurations completed", byDepth[6], byDepth[5], total, len(cfgs))
	})
}
