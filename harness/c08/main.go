// Harness c08 — C08: contract storage values read back exactly as written, whatever the
// caller later does with its key/value buffers.
//
// Exhaustive enumeration (no sampling) of caller buffer-sharing patterns on the REAL
// TrackableDataTrie (through userAccount.DataTrieTracker()) and the full path
// SaveAccount -> Commit -> reload on a real AccountsDB + real trie + in-memory DBs.
//
// The quantifier "all buffer-sharing patterns" is made finite like this: the caller owns ONE
// backing array; for every write the key and the value are either freshly allocated exact
// slices or carved out of that array (3-index slices) at a slot, in either order, adjacent or
// one byte apart, with capacity {exact, one byte short of what append needs, exactly enough,
// rest of the array}. Between/after the writes the caller may scribble over every buffer it
// ever passed (= "mutates / reuses its buffers"); a later carved write re-fills the same
// region. Read points: before SaveAccount, after SaveAccount, after Commit, after reloading
// the account. Oracle: RetrieveValue(fresh copy of key) == private copy of the value bytes
// taken just before SaveKeyValue was called (empty after a delete / if never written).
//
// Differences from DESIGN.md §3.2: the design's capacity alphabet {len, len+8} can never alias
// (append needs len(key)+32 resp. 32 spare bytes), so capacities are chosen relative to what
// append needs; sequences are <=2 writes over the full alphabet plus 3 (quick: small
// alphabet, thorough: mid alphabet) and 4 writes (thorough, small alphabet).
//
// C08 is VIOLATED on the unchanged tree, as the design expects: SaveKeyValue does
// append(key, identifier...) / append(value, ...), so (a) a key with spare capacity gets the
// address written behind it, destroying a value that lies there (read back wrong at once),
// (b) the stored bytes are a slice of the caller's value buffer: a later write into that
// buffer changes what is read before save, after save and after commit (the trie leaf keeps
// the alias). Fix: /verif/fixes/C08.diff (copy into a private slice).
// Side observation (counted in the evidence, not judged): RetrieveValue of a key whose
// pending, not yet saved write is a delete returns (nil, ErrNegativeValue).
package main

import (
	"bytes"
	"encoding/json"
	"fmt"
	"os"
	"runtime/debug"
	"sort"
	"sync"
	"time"

	logger "github.com/ElrondNetwork/elrond-go-logger"
	"github.com/ElrondNetwork/elrond-go/config"
	"github.com/ElrondNetwork/elrond-go/data"
	"github.com/ElrondNetwork/elrond-go/data/state"
	"github.com/ElrondNetwork/elrond-go/data/state/factory"
	"github.com/ElrondNetwork/elrond-go/data/state/storagePruningManager"
	"github.com/ElrondNetwork/elrond-go/data/state/storagePruningManager/evictionWaitingList"
	"github.com/ElrondNetwork/elrond-go/data/trie"
	"github.com/ElrondNetwork/elrond-go/data/trie/hashesHolder"
	"github.com/ElrondNetwork/elrond-go/hashing/blake2b"
	"github.com/ElrondNetwork/elrond-go/marshal"
	"github.com/ElrondNetwork/elrond-go/storage/memorydb"
	"verif/engine/mc"
)

var (
	addrS       = append(append(make([]byte, 8), 5, 0), bytes.Repeat([]byte{0x5C}, 22)...)
	hasher      = blake2b.NewBlake2b()
	marshalizer = &marshal.GogoProtoMarshalizer{}
	keyBytes    = [][]byte{{0xA1}, {0xB1, 0xB2, 0xB3}}
	keyNames    = []string{"K1", "K2"}
)

const (
	bufLen   = 256
	slotStep = 16
	scribble = 0xEE
)

// value kinds
const (
	vDelete = iota // empty value = delete
	vLen1
	vLen2
	vLen3
	vTail // 2 bytes followed by key||address: the stored tail looks like the suffix trimValue removes
)

var valNames = []string{"delete", "len1", "len2", "len3", "tail-like"}

// capacity kinds of a carved slice
const (
	capExact  = iota // cap == len (append must reallocate)
	capShort         // cap == len + needed - 1 (append must still reallocate)
	capEnough        // cap == len + needed (append fits exactly)
	capBig           // cap == rest of the backing array (what buf[a:b] gives)
)

var capNames = []string{"exact", "short", "enough", "big"}

type layout struct {
	KCarved, VCarved bool
	ValueFirst       bool // both carved: value lies before the key
	Gap              int  // both carved: bytes between the two
	KCap, VCap       int
	Slot             int
}

func (l layout) String() string {
	switch {
	case !l.KCarved && !l.VCarved:
		return "fresh/fresh"
	case l.VCarved && !l.KCarved:
		return fmt.Sprintf("value@slot%d cap=%s, key fresh", l.Slot, capNames[l.VCap])
	case l.KCarved && !l.VCarved:
		return fmt.Sprintf("key@slot%d cap=%s, value fresh", l.Slot, capNames[l.KCap])
	case l.ValueFirst:
		return fmt.Sprintf("value(cap=%s) then key(cap=%s) gap%d @slot%d", capNames[l.VCap], capNames[l.KCap], l.Gap, l.Slot)
	}
	return fmt.Sprintf("key(cap=%s) then value(cap=%s) gap%d @slot%d", capNames[l.KCap], capNames[l.VCap], l.Gap, l.Slot)
}

// spare reports whether the layout hands out a slice whose spare capacity append will use
func (l layout) spare() bool {
	return (l.KCarved && l.KCap >= capEnough) || (l.VCarved && l.VCap >= capEnough)
}

type write struct {
	Key    int
	Val    int
	Layout layout
}

func (w write) String() string {
	return fmt.Sprintf("%s:=%s [%s]", keyNames[w.Key], valNames[w.Val], w.Layout)
}

// final scribble time (first time after the last write at which the caller overwrites its buffers)
const (
	fNever = iota
	fAfterLastWrite
	fAfterSave
	fAfterCommit
)

var finalNames = []string{"never", "after-last-write", "after-SaveAccount", "after-Commit"}

type caseSpec struct {
	Base     int     // offset of slot 0 in the backing array
	Writes   []write //
	Between  []bool  // Between[i]: caller scribbles after write i (i < len-1)
	Final    int
	Alphabet string `json:"-"`
}

func (cs caseSpec) describe() map[string]interface{} {
	ws := []string{}
	for i, w := range cs.Writes {
		s := w.String()
		if i < len(cs.Between) && cs.Between[i] {
			s += " ; caller scribbles over its buffers"
		}
		ws = append(ws, s)
	}
	return map[string]interface{}{"base_offset": cs.Base, "writes": ws, "caller_scribbles_finally": finalNames[cs.Final]}
}

// ---------------------------------------------------------------- alphabets

func layouts(level string) []layout {
	ls := []layout{{}}
	slots := []int{0, 1}
	single := []int{capShort, capEnough, capBig}
	type cc struct{ k, v int }
	both := []cc{{capBig, capBig}, {capExact, capBig}, {capBig, capExact}}
	gaps := []int{0, 1}
	switch level {
	case "mid":
		single = []int{capEnough, capBig}
		both = []cc{{capBig, capBig}}
	case "small":
		single = []int{capBig}
		both = []cc{{capBig, capBig}}
	}
	for _, s := range slots {
		for _, c := range single {
			ls = append(ls, layout{VCarved: true, VCap: c, Slot: s})
		}
		if level == "small" && s == 1 {
			continue
		}
		for _, c := range single {
			ls = append(ls, layout{KCarved: true, KCap: c, Slot: s})
		}
		for _, vf := range []bool{false, true} {
			for _, g := range gaps {
				if level == "small" && !vf && g == 1 {
					continue
				}
				for _, c := range both {
					ls = append(ls, layout{KCarved: true, VCarved: true, ValueFirst: vf, Gap: g, KCap: c.k, VCap: c.v, Slot: s})
				}
			}
		}
	}
	return ls
}

func writeOptions(level string) []write {
	vals := []int{vLen1, vLen2, vLen3, vTail}
	switch level {
	case "mid":
		vals = []int{vLen3, vTail}
	case "small":
		vals = []int{vLen3}
	}
	var ws []write
	for k := range keyBytes {
		ws = append(ws, write{Key: k, Val: vDelete}) // nothing is appended for a delete: layout irrelevant
		for _, v := range vals {
			for _, l := range layouts(level) {
				ws = append(ws, write{Key: k, Val: v, Layout: l})
			}
		}
	}
	return ws
}

type family struct {
	name  string
	n     int
	opts  []write
	bases []int
}

func (f family) size() int64 {
	t := int64(len(f.bases)) * 4
	for i := 0; i < f.n; i++ {
		t *= int64(len(f.opts))
	}
	for i := 0; i < f.n-1; i++ {
		t *= 2
	}
	return t
}

// decode maps an index in [0,size) to a case; low indices = simplest (fresh buffers, no scribble)
func (f family) decode(idx int64) caseSpec {
	cs := caseSpec{Alphabet: f.name}
	no := int64(len(f.opts))
	cs.Writes = make([]write, f.n)
	// least significant: last write ... so that the first write varies slowest
	for i := f.n - 1; i >= 0; i-- {
		cs.Writes[i] = f.opts[idx%no]
		idx /= no
	}
	cs.Between = make([]bool, f.n-1)
	for i := f.n - 2; i >= 0; i-- {
		cs.Between[i] = idx%2 == 1
		idx /= 2
	}
	cs.Final = int(idx % 4)
	idx /= 4
	cs.Base = f.bases[idx]
	return cs
}

// ---------------------------------------------------------------- the caller's memory

type callerMem struct {
	buf   []byte
	base  int
	fresh [][]byte
}

func newCallerMem(base int) *callerMem {
	m := &callerMem{buf: make([]byte, bufLen), base: base}
	for i := range m.buf {
		m.buf[i] = 0xCC
	}
	return m
}

func (m *callerMem) carve(off, n, capKind, need int) []byte {
	c := n
	switch capKind {
	case capShort:
		c = n + need - 1
	case capEnough:
		c = n + need
	case capBig:
		c = len(m.buf) - off
	}
	return m.buf[off : off+n : off+c]
}

func (m *callerMem) freshCopy(b []byte) []byte {
	if len(b) == 0 {
		return nil
	}
	s := make([]byte, len(b)) // exact capacity
	copy(s, b)
	m.fresh = append(m.fresh, s)
	return s
}

// place builds the key and value slices the caller passes, with the requested sharing.
func (m *callerMem) place(l layout, key, val []byte) (k, v []byte) {
	start := m.base + slotStep*l.Slot
	needK := len(addrS)            // append(key, identifier...)
	needV := len(key) + len(addrS) // append(value, key||identifier...)
	switch {
	case !l.KCarved && !l.VCarved:
		return m.freshCopy(key), m.freshCopy(val)
	case l.VCarved && !l.KCarved:
		v = m.carve(start, len(val), l.VCap, needV)
		copy(v, val)
		return m.freshCopy(key), v
	case l.KCarved && !l.VCarved:
		k = m.carve(start, len(key), l.KCap, needK)
		copy(k, key)
		return k, m.freshCopy(val)
	case l.ValueFirst:
		v = m.carve(start, len(val), l.VCap, needV)
		k = m.carve(start+len(val)+l.Gap, len(key), l.KCap, needK)
	default:
		k = m.carve(start, len(key), l.KCap, needK)
		v = m.carve(start+len(key)+l.Gap, len(val), l.VCap, needV)
	}
	copy(k, key)
	copy(v, val)
	return k, v
}

func (m *callerMem) scribbleAll() {
	for i := range m.buf {
		m.buf[i] = scribble
	}
	for _, f := range m.fresh {
		for i := range f {
			f[i] = scribble
		}
	}
}

func valueContent(i int, w write) []byte {
	b := byte(0x10 * (i + 1))
	switch w.Val {
	case vLen1:
		return []byte{b + 1}
	case vLen2:
		return []byte{b + 1, b + 2}
	case vLen3:
		return []byte{b + 1, b + 2, b + 3}
	case vTail:
		v := []byte{b + 1, b + 2}
		v = append(v, keyBytes[w.Key]...)
		return append(v, addrS...)
	}
	return nil
}

// ---------------------------------------------------------------- real accounts DB

type env struct {
	adb *state.AccountsDB
	tsm data.StorageManager
}

func newEnv() *env {
	cfg := config.TrieStorageManagerConfig{PruningBufferLen: 1000, SnapshotsBufferLen: 10, MaxSnapshots: 2}
	tsm, err := trie.NewTrieStorageManager(trie.NewTrieStorageManagerArgs{
		DB: memorydb.New(), Marshalizer: marshalizer, Hasher: hasher,
		SnapshotDbConfig:       config.DBConfig{Type: "MemoryDB"},
		GeneralConfig:          cfg,
		CheckpointHashesHolder: hashesHolder.NewCheckpointHashesHolder(10000000, uint64(hasher.Size())),
	})
	must(err)
	tr, err := trie.NewTrie(tsm, marshalizer, hasher, 5)
	must(err)
	ewl, err := evictionWaitingList.NewEvictionWaitingList(100, memorydb.New(), marshalizer)
	must(err)
	spm, err := storagePruningManager.NewStoragePruningManager(ewl, cfg.PruningBufferLen)
	must(err)
	adb, err := state.NewAccountsDB(tr, hasher, marshalizer, factory.NewAccountCreator(), spm)
	must(err)
	return &env{adb: adb, tsm: tsm}
}

func (e *env) close() {
	_ = e.adb.Close()
	_ = e.tsm.Close()
}

func must(err error) {
	if err != nil {
		panic(err)
	}
}

// ---------------------------------------------------------------- one case

type finding struct {
	sig    string
	detail map[string]interface{}
}

func runCase(cs caseSpec) (f *finding, spare bool, negErr int64) {
	e := newEnv()
	defer e.close()
	acc, err := e.adb.LoadAccount(append([]byte{}, addrS...))
	must(err)
	ua := acc.(state.UserAccountHandler)
	mem := newCallerMem(cs.Base)
	expected := make([][]byte, len(keyBytes))

	report := func(sig string, extra map[string]interface{}) *finding {
		d := cs.describe()
		for k, v := range extra {
			d[k] = v
		}
		return &finding{sig: sig, detail: d}
	}
	class := "no-spare-capacity"
	for _, w := range cs.Writes {
		if w.Val != vDelete && w.Layout.spare() {
			spare = true
			class = "caller-slice-with-spare-capacity"
		}
	}
	read := func(point string, a state.UserAccountHandler) *finding {
		for k := range keyBytes {
			got, err := a.DataTrieTracker().RetrieveValue(append([]byte{}, keyBytes[k]...))
			errText := ""
			if err == state.ErrNegativeValue {
				// returned (with a nil value) when the pending write of the key is a delete and
				// the account was not saved yet: the value read is judged, the error is counted
				errText = err.Error()
				negErr++
			} else if err != nil && err != state.ErrNilTrie {
				return report("read-error@"+point+":"+class, map[string]interface{}{"key": keyNames[k], "error": err.Error()})
			}
			if !bytes.Equal(got, expected[k]) {
				return report("readback-differs@"+point+":"+class, map[string]interface{}{
					"key": keyNames[k], "read_point": point, "got": mc.Hex(got), "want": mc.Hex(expected[k]), "read_error": errText})
			}
		}
		return nil
	}

	for i, w := range cs.Writes {
		k, v := mem.place(w.Layout, keyBytes[w.Key], valueContent(i, w))
		want := append([]byte{}, v...) // private copy of what is being written, taken at call time
		if err := ua.DataTrieTracker().SaveKeyValue(k, v); err != nil {
			return report("SaveKeyValue-error", map[string]interface{}{"error": err.Error()}), spare, negErr
		}
		if len(want) == 0 {
			want = nil
		}
		expected[w.Key] = want
		if i < len(cs.Between) && cs.Between[i] {
			mem.scribbleAll()
		}
	}
	if cs.Final == fAfterLastWrite {
		mem.scribbleAll()
	}
	if f := read("before-save", ua); f != nil {
		return f, spare, negErr
	}
	if err := e.adb.SaveAccount(ua); err != nil {
		return report("SaveAccount-error", map[string]interface{}{"error": err.Error()}), spare, negErr
	}
	if cs.Final == fAfterSave {
		mem.scribbleAll()
	}
	if f := read("after-save", ua); f != nil {
		return f, spare, negErr
	}
	if _, err := e.adb.Commit(); err != nil {
		return report("Commit-error", map[string]interface{}{"error": err.Error()}), spare, negErr
	}
	if cs.Final == fAfterCommit {
		mem.scribbleAll()
	}
	if f := read("after-commit", ua); f != nil {
		return f, spare, negErr
	}
	acc2, err := e.adb.LoadAccount(append([]byte{}, addrS...))
	if err != nil {
		return report("reload-error@after-reload:"+class, map[string]interface{}{"error": err.Error()}), spare, negErr
	}
	ua2 := acc2.(state.UserAccountHandler)
	if f := read("after-reload", ua2); f != nil {
		return f, spare, negErr
	}
	// second round on the reloaded account: every key now has a saved state. (a) overwrite each
	// key with a fresh value, (b) delete each key; after each step the keys are read before
	// the save (the pending write must win over the saved value), after it, and at the end
	// after commit and reload. Added after the independent seed C08-2.
	for _, step := range []string{"overwrite", "delete"} {
		for k := range keyBytes {
			var v []byte
			if step == "overwrite" {
				v = []byte(fmt.Sprintf("round2-%d-%s", k, keyNames[k]))
			}
			if err := ua2.DataTrieTracker().SaveKeyValue(append([]byte{}, keyBytes[k]...), append([]byte{}, v...)); err != nil {
				return report("SaveKeyValue-error@round2-"+step, map[string]interface{}{"error": err.Error()}), spare, negErr
			}
			expected[k] = v
		}
		if f := read("round2-"+step+"-of-saved-keys:before-save", ua2); f != nil {
			return f, spare, negErr
		}
		if err := e.adb.SaveAccount(ua2); err != nil {
			return report("SaveAccount-error@round2-"+step, map[string]interface{}{"error": err.Error()}), spare, negErr
		}
		if f := read("round2-"+step+"-of-saved-keys:after-save", ua2); f != nil {
			return f, spare, negErr
		}
	}
	if _, err := e.adb.Commit(); err != nil {
		return report("Commit-error@round2", map[string]interface{}{"error": err.Error()}), spare, negErr
	}
	acc3, err := e.adb.LoadAccount(append([]byte{}, addrS...))
	if err != nil {
		return report("reload-error@round2:"+class, map[string]interface{}{"error": err.Error()}), spare, negErr
	}
	if f := read("round2:after-reload", acc3.(state.UserAccountHandler)); f != nil {
		return f, spare, negErr
	}
	return nil, spare, negErr
}

// ---------------------------------------------------------------- main

func main() {
	_ = logger.SetLogLevel("*:NONE")
	if os.Getenv("GOGC") == "" {
		debug.SetGCPercent(400)
	}
	mc.Main("C08", "exploration", func(c *mc.Ctx) {
		full, mid, small := writeOptions("full"), writeOptions("mid"), writeOptions("small")
		fams := []family{
			{name: "full", n: 1, opts: full, bases: []int{0, 2}},
			{name: "full", n: 2, opts: full, bases: []int{2}},
		}
		if c.Quick() {
			fams = append(fams, family{name: "small", n: 3, opts: small, bases: []int{2}})
			c.Deadline = time.Now().Add(85 * time.Second)
		} else {
			fams = append(fams, family{name: "mid", n: 3, opts: mid, bases: []int{2}},
				family{name: "small", n: 4, opts: small, bases: []int{2}})
			c.Deadline = time.Now().Add(14 * time.Minute)
		}
		c.Rule = "non-trivial = a case in which the caller passes at least one key/value slice carved from its backing array with spare capacity >= what append needs (so that append(value, ...)/append(key, ...) would write into, and return a slice of, the caller's array); key = the sequence of layouts + scribble times. Every case ends with a second round on the reloaded account: overwrite every key with a fresh value, then delete every key, reading all keys before and after each save and after commit + reload (pending writes over saved values)"
		c.Assumptions = []string{
			"one account (32-byte address), keys {a1, b1b2b3}, values of length 0 (delete), 1, 2, 3 and 2+len(key)+32 (tail equals key||address), distinct content per write",
			"the caller owns one 256-byte backing array; carved slices start at base+16*slot (+ length of the first slice + gap for the second); 'scribble' overwrites the whole array and every freshly allocated slice passed so far with 0xEE; a later carved write re-fills its region",
			"alphabets: full = all value kinds x all layouts (capacity kinds exact/short/enough/big, 2 slots, both orders, gap 0/1); mid = values {len3, tail-like}, capacity kinds {enough, big}; small = value len3, capacity big, slot 1 only for a carved value",
			"expected value = copy of the value slice taken immediately before SaveKeyValue (what the caller wrote); reads use a fresh copy of the key",
			"'reads as empty' is judged on the returned value: RetrieveValue of a key whose pending (unsaved) write is a delete returns (nil, ErrNegativeValue); the nil value counts as empty and the occurrences are counted in the evidence; ErrNilTrie (account without data trie) is an empty read; any other error is a violation",
		}
		descr := []string{}
		var total int64
		for _, f := range fams {
			descr = append(descr, fmt.Sprintf("%d write(s) over the %s alphabet (%d write options) x scribble times x %d base offset(s) = %d cases", f.n, f.name, len(f.opts), len(f.bases), f.size()))
			total += f.size()
		}
		c.Set("families", descr)

		if len(c.ReplayData) > 0 {
			var cs caseSpec
			if err := json.Unmarshal(c.ReplayData, &cs); err != nil {
				c.Fatal("bad replay data: %v", err)
			}
			c.Eval(1)
			if f, _, _ := runCase(cs); f != nil {
				c.Violation(f.sig, f.detail, cs)
			}
			return
		}

		type best struct {
			fam   int
			idx   int64
			f     *finding
			cs    caseSpec
			count int64
		}
		var mu sync.Mutex
		found := map[string]*best{}
		completed := 0
		for fi, f := range fams {
			const chunk = 64
			size := f.size()
			nchunks := int((size + chunk - 1) / chunk)
			capped := false
			mc.Par(nchunks, func(ci int) {
				if c.Expired() {
					mu.Lock()
					capped = true
					mu.Unlock()
					return
				}
				var nEval, nSpare, nNeg int64
				for idx := int64(ci) * chunk; idx < size && idx < int64(ci+1)*chunk; idx++ {
					cs := f.decode(idx)
					var fd *finding
					var spare bool
					var neg int64
					if p := mc.Try(func() { fd, spare, neg = runCase(cs) }); p != "" {
						fd = &finding{sig: "panic", detail: map[string]interface{}{"panic": p}}
						for k, v := range cs.describe() {
							fd.detail[k] = v
						}
					}
					nEval++
					nNeg += neg
					if spare {
						nSpare++
						ls := ""
						for i, w := range cs.Writes {
							ls += w.Layout.String()
							if i < len(cs.Between) && cs.Between[i] {
								ls += "!"
							}
							ls += ";"
						}
						c.Nontrivial(fmt.Sprint(ls, cs.Final))
					}
					if fd == nil {
						c.Outcome("reads-back-exactly")
						if spare && c.WantSample() && idx%977 == 0 {
							c.Sample(cs.describe())
						}
						continue
					}
					c.Outcome(fd.sig)
					mu.Lock()
					b := found[fd.sig]
					if b == nil {
						b = &best{fam: fi, idx: idx, f: fd, cs: cs}
						found[fd.sig] = b
					} else if fi < b.fam || (fi == b.fam && idx < b.idx) {
						b.fam, b.idx, b.f, b.cs = fi, idx, fd, cs
					}
					b.count++
					mu.Unlock()
				}
				c.Eval(nEval)
				c.Count("cases_with_spare_capacity_slices", nSpare)
				c.Count("reads_of_a_deleted_unsaved_key_that_returned_ErrNegativeValue_with_empty_value", nNeg)
			})
			if capped {
				c.Cap(fmt.Sprintf("deadline inside family %d (%s, %d writes)", fi, f.name, f.n))
				break
			}
			completed++
		}
		c.Bound = fmt.Sprintf("%d of %d case families completed (%d cases in total when complete): %v", completed, len(fams), total, descr)
		sigs := make([]string, 0, len(found))
		for s := range found {
			sigs = append(sigs, s)
		}
		sort.Strings(sigs)
		for _, s := range sigs {
			b := found[s]
			b.f.detail["cases_with_this_signature"] = b.count
			c.Violation(s, b.f.detail, b.cs)
			for i := int64(1); i < b.count; i++ {
				c.Violation(s, nil, nil)
			}
		}
	})
}
