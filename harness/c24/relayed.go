// C24 part D — a user signature embedded in a relayed transaction cannot be reused for a
// different inner transaction, no matter how often and in which order messages are checked.
//
// Space (all enumerated):
//   - kind: relayed v1 (`relayedTx@<signMarshalizer(inner tx)>`) and relayed v2
//     (`relayedTxV2@receiver@nonce@data@signature`);
//   - genuine inner transaction T: full product of a small per-field alphabet (v2: the 8 fields
//     that a v2 message determines: receiver, nonce, data, sender, gas price, chain id, version,
//     options; v1: all 12 semantic fields), restricted to version/option combinations the
//     version checker admits;
//   - embedded inner transaction T': T itself (positive control) and every transaction that
//     differs from T in exactly one field (every other alphabet value of that field); the
//     embedded user signature is always the one made for T; the relayer (attacker) signs the
//     outer transaction correctly;
//   - check sequences over ONE real interceptors.WhiteListDataVerifier on a real lrucache
//     (F = message embedding T', G = genuine message embedding T), every check on a fresh
//     InterceptedTransaction built from the same bytes:  F F F G F   and   G F F F G.
//
// Verifier: deterministic validating signer: a signature is valid iff it equals
// SHA-256(tag, public key, exact message handed to Verify); wallets sign GetDataForSigning
// bytes, or their keccak hash when version >= 2 and options bit 0 is set.
// Oracle: every check of F with T' != T is rejected (each position of each sequence), every
// check of G (and of F when T' == T) is accepted.
package main

import (
	"bytes"
	"crypto/sha256"
	"encoding/hex"
	"errors"
	"fmt"
	"math/big"

	"github.com/ElrondNetwork/elrond-go/core"
	"github.com/ElrondNetwork/elrond-go/core/versioning"
	"github.com/ElrondNetwork/elrond-go/crypto"
	"github.com/ElrondNetwork/elrond-go/data/transaction"
	"github.com/ElrondNetwork/elrond-go/hashing/blake2b"
	"github.com/ElrondNetwork/elrond-go/hashing/keccak"
	"github.com/ElrondNetwork/elrond-go/marshal"
	"github.com/ElrondNetwork/elrond-go/process"
	"github.com/ElrondNetwork/elrond-go/process/interceptors"
	"github.com/ElrondNetwork/elrond-go/process/mock"
	"github.com/ElrondNetwork/elrond-go/process/smartContract"
	procTx "github.com/ElrondNetwork/elrond-go/process/transaction"
	"github.com/ElrondNetwork/elrond-go/sharding"
	"github.com/ElrondNetwork/elrond-go/storage/lrucache"
	"verif/engine/mc"
)

var relayerAddr = addr(9, 9, 9)

func toySig(pk, msg []byte) []byte {
	h := sha256.New()
	h.Write([]byte("verif-toy-signature"))
	h.Write([]byte{byte(len(pk))})
	h.Write(pk)
	h.Write(msg)
	return h.Sum(nil)
}

type valSigner struct{ calls int }

func (s *valSigner) Sign(crypto.PrivateKey, []byte) ([]byte, error) { return nil, nil }
func (s *valSigner) Verify(pk crypto.PublicKey, msg []byte, sig []byte) error {
	s.calls++
	b, _ := pk.ToByteArray()
	if !bytes.Equal(sig, toySig(b, msg)) {
		return errors.New("toy signature mismatch")
	}
	return nil
}
func (s *valSigner) IsInterfaceNil() bool { return s == nil }

// walletSign is what an honest wallet does for tx with key = tx.SndAddr.
func (r *run) walletSign(tx *transaction.Transaction) []byte {
	b, err := tx.GetDataForSigning(r.conv, r.jsonM)
	if err != nil {
		panic(err)
	}
	if tx.Version > 1 && tx.Options&versioning.MaskSignedWithHash != 0 {
		b = keccak.NewKeccak().Compute(string(b))
	}
	return toySig(tx.SndAddr, b)
}

type relayKind int

const (
	relV1 relayKind = iota
	relV2
)

func (k relayKind) String() string { return [...]string{"relayedTx(v1)", "relayedTxV2"}[k] }

// fields an inner transaction of this kind can vary in
func (k relayKind) fields() []int {
	if k == relV2 {
		return []int{fReceiver, fNonce, fData, fSender, fGasPrice, fChainID, fVersion, fOptions}
	}
	return []int{fNonce, fValue, fSender, fReceiver, fSndUser, fRcvUser, fGasPrice, fGasLimit, fData, fChainID, fVersion, fOptions}
}

// message builds the relayer-signed outer transaction embedding inner tx `emb` with the user
// signature `userSig`.
func (r *run) message(k relayKind, emb *transaction.Transaction, userSig []byte) *transaction.Transaction {
	outer := &transaction.Transaction{
		Nonce:    5,
		Value:    big.NewInt(0),
		RcvAddr:  append([]byte(nil), emb.SndAddr...),
		SndAddr:  append([]byte(nil), relayerAddr...),
		GasPrice: emb.GasPrice,
		GasLimit: 1,
		ChainID:  append([]byte(nil), emb.ChainID...),
		Version:  1,
	}
	if k == relV2 {
		outer.Version, outer.Options = emb.Version, emb.Options
		outer.Data = []byte(core.RelayedTransactionV2 +
			"@" + hex.EncodeToString(emb.RcvAddr) +
			"@" + hex.EncodeToString(new(big.Int).SetUint64(emb.Nonce).Bytes()) +
			"@" + hex.EncodeToString(emb.Data) +
			"@" + hex.EncodeToString(userSig))
	} else {
		in := *emb
		in.Signature = userSig
		b, err := r.jsonM.Marshal(&in)
		if err != nil {
			panic(err)
		}
		outer.Data = []byte(core.RelayedTransaction + "@" + hex.EncodeToString(b))
	}
	outer.Signature = r.walletSign(outer)
	return outer
}

type relayEnv struct {
	protoM marshal.Marshalizer
	coord  sharding.Coordinator
}

// check runs CheckValidity on a fresh InterceptedTransaction for the message bytes.
func (r *run) check(e *relayEnv, wl process.WhiteListHandler, buff []byte, chainID []byte) (accepted bool, verifyCalls int, errText string) {
	signer := &valSigner{}
	keyGen := &mock.SingleSignKeyGenMock{PublicKeyFromByteArrayCalled: func(b []byte) (crypto.PublicKey, error) {
		return &pubKey{b: b}, nil
	}}
	inTx, err := procTx.NewInterceptedTransaction(buff, e.protoM, r.jsonM, blake2b.NewBlake2b(), keyGen, signer, r.conv, e.coord,
		&mock.FeeHandlerStub{}, wl, smartContract.NewArgumentParser(), chainID, true, keccak.NewKeccak(), versioning.NewTxVersionChecker(1))
	if err != nil {
		return false, 0, "constructor: " + err.Error()
	}
	err = inTx.CheckValidity()
	if err != nil {
		return false, signer.calls, err.Error()
	}
	return true, signer.calls, ""
}

type relViol struct {
	sig    string
	detail map[string]interface{}
}

func (r *run) partD(c *mc.Ctx) {
	e := &relayEnv{protoM: &marshal.GogoProtoMarshalizer{}}
	e.coord, _ = sharding.NewMultiShardCoordinator(1, 0)
	verChk := versioning.NewTxVersionChecker(1)
	parser := smartContract.NewArgumentParser()
	thorough := !c.Quick()

	for _, kind := range []relayKind{relV2, relV1} {
		fields := kind.fields()
		radix := map[int]int{}
		total := 1
		for _, f := range fields {
			radix[f] = 3
			if f == fVersion || f == fOptions {
				radix[f] = 2
			}
			if kind == relV1 && !(thorough && (f == fNonce || f == fReceiver || f == fData || f == fChainID || f == fSender || f == fGasPrice)) {
				radix[f] = 2
			}
			total *= radix[f]
		}
		digitsOf := func(idx int) [nFields]int {
			var d [nFields]int
			for i := len(fields) - 1; i >= 0; i-- {
				f := fields[i]
				d[f] = idx % radix[f]
				idx /= radix[f]
			}
			return d
		}
		viols := make([][]relViol, total)
		type stat struct{ genuine, skipped, forgedMsgs, controls, checks, innerExamined int64 }
		stats := make([]stat, total)
		kind := kind
		mc.Par(total, func(ti int) {
			st := &stats[ti]
			dT := digitsOf(ti)
			T := build(dT)
			T.Signature = nil
			if verChk.CheckTxVersion(T) != nil {
				st.skipped++ // the version checker refuses this version/options pair: no genuine tx exists
				return
			}
			st.genuine++
			userSig := r.walletSign(T)
			gMsg := r.message(kind, T, userSig)
			gBuff, _ := e.protoM.Marshal(gMsg)
			// harness sanity: the real parser must recognise the genuine message as relayed
			fn, args, perr := parser.ParseCallData(string(gMsg.Data))
			want := map[relayKind]string{relV1: core.RelayedTransaction, relV2: core.RelayedTransactionV2}[kind]
			if perr != nil || fn != want || (kind == relV2 && len(args) != 4) || (kind == relV1 && len(args) != 1) {
				viols[ti] = append(viols[ti], relViol{"HARNESS:message-not-recognised-as-relayed", map[string]interface{}{"kind": kind.String(), "data": string(gMsg.Data), "err": fmt.Sprint(perr)}})
				return
			}
			type variant struct {
				field int // -1 = control
				d     [nFields]int
			}
			vars := []variant{{-1, dT}}
			for _, f := range fields {
				for v := 0; v < radix[f]; v++ {
					if v != dT[f] {
						d2 := dT
						d2[f] = v
						vars = append(vars, variant{f, d2})
					}
				}
			}
			for _, va := range vars {
				Tp := build(va.d)
				Tp.Signature = nil
				fMsg := r.message(kind, Tp, userSig)
				fBuff, _ := e.protoM.Marshal(fMsg)
				forged := va.field >= 0
				if forged {
					st.forgedMsgs++
				} else {
					st.controls++
				}
				for _, seq := range []string{"FFFGF", "GFFFG"} {
					cache, err := lrucache.NewCache(64)
					if err != nil {
						panic(err)
					}
					wl, err := interceptors.NewWhiteListDataVerifier(cache)
					if err != nil {
						panic(err)
					}
					nF := 0
					for pos, step := range seq {
						buff, chain, isF := gBuff, gMsg.ChainID, false
						if step == 'F' {
							buff, chain, isF = fBuff, fMsg.ChainID, true
							nF++
						}
						var ok bool
						var calls int
						var why string
						if p := mc.Try(func() { ok, calls, why = r.check(e, wl, buff, chain) }); p != "" {
							viols[ti] = append(viols[ti], relViol{kind.String() + ":CheckValidity-panics", map[string]interface{}{"signed_inner_tx": describe(dT), "embedded_inner_tx": describe(va.d), "panic": p}})
							continue
						}
						st.checks++
						if isF && forged && pos == 0 && calls >= 2 {
							st.innerExamined++
						}
						det := func() map[string]interface{} {
							m := map[string]interface{}{"kind": kind.String(), "sequence": seq, "position_in_sequence": pos + 1, "check_number_of_this_message": nF,
								"signed_inner_tx": describe(dT), "embedded_inner_tx": describe(va.d), "outer_data": string(fMsg.Data), "verify_calls_in_this_check": calls}
							if forged {
								m["differing_field"] = fieldNames[va.field]
							}
							if why != "" {
								m["err"] = why
							}
							return m
						}
						switch {
						case isF && forged && ok:
							when := "on-first-check"
							if nF > 1 || pos > 0 {
								when = "on-repeated-or-interleaved-check"
							}
							viols[ti] = append(viols[ti], relViol{kind.String() + ":user-signature-accepted-for-different-inner-tx:" + when, det()})
						case (!isF || !forged) && !ok:
							viols[ti] = append(viols[ti], relViol{kind.String() + ":genuine-relayed-tx-rejected", det()})
						}
					}
				}
			}
		})
		var tot stat
		for i := range stats {
			s := stats[i]
			tot.genuine += s.genuine
			tot.skipped += s.skipped
			tot.forgedMsgs += s.forgedMsgs
			tot.controls += s.controls
			tot.checks += s.checks
			tot.innerExamined += s.innerExamined
		}
		for i := range viols {
			for _, v := range viols[i] {
				if v.sig[:7] == "HARNESS" {
					c.Fatal("part D: %s %v", v.sig, v.detail)
				}
				c.Violation(v.sig, v.detail, v.detail)
			}
		}
		p := "partD_" + kind.String() + "_"
		c.Count(p+"genuine_inner_txs", tot.genuine)
		c.Count(p+"version_option_pairs_without_genuine_tx", tot.skipped)
		c.Count(p+"messages_with_foreign_signature(T'!=T)", tot.forgedMsgs)
		c.Count(p+"control_messages(T'==T)", tot.controls)
		c.Count(p+"CheckValidity_calls", tot.checks)
		c.Count(p+"first_checks_where_inner_signature_was_examined", tot.innerExamined)
		c.Eval(tot.checks)
		if tot.forgedMsgs == 0 || tot.controls == 0 {
			c.Fatal("part D vacuous for %s", kind)
		}
		for _, f := range fields {
			c.Nontrivial(fmt.Sprint("partD ", kind, " ", fieldNames[f]))
		}
		c.Outcome("partD " + kind.String())
		rd := []string{}
		for _, f := range fields {
			rd = append(rd, fmt.Sprintf("%s:%d", fieldNames[f], radix[f]))
		}
		c.Set(p+"alphabet_sizes", rd)
	}
}
