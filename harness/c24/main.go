// C24 — a transaction signature covers every semantic field.
//
// Exhaustive enumeration of the full product of a per-field value alphabet (12 semantic
// fields: nonce, value, sender, receiver, sender/receiver user name, gas price, gas limit,
// data, chain id, version, options) on the real code:
//
//	(A) Transaction.GetDataForSigning with the real bech32 converter (32 bytes) and the real
//	    marshal.TxJsonMarshalizer: the map  signing bytes -> field tuple  must be injective
//	    over the whole product, and a second call must return identical bytes;
//	(B) the bytes that are really handed to the signature verifier: every tuple is
//	    proto-marshalled, wrapped by the real process/transaction.NewInterceptedTransaction
//	    (real version checker, real keccak tx-sign hasher, sign-with-hash enabled) and
//	    CheckValidity is called with a recording SingleSigner; over all tuples that reach
//	    Verify the map  verified message -> field tuple  must be injective (this covers the
//	    plain path and the hash-signing path together);
//	(C) nil and empty byte slices (data, user names) are the same semantic value and must
//	    give identical signing bytes;
//	(D) relayed v1/v2 messages whose embedded inner transaction differs from the one the user
//	    signed are rejected on every check of every enumerated check sequence over a shared
//	    real verified-transactions white list (relayed.go).
//
// Comparison is done on 128-bit SHA-256 prefixes of the byte strings stored per tuple; every
// digest match is confirmed on the real byte strings before it is reported, and equal byte
// strings always have equal digests, so the check is exact (no false alarm, no miss).
package main

import (
	"bytes"
	"crypto/sha256"
	"fmt"
	"math"
	"math/big"
	"sort"

	"github.com/ElrondNetwork/elrond-go/core/pubkeyConverter"
	"github.com/ElrondNetwork/elrond-go/core/versioning"
	"github.com/ElrondNetwork/elrond-go/crypto"
	"github.com/ElrondNetwork/elrond-go/data/transaction"
	"github.com/ElrondNetwork/elrond-go/hashing/blake2b"
	"github.com/ElrondNetwork/elrond-go/hashing/keccak"
	"github.com/ElrondNetwork/elrond-go/marshal"
	"github.com/ElrondNetwork/elrond-go/process/mock"
	"github.com/ElrondNetwork/elrond-go/process/smartContract"
	procTx "github.com/ElrondNetwork/elrond-go/process/transaction"
	"github.com/ElrondNetwork/elrond-go/sharding"
	"github.com/ElrondNetwork/elrond-go/testscommon"
	"verif/engine/mc"
)

// ---- alphabet ----
const (
	fNonce = iota
	fValue
	fSender
	fReceiver
	fSndUser
	fRcvUser
	fGasPrice
	fGasLimit
	fData
	fChainID
	fVersion
	fOptions
	nFields
)

var fieldNames = [nFields]string{"nonce", "value", "sender", "receiver", "senderUsername", "receiverUsername", "gasPrice", "gasLimit", "data", "chainID", "version", "options"}

func addr(first, fill, last byte) []byte {
	a := bytes.Repeat([]byte{fill}, 32)
	a[0], a[31] = first, last
	return a
}

var (
	u64s    = []uint64{0, 1, math.MaxUint64}
	values  = []*big.Int{big.NewInt(0), big.NewInt(1), new(big.Int).Exp(big.NewInt(10), big.NewInt(30), nil)}
	addrs   = [][]byte{addr(1, 1, 1), addr(1, 1, 2), addr(2, 1, 1), make([]byte, 32)}
	names   = [][]byte{nil, []byte("a"), []byte("b"), []byte("YQ==")}      // "YQ==" is base64("a")
	datas   = [][]byte{nil, []byte("a"), []byte("a@b"), []byte("YQ==")}    //
	chains  = []string{"1", "T", "10", `1","version":2,"options":1,"x":"`} // 4th: JSON-injection shaped
	vers    = []uint32{1, 2, math.MaxUint32, 0}                            //
	options = []uint32{0, 1, math.MaxUint32, 2}                            //
	wide    = map[int]bool{fSender: true, fReceiver: true, fSndUser: true, fRcvUser: true, fData: true, fChainID: true, fVersion: true, fOptions: true}
)

type space struct {
	radix [nFields]int
	n     int
}

func newSpace(thorough bool) *space {
	s := &space{n: 1}
	for f := 0; f < nFields; f++ {
		s.radix[f] = 3
		if thorough && wide[f] {
			s.radix[f] = 4
		}
		s.n *= s.radix[f]
	}
	return s
}

// digits: field 0 is the most significant digit, so index 0 = all first values.
func (s *space) digits(idx int) [nFields]int {
	var d [nFields]int
	for f := nFields - 1; f >= 0; f-- {
		d[f] = idx % s.radix[f]
		idx /= s.radix[f]
	}
	return d
}

func (s *space) index(d [nFields]int) int {
	idx := 0
	for f := 0; f < nFields; f++ {
		idx = idx*s.radix[f] + d[f]
	}
	return idx
}

func build(d [nFields]int) *transaction.Transaction {
	return &transaction.Transaction{
		Nonce:       u64s[d[fNonce]],
		Value:       new(big.Int).Set(values[d[fValue]]),
		SndAddr:     append([]byte(nil), addrs[d[fSender]]...),
		RcvAddr:     append([]byte(nil), addrs[d[fReceiver]]...),
		SndUserName: append([]byte(nil), names[d[fSndUser]]...),
		RcvUserName: append([]byte(nil), names[d[fRcvUser]]...),
		GasPrice:    u64s[d[fGasPrice]],
		GasLimit:    u64s[d[fGasLimit]],
		Data:        append([]byte(nil), datas[d[fData]]...),
		ChainID:     []byte(chains[d[fChainID]]),
		Version:     vers[d[fVersion]],
		Options:     options[d[fOptions]],
		Signature:   []byte("signature"),
	}
}

func describe(d [nFields]int) map[string]interface{} {
	t := build(d)
	return map[string]interface{}{
		"nonce": fmt.Sprint(t.Nonce), "value": t.Value.String(), "sender": mc.Hex(t.SndAddr), "receiver": mc.Hex(t.RcvAddr),
		"senderUsername": string(t.SndUserName), "receiverUsername": string(t.RcvUserName),
		"gasPrice": fmt.Sprint(t.GasPrice), "gasLimit": fmt.Sprint(t.GasLimit), "data": string(t.Data),
		"chainID": string(t.ChainID), "version": t.Version, "options": t.Options,
	}
}

// ---- recording verifier (part B) ----
type pubKey struct{ b []byte }

func (p *pubKey) ToByteArray() ([]byte, error) { return p.b, nil }
func (p *pubKey) Suite() crypto.Suite          { return nil }
func (p *pubKey) Point() crypto.Point          { return nil }
func (p *pubKey) IsInterfaceNil() bool         { return p == nil }

type recSigner struct {
	calls int
	msg   []byte
}

func (s *recSigner) Sign(crypto.PrivateKey, []byte) ([]byte, error) { return nil, nil }
func (s *recSigner) Verify(_ crypto.PublicKey, msg []byte, _ []byte) error {
	s.calls++
	s.msg = append([]byte(nil), msg...)
	return nil // the signature is "valid" for exactly these bytes
}
func (s *recSigner) IsInterfaceNil() bool { return s == nil }

type convIface interface {
	Encode(pkBytes []byte) string
	Decode(humanReadable string) ([]byte, error)
	Len() int
	IsInterfaceNil() bool
}

func dig(b []byte) [16]byte {
	h := sha256.Sum256(b)
	var r [16]byte
	copy(r[:], h[:16])
	return r
}

type run struct {
	c     *mc.Ctx
	sp    *space
	conv  convIface
	jsonM *marshal.TxJsonMarshalizer
}

func (r *run) signingBytes(d [nFields]int) ([]byte, error) {
	return build(d).GetDataForSigning(r.conv, r.jsonM)
}

// verifiedBytes wraps the tuple into a real InterceptedTransaction and returns the message
// handed to SingleSigner.Verify by CheckValidity ("" + error text if it is rejected earlier).
func (r *run) verifiedBytes(d [nFields]int, protoM marshal.Marshalizer, coord sharding.Coordinator) ([]byte, string) {
	tx := build(d)
	buff, err := protoM.Marshal(tx)
	if err != nil {
		return nil, "proto marshal: " + err.Error()
	}
	signer := &recSigner{}
	keyGen := &mock.SingleSignKeyGenMock{PublicKeyFromByteArrayCalled: func(b []byte) (crypto.PublicKey, error) {
		return &pubKey{b: b}, nil
	}}
	inTx, err := procTx.NewInterceptedTransaction(buff, protoM, r.jsonM, blake2b.NewBlake2b(), keyGen, signer, r.conv, coord,
		&mock.FeeHandlerStub{}, &testscommon.WhiteListHandlerStub{}, smartContract.NewArgumentParser(),
		[]byte(chains[d[fChainID]]), true, keccak.NewKeccak(), versioning.NewTxVersionChecker(1))
	if err != nil {
		return nil, "constructor: " + err.Error()
	}
	err = inTx.CheckValidity()
	if err != nil {
		return nil, err.Error()
	}
	if signer.calls != 1 {
		return nil, fmt.Sprintf("accepted with %d Verify calls", signer.calls)
	}
	return signer.msg, ""
}

func main() {
	mc.Main("C24", "exploration", func(c *mc.Ctx) {
		sp := newSpace(!c.Quick())
		conv, err := pubkeyConverter.NewBech32PubkeyConverter(32)
		if err != nil {
			c.Fatal("converter: %v", err)
		}
		r := &run{c: c, sp: sp, conv: conv, jsonM: &marshal.TxJsonMarshalizer{}}
		alpha := map[string]interface{}{}
		for f := 0; f < nFields; f++ {
			d0 := [nFields]int{}
			vals := []interface{}{}
			for v := 0; v < sp.radix[f]; v++ {
				d0[f] = v
				vals = append(vals, describe(d0)[fieldNames[f]])
			}
			alpha[fieldNames[f]] = vals
		}
		c.Set("alphabet", alpha)
		c.Rule = fmt.Sprintf("full product of per-field alphabets (sizes %v in field order %v) = %d transactions; (A) GetDataForSigning(real bech32/32, real TxJsonMarshalizer) called twice on each, (B) each wrapped in the real InterceptedTransaction and CheckValidity run with a recording verifier (sign-with-hash enabled, keccak, min version 1); injectivity of bytes->tuple over the whole product for A and over all tuples reaching Verify for B. (D) relayed v1 and v2 messages: genuine inner tx T from the full product of a 2..3-value alphabet over the fields the message determines (sizes in partD_*_alphabet_sizes), embedded inner tx T' = T (control) or T with exactly one field changed (every other value), user signature always made for T, relayer signature valid; check sequences F F F G F and G F F F G (F embeds T', G embeds T) on fresh InterceptedTransaction objects sharing one real WhiteListDataVerifier over a real LRU cache, validating deterministic signer: every check of F with T' != T must be rejected, every genuine one accepted. Non-trivial = a (field, value, other value) class: pairs of transactions differing in exactly that field with these two values, each compared directly; for D a (kind, differing field) class.", sp.radix, fieldNames, sp.n)
		c.Bound = fmt.Sprintf("complete product, %d transactions", sp.n)
		c.Assumptions = []string{
			"nil and empty byte slices are the same semantic value (checked separately in part C), so the alphabet has only one of them",
			"chain ids and user names/data in the alphabet are valid UTF-8 / arbitrary bytes resp.; invalid UTF-8 chain ids (mapped to U+FFFD by encoding/json) are outside the alphabet",
			"sender/receiver are 32-byte addresses (the configured length); wrong-length addresses encode to the empty string and are rejected by the interceptor's length check, not enumerated here",
			"part D: the signature scheme is a deterministic stand-in (valid iff equal to SHA-256(tag, public key, exact verified message)); only sequences of length 5 over one message F and the genuine G are enumerated, cache never evicts (capacity 64); recursive relayed and malformed relayed payloads are not enumerated",
			"part B uses stub key generator/fee handler/white list (accept everything) and a real version checker; collision resistance of keccak-256 is what makes the hash path injective",
		}
		c.Exhaustive = true

		n := sp.n
		digA := make([][16]byte, n)
		digB := make([][16]byte, n)
		okB := make([]uint8, n) // 0 = rejected before Verify, 1 = plain path, 2 = hash path
		protoM := &marshal.GogoProtoMarshalizer{}
		coord, _ := sharding.NewMultiShardCoordinator(1, 0)

		type early struct {
			sig    string
			idx    int
			detail map[string]interface{}
		}
		chunks := 512
		earlies := make([][]early, chunks)
		rejects := make([]map[string]int64, chunks)
		mc.Par(chunks, func(ch int) {
			rej := map[string]int64{}
			for idx := ch * n / chunks; idx < (ch+1)*n/chunks; idx++ {
				d := sp.digits(idx)
				var b1, b2 []byte
				var e1, e2 error
				if p := mc.Try(func() { b1, e1 = r.signingBytes(d); b2, e2 = r.signingBytes(d) }); p != "" {
					earlies[ch] = append(earlies[ch], early{"GetDataForSigning:panic", idx, map[string]interface{}{"tx": describe(d), "panic": p}})
					continue
				}
				if e1 != nil || e2 != nil {
					earlies[ch] = append(earlies[ch], early{"GetDataForSigning:error", idx, map[string]interface{}{"tx": describe(d), "err": fmt.Sprint(e1, e2)}})
					continue
				}
				if !bytes.Equal(b1, b2) {
					earlies[ch] = append(earlies[ch], early{"GetDataForSigning:second-call-differs", idx, map[string]interface{}{"tx": describe(d), "first": string(b1), "second": string(b2)}})
				}
				digA[idx] = dig(b1)
				var msg []byte
				var why string
				if p := mc.Try(func() { msg, why = r.verifiedBytes(d, protoM, coord) }); p != "" {
					earlies[ch] = append(earlies[ch], early{"InterceptedTransaction:panic", idx, map[string]interface{}{"tx": describe(d), "panic": p}})
					continue
				}
				if why != "" {
					rej[why]++
					continue
				}
				digB[idx] = dig(msg)
				okB[idx] = 1
				if !bytes.Equal(msg, b1) {
					okB[idx] = 2
				}
			}
			rejects[ch] = rej
		})
		c.Eval(int64(2 * n))
		c.Count("partA_transactions", int64(n))
		for ch := range earlies {
			for _, e := range earlies[ch] {
				c.Violation(e.sig, e.detail, e.detail)
			}
		}
		rejTotal := map[string]int64{}
		for _, m := range rejects {
			for k, v := range m {
				rejTotal[k] += v
			}
		}
		var nPlain, nHash int64
		for _, v := range okB {
			if v == 1 {
				nPlain++
			} else if v == 2 {
				nHash++
			}
		}
		c.Count("partB_reached_Verify_plain_bytes", nPlain)
		c.Count("partB_reached_Verify_hashed_bytes", nHash)
		c.Outcome("verify:plain")
		if nHash > 0 {
			c.Outcome("verify:hash")
		}
		for k, v := range rejTotal {
			c.Count("partB_rejected_before_Verify: "+k, v)
			c.Outcome("rejected: " + k)
		}
		if nPlain == 0 || nHash == 0 {
			c.Fatal("part B vacuous: plain=%d hash=%d rejects=%v", nPlain, nHash, rejTotal)
		}

		// confirm a digest match on the real bytes
		sameA := func(i, j int) (bool, string) {
			a, _ := r.signingBytes(sp.digits(i))
			b, _ := r.signingBytes(sp.digits(j))
			return bytes.Equal(a, b), string(a)
		}
		sameB := func(i, j int) (bool, string) {
			a, _ := r.verifiedBytes(sp.digits(i), protoM, coord)
			b, _ := r.verifiedBytes(sp.digits(j), protoM, coord)
			if okB[i] == 2 {
				return bytes.Equal(a, b), "hash " + mc.Hex(a)
			}
			return bytes.Equal(a, b), string(a)
		}

		// on a broken tree every tuple collides: confirm (recompute) at most 2000 witnesses per
		// signature so that the run stays short; the reported count is then a lower bound
		confirmed := map[string]int{}
		more := func(sig string) bool {
			confirmed[sig]++
			return confirmed[sig] <= 2000
		}

		// step 2: every pair differing in exactly one field, compared directly (index order =
		// simplest first, sequential, so the first witness per signature is the smallest)
		var pairsA, pairsB int64
		for idx := 0; idx < n; idx++ {
			d := sp.digits(idx)
			for f := 0; f < nFields; f++ {
				for v := d[f] + 1; v < sp.radix[f]; v++ {
					d2 := d
					d2[f] = v
					j := sp.index(d2)
					pairsA++
					if sig := "GetDataForSigning:field-not-covered:" + fieldNames[f]; digA[idx] == digA[j] && more(sig) {
						if same, s := sameA(idx, j); same {
							det := map[string]interface{}{"field": fieldNames[f], "tx1": describe(d), "tx2": describe(d2), "signing_bytes_of_both": s}
							c.Violation("GetDataForSigning:field-not-covered:"+fieldNames[f], det, det)
						}
					}
					if okB[idx] != 0 && okB[j] != 0 {
						pairsB++
						if sig := "verifySig:field-not-covered:" + fieldNames[f]; digB[idx] == digB[j] && more(sig) {
							if same, s := sameB(idx, j); same {
								det := map[string]interface{}{"field": fieldNames[f], "tx1": describe(d), "tx2": describe(d2), "verified_message_of_both": s}
								c.Violation("verifySig:field-not-covered:"+fieldNames[f], det, det)
							}
						}
					}
				}
			}
		}
		for f := 0; f < nFields; f++ {
			for v := 0; v < sp.radix[f]; v++ {
				for w := v + 1; w < sp.radix[f]; w++ {
					c.Nontrivial(fmt.Sprint(fieldNames[f], v, w))
				}
			}
		}
		c.Eval(pairsA + pairsB)
		c.Count("single_field_pairs_compared_A", pairsA)
		c.Count("single_field_pairs_compared_B", pairsB)

		// step 3: global injectivity (pairs differing in >= 2 fields)
		global := func(name string, digs [][16]byte, use func(i int) bool, same func(i, j int) (bool, string)) int {
			order := make([]int32, 0, n)
			for i := 0; i < n; i++ {
				if use(i) {
					order = append(order, int32(i))
				}
			}
			sort.Slice(order, func(a, b int) bool {
				x, y := digs[order[a]], digs[order[b]]
				if c := bytes.Compare(x[:], y[:]); c != 0 {
					return c < 0
				}
				return order[a] < order[b]
			})
			distinct := 0
			for s := 0; s < len(order); {
				e := s + 1
				for e < len(order) && digs[order[e]] == digs[order[s]] {
					e++
				}
				distinct++
				for k := s + 1; k < e; k++ {
					i, j := int(order[s]), int(order[k])
					di, dj := sp.digits(i), sp.digits(j)
					diff := []string{}
					for f := 0; f < nFields; f++ {
						if di[f] != dj[f] {
							diff = append(diff, fieldNames[f])
						}
					}
					if len(diff) < 2 {
						continue // reported per field above
					}
					if !more(name + ":distinct-transactions-same-bytes") {
						continue
					}
					if ok, s := same(i, j); ok {
						det := map[string]interface{}{"differing_fields": diff, "tx1": describe(di), "tx2": describe(dj), "bytes_of_both": s}
						c.Violation(name+":distinct-transactions-same-bytes", det, det)
					}
				}
				s = e
			}
			return distinct
		}
		da := global("GetDataForSigning", digA, func(int) bool { return true }, sameA)
		db := global("verifySig", digB, func(i int) bool { return okB[i] != 0 }, sameB)
		c.Set("distinct_signing_byte_strings", da)
		c.Set("distinct_verified_messages", db)
		c.Eval(int64(n) + nPlain + nHash)

		// part C: nil vs empty
		base := [nFields]int{}
		for mask := 0; mask < 8; mask++ {
			t1, t2 := build(base), build(base)
			t1.Data, t1.SndUserName, t1.RcvUserName = nil, nil, nil
			t2.Data, t2.SndUserName, t2.RcvUserName = nil, nil, nil
			if mask&1 != 0 {
				t2.Data = []byte{}
			}
			if mask&2 != 0 {
				t2.SndUserName = []byte{}
			}
			if mask&4 != 0 {
				t2.RcvUserName = []byte{}
			}
			b1, _ := t1.GetDataForSigning(conv, r.jsonM)
			b2, _ := t2.GetDataForSigning(conv, r.jsonM)
			c.Eval(1)
			if !bytes.Equal(b1, b2) {
				det := map[string]interface{}{"empty_instead_of_nil_mask(data,sndUser,rcvUser)": mask, "nil": string(b1), "empty": string(b2)}
				c.Violation("GetDataForSigning:nil-and-empty-differ", det, det)
			}
		}

		// part D: relayed transactions (see relayed.go)
		r.partD(c)

		for _, idx := range []int{0, n / 2, n - 1} {
			b, _ := r.signingBytes(sp.digits(idx))
			c.Sample(map[string]interface{}{"index": idx, "signing_bytes": string(b), "verify_path": []string{"rejected-before-verify", "plain", "hash"}[okB[idx]]})
		}
	})
}
