// Harness c35 — C35: end-of-epoch rewards distribute exactly the computed amount.
//
// Seam: the REAL epochStart/metachain.NewRewardsCreatorV2 and NewRewardsCreator (V1),
// CreateRewardsMiniBlocks, fed by the REAL NewEpochEconomicsStatistics, a real 2-shard
// coordinator (self = metachain), real bech32 converter, real hasher/marshalizer, in-memory
// storers; stubs: staking-data provider (top-ups), rewards handler (top-up factor / gradient
// point), nodes-config provider (consensus sizes 3 / 4), accounts (one metachain address is a
// system delegation SC, another is not).
//
// Space (exhaustive products, see c.Bound): validator sets x economics settings, filtered to
// the inputs that are *consistent* (the property quantifies over economics values consistent
// with the block counts): per shard sum(NumSelectedInSuccessBlocks) <= blocks*consensusSize,
// each NumSelectedInSuccessBlocks <= blocks of the shard, leader fees >= sum of the validators'
// accumulated fees; for V1: RewardsPerBlock = floor(rewardsForBlocks / numberOfBlocks),
// TotalToDistribute = rewardsForBlocks + leaderFees + protocolSustainability + developerFees.
//
// Oracle (per created set of reward miniblocks, transactions read through GetLocalTxCache):
//   - sum of all reward tx values == rewardsForBlocks + leaderFees + protocolSustainability
//     (V2: economics statistics + computed economics; V1: TotalToDistribute - DevFeesInEpoch);
//   - every tx value > 0;
//   - every receiver is a shard address, or a metachain address that is a system delegation
//     SC while the delegation flag is on;
//   - exactly one tx goes to the protocol sustainability address, its value equals
//     GetProtocolSustainabilityRewards() and is >= the configured protocol reward (it receives
//     the remainders, it never pays for them).
//
// Economics-to-rewards phase (added after an independently seeded defect in
// ComputeEndOfEpochEconomics was missed by the hand-set economics above): the REAL
// NewEndOfEpochEconomicsDataCreator.ComputeEndOfEpochEconomics (previous epoch-start block from
// a storer stub, as economics_test.go wires it) publishes into the SAME EpochEconomicsStatistics
// instance rewardsCreatorV2 reads; the produced economics are stored in the meta block like
// metaProcessor does and the creator that rewardsCreatorProxy would pick (V2 iff epoch >
// StakingV2EnableEpoch) runs on it. Product: round/block patterns x inflation {0.1, 0} x
// accumulated fees {0, T/2, T-1, T, T+1, 2T+12345, T+10^18 (, 10^15, 10T)} where T is the
// inflation-based total read off the real component x developer fees {0, 10%, 30% of the fees}
// x staking V2 on/off x epoch flags x top-up curve x validator sets. Oracle (the statement):
// sum of reward txs == produced EpochStart.Economics.TotalToDistribute - DevFeesInEpoch
// (developer fees are paid by the SC processor, never by reward txs), every value > 0, plus the
// receiver/getter checks. Signatures of this phase carry the prefix "economics-to-rewards:"
// (except the registered V1 known finding, which keeps its one signature in both phases).
//
// Findings on the unchanged tree (both outside the design's expectation "holds"):
//  1. V1 (rewardsCreator): the block reward of a validator classified offline is added to the
//     protocol sustainability tx in computeValidatorInfoPerRewardAddress but not to
//     accumulatedRewards, so the final "difference" adjustment gives it to the protocol a second
//     time: sum of reward txs = amount to distribute + offline validators' block rewards.
//  2. V1 and V2: when nothing is left for the protocol sustainability address (configured
//     reward 0 and no remainders, e.g. an epoch with nothing to distribute) a zero-value reward
//     tx to that address is still created.
//
// /verif/fixes/C35.diff repairs both (package tests pass).
//  3. (found by the economics-to-rewards phase) V2 computeTopUpRewards evaluates (2k/pi)*atan(x/p)
//     in 53-bit floats (big.NewFloat(0) has precision 53): with top-up factor 1 (k = rewards for
//     blocks) and a saturated atan the result can exceed k, e.g. total 4566210045662101302 ->
//     4566210045662102016; base rewards become negative, the negative dust is refused and the
//     reward txs add up to MORE than the amount to distribute. /verif/fixes/C35-topup-cap.diff.
package main

import (
	"bytes"
	"encoding/json"
	"flag"
	"fmt"
	"math/big"
	"os"
	"runtime/debug"
	"runtime/pprof"
	"sort"
	"strings"
	"sync"
	"time"

	logger "github.com/ElrondNetwork/elrond-go-logger"
	"github.com/ElrondNetwork/elrond-go/core"
	"github.com/ElrondNetwork/elrond-go/core/pubkeyConverter"
	"github.com/ElrondNetwork/elrond-go/data/block"
	"github.com/ElrondNetwork/elrond-go/data/rewardTx"
	"github.com/ElrondNetwork/elrond-go/data/state"
	"github.com/ElrondNetwork/elrond-go/dataRetriever"
	"github.com/ElrondNetwork/elrond-go/epochStart"
	"github.com/ElrondNetwork/elrond-go/epochStart/metachain"
	esmock "github.com/ElrondNetwork/elrond-go/epochStart/mock"
	"github.com/ElrondNetwork/elrond-go/hashing/blake2b"
	"github.com/ElrondNetwork/elrond-go/marshal"
	"github.com/ElrondNetwork/elrond-go/process"
	"github.com/ElrondNetwork/elrond-go/sharding"
	"github.com/ElrondNetwork/elrond-go/storage"
	"github.com/ElrondNetwork/elrond-go/testscommon"
	"github.com/ElrondNetwork/elrond-go/testscommon/economicsmocks"
	"github.com/ElrondNetwork/elrond-go/testscommon/genericMocks"
	vmcommon "github.com/ElrondNetwork/elrond-vm-common"
	"verif/engine/mc"
)

// ---------------------------------------------------------------- fixed parameters

const (
	consensusShard = 3
	consensusMeta  = 4
	delegEpoch     = 10 // DelegationSystemSCEnableEpoch; meta block epoch 5 (off) / 15 (on)
	fix1Epoch      = 10 // RewardsFix1EpochEnable of the V1 creator: epoch 15 > 10 on; epoch 5 off
	devFees        = 11 // DevFeesInEpoch (V1 subtracts it from TotalToDistribute)

	genesisSupply = "20000000000000000000000000" // 20M * 10^18
	roundSeconds  = 4                            // economics-to-rewards phase: 21600 rounds per day
)

var (
	groupShard = []uint32{0, 1, core.MetachainShardId}
	groupName  = []string{"shard0", "shard1", "meta"}

	protocolAddr = addr(0xEE, 0x00) // shard 0
	sharedAddr   = addr(0x5A, 0x00) // shard 0
	metaPlain    = metaAddr(0xD1)   // metachain address without delegation data
	metaDeleg    = metaAddr(0xD2)   // metachain system delegation SC
)

func addr(first, last byte) []byte {
	a := bytes.Repeat([]byte{first}, 32)
	a[31] = last
	return a
}

func metaAddr(tag byte) []byte {
	// bytes 0..24 zero (smart contract on the metachain), tag inside the free bytes 25..30
	a := make([]byte, 32)
	a[28] = tag
	a[31] = 0xFF
	return a
}

func bigS(s string) *big.Int {
	v, ok := new(big.Int).SetString(s, 10)
	if !ok {
		panic(s)
	}
	return v
}

// ---------------------------------------------------------------- validator alphabet

var (
	selVals    = []uint32{0, 1, 3}
	statusName = []string{"offline", "leader", "validator", "failed-only"}
	// LeaderSuccess, ValidatorSuccess, ValidatorFailure
	statusVals = [][3]uint32{{0, 0, 0}, {1, 0, 0}, {0, 1, 0}, {0, 0, 1}}
	feeVals    = []int64{0, 7}
	addrName   = []string{"own-shard0", "own-shard1", "shared-shard0", "meta-nonSC", "meta-delegationSC"}
	topUpVals  = []*big.Int{big.NewInt(0), big.NewInt(5), bigS("100000000000000000000")}
)

type vtype struct {
	Sel, St, Fee, Addr, Top int // indexes into the menus above
}

func (t vtype) String() string {
	return fmt.Sprintf("{selected %d, %s, fees %d, addr %s, topUp %s}", selVals[t.Sel], statusName[t.St], feeVals[t.Fee], addrName[t.Addr], topUpVals[t.Top])
}

type val struct {
	G int // group: 0,1 shards, 2 meta
	T vtype
}

type vset []val

func (s vset) String() string {
	var p []string
	for _, v := range s {
		p = append(p, groupName[v.G]+v.T.String())
	}
	return "[" + strings.Join(p, " ") + "]"
}

// fullTypes is the complete product of the validator menu (V2: top-ups, 3 statuses that V2
// can tell apart plus failed-only; V1: no top-up).
func fullTypes(v2 bool) []vtype {
	var r []vtype
	for sel := range selVals {
		for st := range statusVals {
			for fee := range feeVals {
				for a := range addrName {
					for top := range topUpVals {
						if !v2 && top > 0 {
							continue
						}
						if v2 && st == 3 {
							continue // V2 never reads ValidatorFailure: identical to offline
						}
						r = append(r, vtype{sel, st, fee, a, top})
					}
				}
			}
		}
	}
	return r
}

// mediumTypes: selected {1,3} x {offline, leader (+ failed-only for V1)} x all fees, addresses, top-ups
func mediumTypes(v2 bool) []vtype {
	var r []vtype
	for _, t := range fullTypes(v2) {
		if t.Sel == 0 || t.St == 2 {
			continue
		}
		r = append(r, t)
	}
	return r
}

// reduced menu for the many-validators layer: arithmetic-relevant representatives
var reducedTypes = []vtype{
	{Sel: 1, St: 1, Fee: 0, Addr: 0, Top: 1}, // online, 1 block, own shard-0 address, top-up 5
	{Sel: 2, St: 2, Fee: 1, Addr: 2, Top: 2}, // online, 3 blocks, fees, shared address, top-up 1e20
	{Sel: 2, St: 0, Fee: 1, Addr: 1, Top: 1}, // offline with blocks, fees and top-up
	{Sel: 1, St: 2, Fee: 1, Addr: 4, Top: 0}, // online, delegation SC address, no top-up
	{Sel: 2, St: 1, Fee: 0, Addr: 3, Top: 1}, // online, plain metachain address
}

// multisets of size <= k over n types
func multisets(n, k int) [][]int {
	var out [][]int
	var rec func(start int, cur []int)
	rec = func(start int, cur []int) {
		out = append(out, append([]int{}, cur...))
		if len(cur) == k {
			return
		}
		for i := start; i < n; i++ {
			rec(i, append(cur, i))
		}
	}
	rec(0, nil)
	return out
}

// ---------------------------------------------------------------- economics alphabet

type econ struct {
	Blocks   [3]uint64
	R        *big.Int // rewards to be distributed for blocks
	P        *big.Int // protocol sustainability
	LExtra   int64    // leader fees = sum of validators' accumulated fees + LExtra
	Factor   float64
	Gradient *big.Int
	Deleg    bool // delegation flag (and, for V1, rewards fix 1) through the epoch
}

func (e econ) String() string {
	return fmt.Sprintf("blocks(shard0,shard1,meta)=%v rewardsForBlocks=%s protocolSustainability=%s leaderFees=sum(fees)+%d topUpFactor=%g gradientPoint=%s epochFlags=%v",
		e.Blocks, e.R, e.P, e.LExtra, e.Factor, e.Gradient, e.Deleg)
}

var (
	blockVals    = []uint64{0, 1, 10}
	rVals        = []*big.Int{big.NewInt(0), big.NewInt(1), big.NewInt(1000), bigS("1000000000000000007")}
	pVals        = []*big.Int{big.NewInt(0), big.NewInt(3), bigS("100000000000000000")}
	lExtraVals   = []int64{0, 5}
	factorVals   = []float64{0, 0.25, 1}
	gradientVals = []*big.Int{big.NewInt(1), bigS("1000000000000000000000")}
)

// ---------------------------------------------------------------- rig (one per worker)

type nodesCfg struct{}

func (nodesCfg) ConsensusGroupSize(shardID uint32) int {
	if shardID == core.MetachainShardId {
		return consensusMeta
	}
	return consensusShard
}
func (nodesCfg) IsInterfaceNil() bool { return false }

type creator interface {
	process.RewardsCreator
}

type rig struct {
	econV2on, econV2off process.EndOfEpochEconomics // real end-of-epoch economics, staking V2 enable epoch 0 / 1000
	inflation           float64
	v2, v1              creator
	stats               epochStart.EpochEconomicsDataProvider
	coord               sharding.Coordinator
	topUps              map[string]*big.Int
	totalTop            *big.Int
	factor              float64
	gradient            *big.Int
}

func must(err error) {
	if err != nil {
		panic(err)
	}
}

func newRig() *rig {
	r := &rig{topUps: map[string]*big.Int{}, totalTop: new(big.Int), gradient: big.NewInt(1)}
	coord, err := sharding.NewMultiShardCoordinator(2, core.MetachainShardId)
	must(err)
	r.coord = coord
	for _, a := range [][]byte{metaPlain, metaDeleg} {
		if coord.ComputeId(a) != core.MetachainShardId { // vacuity guard: the metachain clauses need real metachain addresses
			panic("c35: harness metachain address is not on the metachain")
		}
	}
	pkc, err := pubkeyConverter.NewBech32PubkeyConverter(32)
	must(err)
	delegAcc, err := state.NewUserAccount(metaDeleg)
	must(err)
	must(delegAcc.DataTrieTracker().SaveKeyValue([]byte(core.DelegationSystemSCKey), []byte("delegation")))
	plainAcc, err := state.NewUserAccount(metaPlain)
	must(err)
	accounts := &testscommon.AccountsStub{
		GetExistingAccountCalled: func(a []byte) (vmcommon.AccountHandler, error) {
			switch {
			case bytes.Equal(a, metaDeleg):
				return delegAcc, nil
			case bytes.Equal(a, metaPlain):
				return plainAcc, nil
			}
			return nil, state.ErrAccNotFound
		},
	}
	base := func() metachain.BaseRewardsCreatorArgs {
		return metachain.BaseRewardsCreatorArgs{
			ShardCoordinator: coord, PubkeyConverter: pkc,
			RewardsStorage: genericMocks.NewStorerMock("rewards", 0), MiniBlockStorage: genericMocks.NewStorerMock("miniblocks", 0),
			Hasher: blake2b.NewBlake2b(), Marshalizer: &marshal.GogoProtoMarshalizer{},
			DataPool:                      testscommon.NewPoolsHolderMock(),
			ProtocolSustainabilityAddress: pkc.Encode(protocolAddr),
			NodesConfigProvider:           nodesCfg{},
			DelegationSystemSCEnableEpoch: delegEpoch,
			UserAccountsDB:                accounts,
			RewardsFix1EpochEnable:        fix1Epoch,
		}
	}
	r.stats = metachain.NewEpochEconomicsStatistics()
	staking := &esmock.StakingDataProviderStub{
		GetTotalStakeEligibleNodesCalled:      func() *big.Int { return new(big.Int).Add(r.totalTop, bigS("2500000000000000000000")) },
		GetTotalTopUpStakeEligibleNodesCalled: func() *big.Int { return new(big.Int).Set(r.totalTop) },
		GetNodeStakedTopUpCalled: func(bls []byte) (*big.Int, error) {
			v, ok := r.topUps[string(bls)]
			if !ok {
				return nil, fmt.Errorf("unknown key")
			}
			return new(big.Int).Set(v), nil
		},
	}
	rh := &economicsmocks.EconomicsHandlerStub{
		RewardsTopUpGradientPointCalled: func() *big.Int { return new(big.Int).Set(r.gradient) },
		RewardsTopUpFactorCalled:        func() float64 { return r.factor },
	}
	v2, err := metachain.NewRewardsCreatorV2(metachain.RewardsCreatorArgsV2{BaseRewardsCreatorArgs: base(), StakingDataProvider: staking, EconomicsDataProvider: r.stats, RewardsHandler: rh})
	must(err)
	v1, err := metachain.NewRewardsCreator(metachain.ArgsNewRewardsCreator{BaseRewardsCreatorArgs: base()})
	must(err)
	r.v2, r.v1 = v2, v1

	// the real end-of-epoch economics component, publishing into the SAME statistics holder that
	// rewardsCreatorV2 reads (wired like epochStart/metachain/economics_test.go: the previous
	// epoch-start meta block comes from a storer stub)
	prev := &block.MetaBlock{
		Round: 0, Nonce: 0, Epoch: 0,
		AccumulatedFees: big.NewInt(0), DeveloperFees: big.NewInt(0), AccumulatedFeesInEpoch: big.NewInt(0), DevFeesInEpoch: big.NewInt(0),
		EpochStart: block.EpochStart{
			Economics: block.Economics{TotalSupply: bigS(genesisSupply), TotalToDistribute: big.NewInt(10), TotalNewlyMinted: big.NewInt(10),
				RewardsPerBlock: big.NewInt(10), NodePrice: bigS("2500000000000000000000"), RewardsForProtocolSustainability: big.NewInt(10)},
			LastFinalizedHeaders: []block.EpochStartShardData{{ShardID: 0, Nonce: 0}, {ShardID: 1, Nonce: 0}},
		},
	}
	gm := &marshal.GogoProtoMarshalizer{}
	prevBytes, err := gm.Marshal(prev)
	must(err)
	store := &esmock.ChainStorerStub{GetStorerCalled: func(dataRetriever.UnitType) storage.Storer {
		return &testscommon.StorerStub{GetCalled: func([]byte) ([]byte, error) { return prevBytes, nil }}
	}}
	erh := &economicsmocks.EconomicsHandlerStub{
		MaxInflationRateCalled:                 func(uint32) float64 { return r.inflation },
		ProtocolSustainabilityPercentageCalled: func() float64 { return 0.1 },
		// the stub only consults the percentage callback when the address callback is set as well
		ProtocolSustainabilityAddressCalled: func() string { return "unused" },
		LeaderPercentageCalled:              func() float64 { return 0.1 },
		RewardsTopUpGradientPointCalled:     func() *big.Int { return new(big.Int).Set(r.gradient) },
		RewardsTopUpFactorCalled:            func() float64 { return r.factor },
	}
	mkEcon := func(stakingV2Epoch uint32) process.EndOfEpochEconomics {
		e, err := metachain.NewEndOfEpochEconomicsDataCreator(metachain.ArgsNewEpochEconomics{
			Marshalizer: gm, Hasher: blake2b.NewBlake2b(), Store: store, ShardCoordinator: coord, RewardsHandler: erh,
			RoundTime:    &esmock.RoundTimeDurationHandler{TimeDurationCalled: func() time.Duration { return roundSeconds * time.Second }},
			GenesisEpoch: 0, GenesisNonce: 0, GenesisTotalSupply: bigS(genesisSupply),
			EconomicsDataNotified: r.stats, StakingV2EnableEpoch: stakingV2Epoch,
		})
		must(err)
		return e
	}
	r.econV2on, r.econV2off = mkEcon(0), mkEcon(1000)
	return r
}

var rigPool = sync.Pool{New: func() interface{} { return newRig() }}

// ---------------------------------------------------------------- one case

type caseOut struct {
	Version  string   `json:"creator"`
	Set      string   `json:"validators"`
	Econ     string   `json:"economics"`
	Expected string   `json:"expected_total"`
	Sum      string   `json:"sum_of_reward_txs"`
	Txs      []string `json:"reward_txs"`
	What     string   `json:"what"`
}

func valAddr(slot int, v val) []byte {
	switch v.T.Addr {
	case 0:
		return addr(byte(0x10+slot), 0x00)
	case 1:
		return addr(byte(0x10+slot), 0x01)
	case 2:
		return sharedAddr
	case 3:
		return metaPlain
	}
	return metaDeleg
}

// consistent reports whether the economics are consistent with the validator set.
func consistent(s vset, e econ) bool {
	var sum [3]uint64
	for _, v := range s {
		sel := uint64(selVals[v.T.Sel])
		if sel > e.Blocks[v.G] {
			return false
		}
		sum[v.G] += sel
	}
	for g := range sum {
		cs := uint64(consensusShard)
		if g == 2 {
			cs = consensusMeta
		}
		if sum[g] > e.Blocks[g]*cs {
			return false
		}
	}
	return true
}

type runner struct {
	c *mc.Ctx
}

// acc collects coverage of one task locally (flushed once per validator set).
type acc struct {
	evals, nontrivial int64
	outcomes          map[string]struct{}
}

// job is one fully prepared call of CreateRewardsMiniBlocks plus what the oracle needs.
type job struct {
	prefix   string // signature prefix of the phase ("" = hand-set economics, "economics-to-rewards:")
	v2       bool
	s        vset
	deleg    bool // delegation flag (epoch 15) / V1 rewards-fix-1
	mb       *block.MetaBlock
	computed *block.Economics
	infos    map[uint32][]*state.ValidatorInfo
	expected *big.Int // amount that must be distributed through reward transactions
	P        *big.Int // configured protocol sustainability reward
	rpb      *big.Int // RewardsPerBlock of the meta block (V1 signature refinement only)
	factor   float64  // top-up factor in force (signature refinement only)
	descr    func() string
	replay   interface{}

	offIdx            []int // validators the creator classifies offline although they signed blocks
	offlineWithBlocks bool
	metaRcv           bool
}

// prepareValidators builds the validators info of a set and loads the staking stub of the rig.
// feeOf maps the fee index of the type menu to the validator's accumulated fees.
func (j *job) prepareValidators(r *rig, feeOf func(idx int) *big.Int) (sumFees *big.Int) {
	s := j.s
	j.infos = map[uint32][]*state.ValidatorInfo{0: {}, 1: {}, core.MetachainShardId: {}}
	for k := range r.topUps {
		delete(r.topUps, k)
	}
	r.totalTop.SetInt64(0)
	sumFees = new(big.Int)
	for i, v := range s {
		st := statusVals[v.T.St]
		vi := &state.ValidatorInfo{
			PublicKey: []byte(fmt.Sprintf("bls-key-%d", i)), ShardId: groupShard[v.G], List: string(core.EligibleList), Index: uint32(i),
			RewardAddress: valAddr(i, v), LeaderSuccess: st[0], ValidatorSuccess: st[1], ValidatorFailure: st[2],
			NumSelectedInSuccessBlocks: selVals[v.T.Sel], AccumulatedFees: feeOf(v.T.Fee), TempRating: 50, Rating: 50,
		}
		j.infos[vi.ShardId] = append(j.infos[vi.ShardId], vi)
		r.topUps[string(vi.PublicKey)] = topUpVals[v.T.Top]
		r.totalTop.Add(r.totalTop, topUpVals[v.T.Top])
		sumFees.Add(sumFees, vi.AccumulatedFees)
		// "offline" as the creator under test classifies it: V2 and V1 after rewards-fix-1: never
		// succeeded as leader nor validator; V1 before the fix: LeaderSuccess==0 && ValidatorFailure==0
		off := st[0] == 0 && st[1] == 0
		if !j.v2 && !j.deleg {
			off = st[0] == 0 && st[2] == 0
		}
		if off && selVals[v.T.Sel] > 0 {
			j.offlineWithBlocks = true
			j.offIdx = append(j.offIdx, i)
		}
		if v.T.Addr >= 3 {
			j.metaRcv = true
		}
	}
	return sumFees
}

// run is one input of the hand-set economics phase.
func (rn *runner) run(r *rig, v2 bool, s vset, e econ, a *acc) {
	type rep struct {
		S vset
		E econ
		V bool
	}
	j := &job{v2: v2, s: s, deleg: e.Deleg, P: e.P, factor: e.Factor, descr: e.String, replay: rep{s, e, v2}}
	sumFees := j.prepareValidators(r, func(idx int) *big.Int { return big.NewInt(feeVals[idx]) })
	r.factor, r.gradient = e.Factor, e.Gradient
	L := new(big.Int).Add(sumFees, big.NewInt(e.LExtra))
	nb := e.Blocks[0] + e.Blocks[1] + e.Blocks[2]
	rpb := new(big.Int)
	if nb > 0 {
		rpb.Div(e.R, new(big.Int).SetUint64(nb))
	}
	expected := new(big.Int).Add(e.R, L)
	expected.Add(expected, e.P)
	total := new(big.Int).Add(expected, big.NewInt(devFees))
	r.stats.SetNumberOfBlocksPerShard(map[uint32]uint64{0: e.Blocks[0], 1: e.Blocks[1], core.MetachainShardId: e.Blocks[2]})
	r.stats.SetLeadersFees(new(big.Int).Set(L))
	r.stats.SetRewardsToBeDistributed(total)
	r.stats.SetRewardsToBeDistributedForBlocks(e.R)
	ec := block.Economics{
		TotalSupply: bigS("20000000000000000000000000"), TotalToDistribute: new(big.Int).Set(total), TotalNewlyMinted: new(big.Int).Set(total),
		RewardsPerBlock: rpb, RewardsForProtocolSustainability: new(big.Int).Set(e.P), NodePrice: bigS("2500000000000000000000"),
	}
	epoch := uint32(5)
	if e.Deleg {
		epoch = 15
	}
	j.mb = &block.MetaBlock{Epoch: epoch, Round: 1000, Nonce: 900, DevFeesInEpoch: big.NewInt(devFees), AccumulatedFeesInEpoch: big.NewInt(100),
		EpochStart: block.EpochStart{Economics: ec}}
	computed := ec
	computed.TotalToDistribute = new(big.Int).Set(total)
	computed.RewardsPerBlock = new(big.Int).Set(rpb)
	computed.RewardsForProtocolSustainability = new(big.Int).Set(e.P)
	j.computed, j.expected, j.rpb = &computed, expected, rpb
	rn.execute(r, j, a)
}

// execute runs the creator on a prepared job and evaluates the oracle.
func (rn *runner) execute(r *rig, j *job, a *acc) (nVal int, dust bool) {
	c := rn.c
	v2, s, expected := j.v2, j.s, j.expected
	ver := "V1"
	if v2 {
		ver = "V2"
	}
	cr := r.v1
	if v2 {
		cr = r.v2
	}
	// ---- run
	a.evals++
	var txLines []string
	mkOut := func(sum *big.Int, what string) caseOut {
		o := caseOut{Version: ver, Set: s.String(), Econ: j.descr(), Expected: expected.String(), What: what}
		o.Txs = append([]string{}, txLines...)
		sort.Strings(o.Txs)
		if sum != nil {
			o.Sum = sum.String()
		}
		return o
	}
	var sumForOut *big.Int
	failRaw := func(sig, what string) {
		c.ViolationR(sig, len(s)*1000+len(txLines), mkOut(sumForOut, what), j.replay)
	}
	fail := func(sig, what string) { failRaw(j.prefix+ver+":"+sig, what) }
	var mbs block.MiniBlockSlice
	var err error
	if p := mc.Try(func() { mbs, err = cr.CreateRewardsMiniBlocks(j.mb, j.infos, j.computed) }); p != "" {
		fail("panic", p)
		return
	}
	if err != nil {
		fail("error-on-consistent-input", err.Error())
		return
	}
	// ---- observe
	cache := cr.GetLocalTxCache()
	sum := new(big.Int)
	nProt := 0
	var protVal *big.Int
	type bad struct{ sig, what string }
	var bads []bad
	for _, m := range mbs {
		for _, h := range m.TxHashes {
			th, err := cache.GetTx(h)
			if err != nil {
				bads = append(bads, bad{"tx-of-miniblock-missing-from-local-cache", fmt.Sprintf("hash %x: %v", h, err)})
				continue
			}
			tx := th.(*rewardTx.RewardTx)
			txLines = append(txLines, rcvName(tx.RcvAddr)+" <- "+tx.Value.String()+" (miniblock to shard "+fmt.Sprint(m.ReceiverShardID)+")")
			sum.Add(sum, tx.Value)
			isProt := bytes.Equal(tx.RcvAddr, protocolAddr)
			who := "validator"
			if isProt {
				who = "protocol-sustainability"
				nProt++
				protVal = tx.Value
			} else {
				nVal++
			}
			if tx.Value.Sign() == 0 {
				bads = append(bads, bad{"zero-value-reward-tx:" + who, rcvName(tx.RcvAddr)})
			} else if tx.Value.Sign() < 0 {
				bads = append(bads, bad{"negative-value-reward-tx:" + who, rcvName(tx.RcvAddr) + " " + tx.Value.String()})
			}
			if r.coord.ComputeId(tx.RcvAddr) == core.MetachainShardId {
				switch {
				case !bytes.Equal(tx.RcvAddr, metaDeleg):
					bads = append(bads, bad{"receiver-on-metachain-is-no-delegation-contract", rcvName(tx.RcvAddr)})
				case !j.deleg:
					bads = append(bads, bad{"receiver-on-metachain-while-delegation-disabled", rcvName(tx.RcvAddr)})
				}
			}
		}
	}
	sumForOut = sum
	if os.Getenv("C35_DEBUG") != "" {
		fmt.Fprintln(os.Stderr, "C35_DEBUG", ver, txLines, "sum", sum, "expected", expected)
	}
	for _, b := range bads {
		fail(b.sig, b.what)
	}
	tags := ""
	if j.offlineWithBlocks {
		tags += ":validator-classified-offline-has-signed-blocks"
	}
	knownV1 := false
	if !v2 && sum.Cmp(expected) > 0 {
		// signature refinement only (never decides the verdict): is the excess exactly the V1
		// block reward (RewardsPerBlock/consensusSize * selected) of the offline-classified validators?
		share := new(big.Int)
		for _, i := range j.offIdx {
			cs := int64(consensusShard)
			if s[i].G == 2 {
				cs = consensusMeta
			}
			per := new(big.Int).Div(j.rpb, big.NewInt(cs))
			share.Add(share, per.Mul(per, big.NewInt(int64(selVals[s[i].T.Sel]))))
		}
		if share.Sign() > 0 && new(big.Int).Sub(sum, expected).Cmp(share) == 0 {
			tags = ":by-exactly-the-block-rewards-of-validators-classified-offline"
			knownV1 = true
		}
	}
	if v2 && j.factor == 1 && sum.Cmp(expected) > 0 {
		// signature refinement only: with factor 1 the top-up limit k equals the rewards for blocks and
		// computeTopUpRewards' float evaluation can land above it when atan saturates
		tags = ":top-up-factor-1"
	}
	switch d := sum.Cmp(expected); {
	case d > 0 && knownV1:
		// the same V1 defect in whichever phase it shows: one signature (registered known finding)
		failRaw("V1:sum-above-amount-to-distribute"+tags, fmt.Sprintf("sum %s > %s (excess %s)", sum, expected, new(big.Int).Sub(sum, expected)))
	case d > 0:
		fail("sum-above-amount-to-distribute"+tags, fmt.Sprintf("sum %s > %s (excess %s)", sum, expected, new(big.Int).Sub(sum, expected)))
	case d < 0:
		fail("sum-below-amount-to-distribute"+tags, fmt.Sprintf("sum %s < %s (missing %s)", sum, expected, new(big.Int).Sub(expected, sum)))
	}
	switch {
	case nProt > 1:
		fail("protocol-sustainability-tx-count", fmt.Sprintf("%d transactions to the protocol sustainability address", nProt))
	case nProt == 0:
		// acceptable only when there is nothing for the protocol (a zero-value tx must not exist);
		// the sum check above already demands that nothing is missing
		if g := cr.GetProtocolSustainabilityRewards(); g.Sign() != 0 {
			fail("GetProtocolSustainabilityRewards-nonzero-without-protocol-tx", fmt.Sprintf("getter %s, no tx", g))
		}
	default:
		if g := cr.GetProtocolSustainabilityRewards(); g.Cmp(protVal) != 0 {
			fail("GetProtocolSustainabilityRewards-differs-from-protocol-tx", fmt.Sprintf("getter %s, tx %s", g, protVal))
		}
		if protVal.Cmp(j.P) < 0 {
			fail("protocol-tx-below-configured-protocol-reward"+tags, fmt.Sprintf("tx %s < %s", protVal, j.P))
		}
	}
	// ---- coverage
	dust = protVal != nil && protVal.Cmp(j.P) > 0
	if j.prefix == "" && dust && nVal >= 2 {
		a.nontrivial++
		if c.WantSample() {
			c.Sample(mkOut(sum, ""))
		}
	}
	a.outcomes[j.prefix+ver+"|mbs="+fmt.Sprint(len(mbs), "|valTxs=", nVal, "|dust=", dust, "|offline=", j.offlineWithBlocks, "|meta=", j.metaRcv)] = struct{}{}
	return nVal, dust
}

// ---------------------------------------------------------------- economics-to-rewards phase

// x2r is one setting of the phase that drives the REAL ComputeEndOfEpochEconomics and hands the
// produced meta block + shared statistics to the real rewards creator.
type x2r struct {
	Rounds    uint64    // rounds of the epoch (previous epoch start at round 0)
	Blocks    [3]uint64 // blocks of shard 0, shard 1, metachain in the epoch
	Inflation float64   // MaxInflationRate
	FeeKind   int       // accumulated fees relative to the inflation-based total, see feeKindName
	DevKind   int       // developer fees: 0 | fees/10 | 3*fees/10
	StakingV2 bool      // staking V2 active for the epoch => rewardsCreatorV2 (as rewardsCreatorProxy decides), else V1
	Deleg     bool      // epoch 15 (delegation + V1 fix-1 on) or 5
	Curve     int       // top-up curve: 0 = (0.25, 10^21), 1 = (1, 1)
}

var (
	feeKindName = []string{"0", "inflationTotal/2", "inflationTotal-1", "inflationTotal", "inflationTotal+1", "2*inflationTotal+12345", "inflationTotal+10^18", "10^15", "inflationTotal*10"}
	devKindName = []string{"0", "fees/10", "3*fees/10"}
)

func (x x2r) String() string {
	return fmt.Sprintf("rounds=%d blocks(shard0,shard1,meta)=%v inflation=%g accumulatedFees=%s devFees=%s stakingV2=%v epochFlags=%v topUpCurve=%d",
		x.Rounds, x.Blocks, x.Inflation, feeKindName[x.FeeKind], devKindName[x.DevKind], x.StakingV2, x.Deleg, x.Curve)
}

func (x x2r) metaBlock(fees, dev *big.Int) *block.MetaBlock {
	epoch := uint32(5)
	if x.Deleg {
		epoch = 15
	}
	return &block.MetaBlock{
		Epoch: epoch, Round: x.Rounds, Nonce: x.Blocks[2],
		AccumulatedFees: big.NewInt(0), DeveloperFees: big.NewInt(0),
		AccumulatedFeesInEpoch: new(big.Int).Set(fees), DevFeesInEpoch: new(big.Int).Set(dev),
		EpochStart: block.EpochStart{LastFinalizedHeaders: []block.EpochStartShardData{
			{ShardID: 0, Round: x.Rounds, Nonce: x.Blocks[0]}, {ShardID: 1, Round: x.Rounds, Nonce: x.Blocks[1]}}},
	}
}

type x2rStats struct {
	judged, skipped, rejected, feesAbove int64
}

// runX2R computes the economics of one setting on the real component and judges every
// consistent validator set of sets on the produced meta block.
func (rn *runner) runX2R(r *rig, x x2r, sets []vset, a *acc, st *x2rStats) {
	c := rn.c
	ec := r.econV2off
	if x.StakingV2 {
		ec = r.econV2on
	}
	r.inflation = x.Inflation
	r.factor, r.gradient = 0.25, gradientVals[1]
	if x.Curve == 1 {
		r.factor, r.gradient = 1, gradientVals[0]
	}
	zero := big.NewInt(0)
	report := func(sig, what string) {
		c.ViolationR("economics-to-rewards:"+sig, 0, map[string]interface{}{"economics": x.String(), "what": what}, map[string]interface{}{"X": x, "S": vset{}})
	}
	// the inflation-based total of this epoch = TotalToDistribute of the same epoch without fees
	// (read off the real component, not recomputed here)
	var base *block.Economics
	var err error
	if p := mc.Try(func() { base, err = ec.ComputeEndOfEpochEconomics(x.metaBlock(zero, zero)) }); p != "" {
		report("economics-panic", p)
		return
	}
	if err != nil {
		st.rejected++
		return
	}
	t0 := base.TotalToDistribute
	var fees *big.Int
	switch x.FeeKind {
	case 0:
		fees = big.NewInt(0)
	case 1:
		fees = new(big.Int).Div(t0, big.NewInt(2))
	case 2:
		fees = new(big.Int).Sub(t0, big.NewInt(1))
	case 3:
		fees = new(big.Int).Set(t0)
	case 4:
		fees = new(big.Int).Add(t0, big.NewInt(1))
	case 5:
		fees = new(big.Int).Add(new(big.Int).Mul(t0, big.NewInt(2)), big.NewInt(12345))
	case 6:
		fees = new(big.Int).Add(t0, bigS("1000000000000000000"))
	case 7:
		fees = bigS("1000000000000000")
	default:
		fees = new(big.Int).Mul(t0, big.NewInt(10))
	}
	if fees.Sign() < 0 {
		st.skipped++
		return
	}
	dev := new(big.Int)
	switch x.DevKind {
	case 1:
		dev.Div(fees, big.NewInt(10))
	case 2:
		dev.Div(new(big.Int).Mul(fees, big.NewInt(3)), big.NewInt(10))
	}
	mb := x.metaBlock(fees, dev)
	var computed *block.Economics
	if p := mc.Try(func() { computed, err = ec.ComputeEndOfEpochEconomics(mb) }); p != "" {
		report("economics-panic", p)
		return
	}
	if err != nil {
		// the epoch-start block would not be produced: nothing to judge
		st.rejected++
		a.outcomes["economics-to-rewards:rejected:"+strings.SplitN(err.Error(), ",", 2)[0]] = struct{}{}
		return
	}
	mb.EpochStart.Economics = *computed // what metaProcessor does before creating the rewards
	// the statement: "add up exactly to the total that the epoch economics says must be distributed";
	// developer fees are paid by the smart-contract processor, never through reward transactions
	expected := new(big.Int).Sub(mb.EpochStart.Economics.TotalToDistribute, mb.DevFeesInEpoch)
	expectedS, pS := expected.String(), computed.RewardsForProtocolSustainability.String()
	leader := r.stats.LeaderFees()
	feesAbove := fees.Cmp(t0) > 0
	feeShare := new(big.Int).Div(leader, big.NewInt(4)) // a validator with "fees" earned a quarter of the leader fees
	descr := func() string {
		return fmt.Sprintf("%s => accumulatedFees=%s devFees=%s inflationTotal=%s | produced: TotalToDistribute=%s RewardsPerBlock=%s RewardsForProtocolSustainability=%s; statistics: leaderFees=%s rewardsForBlocks=%s blocks=%d",
			x, fees, dev, t0, computed.TotalToDistribute, computed.RewardsPerBlock, computed.RewardsForProtocolSustainability,
			r.stats.LeaderFees(), r.stats.RewardsToBeDistributedForBlocks(), r.stats.NumberOfBlocks())
	}
	for _, s := range sets {
		ok := true
		var sum [3]uint64
		for _, v := range s {
			sel := uint64(selVals[v.T.Sel])
			if sel > x.Blocks[v.G] {
				ok = false
			}
			sum[v.G] += sel
		}
		for g := range sum {
			cs := uint64(consensusShard)
			if g == 2 {
				cs = consensusMeta
			}
			if sum[g] > x.Blocks[g]*cs {
				ok = false
			}
		}
		if !ok {
			st.skipped++
			continue
		}
		j := &job{prefix: "economics-to-rewards:", v2: x.StakingV2, s: s, deleg: x.Deleg, mb: mb, computed: &mb.EpochStart.Economics,
			expected: expected, P: computed.RewardsForProtocolSustainability, rpb: computed.RewardsPerBlock, factor: r.factor,
			descr: descr, replay: map[string]interface{}{"X": x, "S": s}}
		j.prepareValidators(r, func(idx int) *big.Int {
			if idx == 0 {
				return big.NewInt(0)
			}
			return new(big.Int).Set(feeShare)
		})
		nVal, _ := rn.execute(r, j, a)
		st.judged++
		if feesAbove {
			st.feesAbove++
			if nVal >= 1 {
				a.nontrivial++
				if x.StakingV2 && x.DevKind > 0 && nVal >= 2 && c.WantSample() {
					c.Sample(map[string]interface{}{"phase": "economics-to-rewards", "validators": s.String(), "economics": descr()})
				}
			}
		}
		// the inputs of the oracle must not have been touched by the creator
		if e2 := new(big.Int).Sub(mb.EpochStart.Economics.TotalToDistribute, mb.DevFeesInEpoch); e2.String() != expectedS || computed.RewardsForProtocolSustainability.String() != pS {
			report("creator-modified-the-computed-economics", fmt.Sprintf("TotalToDistribute-devFees %s -> %s, protocol %s -> %s", expectedS, e2, pS, computed.RewardsForProtocolSustainability))
		}
	}
}

// x2rList enumerates the settings of the economics-to-rewards phase.
func x2rList(patterns []x2r, feeKinds []int) []x2r {
	var out []x2r
	for _, p := range patterns {
		for _, infl := range []float64{0.1, 0} {
			for _, fk := range feeKinds {
				for dk := range devKindName {
					for _, sv2 := range []bool{true, false} {
						for _, dg := range []bool{false, true} {
							for curve := 0; curve < 2; curve++ {
								if !sv2 && curve > 0 {
									continue // V1 has no top-up rewards
								}
								x := p
								x.Inflation, x.FeeKind, x.DevKind, x.StakingV2, x.Deleg, x.Curve = infl, fk, dk, sv2, dg, curve
								out = append(out, x)
							}
						}
					}
				}
			}
		}
	}
	return out
}

// setsAnyGroup: all sets of <= 2 validators of the reduced menu placed in any groups.
func setsAnyGroup() []vset { return setsFew(reducedTypes, 2) }

func rcvName(a []byte) string {
	switch {
	case bytes.Equal(a, protocolAddr):
		return "protocolSustainability"
	case bytes.Equal(a, sharedAddr):
		return "shared(shard0)"
	case bytes.Equal(a, metaPlain):
		return "meta-nonSC"
	case bytes.Equal(a, metaDeleg):
		return "meta-delegationSC"
	}
	return fmt.Sprintf("own#%d(shard%d)", a[0]-0x10, a[31])
}

// ---------------------------------------------------------------- enumeration

// econList enumerates the economics product for one creator version.
func econList(v2 bool, blocks [][3]uint64, rs, ps []*big.Int, lx []int64, fs []float64, gs []*big.Int) []econ {
	var out []econ
	if !v2 {
		fs, gs = []float64{0.25}, gs[:1] // V1 has no top-up rewards
	}
	for _, b := range blocks {
		for _, r := range rs {
			for _, p := range ps {
				for _, l := range lx {
					for _, f := range fs {
						for _, g := range gs {
							for _, d := range []bool{false, true} {
								out = append(out, econ{b, r, p, l, f, g, d})
							}
						}
					}
				}
			}
		}
	}
	return out
}

func allBlocks() [][3]uint64 {
	var out [][3]uint64
	for _, a := range blockVals {
		for _, b := range blockVals {
			for _, m := range blockVals {
				out = append(out, [3]uint64{a, b, m})
			}
		}
	}
	return out
}

// setsUpTo2 enumerates all validator sets with <= n validators (n <= 2) over the full type menu
// placed in any groups.
func setsFew(types []vtype, n int) []vset {
	out := []vset{{}}
	for g := 0; g < 3; g++ {
		for _, t := range types {
			out = append(out, vset{{g, t}})
		}
	}
	if n < 2 {
		return out
	}
	for g1 := 0; g1 < 3; g1++ {
		for g2 := g1; g2 < 3; g2++ {
			for i, t1 := range types {
				for j, t2 := range types {
					if g1 == g2 && j < i {
						continue
					}
					out = append(out, vset{{g1, t1}, {g2, t2}})
				}
			}
		}
	}
	return out
}

// setsMany: per group a multiset of <= k validators from the reduced menu.
func setsMany(k int) []vset {
	ms := multisets(len(reducedTypes), k)
	var out []vset
	for _, a := range ms {
		for _, b := range ms {
			for _, m := range ms {
				var s vset
				for g, l := range [][]int{a, b, m} {
					for _, ti := range l {
						s = append(s, val{g, reducedTypes[ti]})
					}
				}
				out = append(out, s)
			}
		}
	}
	return out
}

type layer struct {
	name  string
	v2    bool
	sets  []vset
	econs []econ
}

func main() {
	_ = logger.SetLogLevel("*:NONE")
	if os.Getenv("GOGC") == "" {
		debug.SetGCPercent(400)
	}
	prof := flag.String("cpuprofile", "", "write a CPU profile (development aid)")
	mc.Main("C35", "exploration", func(c *mc.Ctx) {
		if *prof != "" {
			f, _ := os.Create(*prof)
			_ = pprof.StartCPUProfile(f)
			defer pprof.StopCPUProfile()
		}
		own := time.Now().Add(80 * time.Second)
		if !c.Quick() {
			own = time.Now().Add(14 * time.Minute)
		}
		if own.Before(c.Deadline) {
			c.Deadline = own // an explicit shorter --deadline wins
		}
		c.Rule = "non-trivial = (hand-set economics) a consistent input for which >= 2 validator reward transactions are created and the protocol sustainability transaction receives remainders/unassignable rewards; (economics-to-rewards) an input whose accumulated fees exceed the inflation-based total and for which >= 1 validator reward transaction is created; distinct_nontrivial counts validator sets resp. economics settings having such inputs, counter nontrivial_inputs counts the inputs"
		c.Assumptions = []string{
			"2 shards + metachain, consensus group size 3 (shards) / 4 (metachain); protocol sustainability address in shard 0; all listed validators are in the eligible list; developer fees 11 (V1 only reads them)",
			"only inputs consistent with the block counts are judged: NumSelectedInSuccessBlocks <= blocks of the validator's shard, per-shard sum <= blocks*consensusSize, leader fees = sum of listed validators' accumulated fees (+0 or +5); V1: RewardsPerBlock = floor(rewardsForBlocks/numberOfBlocks), TotalToDistribute = rewardsForBlocks + leaderFees + protocolSustainability + developerFees",
			"amount to distribute = rewardsForBlocks + leaderFees + protocolSustainability (V2: EpochEconomicsStatistics + computed economics; V1: metaBlock TotalToDistribute - DevFeesInEpoch)",
			"staking-data provider stub: per-node top-up from the menu, total eligible top-up = sum over the listed validators (offline ones included, as the real provider does)",
			"delegation flag and (V1) rewards-fix-1 flag are switched together through the meta block epoch (5: both off, 15: both on)",
			"a zero-value protocol sustainability transaction counts as a violation of 'no reward transaction has a zero value' only if it is created; validator transactions with value 0 must not be created",
			"economics-to-rewards phase: genesis supply 20M*10^18, 4 s rounds, leader and protocol sustainability percentage 10%, previous epoch start at round 0 / nonce 0; accumulated fees are placed relative to the inflation-based total T = TotalToDistribute the real component produces for the same epoch without fees; developer fees <= 30% of the fees (so the rewards for blocks stay >= 0); a validator 'with fees' earned a quarter of the produced leader fees; the creator is V2 iff epoch > StakingV2EnableEpoch (rule of rewardsCreatorProxy); amount to distribute = produced TotalToDistribute - DevFeesInEpoch; settings for which ComputeEndOfEpochEconomics returns an error are not judged (no epoch-start block would exist)",
			"creators are reused across cases (one V1 + one V2 instance per worker), as the node reuses them across epochs; CreateRewardsMiniBlocks clears its state on entry",
		}
		runr := &runner{c: c}
		if len(c.ReplayData) > 0 {
			var rd struct {
				S vset
				E *econ
				V bool
				X *x2r
			}
			if err := json.Unmarshal(c.ReplayData, &rd); err != nil || (rd.E == nil && rd.X == nil) {
				c.Fatal("bad replay data: %v", err)
			}
			a := &acc{outcomes: map[string]struct{}{}}
			if rd.X != nil {
				runr.runX2R(newRig(), *rd.X, []vset{rd.S}, a, &x2rStats{})
			} else {
				runr.run(newRig(), rd.V, rd.S, *rd.E, a)
			}
			c.Eval(a.evals)
			return
		}
		// three economics products: full = the complete product of the menus; core and tiny are
		// sub-products used where the validator-set dimension is large
		fullE := func(v2 bool) []econ {
			return econList(v2, allBlocks(), rVals, pVals, lExtraVals, factorVals, gradientVals)
		}
		coreBlocks := [][3]uint64{{10, 10, 10}, {1, 10, 10}, {10, 1, 0}, {1, 1, 1}}
		coreE := func(v2 bool) []econ {
			return econList(v2, coreBlocks, []*big.Int{rVals[2], rVals[3]}, []*big.Int{pVals[0], pVals[1]}, lExtraVals, []float64{0.25, 1}, gradientVals)
		}
		tinyE := func(v2 bool) []econ {
			return econList(v2, [][3]uint64{{10, 10, 10}, {1, 10, 1}}, []*big.Int{rVals[2], rVals[3]}, []*big.Int{pVals[0], pVals[1]}, lExtraVals[:1], []float64{0.25, 1}, gradientVals[:1])
		}
		oneFG := func(v2 bool) []econ { // complete blocks x rewards x protocol x leader-fee product, one top-up curve
			return econList(v2, allBlocks(), rVals, pVals, lExtraVals, []float64{0.25}, gradientVals[1:])
		}
		var layers []layer
		for _, v2 := range []bool{true, false} {
			vn := "V1"
			if v2 {
				vn = "V2"
			}
			types := fullTypes(v2)
			med := mediumTypes(v2)
			if c.Quick() {
				layers = append(layers,
					layer{vn + ": <=1 validator (full type product, any group) x core economics", v2, setsFew(types, 1), coreE(v2)},
					layer{vn + ": <=2 validators per group from the 5-type reduced menu x tiny economics", v2, setsMany(2), tinyE(v2)},
					layer{vn + ": <=1 validator per group from the reduced menu x full blocks/rewards/protocol/leader-fee product (one top-up curve)", v2, setsMany(1), oneFG(v2)})
			} else {
				layers = append(layers,
					layer{vn + ": <=1 validator (full type product, any group) x full economics product", v2, setsFew(types, 1), fullE(v2)},
					layer{vn + ": <=2 validators (medium type product, any groups) x tiny economics", v2, setsFew(med, 2), tinyE(v2)},
					layer{vn + ": <=3 validators per group from the 5-type reduced menu x tiny economics", v2, setsMany(3), tinyE(v2)},
					layer{vn + ": <=2 validators per group from the reduced menu x core economics", v2, setsMany(2), coreE(v2)},
					layer{vn + ": <=1 validator per group from the reduced menu x full economics product", v2, setsMany(1), fullE(v2)})
			}
		}
		var bound []string
		capped := false
		// ---- economics-to-rewards phase: real ComputeEndOfEpochEconomics -> shared statistics -> real creator
		{
			patterns := []x2r{{Rounds: 20, Blocks: [3]uint64{20, 20, 20}}, {Rounds: 20, Blocks: [3]uint64{10, 20, 3}}, {Rounds: 4, Blocks: [3]uint64{1, 3, 2}}}
			feeKinds := []int{0, 1, 2, 3, 4, 5, 6}
			var vsets []vset
			what := "<=2 validators of the 5-type reduced menu in any groups"
			if c.Quick() {
				vsets = setsAnyGroup()
			} else {
				patterns = append(patterns, x2r{Rounds: 100, Blocks: [3]uint64{100, 97, 100}}, x2r{Rounds: 20, Blocks: [3]uint64{0, 0, 0}}, x2r{Rounds: 7, Blocks: [3]uint64{7, 1, 7}})
				feeKinds = append(feeKinds, 7, 8)
				vsets = append(append(setsAnyGroup(), setsFew(fullTypes(true), 1)[1:]...), setsMany(1)[1:]...)
				what += " + every single validator of the full type product + <=1 reduced-menu validator per group"
			}
			xs := x2rList(patterns, feeKinds)
			var mu sync.Mutex
			var tot x2rStats
			mc.Par(len(xs), func(i int) {
				if c.Expired() {
					mu.Lock()
					capped = true
					mu.Unlock()
					return
				}
				r := rigPool.Get().(*rig)
				defer rigPool.Put(r)
				a := &acc{outcomes: map[string]struct{}{}}
				var st x2rStats
				runr.runX2R(r, xs[i], vsets, a, &st)
				c.Eval(a.evals)
				c.Count("nontrivial_inputs", a.nontrivial)
				if a.nontrivial > 0 {
					c.Nontrivial("economics-to-rewards|" + xs[i].String())
				}
				for k := range a.outcomes {
					c.Outcome(k)
				}
				mu.Lock()
				tot.judged += st.judged
				tot.skipped += st.skipped
				tot.rejected += st.rejected
				tot.feesAbove += st.feesAbove
				mu.Unlock()
			})
			c.Count("economics_to_rewards_inputs_with_fees_above_inflation_total", tot.feesAbove)
			bound = append(bound, fmt.Sprintf("economics-to-rewards (real ComputeEndOfEpochEconomics feeding the creator chosen by staking V2): %d economics settings (%d round/block patterns x inflation {0.1,0} x %d fee levels around the inflation total x devFees {0,10%%,30%%} x stakingV2 on/off x epoch flags x top-up curve) x %d validator sets (%s): %d consistent inputs judged (%d with fees above the inflation total), %d inconsistent skipped, %d settings rejected by the economics component",
				len(xs), len(patterns), len(feeKinds), len(vsets), what, tot.judged, tot.feesAbove, tot.skipped, tot.rejected))
			if capped {
				c.Cap("deadline in the economics-to-rewards phase")
			}
		}
		for _, l := range layers {
			if capped {
				break
			}
			l := l
			var mu sync.Mutex
			var judged, skipped int64
			mc.Par(len(l.sets), func(i int) {
				if c.Expired() {
					mu.Lock()
					capped = true
					mu.Unlock()
					return
				}
				r := rigPool.Get().(*rig)
				defer rigPool.Put(r)
				var j, sk int64
				a := &acc{outcomes: map[string]struct{}{}}
				for _, e := range l.econs {
					if !consistent(l.sets[i], e) {
						sk++
						continue
					}
					j++
					runr.run(r, l.v2, l.sets[i], e, a)
				}
				c.Eval(a.evals)
				c.Count("nontrivial_inputs", a.nontrivial)
				if a.nontrivial > 0 {
					c.Nontrivial(fmt.Sprint(l.v2, l.sets[i]))
				}
				for k := range a.outcomes {
					c.Outcome(k)
				}
				mu.Lock()
				judged += j
				skipped += sk
				mu.Unlock()
			})
			bound = append(bound, fmt.Sprintf("%s: %d validator sets x %d economics settings, %d consistent inputs judged, %d inconsistent skipped", l.name, len(l.sets), len(l.econs), judged, skipped))
			if capped {
				c.Cap("deadline in layer " + l.name)
				break
			}
		}
		c.Set("layers", bound)
		c.Bound = strings.Join(bound, " | ")
	})
}
