// C48 — address text encoding round-trips.
//
// Real pubkeyConverter.NewBech32PubkeyConverter(n) / NewHexPubkeyConverter(n), n = 2 and 32
// (hex also 96, the validator key length).
//
//	(a) round trip: n=2 all 65 536 byte strings; n=32/96 a structured set (every byte position x
//	    {00,01,7f,80,ff} on an all-zero and an all-ones background, all position pairs on both
//	    backgrounds, SC / metachain / system shapes): Decode(Encode(b)) == b.
//	(b) rejection, as one uniform oracle on every text t fed to Decode:
//	        Decode(t) accepted  =>  len(result) == n  and  Encode(result) == lower-case(t)
//	    i.e. the only accepted texts are the canonical encodings of n-byte strings (bech32 allows
//	    the all-upper-case spelling of the same string). Texts enumerated for bech32 n=2:
//	      - every bech32 string with prefix "erd", a VALID checksum and 0..4 (thorough: 0..5) data
//	        symbols (all 32^k payloads): covers every other decoded length and non-zero padding;
//	      - for every canonical string (quick: 1024 of them, thorough: all 65 536): every single
//	        character substitution, insertion, deletion over the bech32 alphabet + {b,i,o,1,A,E,Q,
//	        space}, every adjacent transposition, every single-letter case flip, whole upper case,
//	        leading/trailing blank or newline, 'q' inserted before a final 'p' (the known bech32
//	        length-extension weakness);
//	      - every payload under 12 other prefixes with a valid checksum for that prefix;
//	      - payloads of 0,1,3,4 bytes under the right prefix with valid checksum.
//	    n=32: the same mutation families on the structured addresses, payload lengths 30..34.
//	    hex n=2: every string of length 0..4 (thorough: 0..5) over a 30-character alphabet (hex
//	    digits of both cases and the characters adjacent to the digit/letter ranges), length 6
//	    over 7 characters; n=32: truncations, extensions, "0x", non-hex substitutions, upper case.
//
// The bech32 library of the repo's module graph is used only to PRODUCE texts with valid
// checksums (test data); no decoding logic is re-implemented.
package main

import (
	"bytes"
	"encoding/hex"
	"fmt"
	"sort"
	"strings"
	"sync"

	"github.com/ElrondNetwork/elrond-go/core/pubkeyConverter"
	"github.com/btcsuite/btcutil/bech32"
	"verif/engine/mc"
)

type conv interface {
	Encode(pkBytes []byte) string
	Decode(humanReadable string) ([]byte, error)
	Len() int
}

const charset = "qpzry9x8gf2tvdw0s3jn54khce6mua7l"
const substAlphabet = charset + "bio1AEQ "

// ---- smallest-witness collector ----
type witness struct {
	rank   string
	detail map[string]interface{}
	count  int64
}
type collector struct {
	mu sync.Mutex
	m  map[string]*witness
}

func (k *collector) add(sig, rank string, detail func() map[string]interface{}) {
	k.mu.Lock()
	defer k.mu.Unlock()
	w := k.m[sig]
	if w == nil {
		k.m[sig] = &witness{rank: rank, detail: detail(), count: 1}
		return
	}
	w.count++
	if rank < w.rank {
		w.rank, w.detail = rank, detail()
	}
}
func (k *collector) flush(c *mc.Ctx) {
	sigs := []string{}
	for s := range k.m {
		sigs = append(sigs, s)
	}
	sort.Strings(sigs)
	for _, s := range sigs {
		w := k.m[s]
		w.detail["occurrences"] = w.count
		c.Violation(s, w.detail, w.detail)
		for i := int64(1); i < w.count && i < 100000; i++ {
			c.Violation(s, nil, nil)
		}
	}
}

type tester struct {
	c    *mc.Ctx
	col  *collector
	kind string // "bech32" | "hex"
	cv   conv
	n    int
	mu   sync.Mutex
	acc  map[string]int64 // class -> accepted texts
	rej  map[string]int64 // class -> rejected texts
}

// local per-goroutine tally, merged at the end of a chunk
type tally struct {
	acc, rej map[string]int64
	evals    int64
}

func newTally() *tally { return &tally{acc: map[string]int64{}, rej: map[string]int64{}} }

func (t *tester) merge(l *tally) {
	t.mu.Lock()
	for k, v := range l.acc {
		t.acc[k] += v
	}
	for k, v := range l.rej {
		t.rej[k] += v
	}
	t.mu.Unlock()
	t.c.Eval(l.evals)
}

func rankOf(class, text string) string { return fmt.Sprintf("%04d/%s/%s", len(text), class, text) }

// text applies the uniform rejection oracle to one text.
func (t *tester) text(l *tally, class, text string) {
	l.evals++
	var b []byte
	var err error
	if p := mc.Try(func() { b, err = t.cv.Decode(text) }); p != "" {
		t.col.add(t.kind+":Decode-panics", rankOf(class, text), func() map[string]interface{} {
			return map[string]interface{}{"n": t.n, "class": class, "text": text, "panic": p}
		})
		return
	}
	if err != nil {
		l.rej[class]++
		return
	}
	l.acc[class]++
	if len(b) != t.n {
		t.col.add(t.kind+":accepts-text-of-other-decoded-length", rankOf(class, text), func() map[string]interface{} {
			return map[string]interface{}{"n": t.n, "class": class, "text": text, "decoded": mc.Hex(b), "decoded_len": len(b)}
		})
		return
	}
	canon := t.cv.Encode(b)
	if canon != strings.ToLower(text) {
		t.col.add(t.kind+":accepts-non-canonical-text", rankOf(class, text), func() map[string]interface{} {
			return map[string]interface{}{"n": t.n, "class": class, "text": text, "decoded": mc.Hex(b), "canonical_text_of_decoded": canon}
		})
	}
}

// roundTrip checks Decode(Encode(b)) == b and returns the encoded text.
func (t *tester) roundTrip(l *tally, b []byte) string {
	l.evals++
	in := append([]byte(nil), b...)
	var e string
	var d []byte
	var err error
	if p := mc.Try(func() { e = t.cv.Encode(in); d, err = t.cv.Decode(e) }); p != "" {
		t.col.add(t.kind+":round-trip-panics", rankOf("rt", mc.Hex(b)), func() map[string]interface{} {
			return map[string]interface{}{"n": t.n, "bytes": mc.Hex(b), "panic": p}
		})
		return ""
	}
	switch {
	case e == "":
		t.col.add(t.kind+":Encode-returns-empty-for-configured-length", rankOf("rt", mc.Hex(b)), func() map[string]interface{} {
			return map[string]interface{}{"n": t.n, "bytes": mc.Hex(b)}
		})
	case err != nil:
		t.col.add(t.kind+":Decode-rejects-own-encoding", rankOf("rt", mc.Hex(b)), func() map[string]interface{} {
			return map[string]interface{}{"n": t.n, "bytes": mc.Hex(b), "text": e, "err": err.Error()}
		})
	case !bytes.Equal(d, b):
		t.col.add(t.kind+":round-trip-changes-bytes", rankOf("rt", mc.Hex(b)), func() map[string]interface{} {
			return map[string]interface{}{"n": t.n, "bytes": mc.Hex(b), "text": e, "decoded": mc.Hex(d)}
		})
	}
	if !bytes.Equal(in, b) {
		t.col.add(t.kind+":Encode-modifies-input", rankOf("rt", mc.Hex(b)), func() map[string]interface{} {
			return map[string]interface{}{"n": t.n, "bytes": mc.Hex(b), "after": mc.Hex(in)}
		})
	}
	return e
}

// mutations of one canonical text (character level)
func (t *tester) mutateText(l *tally, s string, alphabet string) {
	bs := []byte(s)
	for i := range bs { // substitutions
		for j := 0; j < len(alphabet); j++ {
			if alphabet[j] == bs[i] {
				continue
			}
			m := append([]byte(nil), bs...)
			m[i] = alphabet[j]
			t.text(l, "substitution", string(m))
		}
	}
	for i := 0; i <= len(bs); i++ { // insertions
		for j := 0; j < len(alphabet); j++ {
			m := append(append(append([]byte(nil), bs[:i]...), alphabet[j]), bs[i:]...)
			t.text(l, "insertion", string(m))
		}
	}
	for i := range bs { // deletions
		m := append(append([]byte(nil), bs[:i]...), bs[i+1:]...)
		t.text(l, "deletion", string(m))
	}
	for i := 0; i+1 < len(bs); i++ { // adjacent transpositions
		if bs[i] == bs[i+1] {
			continue
		}
		m := append([]byte(nil), bs...)
		m[i], m[i+1] = m[i+1], m[i]
		t.text(l, "transposition", string(m))
	}
	for i := range bs { // single-letter case flip
		if bs[i] >= 'a' && bs[i] <= 'z' {
			m := append([]byte(nil), bs...)
			m[i] -= 32
			t.text(l, "mixed-case", string(m))
		}
	}
	t.text(l, "upper-case", strings.ToUpper(s))
	for _, w := range []string{" ", "\n", "\t", "\x00"} {
		t.text(l, "whitespace", s+w)
		t.text(l, "whitespace", w+s)
	}
}

func enc5(hrp string, payload []byte) string {
	d5, err := bech32.ConvertBits(payload, 8, 5, true)
	if err != nil {
		panic(err)
	}
	s, err := bech32.Encode(hrp, d5)
	if err != nil {
		panic(err)
	}
	return s
}

var otherPrefixes = []string{"er", "e", "erdd", "erd1", "err", "erc", "drd", "btc", "bc", "x", "erd-", "moa"}

func (t *tester) bech32Variants(l *tally, b []byte, canon string) {
	for _, p := range otherPrefixes {
		t.text(l, "prefix:"+p, enc5(p, b))
	}
	t.text(l, "prefix:none", canon[3:])
	t.text(l, "prefix:none", canon[4:])
	t.text(l, "prefix:doubled", "erd1"+canon)
	if strings.HasSuffix(canon, "p") {
		t.text(l, "q-before-final-p", canon[:len(canon)-1]+"qp")
		t.text(l, "q-before-final-p", canon[:len(canon)-1]+"qqp")
	}
	if strings.HasSuffix(canon, "qp") {
		t.text(l, "q-before-final-p", canon[:len(canon)-2]+"p")
	}
}

// ---- structured n-byte address set ----
func structured(n int, pairs bool) [][]byte {
	var out [][]byte
	vals := []byte{0x00, 0x01, 0x7f, 0x80, 0xff}
	for _, bg := range []byte{0x00, 0xff} {
		for i := 0; i < n; i++ {
			for _, v := range vals {
				a := bytes.Repeat([]byte{bg}, n)
				a[i] = v
				out = append(out, a)
			}
		}
	}
	if n >= 32 {
		sc := make([]byte, n) // SC on metachain shape
		sc[9], sc[n-2], sc[n-1] = 1, 0xff, 0xff
		out = append(out, sc)
		sc2 := make([]byte, n) // SC in shard
		sc2[9], sc2[10], sc2[n-1] = 5, 0xc3, 0x01
		out = append(out, sc2)
		seq := make([]byte, n)
		for i := range seq {
			seq[i] = byte(i * 7)
		}
		out = append(out, seq)
		out = append(out, []byte(strings.Repeat("1234567890", 10)[:n]))
	}
	if pairs {
		pv := []byte{0x01, 0x7f, 0x80, 0xfe}
		for _, bg := range []byte{0x00, 0xff} {
			for i := 0; i < n; i++ {
				for j := i + 1; j < n; j++ {
					for _, v := range pv {
						for _, w := range pv {
							a := bytes.Repeat([]byte{bg}, n)
							a[i], a[j] = v, w
							out = append(out, a)
						}
					}
				}
			}
		}
	}
	return out
}

func main() {
	mc.Main("C48", "exploration", func(c *mc.Ctx) {
		col := &collector{m: map[string]*witness{}}
		mk := func(kind string, n int) *tester {
			var cv conv
			var err error
			if kind == "bech32" {
				cv, err = pubkeyConverter.NewBech32PubkeyConverter(n)
			} else {
				cv, err = pubkeyConverter.NewHexPubkeyConverter(n)
			}
			if err != nil {
				c.Fatal("converter %s/%d: %v", kind, n, err)
			}
			return &tester{c: c, col: col, kind: kind, cv: cv, n: n, acc: map[string]int64{}, rej: map[string]int64{}}
		}
		b2, b32 := mk("bech32", 2), mk("bech32", 32)
		h2, h32, h96 := mk("hex", 2), mk("hex", 32), mk("hex", 96)

		maxSym := c.Pick(4, 5)
		stride := c.Pick(64, 1)
		hexMaxLen := c.Pick(4, 5)
		n32mut := c.Pick(64, 1<<30)
		c.Rule = fmt.Sprintf("(a) round trip: bech32 and hex n=2: all 65536 byte strings; n=32 (hex also 96): every position x {00,01,7f,80,ff} on 00../ff.. backgrounds + all position pairs x {01,7f,80,fe}^2 + SC/meta shapes. "+
			"(b) uniform oracle 'accepted => n bytes and canonical text' on: bech32 n=2: all valid-checksum 'erd' strings with 0..%d data symbols (all 32^k payloads); for every %d-th canonical string all single substitutions/insertions/deletions over %d characters, adjacent transpositions, case flips, whitespace; for all 65536 payloads 12 other prefixes with valid checksum, prefix dropped/doubled, q-before-final-p; payloads of 0,1,3,4 bytes with valid checksum; bech32 n=32: same text mutations on %s structured addresses, payload lengths 30,31,33,34; "+
			"hex n=2: all strings of length 0..%d over 30 characters and length 6 over 7 characters; hex n=32: truncation/extension/0x/non-hex substitution/upper case on the structured addresses. "+
			"Non-trivial = a class of bech32 texts with a VALID checksum that are not the canonical encoding of an n-byte string (other prefix, other payload length, non-zero padding bits, q-insertion): only the converter's own prefix/length/padding checks can reject them.",
			maxSym, stride, len(substAlphabet), map[bool]string{true: "the first 64", false: "all"}[c.Quick()], hexMaxLen)
		c.Bound = "complete for the stated space"
		c.Assumptions = []string{
			"configured lengths are 2 (exhaustive stand-in) and 32 (the production address length); hex additionally 96. bech32 lengths above 50 bytes are outside the space: their encodings exceed the 90-character bech32 limit that Decode enforces (see info_bech32_longest_round_tripping_length)",
			"'rejects text with different prefix / bad checksum / different decoded length' is checked as: any accepted text is the (case-insensitively) canonical encoding of an n-byte string; the whole-upper-case spelling allowed by bech32 and upper-case hex digits decode to the same bytes and are not violations",
			"all text strings is approximated by the enumerated mutation families around canonical strings plus the complete short-string spaces stated in the rule; arbitrary long garbage is not enumerated",
		}
		c.Exhaustive = true

		// ---------- (a) round trips ----------
		canon2 := make([]string, 65536)
		mc.Par(256, func(hi int) {
			l1, l2 := newTally(), newTally()
			for lo := 0; lo < 256; lo++ {
				b := []byte{byte(hi), byte(lo)}
				canon2[hi<<8|lo] = b2.roundTrip(l1, b)
				h2.roundTrip(l2, b)
			}
			b2.merge(l1)
			h2.merge(l2)
		})
		c.Count("round_trips_n2_each_converter", 65536)
		s32 := structured(32, true)
		s32single := structured(32, false)
		s96 := structured(96, !c.Quick())
		canon32 := make([]string, len(s32))
		mc.Par(len(s32), func(i int) {
			l1, l2 := newTally(), newTally()
			canon32[i] = b32.roundTrip(l1, s32[i])
			h32.roundTrip(l2, s32[i])
			b32.merge(l1)
			h32.merge(l2)
		})
		mc.Par(len(s96), func(i int) {
			l := newTally()
			h96.roundTrip(l, s96[i])
			h96.merge(l)
		})
		c.Count("round_trips_n32_each_converter", int64(len(s32)))
		c.Count("round_trips_hex_n96", int64(len(s96)))
		distinct := map[string]bool{}
		for _, s := range canon2 {
			distinct[s] = true
		}
		c.Set("distinct_bech32_texts_n2", len(distinct))
		if len(distinct) != 65536 && len(col.m) == 0 {
			col.add("bech32:two-byte-strings-share-a-text", "0", func() map[string]interface{} {
				return map[string]interface{}{"n": 2, "distinct_texts": len(distinct)}
			})
		}

		// ---------- (b1) bech32 n=2: all valid-checksum strings with k data symbols ----------
		for k := 0; k <= maxSym; k++ {
			total := 1
			for i := 0; i < k; i++ {
				total *= 32
			}
			chunks := 1
			if total >= 1024 {
				chunks = 1024
			}
			per := total / chunks
			k := k
			mc.Par(chunks, func(ch int) {
				l := newTally()
				d5 := make([]byte, k)
				for v := ch * per; v < (ch+1)*per; v++ {
					x := v
					for i := k - 1; i >= 0; i-- {
						d5[i] = byte(x & 31)
						x >>= 5
					}
					s, err := bech32.Encode("erd", d5)
					if err != nil {
						panic(err)
					}
					class := fmt.Sprintf("valid-checksum:%d-symbols", k)
					if k == 4 && d5[3]&0x0f != 0 {
						class = "valid-checksum:4-symbols-nonzero-padding"
					} else if k == 4 {
						class = "canonical"
					}
					b2.text(l, class, s)
				}
				b2.merge(l)
			})
		}

		// ---------- (b2) bech32 n=2: character-level mutations and prefixes ----------
		mc.Par(65536, func(i int) {
			l := newTally()
			b := []byte{byte(i >> 8), byte(i)}
			if i%stride == (i/stride)%stride || stride == 1 {
				b2.mutateText(l, canon2[i], substAlphabet)
			}
			b2.bech32Variants(l, b, canon2[i])
			for _, x := range []byte{0x00, 0x01, 0x80, 0xff} {
				b2.text(l, "payload-len:3", enc5("erd", []byte{b[0], b[1], x}))
			}
			for _, x := range []byte{0x00, 0xff} {
				b2.text(l, "payload-len:4", enc5("erd", []byte{b[0], b[1], x, x}))
			}
			if i < 256 {
				b2.text(l, "payload-len:1", enc5("erd", []byte{byte(i)}))
			}
			if i == 0 {
				b2.text(l, "payload-len:0", enc5("erd", nil))
				b2.text(l, "empty", "")
				b2.text(l, "empty", "erd")
				b2.text(l, "empty", "erd1")
			}
			b2.merge(l)
		})

		// ---------- (b3) bech32 n=32 ----------
		nm := len(s32single)
		if nm > n32mut {
			nm = n32mut
		}
		c.Set("bech32_n32_addresses_text_mutated", nm)
		mc.Par(len(s32single), func(i int) {
			l := newTally()
			a := s32single[i]
			canon := canon32[i] // s32 starts with the singles in the same order
			if i < nm {
				b32.mutateText(l, canon, substAlphabet)
			}
			b32.bech32Variants(l, a, canon)
			for _, x := range []byte{0x00, 0xff} {
				b32.text(l, "payload-len:33", enc5("erd", append(append([]byte(nil), a...), x)))
				b32.text(l, "payload-len:34", enc5("erd", append(append([]byte(nil), a...), x, x)))
			}
			b32.text(l, "payload-len:31", enc5("erd", a[:31]))
			b32.text(l, "payload-len:30", enc5("erd", a[:30]))
			b32.text(l, "payload-len:31", enc5("erd", a[1:]))
			b32.merge(l)
		})

		// ---------- (b4) hex ----------
		hexAlpha := "0123456789abcdefABCDEF" + "/:@G`g x"
		for ln := 0; ln <= hexMaxLen; ln++ {
			total := 1
			for i := 0; i < ln; i++ {
				total *= len(hexAlpha)
			}
			chunks := 1
			if total >= 900 {
				chunks = 900
			}
			per := total / chunks
			ln := ln
			mc.Par(chunks, func(ch int) {
				l := newTally()
				buf := make([]byte, ln)
				for v := ch * per; v < (ch+1)*per; v++ {
					x := v
					for i := ln - 1; i >= 0; i-- {
						buf[i] = hexAlpha[x%len(hexAlpha)]
						x /= len(hexAlpha)
					}
					h2.text(l, fmt.Sprintf("all-strings-len-%d", ln), string(buf))
				}
				h2.merge(l)
			})
		}
		{
			small := "09afAFg"
			l := newTally()
			buf := make([]byte, 6)
			total := 7 * 7 * 7 * 7 * 7 * 7
			for v := 0; v < total; v++ {
				x := v
				for i := 5; i >= 0; i-- {
					buf[i] = small[x%7]
					x /= 7
				}
				h2.text(l, "all-strings-len-6-small-alphabet", string(buf))
			}
			h2.merge(l)
		}
		hexVariants := func(t *tester, a []byte) {
			l := newTally()
			s := hex.EncodeToString(a)
			t.text(l, "canonical", s)
			t.text(l, "upper-case", strings.ToUpper(s))
			t.text(l, "odd-length", s[:len(s)-1])
			t.text(l, "odd-length", s[1:])
			t.text(l, "odd-length", s+"0")
			t.text(l, "shorter", s[:len(s)-2])
			t.text(l, "shorter", s[2:])
			t.text(l, "longer", s+"00")
			t.text(l, "longer", "00"+s)
			t.text(l, "longer", s+"ff")
			t.text(l, "longer", s+s)
			t.text(l, "0x-prefix", "0x"+s)
			t.text(l, "0x-prefix", "0x"+s[2:])
			t.text(l, "whitespace", s+" ")
			t.text(l, "whitespace", " "+s)
			t.text(l, "whitespace", s+"\n")
			bs := []byte(s)
			for i := range bs {
				for _, ch := range []byte("gG/:@` x") {
					m := append([]byte(nil), bs...)
					m[i] = ch
					t.text(l, "non-hex-substitution", string(m))
				}
			}
			t.merge(l)
		}
		mc.Par(len(s32single), func(i int) { hexVariants(h32, s32single[i]) })
		mc.Par(65536, func(i int) {
			if i%16 == 0 {
				hexVariants(h2, []byte{byte(i >> 8), byte(i)})
			}
		})

		// ---------- info: where does the bech32 round trip stop (outside the property's space) ----------
		longest := 0
		for n := 2; n <= 128; n += 2 {
			cv, err := pubkeyConverter.NewBech32PubkeyConverter(n)
			if err != nil {
				continue
			}
			b := bytes.Repeat([]byte{0x5a}, n)
			d, err := cv.Decode(cv.Encode(b))
			if err == nil && bytes.Equal(d, b) {
				longest = n
			}
		}
		c.Set("info_bech32_longest_round_tripping_length", longest)

		// ---------- evidence ----------
		for _, t := range []*tester{b2, b32, h2, h32, h96} {
			keys := map[string]bool{}
			for k := range t.acc {
				keys[k] = true
			}
			for k := range t.rej {
				keys[k] = true
			}
			tab := map[string]string{}
			for k := range keys {
				tab[k] = fmt.Sprintf("accepted %d / rejected %d", t.acc[k], t.rej[k])
				if t.acc[k] > 0 {
					c.Outcome(fmt.Sprint(t.kind, t.n, k, "accepted"))
				}
				if t.rej[k] > 0 {
					c.Outcome(fmt.Sprint(t.kind, t.n, k, "rejected"))
				}
				nontriv := strings.HasPrefix(k, "valid-checksum:") || strings.HasPrefix(k, "prefix:") || strings.HasPrefix(k, "payload-len:") || k == "q-before-final-p"
				if t.kind == "bech32" && nontriv && k != "prefix:none" && t.rej[k] > 0 {
					c.Nontrivial(fmt.Sprint(t.kind, t.n, k))
				}
			}
			c.Set(fmt.Sprintf("texts_%s_n%d", t.kind, t.n), tab)
		}
		c.Sample(map[string]interface{}{"bytes": "0000", "bech32": canon2[0], "hex": "0000"})
		c.Sample(map[string]interface{}{"bytes": "ffff", "bech32": canon2[65535]})
		c.Sample(map[string]interface{}{"valid checksum, 3-byte payload, rejected by the length check": enc5("erd", []byte{0, 0, 0})})
		c.Sample(map[string]interface{}{"valid checksum, prefix erdd, rejected by the prefix check": enc5("erdd", []byte{0, 0})})
		col.flush(c)
	})
}
