// C21 — transaction fees never exceed what the sender authorised.
//
// Full product of boundary alphabets over fee configuration x the four (penalize-too-much-gas,
// gas-price-modifier) flag settings x transaction (gas price, data, gas limit, value) x gas
// used x refund, on the real economicsData (real builtInFunctionsCost behind it).
//
// What is judged, for every transaction accepted by CheckValidityTxValues:
//
//	(1) ComputeMoveBalanceFee <= ComputeTxFee <= gasLimit*gasPrice;
//	(2) ComputeTxFeeBasedOnGasUsed is monotone non-decreasing over the gas-used grid and, for
//	    gasUsed <= gasLimit, never exceeds the full fee;
//	(3) ComputeGasUsedAndFeeBasedOnRefundValue: gas used <= gas limit; for a refund r > 0 the
//	    fee is exactly ComputeTxFee - r; for r == 0 on a non-built-in call it is ComputeTxFee;
//	    the resulting fee stays within [move-balance fee, gasLimit*gasPrice].
//
// "The full fee" in (2): ComputeTxFee whenever at least one of the two flags is on. With BOTH
// flags off ComputeTxFee is, by construction, only the move-balance fee, and every consumer
// of it in such an epoch replaces it by gasLimit*gasPrice for anything that is not a plain
// move-balance (process/transaction/baseProcess.go checkTxValues, shardProcess.go processTxFee,
// process/smartContract/process.go 1486/1663); ComputeTxFeeBasedOnGasUsed is only consumed by
// the indexer, which passes gasUsed = ComputeGasLimit(tx) for plain transactions and
// gasUsed = gasLimit for failed/relayed SC calls — i.e. it reports what was really charged.
// So in flags-off epochs the full fee a sender authorised and is charged is gasLimit*gasPrice,
// and that is the bound used there. Run with --flagsoff=strict to demand
// ComputeTxFeeBasedOnGasUsed <= ComputeTxFee in flags-off epochs too (reported under the
// narrow signature "flags-off:ComputeTxFeeBasedOnGasUsed-above-ComputeTxFee(move-balance-only)").
// The number of such cases is always reported in the evidence counters.
package main

import (
	"flag"
	"fmt"
	"math/big"
	"sort"
	"sync"

	"github.com/ElrondNetwork/elrond-go/data/transaction"
	"verif/engine/mc"
)

var flagsOffMode = flag.String("flagsoff", "info", "info|strict: how gasUsed-fee > ComputeTxFee is treated when both fee flags are off")
var withBigPrices = flag.Bool("bigprices", true, "also enumerate gas prices above 2^53 (float64 rounding of the processing price)")

type dataShape struct {
	name    string
	data    []byte
	rcvSC   bool
	builtin bool
}

func repeat(b byte, n int) []byte {
	out := make([]byte, n)
	for i := range out {
		out[i] = b
	}
	return out
}

var scAddress = append(make([]byte, 8), repeat(0x11, 24)...) // 8 leading zero bytes = smart contract address
var userAddress = repeat(0x22, 32)

func dataAlphabet() []dataShape {
	return []dataShape{
		{"len0", nil, false, false},
		{"len1", []byte("a"), false, false},
		{"len2", []byte("ab"), false, false},
		{"len100", repeat('x', 100), false, false},
		{"scCall", []byte("doSomething@01@02"), true, false},
		{"ESDTTransfer", []byte("ESDTTransfer@544b4e2d313233343536@0a"), false, true},
		{"ESDTTransfer+scCall", []byte("ESDTTransfer@544b4e2d313233343536@0a@66756e63@01"), true, false},
		{"ESDTNFTCreate", []byte("ESDTNFTCreate@544b4e2d313233343536@01@6e616d65@09c4@00@00@75726c"), false, true},
		{"ClaimDeveloperRewards", []byte("ClaimDeveloperRewards"), true, true},
	}
}

func bigU(v uint64) *big.Int { return new(big.Int).SetUint64(v) }

func uniqU(v []uint64) []uint64 {
	sort.Slice(v, func(i, j int) bool { return v[i] < v[j] })
	out := v[:0]
	for i, x := range v {
		if i == 0 || x != v[i-1] {
			out = append(out, x)
		}
	}
	return out
}

// collector keeps, per signature, the witness of the earliest case in enumeration order
// (work item, case number) so that the reported witness is minimal and independent of the
// goroutine interleaving.
type collector struct {
	mu sync.Mutex
	m  map[string]*found
}

type found struct {
	rank   [2]int64
	detail map[string]interface{}
	count  int64
}

func (k *collector) add(sig string, rank [2]int64, detail map[string]interface{}) {
	k.mu.Lock()
	defer k.mu.Unlock()
	f := k.m[sig]
	if f == nil {
		k.m[sig] = &found{rank, detail, 1}
		return
	}
	f.count++
	if rank[0] < f.rank[0] || (rank[0] == f.rank[0] && rank[1] < f.rank[1]) {
		f.rank, f.detail = rank, detail
	}
}

func (k *collector) flush(c *mc.Ctx) {
	sigs := []string{}
	for s := range k.m {
		sigs = append(sigs, s)
	}
	sort.Strings(sigs)
	for _, s := range sigs {
		f := k.m[s]
		f.detail["violating_cases_in_this_run"] = f.count
		c.Violation(s, f.detail, nil)
	}
}

type work struct {
	cfg   feeCfg
	price uint64
}

func main() {
	mc.Main("C21", "exploration", func(c *mc.Ctx) {
		strict := *flagsOffMode == "strict"
		minPrices := []uint64{1, 1000, 1000000000}
		modifiers := []float64{0.01, 0.5, 0.999, 1}
		minLimits := []uint64{1, 50000}
		perByte := []uint64{1, 1500}
		maxPerBlock := []uint64{1500000000}
		builtinCosts := []uint64{1, 200000}
		if !c.Quick() {
			modifiers = []float64{0.01, 0.1, 0.5, 0.999, 0.9999999999999999, 1}
			maxPerBlock = []uint64{1500000000, 1 << 62}
			minLimits = []uint64{1, 50000, 100000}
		}
		supply, _ := new(big.Int).SetString(genesisSupply, 10)
		values := []*big.Int{big.NewInt(0), big.NewInt(1), supply, new(big.Int).Add(supply, big.NewInt(1)), new(big.Int).Lsh(big.NewInt(1), 90)}

		var works []work
		nCfg := 0
		for _, mp := range minPrices {
			for _, mo := range modifiers {
				for _, ml := range minLimits {
					for _, pb := range perByte {
						for _, mb := range maxPerBlock {
							for _, bcost := range builtinCosts {
								for fl := 0; fl < 4; fl++ {
									f := feeCfg{mp, mo, ml, pb, mb, fl&1 != 0, fl&2 != 0, bcost}
									nCfg++
									prices := []uint64{mp - 1, mp, mp + 1, 2 * mp, 1 << 63}
									if *withBigPrices {
										prices = append(prices, 1<<53+1, 1<<53+3, 1<<64-1)
									}
									for _, p := range uniqU(prices) {
										works = append(works, work{f, p})
									}
								}
							}
						}
					}
				}
			}
		}
		// simplest first: by gas price, then configuration order
		sort.SliceStable(works, func(i, j int) bool { return works[i].price < works[j].price })
		col := &collector{m: map[string]*found{}}
		defer col.flush(c)
		c.Set("fee_configurations", nCfg)
		c.Rule = fmt.Sprintf("full product: minGasPrice%v x modifier%v x minGasLimit%v x gasPerDataByte%v x maxGasLimitPerBlock%v x builtInCost%v x 4 flag settings; tx: gasPrice{min-1,min,min+1,2min,2^63%s} x data{0,1,2,100 bytes, SC call, 3 built-in calls, built-in+SC call} x gasLimit{req-1,req,req+1,req+1000,req+builtInCost(+-1),11*(req+cost),max-1,max} x value{0,1,supply,supply+1,2^90}; per accepted tx: gasUsed{0,move-1,move,move+1,mid,limit-1,limit} and refund{0,1,procPrice-1,procPrice,k*procPrice,fee-moveFee-1,fee-moveFee} within [0, ComputeTxFee-moveFee]. Non-trivial: accepted tx with gasLimit > move-balance gas, modifier flag on and modifier < 1.",
			minPrices, modifiers, minLimits, perByte, maxPerBlock, builtinCosts, map[bool]string{true: ",2^53+1,2^53+3,2^64-1", false: ""}[*withBigPrices])
		c.Bound = "complete product of the stated alphabets"
		c.Assumptions = []string{
			"transactions whose processing gas price uint64(gasPrice*modifier) is 0 are not judged (big.Int division by zero in ComputeGasUsedAndFeeBasedOnRefundValue); they are counted in 'skipped_processing_price_zero'. This needs minGasPrice*modifier < 1, which no shipped configuration is near",
			"'the full fee' is ComputeTxFee when at least one fee flag is on and gasLimit*gasPrice when both are off (see the header comment; all in-repo consumers of ComputeTxFee apply exactly this override). --flagsoff=strict selects the other reading",
			"a refund is any value in [0, ComputeTxFee - move-balance fee]; larger refunds cannot be produced for the transaction",
			"with refund 0 on a built-in function call the function derives the gas used from the built-in cost; there 'fee == ComputeTxFee - refund' is not demanded, only the range clauses",
			"smart contract results (zero move-balance fee objects) are not enumerated: the statement speaks about transactions",
		}
		datas := dataAlphabet()

		mc.Par(len(works), func(wi int) {
			w := works[wi]
			ed, err := newEconomics(w.cfg)
			if err != nil {
				c.Fatal("cannot build economics for %v: %v", w.cfg, err)
			}
			var nEval, nRejected, nSkipZero, nFlagsOffAbove int64
			outs := map[string]struct{}{}
			defer func() {
				c.Eval(nEval)
				c.Count("tx_rejected_by_CheckValidityTxValues", nRejected)
				c.Count("skipped_processing_price_zero", nSkipZero)
				c.Count("info_flagsoff_gasUsedFee_above_ComputeTxFee", nFlagsOffAbove)
				for k := range outs {
					c.Outcome(k)
				}
			}()
			bothOff := !w.cfg.PenalizeOn && !w.cfg.ModifierOn
			// Known class kept apart from everything else: for gas prices above 2^53 the processing
			// price uint64(float64(gasPrice)*modifier) is not the exact floor(gasPrice*modifier)
			// (float64 cannot hold the price; 2^64-1 even converts out of range). Any clause broken
			// while that is the case is reported under this one signature; the same clause broken
			// with an exactly computed processing price keeps its own signature.
			const floatSig = "processing-gas-price:float64-rounding:gasPrice>2^53"
			effMod := 1.0
			if w.cfg.ModifierOn {
				effMod = w.cfg.Modifier
			}
			exactProc := new(big.Int).Mul(bigU(w.price), new(big.Rat).SetFloat64(effMod).Num())
			exactProc.Div(exactProc, new(big.Rat).SetFloat64(effMod).Denom())
			floatRounded := false
			for _, d := range datas {
				rcv := userAddress
				if d.rcvSC {
					rcv = scAddress
				}
				probe := &transaction.Transaction{GasPrice: w.price, Data: d.data, RcvAddr: rcv, Value: big.NewInt(0)}
				req := ed.ComputeGasLimit(probe)
				extra := w.cfg.BuiltInCost
				if d.name == "ESDTNFTCreate" {
					extra = w.cfg.BuiltInCost * 20 // upper estimate; exact value irrelevant for the alphabet
				}
				limits := uniqU([]uint64{req - 1, req, req + 1, req + 1000, req + extra - 1, req + extra, req + extra + 1,
					11 * (req + extra), w.cfg.MaxGasPerBlock - 1, w.cfg.MaxGasPerBlock})
				for _, limit := range limits {
					for _, val := range values {
						nEval++
						tx := &transaction.Transaction{GasPrice: w.price, GasLimit: limit, Data: d.data, RcvAddr: rcv, SndAddr: userAddress, Value: val}
						if ed.CheckValidityTxValues(tx) != nil {
							nRejected++
							continue
						}
						procPrice := ed.GasPriceForProcessing(tx)
						floatRounded = w.price > 1<<53 && bigU(procPrice).Cmp(exactProc) != 0
						if procPrice == 0 {
							nSkipZero++
							continue
						}
						sg := func(s string) string {
							if floatRounded {
								return floatSig
							}
							return s
						}
						witness := func(extra map[string]interface{}) map[string]interface{} {
							m := map[string]interface{}{"config": w.cfg.String(), "gasPrice": w.price, "gasLimit": limit, "data": string(d.data),
								"value": val.String(), "moveBalanceGas": req, "processingGasPrice": procPrice}
							for k, v := range extra {
								m[k] = v
							}
							return m
						}
						var moveFee, fee *big.Int
						if p := mc.Try(func() { moveFee = ed.ComputeMoveBalanceFee(tx); fee = ed.ComputeTxFee(tx) }); p != "" {
							col.add(sg("ComputeTxFee:panic"), [2]int64{int64(wi), nEval}, witness(map[string]interface{}{"panic": p}))
							continue
						}
						authorised := new(big.Int).Mul(bigU(limit), bigU(w.price))
						if fee.Cmp(moveFee) < 0 {
							col.add(sg("ComputeTxFee:below-move-balance-fee"), [2]int64{int64(wi), nEval}, witness(map[string]interface{}{"fee": fee.String(), "moveBalanceFee": moveFee.String()}))
						}
						if fee.Cmp(authorised) > 0 {
							col.add(sg("ComputeTxFee:above-gasLimit*gasPrice"), [2]int64{int64(wi), nEval}, witness(map[string]interface{}{"fee": fee.String(), "gasLimit*gasPrice": authorised.String()}))
						}
						fullFee := fee
						if bothOff {
							fullFee = authorised
						}
						// (2) fee from gas used
						grid := uniqU([]uint64{0, req - 1, req, req + 1, req + (limit-req)/2, limit - 1, limit})
						var prev *big.Int
						var prevG uint64
						for _, g := range grid {
							if g > limit {
								continue
							}
							nEval++
							var fg *big.Int
							if p := mc.Try(func() { fg = ed.ComputeTxFeeBasedOnGasUsed(tx, g) }); p != "" {
								col.add(sg("ComputeTxFeeBasedOnGasUsed:panic"), [2]int64{int64(wi), nEval}, witness(map[string]interface{}{"gasUsed": g, "panic": p}))
								continue
							}
							if prev != nil && fg.Cmp(prev) < 0 {
								col.add(sg("ComputeTxFeeBasedOnGasUsed:not-monotone-in-gasUsed"), [2]int64{int64(wi), nEval}, witness(map[string]interface{}{"gasUsed": g, "fee": fg.String(), "smaller_gasUsed": prevG, "fee_smaller": prev.String()}))
							}
							prev, prevG = fg, g
							if fg.Cmp(fullFee) > 0 {
								col.add(sg("ComputeTxFeeBasedOnGasUsed:above-full-fee"), [2]int64{int64(wi), nEval}, witness(map[string]interface{}{"gasUsed": g, "feeFromGasUsed": fg.String(), "fullFee": fullFee.String(), "ComputeTxFee": fee.String()}))
							}
							if bothOff && fg.Cmp(fee) > 0 {
								nFlagsOffAbove++
								if strict {
									col.add(sg("flags-off:ComputeTxFeeBasedOnGasUsed-above-ComputeTxFee(move-balance-only)"), [2]int64{int64(wi), nEval}, witness(map[string]interface{}{"gasUsed": g, "feeFromGasUsed": fg.String(), "ComputeTxFee": fee.String()}))
								}
							}
						}
						// (3) refunds
						room := new(big.Int).Sub(fee, moveFee)
						k := (limit - req) / 2
						cands := []*big.Int{big.NewInt(0), big.NewInt(1), bigU(procPrice - 1), bigU(procPrice), new(big.Int).Mul(bigU(k), bigU(procPrice)),
							new(big.Int).Sub(room, big.NewInt(1)), room}
						seen := map[string]bool{}
						for _, r := range cands {
							if r.Sign() < 0 || r.Cmp(room) > 0 || seen[r.String()] {
								continue
							}
							seen[r.String()] = true
							nEval++
							var gu uint64
							var fr *big.Int
							if p := mc.Try(func() { gu, fr = ed.ComputeGasUsedAndFeeBasedOnRefundValue(tx, new(big.Int).Set(r)) }); p != "" {
								col.add(sg("ComputeGasUsedAndFeeBasedOnRefundValue:panic"), [2]int64{int64(wi), nEval}, witness(map[string]interface{}{"refund": r.String(), "panic": p}))
								continue
							}
							wit := witness(map[string]interface{}{"refund": r.String(), "reportedGasUsed": gu, "reportedFee": fr.String(), "ComputeTxFee": fee.String(), "moveBalanceFee": moveFee.String(), "builtInCall": d.builtin})
							builtinZero := r.Sign() == 0 && d.builtin
							// distinct cause, never folded into the float class: the built-in branch reports
							// move-balance gas + built-in cost although the gas limit is below that sum
							overBuiltIn := builtinZero && gu > limit
							pick := func(s string) string {
								if overBuiltIn {
									return s + ":built-in-call-with-gasLimit-below-built-in-cost"
								}
								return sg(s)
							}
							if gu > limit {
								col.add(pick("ComputeGasUsedAndFeeBasedOnRefundValue:gasUsed-above-gasLimit"), [2]int64{int64(wi), nEval}, wit)
							}
							if !builtinZero && fr.Cmp(new(big.Int).Sub(fee, r)) != 0 {
								col.add(sg("ComputeGasUsedAndFeeBasedOnRefundValue:fee-not-lowered-by-exactly-the-refund"), [2]int64{int64(wi), nEval}, wit)
							}
							if fr.Cmp(moveFee) < 0 {
								col.add(sg("ComputeGasUsedAndFeeBasedOnRefundValue:fee-below-move-balance-fee"), [2]int64{int64(wi), nEval}, wit)
							}
							if fr.Cmp(fullFee) > 0 {
								col.add(pick("ComputeGasUsedAndFeeBasedOnRefundValue:fee-above-full-fee"), [2]int64{int64(wi), nEval}, wit)
							}
							outs[fmt.Sprint("refund", r.Sign() == 0, gu == limit, gu <= req, d.builtin)] = struct{}{}
						}
						if limit > req && w.cfg.ModifierOn && w.cfg.Modifier < 1 {
							c.Nontrivial(fmt.Sprint(wi, d.name, limit, val))
							if c.WantSample() && wi%37 == 5 && d.name == "scCall" {
								c.Sample(witness(map[string]interface{}{"ComputeTxFee": fee.String(), "moveBalanceFee": moveFee.String(), "gasLimit*gasPrice": authorised.String()}))
							}
						}
						outs[fmt.Sprint("fee", fee.Cmp(moveFee), fee.Cmp(authorised), w.cfg.PenalizeOn, w.cfg.ModifierOn)] = struct{}{}
					}
				}
			}
		})
	})
}
