// C32 — data packing for network transfer is lossless.
// Exhaustive enumeration of all lists of byte strings (lengths from a boundary alphabet,
// distinct fill bytes) x limits x the three real packers; oracle: unpack(concat) == input,
// chunk-size rule in each packer's own measure.
package main

import (
	"bytes"
	"fmt"

	"github.com/ElrondNetwork/elrond-go/core/partitioning"
	"github.com/ElrondNetwork/elrond-go/data/batch"
	"github.com/ElrondNetwork/elrond-go/marshal"
	"verif/engine/mc"
)

var lens = []int{0, 1, 2, 5, 9, 10, 11, 20}
var limits = []int{1, 2, 10, 12, 13, 25, 1 << 20}

func main() {
	mc.Main("C32", "exploration", func(c *mc.Ctx) {
		maxLen := c.Pick(4, 6)
		c.Rule = fmt.Sprintf("all lists of <=%d byte strings with lengths from %v (distinct fill bytes) x limits %v x {SizeDataPacker, SimpleDataPacker, DataSplit}; non-trivial = >=2 chunks of which one holds >=2 elements (a flush with carry-over)", maxLen, lens, limits)
		c.Bound = fmt.Sprintf("list length <= %d", maxLen)
		m := &marshal.GogoProtoMarshalizer{}
		size, _ := partitioning.NewSizeDataPacker(m)
		simple, _ := partitioning.NewSimpleDataPacker(m)
		split := &partitioning.DataSplit{}

		// enumerate lists as numbers in base len(lens)
		var lists [][]int
		var rec func(cur []int)
		rec = func(cur []int) {
			lists = append(lists, append([]int{}, cur...))
			if len(cur) == maxLen {
				return
			}
			for i := range lens {
				rec(append(cur, i))
			}
		}
		rec(nil)
		if len(c.ReplayData) > 0 {
			lists = nil
		}
		mc.Par(len(lists), func(i int) {
			li := lists[i]
			data := make([][]byte, len(li))
			shape := make([]int, len(li))
			for j, k := range li {
				data[j] = bytes.Repeat([]byte{byte(0x41 + j)}, lens[k])
				shape[j] = lens[k]
			}
			for _, limit := range limits {
				checkPack(c, "SizeDataPacker", size.PackDataInChunks, m, data, shape, limit, func(chunk [][]byte, raw []byte) bool {
					return len(raw) < limit || len(chunk) == 1
				})
				checkPack(c, "SimpleDataPacker", simple.PackDataInChunks, m, data, shape, limit, func(chunk [][]byte, raw []byte) bool {
					s := 0
					for _, e := range chunk {
						s += len(e)
					}
					return s < limit || len(chunk) == 1
				})
				checkSplit(c, split, data, shape, limit)
			}
		})
	})
}

func checkPack(c *mc.Ctx, name string, pack func([][]byte, int) ([][]byte, error), m marshal.Marshalizer,
	data [][]byte, shape []int, limit int, sizeOK func(chunk [][]byte, raw []byte) bool) {
	c.Eval(1)
	var chunks [][]byte
	var err error
	if p := mc.Try(func() { chunks, err = pack(data, limit) }); p != "" {
		c.Violation(name+":panic", map[string]interface{}{"lens": shape, "limit": limit, "panic": p}, nil)
		return
	}
	if err != nil {
		c.Violation(name+":error", map[string]interface{}{"lens": shape, "limit": limit, "err": err.Error()}, nil)
		return
	}
	var got [][]byte
	multi := false
	for _, raw := range chunks {
		b := &batch.Batch{}
		if e := m.Unmarshal(b, raw); e != nil {
			c.Violation(name+":chunk-does-not-unmarshal", map[string]interface{}{"lens": shape, "limit": limit}, nil)
			return
		}
		if len(b.Data) >= 2 {
			multi = true
		}
		if !sizeOK(b.Data, raw) {
			c.Violation(name+":chunk-over-limit", map[string]interface{}{"lens": shape, "limit": limit, "chunk_elems": len(b.Data), "chunk_bytes": len(raw)}, nil)
		}
		if len(b.Data) == 0 {
			c.Violation(name+":empty-chunk", map[string]interface{}{"lens": shape, "limit": limit, "chunks": len(chunks)}, nil)
		}
		got = append(got, b.Data...)
	}
	if !sameList(got, data) {
		c.Violation(name+":elements-lost-or-reordered", map[string]interface{}{"lens": shape, "limit": limit, "in": len(data), "out": len(got), "chunks": len(chunks)}, nil)
	}
	if len(chunks) >= 2 && multi {
		c.Nontrivial(fmt.Sprint(name, shape, limit))
		if c.WantSample() {
			c.Sample(map[string]interface{}{"packer": name, "lens": shape, "limit": limit, "chunks": len(chunks)})
		}
	}
	c.Outcome(fmt.Sprint(name, len(chunks)))
}

func checkSplit(c *mc.Ctx, ds *partitioning.DataSplit, data [][]byte, shape []int, limit int) {
	c.Eval(1)
	chunks, err := ds.SplitDataInChunks(data, limit)
	if err != nil {
		c.Violation("DataSplit:error", map[string]interface{}{"lens": shape, "limit": limit, "err": err.Error()}, nil)
		return
	}
	var got [][]byte
	for i, ch := range chunks {
		if len(ch) > limit || len(ch) == 0 || (i < len(chunks)-1 && len(ch) != limit) {
			c.Violation("DataSplit:chunk-size", map[string]interface{}{"lens": shape, "limit": limit, "chunk": i, "n": len(ch)}, nil)
		}
		got = append(got, ch...)
	}
	if !sameList(got, data) {
		c.Violation("DataSplit:elements-lost-or-reordered", map[string]interface{}{"lens": shape, "limit": limit}, nil)
	}
	if len(chunks) >= 2 {
		c.Nontrivial(fmt.Sprint("split", shape, limit))
	}
	c.Outcome(fmt.Sprint("split", len(chunks)))
}

func sameList(a, b [][]byte) bool {
	if len(a) != len(b) {
		return false
	}
	for i := range a {
		if !bytes.Equal(a[i], b[i]) {
			return false
		}
	}
	return true
}
