// Harness adb — C06 (revert to a journal snapshot is exact) and C07 (code entries are
// reference-counted correctly).
//
// Explicit-state BFS (mc.BFS) over the REAL state.NewAccountsDB + real patricia-merkle trie
// + real trieStorageManager (in-memory DBs) + real storagePruningManager/evictionWaitingList.
// Every operation goes through the API the transaction processors use: LoadAccount, mutate
// the returned account, SaveAccount / RemoveAccount / JournalLen / RevertToSnapshot / Commit.
// The reference model is a plain Go map of accounts; a snapshot is a deep copy of it.
// The oracle evaluated is chosen by --property (c.Prop): one property's violation never fails
// the other's check.
//
// Differences from DESIGN.md §3.2 (the design is a plan):
//   - the alphabet has 24 operations (the design's families spelled out per account/key/value)
//     instead of 14, so the full alphabet is searched to depth 4 (quick) / 6 (thorough) and a
//     14-operation core sub-alphabet (per property) to depth 6 (quick) / 8 (thorough; C07: 7);
//   - the oracle's read-back is made non-perturbing (the data-trie cache it fills is put
//     back), and "load(S)" is an explicit operation, so that histories in which an account
//     was not read before being removed/re-created are explored too;
//   - the journal is part of the state key only above the lowest live snapshot.
//
// C06 is VIOLATED on the unchanged tree (not anticipated by the design): when an account is
// removed and re-created with storage inside one journal epoch, saveDataTrie replaces the
// cached data trie of the address and no journal entry puts the old one back, so after
// RevertToSnapshot the restored account is served the wrong (new, emptied) data trie:
// store(S,k1,x), snapshot, store(S,k1,-), remove(S), store(S,k1,x), revert -> S.k1 reads empty
// although state root and account root hash are restored. Fix: /verif/fixes/C06.diff.
package main

import (
	"bytes"
	"crypto/sha256"
	"encoding/hex"
	"encoding/json"
	"flag"
	"fmt"
	"math/big"
	"os"
	"runtime/debug"
	"sort"
	"strings"
	"time"

	logger "github.com/ElrondNetwork/elrond-go-logger"
	"github.com/ElrondNetwork/elrond-go/config"
	"github.com/ElrondNetwork/elrond-go/data"
	"github.com/ElrondNetwork/elrond-go/data/state"
	"github.com/ElrondNetwork/elrond-go/data/state/factory"
	"github.com/ElrondNetwork/elrond-go/data/state/storagePruningManager"
	"github.com/ElrondNetwork/elrond-go/data/state/storagePruningManager/evictionWaitingList"
	"github.com/ElrondNetwork/elrond-go/data/trie"
	"github.com/ElrondNetwork/elrond-go/data/trie/hashesHolder"
	"github.com/ElrondNetwork/elrond-go/hashing/blake2b"
	"github.com/ElrondNetwork/elrond-go/marshal"
	"github.com/ElrondNetwork/elrond-go/storage/memorydb"
	"verif/engine/mc"
)

// ---------------------------------------------------------------- alphabet

var (
	addrA = bytes.Repeat([]byte{0xA1}, 32)
	addrB = bytes.Repeat([]byte{0xB2}, 32)
	// S looks like a smart-contract address (8 zero bytes + VM type), the others like wallets.
	addrS = append(append(make([]byte, 8), 5, 0), bytes.Repeat([]byte{0x5C}, 22)...)
	addrs = map[string][]byte{"A": addrA, "B": addrB, "S": addrS}
	names = []string{"A", "B", "S"}

	codes  = map[string][]byte{"c1": []byte("code-one"), "c2": []byte("code-two-longer"), "": nil}
	keys   = map[string][]byte{"k1": []byte("k1"), "k2": []byte("key2")}
	knames = []string{"k1", "k2"}
	vals   = map[string][]byte{"x": []byte("x"), "y": []byte("yy"), "": nil}
	meta1  = []byte{1, 0}

	hasher      = blake2b.NewBlake2b()
	marshalizer = &marshal.GogoProtoMarshalizer{}
)

const (
	kBal = iota
	kNonce
	kOwner
	kMeta
	kCode
	kStore
	kRemove
	kLoad
	kSnapshot
	kRevertSnap // arg = index from the top of the snapshot stack (0 = latest)
	kRevertZero
	kCommit
)

type opDef struct {
	name string
	kind int
	who  string // account name
	a, b string // arguments (code name / key, value)
	n    int
}

const maxSnaps = 2
const maxNonce = 2

func buildMenu() []opDef {
	m := []opDef{
		{name: "bal(A,1)", kind: kBal, who: "A", n: 1},
		{name: "bal(S,1)", kind: kBal, who: "S", n: 1},
		{name: "bal(S,2)", kind: kBal, who: "S", n: 2},
		{name: "nonce(S)", kind: kNonce, who: "S"},
		{name: "owner(S,A)", kind: kOwner, who: "S"},
		{name: "meta(S)", kind: kMeta, who: "S"},
		{name: "code(S,c1)", kind: kCode, who: "S", a: "c1"},
		{name: "code(S,c2)", kind: kCode, who: "S", a: "c2"},
		{name: "code(S,-)", kind: kCode, who: "S", a: ""},
		{name: "code(S,empty)", kind: kCode, who: "S", a: "e"}, // empty but non-nil slice: semantically "no code"
		{name: "code(B,c1)", kind: kCode, who: "B", a: "c1"},
		{name: "code(B,-)", kind: kCode, who: "B", a: ""},
		{name: "store(S,k1,x)", kind: kStore, who: "S", a: "k1", b: "x"},
		{name: "store(S,k1,y)", kind: kStore, who: "S", a: "k1", b: "y"},
		{name: "store(S,k1,-)", kind: kStore, who: "S", a: "k1", b: ""},
		{name: "store(S,k2,x)", kind: kStore, who: "S", a: "k2", b: "x"},
		{name: "store(B,k1,x)", kind: kStore, who: "B", a: "k1", b: "x"},
		{name: "remove(S)", kind: kRemove, who: "S"},
		{name: "remove(B)", kind: kRemove, who: "B"},
		{name: "load(S)", kind: kLoad, who: "S"},
		{name: "snapshot", kind: kSnapshot},
	}
	for i := 0; i < maxSnaps; i++ {
		m = append(m, opDef{name: fmt.Sprintf("revert(snap top-%d)", i), kind: kRevertSnap, n: i})
	}
	m = append(m, opDef{name: "revert(0)", kind: kRevertZero}, opDef{name: "commit", kind: kCommit})
	return m
}

// ---------------------------------------------------------------- reference model

type racct struct {
	Bal   int64
	Nonce uint64
	Owner string // hex
	Code  string // code name ("" = none)
	Meta  string // hex
	Store map[string]string
}

type rstate map[string]*racct

func (r rstate) clone() rstate {
	c := rstate{}
	for k, a := range r {
		n := *a
		n.Store = map[string]string{}
		for sk, sv := range a.Store {
			n.Store[sk] = sv
		}
		c[k] = &n
	}
	return c
}

func (r rstate) String() string {
	var sb strings.Builder
	for _, n := range names {
		a, ok := r[n]
		if !ok {
			continue
		}
		fmt.Fprintf(&sb, "%s{b%d n%d o%s c%s m%s", n, a.Bal, a.Nonce, a.Owner, a.Code, a.Meta)
		for _, k := range knames {
			if v, ok := a.Store[k]; ok {
				fmt.Fprintf(&sb, " %s=%s", k, v)
			}
		}
		sb.WriteString("}")
	}
	return sb.String()
}

func (r rstate) get(n string) *racct {
	a, ok := r[n]
	if !ok {
		a = &racct{Store: map[string]string{}}
		r[n] = a
	}
	return a
}

// ---------------------------------------------------------------- observation of the implementation

type oacct struct {
	Exists   bool
	Bal      string
	Nonce    uint64
	Owner    string
	CodeHash string
	Code     string // hex of GetCode(codeHash)
	Meta     string
	DataRoot string
	Store    map[string]string // key name -> hex value ("" = empty)
	Err      string
}

type obs struct {
	Root string
	Acc  map[string]*oacct
}

type snap struct {
	jlen int
	ref  rstate
	obs  *obs
	nops int // len(world.ops) when taken
}

type world struct {
	prop string
	adb  *state.AccountsDB
	tsm  data.StorageManager
	db   *memorydb.DB

	ref           rstate
	committed     rstate
	committedRoot string
	snaps         []snap
	ops           []opDef // successful account operations since the last Commit / revert(0)

	// the last step (judged by check)
	sig, detail string
	nt, out     string
	step        struct {
		op         opDef
		done       bool
		expect     *obs // exact observation demanded after a revert (nil: none recorded)
		reverted   string
		revKinds   []string
		spanOps    []opDef // operations undone by a revert to a snapshot
		refsBefore map[string]int
	}
	cur *obs // observation made by check (nil until then)
}

func newWorld(prop string) *world {
	db := memorydb.New()
	cfg := config.TrieStorageManagerConfig{PruningBufferLen: 1000, SnapshotsBufferLen: 10, MaxSnapshots: 2}
	tsm, err := trie.NewTrieStorageManager(trie.NewTrieStorageManagerArgs{
		DB: db, Marshalizer: marshalizer, Hasher: hasher,
		SnapshotDbConfig:       config.DBConfig{Type: "MemoryDB"},
		GeneralConfig:          cfg,
		CheckpointHashesHolder: hashesHolder.NewCheckpointHashesHolder(10000000, uint64(hasher.Size())),
	})
	must(err)
	tr, err := trie.NewTrie(tsm, marshalizer, hasher, 5)
	must(err)
	ewl, err := evictionWaitingList.NewEvictionWaitingList(100, memorydb.New(), marshalizer)
	must(err)
	spm, err := storagePruningManager.NewStoragePruningManager(ewl, cfg.PruningBufferLen)
	must(err)
	adb, err := state.NewAccountsDB(tr, hasher, marshalizer, factory.NewAccountCreator(), spm)
	must(err)
	w := &world{prop: prop, adb: adb, tsm: tsm, db: db, ref: rstate{}, committed: rstate{}}
	rh, err := adb.RootHash()
	must(err)
	w.committedRoot = hx(rh) // "last committed state" before any Commit = the empty state
	return w
}

func must(err error) {
	if err != nil {
		panic(err)
	}
}

func (w *world) close() {
	_ = w.adb.Close()
	_ = w.tsm.Close()
}

func hx(b []byte) string { return hex.EncodeToString(b) }

// observe reads the complete state back through the public API only. GetExistingAccount
// caches the data tries it loads in AccountsDB.dataTries; that cache is put back afterwards
// so that observing does not change which histories are explored (loading is an explicit
// operation of the alphabet instead).
func (w *world) observe() *obs {
	held := state.VerifLoadedDataTries(w.adb)
	defer state.VerifRestoreLoadedDataTries(w.adb, held)
	o := &obs{Acc: map[string]*oacct{}}
	rh, err := w.adb.RootHash()
	o.Root = hx(rh)
	if err != nil {
		o.Root = "ERR:" + err.Error()
	}
	for _, n := range names {
		oa := &oacct{Store: map[string]string{}}
		o.Acc[n] = oa
		acc, err := w.adb.GetExistingAccount(addrs[n])
		if err == state.ErrAccNotFound {
			continue
		}
		if err != nil {
			oa.Err = err.Error()
			continue
		}
		ua, ok := acc.(state.UserAccountHandler)
		if !ok {
			oa.Err = "not a user account"
			continue
		}
		oa.Exists = true
		oa.Bal = ua.GetBalance().String()
		oa.Nonce = ua.GetNonce()
		oa.Owner = hx(ua.GetOwnerAddress())
		oa.CodeHash = hx(ua.GetCodeHash())
		oa.Code = hx(w.adb.GetCode(ua.GetCodeHash()))
		oa.Meta = hx(ua.GetCodeMetadata())
		oa.DataRoot = hx(ua.GetRootHash())
		for _, k := range knames {
			v, err := ua.DataTrieTracker().RetrieveValue(append([]byte{}, keys[k]...))
			if err != nil && err != state.ErrNilTrie {
				oa.Store[k] = "ERR:" + err.Error()
				continue
			}
			oa.Store[k] = hx(v)
		}
	}
	return o
}

// refObs renders the reference as the observation it demands ("*" = not determined by the
// reference: state root and data-trie roots).
func refObs(r rstate) *obs {
	o := &obs{Root: "*", Acc: map[string]*oacct{}}
	for _, n := range names {
		oa := &oacct{Store: map[string]string{}, DataRoot: "*"}
		o.Acc[n] = oa
		ra := r[n]
		if ra == nil {
			continue
		}
		oa.Exists = true
		oa.Bal = fmt.Sprint(ra.Bal)
		oa.Nonce = ra.Nonce
		oa.Owner = ra.Owner
		oa.Meta = ra.Meta
		if ra.Code != "" {
			oa.Code = hx(codes[ra.Code])
			oa.CodeHash = hx(hasher.Compute(string(codes[ra.Code])))
		}
		for _, k := range knames {
			oa.Store[k] = hx(vals[ra.Store[k]])
		}
	}
	return o
}

// diffObs compares an observation with a demanded one: the field classes that differ (for
// the signature) and one readable line per difference (for the witness).
func diffObs(got, want *obs, wantName string) (classes, lines []string) {
	add := func(class, where string, g, w interface{}) {
		classes = append(classes, class)
		lines = append(lines, fmt.Sprintf("%s: got %v, %s %v", where, g, wantName, w))
	}
	if want.Root != "*" && got.Root != want.Root {
		add("state-root", "RootHash()", got.Root, want.Root)
	}
	for _, n := range names {
		x, y := got.Acc[n], want.Acc[n]
		if x.Err != y.Err {
			add("account-unreadable", n, "error "+x.Err, "error "+y.Err)
			continue
		}
		if x.Exists != y.Exists {
			add("account-existence", n+" exists", x.Exists, y.Exists)
			continue
		}
		if x.Bal != y.Bal {
			add("balance", n+".balance", x.Bal, y.Bal)
		}
		if x.Nonce != y.Nonce {
			add("nonce", n+".nonce", x.Nonce, y.Nonce)
		}
		if x.Owner != y.Owner {
			add("owner", n+".owner", x.Owner, y.Owner)
		}
		if x.Meta != y.Meta {
			add("code-metadata", n+".codeMetadata", x.Meta, y.Meta)
		}
		if x.CodeHash != y.CodeHash {
			add("code", n+".codeHash", x.CodeHash, y.CodeHash)
		}
		if x.Code != y.Code {
			add("code", "GetCode("+n+".codeHash)", x.Code, y.Code)
		}
		if y.DataRoot != "*" && x.DataRoot != y.DataRoot {
			add("data-root", n+".rootHash", x.DataRoot, y.DataRoot)
		}
		for _, k := range knames {
			if x.Store[k] != y.Store[k] {
				add("storage-value", n+".storage["+k+"]", "'"+x.Store[k]+"'", "'"+y.Store[k]+"'")
			}
		}
	}
	return uniq(classes), lines
}

func uniq(d []string) []string {
	sort.Strings(d)
	var r []string
	for i, s := range d {
		if i == 0 || d[i-1] != s {
			r = append(r, s)
		}
	}
	return r
}

// ---------------------------------------------------------------- operations

func (w *world) enabled(op opDef) bool {
	switch op.kind {
	case kNonce:
		a := w.ref[op.who]
		return a == nil || a.Nonce < maxNonce
	case kRemove, kLoad:
		return w.ref[op.who] != nil
	case kSnapshot:
		jl := w.adb.JournalLen()
		if jl == 0 || len(w.snaps) >= maxSnaps {
			return false // a snapshot at length 0 is "revert(0)"
		}
		return len(w.snaps) == 0 || w.snaps[len(w.snaps)-1].jlen != jl
	case kRevertSnap:
		return op.n < len(w.snaps)
	}
	return true
}

// accountOp = LoadAccount, mutate, SaveAccount (or RemoveAccount), as the tx/sc processors do.
func (w *world) accountOp(op opDef) error {
	addr := append([]byte{}, addrs[op.who]...)
	if op.kind == kRemove {
		return w.adb.RemoveAccount(addr)
	}
	acc, err := w.adb.LoadAccount(addr)
	if err != nil {
		return err
	}
	ua := acc.(state.UserAccountHandler)
	switch op.kind {
	case kBal:
		delta := big.NewInt(0).Sub(big.NewInt(int64(op.n)), ua.GetBalance())
		if delta.Sign() >= 0 {
			err = ua.AddToBalance(delta)
		} else {
			err = ua.SubFromBalance(delta.Neg(delta))
		}
	case kNonce:
		ua.IncreaseNonce(1)
	case kOwner:
		ua.SetOwnerAddress(append([]byte{}, addrA...))
	case kMeta:
		ua.SetCodeMetadata(append([]byte{}, meta1...))
	case kCode:
		var c []byte
		if op.a == "e" {
			c = []byte{}
		} else if op.a != "" {
			c = append([]byte{}, codes[op.a]...)
		}
		ua.SetCode(c)
	case kStore:
		var v []byte
		if op.b != "" {
			v = append([]byte{}, vals[op.b]...)
		}
		err = ua.DataTrieTracker().SaveKeyValue(append([]byte{}, keys[op.a]...), v)
	}
	if err != nil {
		return err
	}
	return w.adb.SaveAccount(ua)
}

func (w *world) refApply(op opDef) {
	if op.kind == kRemove {
		delete(w.ref, op.who)
		return
	}
	a := w.ref.get(op.who)
	switch op.kind {
	case kBal:
		a.Bal = int64(op.n)
	case kNonce:
		a.Nonce++
	case kOwner:
		a.Owner = hx(addrA)
	case kMeta:
		a.Meta = hx(meta1)
	case kCode:
		a.Code = op.a
		if op.a == "e" {
			a.Code = ""
		}
	case kStore:
		if op.b == "" {
			delete(a.Store, op.a)
		} else {
			a.Store[op.a] = op.b
		}
	}
}

func codeRefs(r rstate) map[string]int {
	m := map[string]int{}
	for _, a := range r {
		if a.Code != "" {
			m[a.Code]++
		}
	}
	return m
}

func (w *world) fail(sig string, detail interface{}) {
	if w.sig == "" {
		w.sig = sig
		switch d := detail.(type) {
		case string:
			w.detail = d
		case error:
			w.detail = d.Error()
		default:
			b, _ := json.Marshal(d)
			w.detail = string(b)
		}
	}
}

func (w *world) do(op opDef) {
	w.sig, w.detail, w.nt, w.out, w.cur = "", "", "", "", nil
	pre := w.adb.JournalLen()
	st := &w.step
	st.op, st.done, st.expect, st.reverted, st.revKinds, st.spanOps = op, true, nil, "", nil, nil
	st.refsBefore = codeRefs(w.ref)
	switch op.kind {
	case kSnapshot:
		w.snaps = append(w.snaps, snap{jlen: pre, ref: w.ref.clone(), obs: w.observe(), nops: len(w.ops)})
		w.out = "snapshot"
	case kLoad:
		// what a processor does when it only reads an account (e.g. a transaction that fails
		// its checks): the data trie gets cached in AccountsDB.dataTries
		if _, err := w.adb.LoadAccount(append([]byte{}, addrs[op.who]...)); err != nil {
			w.fail("load-account-returned-error", err)
		}
		w.out = "load"
	case kRevertSnap:
		idx := len(w.snaps) - 1 - op.n
		s := w.snaps[idx]
		st.revKinds = state.VerifJournalKinds(w.adb, s.jlen)
		if err := w.adb.RevertToSnapshot(s.jlen); err != nil {
			w.fail("revert-to-recorded-length-returned-error", err)
		}
		w.ref = s.ref.clone()
		w.snaps = w.snaps[:idx+1]
		st.spanOps = append([]opDef{}, w.ops[s.nops:]...)
		w.ops = w.ops[:s.nops]
		st.expect = s.obs
		st.reverted = "snapshot"
		if jl := w.adb.JournalLen(); jl != s.jlen {
			w.fail("journal-length-after-revert-differs", fmt.Sprint(jl, " want ", s.jlen))
		}
	case kRevertZero:
		st.revKinds = state.VerifJournalKinds(w.adb, 0)
		if err := w.adb.RevertToSnapshot(0); err != nil {
			w.fail("revert-to-zero-returned-error", err)
		}
		w.ref = w.committed.clone()
		w.snaps = nil
		st.spanOps = w.ops
		w.ops = nil
		st.reverted = "zero"
	case kCommit:
		root, err := w.adb.Commit()
		if err != nil {
			w.fail("commit-returned-error", err)
		}
		w.committed = w.ref.clone()
		w.committedRoot = hx(root)
		w.snaps = nil
		w.ops = nil
		w.out = "commit"
	default:
		var before *obs
		if op.kind == kRemove {
			// the one operation that is expected to fail in some states (data trie of the
			// account not yet committed): record the exact pre-state for the revert check
			before = w.observe()
		}
		err := w.accountOp(op)
		if err != nil {
			// what scProcessor/txProcessor do: revert to the journal length before the operation
			w.out = "op-error:" + op.name[:strings.Index(op.name, "(")] + ":" + errClass(err)
			if e2 := w.adb.RevertToSnapshot(pre); e2 != nil {
				w.fail("revert-after-failed-operation-returned-error", e2)
			}
			if pre == 0 {
				w.snaps = nil
				w.ops = nil
			}
			st.expect = before // nil for the other operations: judged against the reference only
			st.reverted = "failed-op"
		} else {
			w.refApply(op)
			w.ops = append(w.ops, op)
			w.out = "ok:" + op.name[:strings.Index(op.name, "(")]
		}
	}
}

// check observes the implementation and evaluates the oracle of the selected property for
// the step just made (BFS calls it once per explored transition, not for replayed prefixes).
func (w *world) check() {
	w.cur = w.observe()
	if w.sig != "" || !w.step.done {
		if !w.step.done {
			if d, l := diffObs(w.cur, refObs(w.ref), "reference"); len(d) > 0 {
				w.fail("initial-state-not-empty", strings.Join(l, "; "))
			}
		}
		return
	}
	st := &w.step
	switch w.prop {
	case "C06":
		w.checkC06(st.op, st.expect, st.reverted, st.revKinds)
	case "C07":
		w.checkC07(st.op, st.refsBefore)
	}
}

func errClass(err error) string {
	s := err.Error()
	if i := strings.IndexAny(s, ":0123456789"); i > 0 {
		s = s[:i]
	}
	return strings.TrimSpace(s)
}

// C06: after every revert the observation equals the one recorded with the snapshot (state
// root, every field, every storage value) and the reference copy; revert(0) gives the last
// committed reference and the root returned by the last Commit. Sanity after every other
// operation: implementation == reference.
func (w *world) checkC06(op opDef, expect *obs, reverted string, revKinds []string) {
	dr, lr := diffObs(w.cur, refObs(w.ref), "reference")
	if reverted == "" {
		if len(dr) > 0 {
			w.fail("state-differs-from-reference-after-operation:"+strings.Join(dr, "+"), strings.Join(lr, "; "))
		}
		return
	}
	var d, l []string
	if expect != nil {
		d, l = diffObs(w.cur, expect, "recorded-at-snapshot")
	} else if reverted == "zero" && w.cur.Root != w.committedRoot {
		d, l = []string{"state-root"}, []string{fmt.Sprintf("RootHash(): got %s, last-commit %s", w.cur.Root, w.committedRoot)}
	}
	d = uniq(append(d, dr...))
	if len(d) > 0 {
		qual := ""
		if removedAndRecreatedWithStorage(w.step.spanOps) {
			// narrowest class of the defect found on the unchanged tree (see file header)
			qual = ":account-removed-and-recreated-with-storage-in-reverted-span"
		}
		w.fail("revert-"+reverted+"-inexact:"+strings.Join(d, "+")+qual,
			fmt.Sprintf("%s (reverted journal span: %v; reference now %s)", strings.Join(append(l, lr...), "; "), revKinds, w.ref.String()))
	}
	w.out = "revert-" + reverted + ":" + fmt.Sprint(len(revKinds))
	if reverted != "failed-op" {
		ks := uniq(append([]string{}, revKinds...))
		if len(ks) >= 2 {
			w.nt = reverted + ":" + strings.Join(revKinds, ",")
		}
	} else {
		w.out += ":" + op.name
	}
}

// removedAndRecreatedWithStorage: some account was removed and afterwards written a storage
// value (which re-creates it with a new data trie) within the given operations.
func removedAndRecreatedWithStorage(ops []opDef) bool {
	removed := map[string]bool{}
	for _, o := range ops {
		if o.kind == kRemove {
			removed[o.who] = true
		}
		if o.kind == kStore && removed[o.who] {
			return true
		}
	}
	return false
}

// C07: for every possible code hash: entry exists in the main trie iff >=1 account refers to
// it, NumReferences == number of such accounts, and the stored code hashes to its key.
func (w *world) checkC07(op opDef, refsBefore map[string]int) {
	mt := state.VerifMainTrie(w.adb)
	var outs []string
	for _, cn := range []string{"c1", "c2"} {
		h := hasher.Compute(string(codes[cn]))
		users := 0
		for _, n := range names {
			if oa := w.cur.Acc[n]; oa.Exists && oa.CodeHash == hx(h) {
				users++
			}
		}
		val, err := mt.Get(h)
		if err != nil {
			w.fail("code-entry-unreadable", err)
			continue
		}
		if len(val) == 0 {
			if users > 0 {
				w.fail("code-entry-missing-while-referenced", fmt.Sprintf("%s: %d accounts refer to it, no entry", cn, users))
			}
			outs = append(outs, cn+":-")
			continue
		}
		var ce state.CodeEntry
		if err := marshalizer.Unmarshal(&ce, val); err != nil {
			w.fail("code-entry-undecodable", err)
			continue
		}
		if users == 0 {
			w.fail("code-entry-present-without-referrer", fmt.Sprintf("%s: NumReferences=%d, 0 accounts refer to it", cn, ce.NumReferences))
		} else if int(ce.NumReferences) != users {
			w.fail("code-entry-refcount-wrong", fmt.Sprintf("%s: NumReferences=%d, %d accounts refer to it", cn, ce.NumReferences, users))
		}
		if !bytes.Equal(ce.Code, codes[cn]) {
			w.fail("code-entry-bytes-wrong", cn)
		}
		outs = append(outs, fmt.Sprintf("%s:%d", cn, users))
		// non-trivial: code shared by 2 accounts and this step took one reference away
		if refsBefore[cn] == 2 && codeRefs(w.ref)[cn] == 1 {
			w.nt = "shared-" + cn + "-dropped-by:" + op.name
		}
	}
	w.out = strings.Join(outs, " ") + "|" + w.out
	// the accounts' code hashes must be the ones the reference expects (keeps the count above
	// from being vacuous); a mismatch is a C06-type failure and is reported as such here too
	for _, n := range names {
		ra := w.ref[n]
		oa := w.cur.Acc[n]
		want := ""
		if ra != nil && ra.Code != "" {
			want = hx(hasher.Compute(string(codes[ra.Code])))
		}
		if oa.CodeHash != want {
			w.fail("account-code-hash-differs-from-reference", fmt.Sprintf("%s: got %s want %s", n, oa.CodeHash, want))
		}
	}
}

// ---------------------------------------------------------------- canonical state key

func (w *world) key() string {
	if w.cur == nil {
		w.cur = w.observe()
	}
	var sb strings.Builder
	fmt.Fprintf(&sb, "root=%s last=%s croot=%s\n", w.cur.Root, hx(state.VerifLastRootHash(w.adb)), w.committedRoot)
	lt := state.VerifLoadedDataTries(w.adb)
	lk := make([]string, 0, len(lt))
	for a, t := range lt {
		rh, _ := t.RootHash()
		lk = append(lk, hx([]byte(a))[:4]+"="+hx(rh))
	}
	sort.Strings(lk)
	fmt.Fprintf(&sb, "loaded=%v obsolete=%v\n", lk, state.VerifObsoleteRoots(w.adb))
	// DB content decides whether Recreate(root) of an older data trie succeeds
	var dk []string
	w.db.RangeKeys(func(k, _ []byte) bool { dk = append(dk, string(k)); return true })
	sort.Strings(dk)
	h := sha256.New()
	for _, k := range dk {
		h.Write([]byte(k))
		h.Write([]byte{0})
	}
	fmt.Fprintf(&sb, "db=%d:%x\n", len(dk), h.Sum(nil)[:12])
	fmt.Fprintf(&sb, "ref=%s\ncommitted=%s\n", w.ref.String(), w.committed.String())
	// journal: only the part above the lowest live snapshot can ever be undone entry by entry
	// (RevertToSnapshot(0) and Commit discard it wholesale)
	if len(w.snaps) > 0 {
		base := w.snaps[0].jlen
		for _, s := range w.snaps {
			fmt.Fprintf(&sb, "snap@%d root=%s ref=%s\n", s.jlen-base, s.obs.Root, s.ref.String())
		}
		for _, e := range state.VerifJournalDescribe(w.adb, base) {
			sb.WriteString(e)
			sb.WriteByte('\n')
		}
	}
	if w.adb.JournalLen() == 0 {
		sb.WriteString("journal-empty\n")
	}
	return sb.String()
}

// ---------------------------------------------------------------- main

// sub-alphabets ("core" menus) searched two steps deeper than the full alphabet
var coreMenus = map[string][]string{
	// data-trie / code / removal interplay with snapshots
	"C06": {"bal(S,1)", "code(S,c1)", "code(S,-)", "code(B,c1)", "store(S,k1,x)", "store(S,k1,-)", "store(S,k2,x)",
		"remove(S)", "load(S)", "snapshot", "revert(snap top-0)", "revert(snap top-1)", "revert(0)", "commit"},
	// everything that touches code entries, plus a storage write (makes RemoveAccount fail
	// while the data trie is uncommitted) and a plain field change
	"C07": {"bal(S,1)", "code(S,c1)", "code(S,c2)", "code(S,-)", "code(S,empty)", "code(B,c1)", "code(B,-)", "store(S,k1,x)",
		"remove(S)", "remove(B)", "snapshot", "revert(snap top-0)", "revert(snap top-1)", "revert(0)", "commit"},
}

func subMenu(full []opDef, names []string) []opDef {
	var r []opDef
	for _, n := range names {
		found := false
		for _, o := range full {
			if o.name == n {
				r = append(r, o)
				found = true
			}
		}
		if !found {
			panic("unknown operation " + n)
		}
	}
	return r
}

func opNames(menu []opDef) []string {
	r := make([]string, len(menu))
	for i, o := range menu {
		r[i] = o.name
	}
	return r
}

func search(c *mc.Ctx, menu []opDef, depth int) mc.BFSStats {
	return mc.BFS(c, mc.Sys[*world]{
		Init:    func() *world { return newWorld(c.Prop) },
		Menu:    opNames(menu),
		Enabled: func(w *world, op int) bool { return w.enabled(menu[op]) },
		Do: func(w *world, op int) (string, string) {
			w.do(menu[op])
			return w.sig, w.detail
		},
		Check: func(w *world) (string, string) {
			w.check()
			return w.sig, w.detail
		},
		Key:        func(w *world) string { return w.key() },
		Nontrivial: func(w *world) string { return w.nt },
		Outcome:    func(w *world) string { return w.out },
		Close:      func(w *world) { w.close() },
	}, depth)
}

// replay re-runs one recorded history (list of operation names), judging every step.
func replay(c *mc.Ctx, full []opDef) {
	var hist []string
	if err := json.Unmarshal(c.ReplayData, &hist); err != nil {
		c.Fatal("replay data is not a list of operation names: %v", err)
	}
	w := newWorld(c.Prop)
	defer w.close()
	for i, n := range hist {
		op := subMenu(full, []string{n})[0]
		if !w.enabled(op) {
			c.Fatal("replay: %s not enabled at step %d", n, i)
		}
		w.do(op)
		w.check()
		c.Eval(1)
		if w.sig != "" {
			c.Violation(w.sig, map[string]interface{}{"history": hist[:i+1], "what": w.detail}, hist[:i+1])
			return
		}
	}
}

func main() {
	_ = logger.SetLogLevel("*:NONE")
	// the search allocates short-lived tries at a high rate on a tiny live heap: with the
	// default GC target the collector would run hundreds of times per second
	if os.Getenv("GOGC") == "" {
		debug.SetGCPercent(400)
	}
	depthFlag := flag.Int("depth", 0, "override the full-alphabet search depth (development aid)")
	coreFlag := flag.Int("coredepth", -1, "override the core-alphabet search depth, 0 = skip (development aid)")
	mc.Main("C06", "model_checking", func(c *mc.Ctx) {
		if c.Prop != "C06" && c.Prop != "C07" {
			c.Fatal("harness adb serves C06 and C07, not %s", c.Prop)
		}
		c.Level = "model_checking"
		menu := buildMenu()
		core := subMenu(menu, coreMenus[c.Prop])
		depth, coreDepth := c.Pick(4, 6), c.Pick(6, 8)
		if c.Prop == "C07" {
			coreDepth = c.Pick(6, 7) // its core alphabet merges fewer states: depth 8 does not fit 15 min on a loaded machine
		}
		if *depthFlag > 0 {
			depth = *depthFlag
		}
		if *coreFlag >= 0 {
			coreDepth = *coreFlag
		}
		if c.Quick() {
			c.Deadline = time.Now().Add(85 * time.Second)
		} else {
			c.Deadline = time.Now().Add(14 * time.Minute)
		}
		c.Set("alphabet", opNames(menu))
		c.Set("core_alphabet", opNames(core))
		switch c.Prop {
		case "C06":
			c.Rule = "non-trivial = a RevertToSnapshot (to a recorded journal length or to 0) whose undone journal span contains >= 2 different journal-entry kinds (key = the kind sequence of the span)"
		case "C07":
			c.Rule = "non-trivial = a step (operation or revert) after which a code that was shared by 2 accounts is referenced by 1 (key = code + operation)"
		}
		c.Assumptions = []string{
			"accounts A,B,S; codes c1,c2; keys k1,k2; values x,yy; balances {1,2}; nonce <= 2; every operation is LoadAccount+mutate+SaveAccount (or RemoveAccount) with fresh byte slices",
			"snapshots are taken at operation boundaries only (the only ones the API produces); recorded lengths are dropped at Commit and when a revert goes below them; at most 2 live snapshots",
			"an operation returning an error is followed by RevertToSnapshot(length before the operation), as scProcessor/txProcessor do, and is then judged like any revert",
			"the oracle reads the whole state back through GetExistingAccount/GetCode/RetrieveValue after the last operation of every explored sequence; the data-trie cache AccountsDB.dataTries is put back after reading so that observing does not alter the explored histories (load(S) is the explicit read-only operation)",
			"state matching key = main root, lastRootHash, loaded data tries (address->root), obsolete data-trie roots, DB key set, reference + committed reference, live snapshots and the serialized journal entries above the lowest live snapshot; entries below it are never read by RevertToSnapshot; trie-internal caching/dirty flags and the eviction waiting list are assumed not to influence reads (no pruning calls in the alphabet)",
		}
		if len(c.ReplayData) > 0 {
			replay(c, menu)
			return
		}
		st := search(c, menu, depth)
		c.Bound = fmt.Sprintf("all operation sequences of length <= %d over the full %d-operation alphabet (depth reached %d, fixpoint=%v)", depth, len(menu), st.Depth, st.Fixpoint)
		if coreDepth > 0 {
			st2 := search(c, core, coreDepth)
			c.Bound += fmt.Sprintf(" + all sequences of length <= %d over the %d-operation core alphabet (depth reached %d, fixpoint=%v)", coreDepth, len(core), st2.Depth, st2.Fixpoint)
		}
	})
}
